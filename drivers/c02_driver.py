"""C02 driver: whole EEMS models.  usage: c02_driver.py <out.json> <n_models>

Random well-typed EEMS models (typed DAGs over the built-in CSV library: reads of integer/float columns with
missing cells, all data commands, fuzziness discipline respected) are rendered as command files in a random
file order (forward references), with Metadata attached at random argument positions, loaded by
Program.from_source and run.  Every command's result is compared with
  * an independent reference interpreter in exact Fractions (property oracle),
  * the same model in another file order and without metadata (bit-identical results expected),
  * the Coq model (Model/EemsProg.v: scheduler model instantiated with the cell semantics).
"""
import json
import os
import random
import sys
import tempfile
from fractions import Fraction as Fr

import numpy

import cells_common as cc
from cells_common import canon, ref_eval, RefErr, same_obs
from coqfmt import clist, cbool, cnat
import mpilot
from mpilot.program import Program
from mpilot.exceptions import MPilotError

MISSING = -9999
EXACT_OPS = {"Sum", "AMinusB", "Multiply", "Minimum", "Maximum", "Copy", "WeightedSum"}


class Node(object):
    def __init__(self, name, cname, refs, params, fuzzy, exact, read=None):
        self.name, self.cname, self.refs, self.params, self.fuzzy, self.exact, self.read = name, cname, refs, params, fuzzy, exact, read


def gen_table(rnd, nrows, ncols):
    cols = []
    for j in range(ncols):
        integer = rnd.random() < 0.4
        vals = []
        for _ in range(nrows):
            if rnd.random() < 0.18:
                vals.append(MISSING)
            elif integer:
                vals.append(rnd.randint(-6, 9))
            elif rnd.random() < 0.06:
                vals.append(rnd.choice([-9998.9375, -9999.0625]))      # a real value a hair away from the missing-value marker (exactly representable)
            else:
                vals.append(rnd.randint(-24, 36) / 4.0)
        if len(set(v for v in vals if v != MISSING)) < 2:
            vals[0], vals[1] = 1, 3
        cols.append({"name": "c%d" % j, "integer": integer, "vals": vals})
    return cols


def gen_model(rnd, cols):
    nodes = []
    raw, fz = [], []
    cnt = [0]

    def fresh(p):
        cnt[0] += 1
        return "%s%d" % (p, cnt[0])

    for col in cols:
        p = {"InFileName": "data.csv", "InFieldName": col["name"]}
        dt = "Integer" if col["integer"] and rnd.random() < 0.7 else "Float"
        if rnd.random() < 0.85:
            p["MissingVal"] = MISSING
        p["DataType"] = dt
        nd = Node(fresh("r"), "EEMSRead", [], p, False, True, read=(col, dt, "MissingVal" in p))
        nodes.append(nd)
        raw.append(nd)
    # a first layer of fuzzy conversions so that fuzzy operators have inputs
    for nd in list(raw)[:rnd.randint(1, len(raw))]:
        t, f = rnd.choice([(9, -6), (-6, 9), (4, 0), (0, 4)])
        x = Node(fresh("f"), "CvtToFuzzy", [nd], {"TrueThreshold": t, "FalseThreshold": f}, True, False)
        nodes.append(x)
        fz.append(x)
    ops = ["FuzzyNot", "FuzzyOr", "FuzzyAnd", "FuzzyUnion", "FuzzyXOr", "FuzzySelectedUnion", "FuzzyWeightedUnion",
           "Sum", "Multiply", "Minimum", "Maximum", "Mean", "AMinusB", "ADividedByB", "WeightedSum", "WeightedMean",
           "Copy", "CvtToFuzzy", "CvtFromFuzzy", "CvtToBinary", "CvtToFuzzyCurve", "CvtToFuzzyCat", "CvtToFuzzyMeanToMid",
           "Normalize", "NormalizeCurve", "NormalizeCat", "NormalizeMeanToMid", "NormalizeZScore", "CvtToFuzzyZScore"]
    for _ in range(rnd.randint(2, 9)):
        op = rnd.choice(ops)
        exact_raw = [x for x in raw if x.exact]

        def pick(pool, lo, hi=4):
            k = rnd.randint(lo, max(lo, min(len(pool), hi)))
            return [rnd.choice(pool) for _ in range(k)] if rnd.random() < 0.3 else rnd.sample(pool, min(k, len(pool)))
        if op == "FuzzyNot":
            nd = Node(fresh("n"), op, [rnd.choice(fz)], {}, True, False)
        elif op in ("FuzzyOr", "FuzzyAnd", "FuzzyUnion"):
            nd = Node(fresh("o"), op, pick(fz, 1), {}, True, False)
        elif op == "FuzzyXOr":
            if len(fz) < 2:
                continue
            nd = Node(fresh("x"), op, pick(fz, 2), {}, True, False)
        elif op == "FuzzySelectedUnion":
            sel = pick(fz, 1)
            nd = Node(fresh("u"), op, sel, {"TruestOrFalsest": rnd.choice(["Truest", "Falsest"]),
                                           "NumberToConsider": rnd.randint(1, len(sel))}, True, False)
        elif op in ("FuzzyWeightedUnion", "WeightedSum", "WeightedMean"):
            pool = fz if op == "FuzzyWeightedUnion" else raw
            sel = pick(pool, 1, 3)
            nd = Node(fresh("w"), op, sel, {"Weights": [rnd.choice([1, 2, 0.5, 3, 1.5]) for _ in sel]},
                      op == "FuzzyWeightedUnion", op == "WeightedSum" and all(x.exact for x in sel))
        elif op in ("Sum", "Multiply", "Minimum", "Maximum", "Mean"):
            sel = pick(raw, 1, 3 if op == "Multiply" else 4)
            nd = Node(fresh("s"), op, sel, {}, False, op != "Mean" and all(x.exact for x in sel))
        elif op in ("AMinusB", "ADividedByB"):
            sel = [rnd.choice(raw), rnd.choice(raw)]
            nd = Node(fresh("d"), op, sel, {}, False, op == "AMinusB" and all(x.exact for x in sel))
        elif op == "Copy":
            src = rnd.choice(raw + fz)
            nd = Node(fresh("k"), op, [src], {}, False, src.exact)   # Copy's output is never fuzzy (is_fuzzy unset)
        elif op == "CvtToFuzzy":
            p = {}
            if rnd.random() < 0.6:
                p["TrueThreshold"] = rnd.choice([9, 4, 0, -3])
                p["FalseThreshold"] = rnd.choice([-6, 1, 12])
            if rnd.random() < 0.5:
                p["Direction"] = rnd.choice(["LowToHigh", "HighToLow"])
            if rnd.random() < 0.35:
                # only one of the two thresholds given: the other one is derived from the data, according to Direction
                p.pop(rnd.choice(["TrueThreshold", "FalseThreshold"]), None)
                if "TrueThreshold" not in p and "FalseThreshold" not in p:
                    p[rnd.choice(["TrueThreshold", "FalseThreshold"])] = rnd.choice([13, -7, 20])
                p["Direction"] = rnd.choice(["LowToHigh", "HighToLow", "HighToLow"])
            # defaults come from data min/max: discontinuous in nothing, fine on inexact inputs
            nd = Node(fresh("f"), op, [rnd.choice(raw)], p, True, False)
        elif op == "CvtFromFuzzy":
            nd = Node(fresh("g"), op, [rnd.choice(fz)], {"TrueThreshold": rnd.choice([10, 100]), "FalseThreshold": rnd.choice([0, -5])}, False, False)
            raw.append(nd)
            nodes.append(nd)
            continue
        elif op == "CvtToBinary":
            nd = Node(fresh("b"), op, [rnd.choice(exact_raw)], {"Threshold": rnd.choice([0, 2, 2.5]), "Direction": rnd.choice(["LowToHigh", "HighToLow"])}, True, False)
        elif op in ("CvtToFuzzyCurve", "NormalizeCurve"):
            key = "FuzzyValues" if op.startswith("Cvt") else "NormalValues"
            nd = Node(fresh("v"), op, [rnd.choice(raw)], {"RawValues": [6, -5, 0], key: [1, -1, 0.25]}, op.startswith("Cvt"), False)
        elif op in ("CvtToFuzzyCat", "NormalizeCat"):
            key, dk = ("FuzzyValues", "DefaultFuzzyValue") if op.startswith("Cvt") else ("NormalValues", "DefaultNormalValue")
            nd = Node(fresh("t"), op, [rnd.choice(exact_raw)], {"RawValues": [1, 2, 3, 0.5], key: [-1, 0, 1, 0.5], dk: 0.25}, op.startswith("Cvt"), False)
        elif op in ("CvtToFuzzyMeanToMid", "NormalizeMeanToMid"):
            key = "FuzzyValues" if op.startswith("Cvt") else "NormalValues"
            nd = Node(fresh("m"), op, [rnd.choice(exact_raw)], {"IgnoreZeros": rnd.random() < 0.4, key: [-1, -0.5, 0, 0.5, 1]}, op.startswith("Cvt"), False)
        elif op == "Normalize":
            p = {}
            if rnd.random() < 0.5:
                p["StartVal"], p["EndVal"] = rnd.choice([(0, 10), (-1, 1), (5, 1)])
            nd = Node(fresh("z"), op, [rnd.choice(raw)], p, False, False)
        elif op in ("NormalizeZScore", "CvtToFuzzyZScore"):
            p = {}
            if rnd.random() < 0.6:
                p["TrueThresholdZScore"], p["FalseThresholdZScore"] = rnd.choice([(1, -1), (-1, 1), (2, 0), (0, 1.5)])
            nd = Node(fresh("q"), op, [rnd.choice(exact_raw)], p, op.startswith("Cvt"), False)
        else:
            continue
        nodes.append(nd)
        (fz if nd.fuzzy else raw).append(nd)
    return nodes


def render_value(v):
    if isinstance(v, bool):
        return "True" if v else "False"
    if isinstance(v, list):
        return "[" + ", ".join(render_value(x) for x in v) + "]"
    return str(v)


def render(nodes, order, rnd, metadata):
    out = []
    for i in order:
        nd = nodes[i]
        args = []
        if nd.cname in cc.NARY:
            args.append(("InFieldNames", "[" + ", ".join(x.name for x in nd.refs) + "]"))
        elif nd.cname in cc.BINARY:
            args += [("A", nd.refs[0].name), ("B", nd.refs[1].name)]
        elif nd.refs:
            args.append(("InFieldName", nd.refs[0].name))
        for k, v in nd.params.items():
            args.append((k, render_value(v)))
        if metadata and metadata.get(nd.name) is not None:
            pos, txt = metadata[nd.name]
            args.insert(min(pos, len(args)), ("Metadata", txt))
        sep = ",\n    " if rnd.random() < 0.4 else ", "
        out.append("%s = %s(%s)" % (nd.name, nd.cname, sep.join("%s = %s" % kv for kv in args)))
        if rnd.random() < 0.15:
            out.append("# comment")
    return "\n".join(out)


def canon_res(r):
    if isinstance(r, numpy.ndarray):
        m = numpy.ma.getmaskarray(r).reshape(-1).tolist()
        d = numpy.ma.getdata(r).reshape(-1).tolist()
        return [list(r.shape), str(r.dtype), [None if mm else float(x).hex() for x, mm in zip(d, m)]]
    return repr(r)


def run_model(src, wd):
    try:
        p = Program.from_source(src, working_dir=wd)
        p.run()
    except MPilotError as ex:
        return None, "%s: %s" % (type(ex).__name__, str(ex).strip().splitlines()[0][:160] if str(ex).strip() else "")
    except BaseException as ex:
        return None, "ESCAPED %s: %s" % (type(ex).__name__, str(ex)[:120])
    return p, None


def source_array(col, dt, has_missing):
    vals = col["vals"]
    cells = []
    for v in vals:
        if has_missing and v == MISSING:
            cells.append(None)
        else:
            cells.append(Fr(int(v)) if dt == "Integer" else Fr(v))
    return {"dt": "DInt" if dt == "Integer" else "DFloat", "shape": [len(vals)], "cells": cells}


def reference(nodes, sigmas):
    """independent evaluation of the graph on the table, exact arithmetic; {name: canon dict | ('err', cls)}"""
    val = {}
    for nd in nodes:   # nodes are in a topological order by construction
        if nd.read:
            val[nd.name] = source_array(*nd.read)
            continue
        ins = [val[x.name] for x in nd.refs]
        if any(isinstance(v, tuple) for v in ins):
            val[nd.name] = ("err", "upstream")
            continue
        try:
            val[nd.name] = ref_eval(nd.cname, ins, dict(nd.params), sigmas.get(nd.name))
        except RefErr as e:
            val[nd.name] = ("err", e.cls)
        except (ZeroDivisionError, IndexError, ValueError, TypeError):
            val[nd.name] = ("err", "undefined-by-reference")
    return val


def main():
    out, n = sys.argv[1], int(sys.argv[2])
    seed = int(os.environ.get("VERIF_SEED", "0"))
    rnd = random.Random(seed * 104729 + 2)
    wd = tempfile.mkdtemp(prefix="c02-", dir=os.getcwd())
    cases, descr, fails = [], [], []
    dist = {"models": 0, "commands": 0, "per_command": {}, "with_metadata": 0, "forward_reference_models": 0, "int_columns": 0,
            "missing_cells": 0, "run_errors": {}}
    nontrivial, seen = 0, set()
    for mi in range(n):
        cols = gen_table(rnd, rnd.randint(3, 7), rnd.randint(2, 4))
        with open(os.path.join(wd, "data.csv"), "w") as fh:
            fh.write(",".join(c["name"] for c in cols) + "\n")
            for i in range(len(cols[0]["vals"])):
                fh.write(",".join(repr(c["vals"][i]) for c in cols) + "\n")
        nodes = gen_model(rnd, cols)
        idx = {nd.name: i for i, nd in enumerate(nodes)}
        order = list(range(len(nodes)))
        rnd.shuffle(order)
        metadata = {}
        for nd in nodes:
            if rnd.random() < 0.35:
                metadata[nd.name] = (rnd.randint(0, 4), rnd.choice(['[Description: "x"]', '[DisplayName: Layer, Color: red]', "[k: 1]"]))
        src = render(nodes, order, rnd, metadata)
        p, err = run_model(src, wd)
        dist["models"] += 1
        dist["commands"] += len(nodes)
        dist["with_metadata"] += int(bool(metadata))
        pos = {i: k for k, i in enumerate(order)}
        fwd = any(pos[idx[x.name]] > pos[i] for i, nd in enumerate(nodes) for x in nd.refs)
        dist["forward_reference_models"] += int(fwd)
        dist["int_columns"] += sum(1 for c in cols if c["integer"])
        dist["missing_cells"] += sum(1 for c in cols for v in c["vals"] if v == MISSING)
        for nd in nodes:
            dist["per_command"][nd.cname] = dist["per_command"].get(nd.cname, 0) + 1
        replay = {"source": src, "csv": open(os.path.join(wd, "data.csv")).read()}
        if src not in seen:
            seen.add(src)
            if len(nodes) >= 2:
                nontrivial += 1
        if p is None:
            dist["run_errors"][err.split(":")[0]] = dist["run_errors"].get(err.split(":")[0], 0) + 1
            # a well-typed model must run unless the reference itself says the model is ill-defined somewhere
            ref = reference(nodes, {})
            if not any(isinstance(v, tuple) for v in ref.values()) or err.startswith("ESCAPED"):
                fails.append({"sig": "C02:model-failed:%s" % err.split(":")[0], "what": "well-typed model did not run: %s" % err, "replay": replay})
            continue
        obs = {name: c.result for name, c in p.commands.items()}
        sigmas = {}
        for nd in nodes:
            if cc.needs_sigma(nd.cname):
                sigmas[nd.name] = cc.sigma_oracle(obs[nd.refs[0].name])
        ref = reference(nodes, sigmas)
        bad = []
        for nd in nodes:
            r = ref[nd.name]
            if isinstance(r, tuple):
                continue
            c = canon(obs[nd.name])
            if c.get("kind") == "notarray" or not same_obs(c, r, Fr(1, 1 << 30)):
                bad.append(nd.name)
        if bad:
            first = min(bad, key=lambda nm: idx[nm])
            nd = nodes[idx[first]]
            c = canon(obs[first])
            fails.append({"sig": "C02:value:%s" % nd.cname,
                          "what": "result of %s = %s(...) differs from the evaluation of the graph: got %s, evaluation gives %s" % (
                              first, nd.cname, cc_summary(c), [None if v is None else float(v) for v in ref[first]["cells"]][:10] + [ref[first]["dt"]]),
                          "replay": replay})
        # another file order, no metadata: bit-identical results
        order2 = list(order)
        rnd.shuffle(order2)
        src2 = render(nodes, order2, random.Random(mi), None)
        p2, err2 = run_model(src2, wd)
        if p2 is None:
            fails.append({"sig": "C02:order-or-metadata:fails", "what": "the same model in another file order and without metadata did not run: %s" % err2,
                          "replay": dict(replay, other_source=src2)})
        else:
            diff = [nm for nm in obs if canon_res(obs[nm]) != canon_res(p2.commands[nm].result)]
            if diff:
                fails.append({"sig": "C02:order-or-metadata:differs", "what": "results of %r change with the file order / metadata" % diff[:4],
                              "replay": dict(replay, other_source=src2)})
        # Coq case
        try:
            tbl, ob, prog = [], [], []
            for i in order:
                nd = nodes[i]
                direct = nd.cname not in cc.NARY
                prog.append("{| nm := %s; rl := %s |}" % (cnat(i), clist(["(%s, %s)" % (cbool(direct), cnat(idx[x.name])) for x in nd.refs])))
            for i, nd in enumerate(nodes):
                if nd.read:
                    tbl.append("(%s, NSource %s)" % (cnat(i), cc.c_arr(source_array(*nd.read))))
                else:
                    tbl.append("(%s, NOp %s)" % (cnat(i), cc.c_cmd(nd.cname, nd.params, sigmas.get(nd.name))))
                co = cc.c_obs(("ok", obs[nd.name]))
                if co is None:
                    raise ValueError("unprintable")
                ob.append("(%s, %s)" % (cnat(i), co))
            cases.append("(%s, %s, %s)" % (clist(prog), clist(tbl, ";\n     "), clist(ob, ";\n     ")))
            descr.append(replay)
        except (ValueError, KeyError):
            dist["unprintable"] = dist.get("unprintable", 0) + 1
    files = []
    CH = 40
    for i in range(0, len(cases), CH):
        path = os.path.join(os.getcwd(), "Cases_C02_%03d.v" % (i // CH))
        with open(path, "w") as fh:
            fh.write("From Coq Require Import QArith List ZArith Bool.\nFrom MP Require Import Base.Check Model.Sched Model.Cells Model.EemsProg Corr.CheckEems.\n"
                     "Import ListNotations.\nOpen Scope Q_scope.\n"
                     "Definition cases : list (prog * list (name * nsem) * list (name * res arr)) := [\n  %s\n].\n"
                     "Eval vm_compute in (failing check_model cases).\n" % ";\n  ".join(cases[i:i + CH]))
        files.append({"path": path, "first": i, "count": len(cases[i:i + CH])})
    json.dump({"files": files, "descr": descr, "oracle_failures": fails, "distribution": dist, "evaluations": dist["models"] * 2,
               "distinct_nontrivial": nontrivial, "samples": descr[:1] + descr[-2:], "tree": mpilot.__file__}, open(out, "w"), default=str)


def cc_summary(c):
    if c.get("kind") == "notarray":
        return c["repr"]
    return "%s %s %s" % (c["kind"], c["dt"], [None if v is None else (v if isinstance(v, str) else float(v)) for v in c["cells"]][:10])


if __name__ == "__main__":
    main()
