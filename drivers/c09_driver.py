"""C09 driver.  usage: c09_driver.py <out.json> <n_histories>

A history keeps a growing pool of finished results.  Each step picks a random built-in data command (or a writer),
feeds it results from the pool (compatible fuzziness, same shape), executes it through Command.run and adds its result
to the pool.  Every pool member is snapshotted (shape, element type, missing cells, non-missing values) beforehand and
compared after each execution (property oracle).  For the correspondence the observed memory sharing between a
command's result and its inputs is compared with the alias set the Coq check derives from the regenerated effect IR."""
import json
import os
import random
import sys
import tempfile

import numpy

import cells_common as cc
import cells_driver as cd
from coqfmt import cstr, clist, cnat
import mpilot
from mpilot.arguments import Argument
from mpilot.exceptions import MPilotError


def snap(a):
    m = numpy.ma.getmaskarray(a).copy()
    d = numpy.ma.getdata(a)
    return (a.shape, str(a.dtype), m.tobytes(), numpy.where(m, 0, d).tobytes(), isinstance(a, numpy.ma.MaskedArray))


def same(s, a):
    return snap(a) == s


def describe_arr(a):
    return {"dtype": str(a.dtype), "shape": list(a.shape), "data": numpy.ma.getdata(a).reshape(-1).tolist(),
            "mask": numpy.ma.getmaskarray(a).reshape(-1).tolist()}


def main():
    out, n = sys.argv[1], int(sys.argv[2])
    seed = int(os.environ.get("VERIF_SEED", "0"))
    rnd = random.Random(seed * 49157 + 9)
    wd = tempfile.mkdtemp(prefix="c09-", dir=os.getcwd())
    fails = []
    dist = {"histories": 0, "executions": 0, "per_command": {}, "errors": 0, "single_input_nary": 0, "unit_weight_first": 0,
            "aliasing_results": 0, "writer_runs": 0}
    shares = {}          # label -> set of input parameter names whose arrays shared memory with the result
    evaluations = nontrivial = 0
    samples = []
    from mpilot.libraries.eems.csv import io as csvio
    try:
        from mpilot.libraries.eems.netcdf import io as ncio
        import netCDF4
    except Exception:        # pragma: no cover
        ncio = None
    for h in range(n):
        shape = rnd.choice([(4,), (5,), (6,), (2, 3), (3, 2)])
        raw = [cd.gen_array(rnd, shape, rnd.choice(["DInt", "DFloat", "DFloat"]), False, rnd.choice([0.0, 0.2, 0.4])) for _ in range(3)]
        fz = [cd.gen_array(rnd, shape, "DFloat", True, rnd.choice([0.0, 0.2, 0.4])) for _ in range(3)]
        # the same cells with one more axis of length 1 (a NetCDF variable with a single time step): consumers reject the mix of
        # shapes, and must leave these results as they are while doing so
        raw.append(numpy.ma.array(numpy.ma.getdata(raw[0]).reshape((1,) + tuple(shape)).copy(), mask=numpy.ma.getmaskarray(raw[0]).reshape((1,) + tuple(shape)).copy()))
        fz.append(numpy.ma.array(numpy.ma.getdata(fz[0]).reshape(tuple(shape) + (1,)).copy(), mask=numpy.ma.getmaskarray(fz[0]).reshape(tuple(shape) + (1,)).copy()))
        # results that hold NaN in a cell that is not missing (a user library's command, a division 0/0 done outside numpy.ma):
        # not a fuzzy value and not a number, but the cell is the producer's and stays as it is
        for src, lst in ((fz[1], fz), (raw[1], raw)):
            d = numpy.ma.getdata(src).astype(float).copy()
            m = numpy.ma.getmaskarray(src).copy()
            free = [i for i, mm in enumerate(m.reshape(-1)) if not mm]
            if free:
                d.reshape(-1)[rnd.choice(free)] = float("nan")
                lst.append(numpy.ma.array(d, mask=m) if m.any() or rnd.random() < 0.6 else numpy.ma.array(d))    # (never unmask a hidden payload)
                dist["nan_results_in_pool"] = dist.get("nan_results_in_pool", 0) + 1
        # results that carry NO mask array (numpy.ma.nomask: what CvtToBinary or a user command returns when nothing is missing),
        # with their cells in no particular order
        raw.append(numpy.ma.array(numpy.array([rnd.randint(-6, 9) + rnd.choice([0, 0.5]) for _ in range(int(numpy.prod(shape)))], dtype=float).reshape(shape)))
        fz.append(numpy.ma.array(numpy.array([rnd.randint(-8, 8) / 8.0 for _ in range(int(numpy.prod(shape)))]).reshape(shape)))
        pool = [(a, False) for a in raw] + [(a, True) for a in fz]
        snaps = [snap(a) for a, _ in pool]
        trace = []
        dist["histories"] += 1
        template = None
        if ncio is not None and len(shape) == 2:
            template = os.path.join(wd, "tmpl%d.nc" % h)
            with netCDF4.Dataset(template, "w") as ds:
                ds.createDimension("y", shape[0])
                ds.createDimension("x", shape[1])
                vy = ds.createVariable("y", "f8", ("y",))
                vx = ds.createVariable("x", "f8", ("x",))
                vy[:] = numpy.arange(shape[0])
                vx[:] = numpy.arange(shape[1])
                v = ds.createVariable("elev", "f8", ("y", "x"))
                v[:] = numpy.zeros(shape)
        for step in range(rnd.randint(40, 60)):
            r = rnd.random()
            if r < 0.08:
                cname = "csv:EEMSWrite" if len(shape) == 1 else ("netcdf:EEMSWrite" if template else None)
                if cname is None:
                    continue
            else:
                cname = rnd.choice(cd.ALL)
            label, ins, names = None, [], []
            try:
                if cname.endswith("EEMSWrite"):
                    k = rnd.randint(1, 3)
                    idxs = [rnd.randrange(len(pool)) for _ in range(k)]
                    prods = [cc.producer("p%d" % i, pool[i][0], pool[i][1]) for i in idxs]
                    if cname.startswith("csv"):
                        cls = csvio.EEMSWrite
                        args = [Argument("OutFileName", os.path.join(wd, "o.csv"), 1), Argument("OutFieldNames", prods, 1)]
                    else:
                        cls = ncio.EEMSWrite
                        args = [Argument("OutFileName", os.path.join(wd, "o%d.nc" % step), 1), Argument("OutFieldNames", prods, 1),
                                Argument("DimensionFileName", template, 1), Argument("DimensionFieldName", "elev", 1)]
                    cmd = cls("w", args, program=None, lineno=1)
                    label, ins, names = cname, [pool[i][0] for i in idxs], ["OutFieldNames"] * k
                    dist["writer_runs"] += 1
                    result = None
                    cmd.run()
                else:
                    fuzzy_in = cname in cc.FUZZY_IN
                    cands = [i for i, (a, f) in enumerate(pool) if f == fuzzy_in]
                    g = cd.gen_case(rnd, cname, "C09", shape)
                    if g is None:
                        continue
                    arrays, p = g
                    k = len(arrays)
                    if cname in cc.NARY:
                        k = rnd.choice([1, 1, 2, 3]) if cname != "FuzzyXOr" else rnd.choice([2, 3])
                        if "Weights" in p:
                            p["Weights"] = [rnd.choice([1, 1, 2, 0.5, 1.0]) for _ in range(k)]
                            dist["unit_weight_first"] += int(p["Weights"][0] == 1)
                        if "NumberToConsider" in p:
                            p["NumberToConsider"] = rnd.randint(1, k)
                        dist["single_input_nary"] += int(k == 1)
                    idxs = [rnd.choice(cands) for _ in range(k)]
                    nomaskc = [i for i in cands if numpy.ma.getmask(pool[i][0]) is numpy.ma.nomask]
                    if nomaskc and rnd.random() < 0.35:
                        idxs[0] = rnd.choice(nomaskc)
                        if "IgnoreZeros" in p and rnd.random() < 0.7:
                            p["IgnoreZeros"] = False
                    nanc = [i for i in cands if i < len(pool) and pool[i][0].dtype.kind == "f" and numpy.isnan(numpy.ma.getdata(pool[i][0])).any()]
                    if nanc and rnd.random() < 0.3:
                        idxs[0] = rnd.choice(nanc)
                    ins = [pool[i][0] for i in idxs]
                    mod = "fuzzy" if cc.CLASSES[cname].__module__.endswith("fuzzy") else "basic"
                    label = "%s:%s" % (mod, cname)
                    names = ["InFieldNames"] * k if cname in cc.NARY else (["A", "B"] if cname in cc.BINARY else ["InFieldName"])
                    o = cc.run_impl(cname, ins, p)
                    result = o[1] if o[0] == "ok" else None
                    if o[0] != "ok":
                        dist["errors"] += 1
            except MPilotError:
                dist["errors"] += 1
                result = None
            dist["executions"] += 1
            evaluations += 1
            dist["per_command"][label] = dist["per_command"].get(label, 0) + 1
            trace.append({"command": label, "inputs": [int(i) for i in idxs]})
            # ---- oracle: every earlier result is observably what it was ----
            changed = [i for i, (a, _) in enumerate(pool) if not same(snaps[i], a)]
            if any(numpy.ma.getmaskarray(a).size and not numpy.ma.getmaskarray(a).all() for a, _ in pool):
                nontrivial += 1
            if changed:
                i = changed[0]
                fails.append({"sig": "C09:mutated:%s" % label,
                              "what": "executing %s changed an already finished result (pool member %d: now %s)" % (
                                  label, i, cc.canon(pool[i][0])["cells"][:8]),
                              "replay": {"history": trace, "initial_pool": [describe_arr(a) for a, _ in pool[:6]], "shape": list(shape)}})
                snaps = [snap(a) for a, _ in pool]     # report each corruption once
            # ---- alias observation ----
            if result is not None and isinstance(result, numpy.ndarray):
                for a, nm in zip(ins, names):
                    if result is a or numpy.shares_memory(numpy.ma.getdata(result), numpy.ma.getdata(a)) or (
                            numpy.ma.getmask(result) is not numpy.ma.nomask and numpy.ma.getmask(a) is not numpy.ma.nomask
                            and numpy.shares_memory(numpy.ma.getmaskarray(result), numpy.ma.getmaskarray(a))):
                        shares.setdefault(label, set()).add(nm)
                        dist["aliasing_results"] += 1
                if result.shape == tuple(shape) and len(pool) < 40:
                    pool.append((result, cname in cc.FUZZY_OUT))
                    snaps.append(snap(result))
        if h < 2:
            samples.append({"history": trace[:12], "shape": list(shape)})
    # ---- Coq case file: observed sharing must be predicted by the check's alias sets ----
    rows = ["(%s, %s)" % (cstr(l), clist([cstr(x) for x in sorted(v)])) for l, v in sorted(shares.items())]
    labels = sorted(dist["per_command"])
    rows_all = ["(%s, %s)" % (cstr(l), clist([cstr(x) for x in sorted(shares.get(l, []))])) for l in labels]
    path = os.path.join(os.getcwd(), "Cases_C09_000.v")
    with open(path, "w") as fh:
        fh.write("From Coq Require Import String List Bool.\nFrom MP Require Import Base.Check Model.Effects Gen.GenEffects Corr.CheckEffects.\n"
                 "Import ListNotations.\nOpen Scope string_scope.\n"
                 "Definition cases : list (string * list string) := [\n  %s\n].\n"
                 "Eval vm_compute in (failing check_alias cases).\n" % ";\n  ".join(rows_all))
    json.dump({"files": [{"path": path, "first": 0, "count": len(rows_all)}], "descr": [{"command": l, "observed_sharing_with": sorted(shares.get(l, []))} for l in labels],
               "oracle_failures": fails, "distribution": dist, "evaluations": evaluations, "distinct_nontrivial": nontrivial,
               "samples": samples or ["(none)"], "tree": mpilot.__file__}, open(out, "w"), default=str)


main()
