"""Parser driver for C10 and C11.   usage: parse_driver.py <out.json> <C10|C11> <n>

Abstract programs (commands with result and command names, arguments of every value kind: integers, decimals, quoted strings
with quotes/backslashes/escapes/non-ASCII text, unquoted identifiers and path-like strings, lists at any nesting, tuples)
are rendered with random layout: blanks and tabs at token boundaries, line breaks (LF or CRLF) and blank lines between
tokens, comment lines and trailing comments, trailing commas, single/double quoting, arguments spread over several lines.
The renderer records, by construction, the expected parse result and the line on which every command, argument and list
element starts.  Streams: valid renderings; single-token corruptions of them; random token soups; unquoted multi-word
strings (compared with the model only).  C11 additionally re-uses one Parser for a history of parses and checks the
lines carried by load-time / validation errors and the line the command-line tool marks."""
import json
import unicodedata
import math
import os
import random
import subprocess
import sys
import tempfile
from fractions import Fraction as Fr

import mpilot
from mpilot.parser.parser import Parser
from coqfmt import clist, copt, cZ, cQ

assert os.path.abspath(mpilot.__file__).startswith(os.path.abspath(os.environ["VERIF_SNAP"])), mpilot.__file__

IDS = ["A", "B", "Slope", "res_1", "_x", "Elev2", "InFieldName", "x", "True", "False", "None"]
CMDS = ["EEMSRead", "Sum", "CvtToFuzzy", "Copy", "Cmd", "READ", "FuzzyOr"]
ARGS = ["InFieldName", "InFileName", "P", "Weights", "Metadata", "Q_1", "a"]
PLAINS = ["abc", "data.csv", "/tmp/in.nc", "../out/x.csv", "C:\\temp\\a.csv", "50%", "a-b", "x.y.z", "LowToHigh", "Float", "é", "naïve", "R2D2", "_", "€uro", "Don\u2019t", "\u201cbest\u201d", "a\u00a0b", "3e8f2a1c_habitat.csv", "7e2nd_run", "1e5", "2E-3x"]
STRS = ["", "text", "two words", "it's", 'say "hi"', "back\\slash", "tab\there", "line\nbreak", "é à ü", "\u2013 dash", "中文", "a,b=(c)[d]:#e", "  padded  ", "C:\\temp\\new.csv",
        "'quoted'", '"dq"', "ends with \\", "\\n literal", "x\ry", "\x07bell", "percent % and #hash",
        # characters an editor or a helpful pre-processing step may touch: typographic quotes and dashes, no-break and zero-width
        # spaces, a byte-order mark, full-width punctuation, a combining accent, an astral code point
        "Don\u2019t build here", "the \u201cbest\u201d sites", "\u2018q\u2019", "a\u00a0b", "\ufeffbom", "zero\u200bwidth", "\uff08x\uff09\uff0c\uff1a", "e\u0301", "\U0001F600 ok", "\u00ab guillemets \u00bb",
        "form\x0cfeed", "v\x0btab", "fs\x1cgs\x1drs\x1e", "nel\x85x", "ls\u2028ps\u2029end"]


class R(object):
    """renderer with line tracking"""

    def __init__(self, rnd, nl):
        self.rnd, self.nl = rnd, nl
        self.ended_cr = False
        self.out = []
        self.line = 1
        self.floats = {}
        self.tight = False      # the last token is an unquoted PLAIN_STRING: it would swallow blanks that follow it

    def nlx(self, after_comment=False):
        """one line break; in a text that mixes conventions each break has its own (CR CR LF is two breaks).  A comment runs to
        the next LINE FEED (a bare CR does not end it), so the break that ends a comment is LF or CR LF."""
        if self.nl == "mixed":
            return self.rnd.choice(["\n", "\r\n"] if after_comment else ["\n", "\r\n", "\r", "\r\r\n", "\n\r"])
        return self.nl

    def nls(self, k, after_comment=False):
        return "".join(self.nlx(after_comment and i == 0) for i in range(k))

    def emit(self, s, tight=False):
        self.out.append(s)
        self.tight = tight
        # line breaks: CRLF, CR, LF count once
        i = 0
        if self.ended_cr and s.startswith("\n"):
            i = 1                     # completes a CR LF begun by the previous piece
        if s:
            self.ended_cr = s.endswith("\r")
        while i < len(s):
            if s[i] == "\r":
                self.line += 1
                if i + 1 < len(s) and s[i + 1] == "\n":
                    i += 1
            elif s[i] == "\n":
                self.line += 1
            i += 1

    def gap(self, allow_nl=True, must=False):
        """layout between two tokens"""
        if self.tight:
            # a path-like unquoted value swallows blanks that follow it, but a line break ends it
            if allow_nl and self.rnd.random() < 0.3:
                self.emit("".join(self.nlx() for _ in range(self.rnd.choice([1, 1, 2]))))
                self.emit(self.rnd.choice(["", "    ", "\t"]))
            return
        r = self.rnd.random()
        if allow_nl and r < 0.18:
            commented = self.rnd.random() < 0.3
            if commented:
                self.emit(self.rnd.choice(["  ", "\t", ""]) + "# " + self.rnd.choice(["note", "x = (1, [2])", "trailing \"q\"", ""]))
            self.emit(self.nls(self.rnd.choice([1, 1, 1, 2, 3]), commented))
            if self.rnd.random() < 0.3:
                self.emit("# a comment line" + self.nlx(True))
            self.emit(self.rnd.choice(["", "    ", "\t", "  "]))
        elif r < 0.6 or must:
            self.emit(self.rnd.choice([" ", " ", "  ", "\t", " \t "]))

    def text(self):
        return "".join(self.out)


def quote(rnd, s):
    q = rnd.choice(['"', '"', "'"])
    out = []
    for ch in s:
        if ch == "\\":
            out.append("\\\\")
        elif ch == q:
            out.append("\\" + q)
        elif ch == "\n":
            out.append(rnd.choice(["\\n", "\n"]))       # an escape or a raw line break inside the quotes
        elif ch == "\r":
            out.append("\\r")
        elif ch == "\t":
            out.append(rnd.choice(["\\t", "\t"]))
        elif ord(ch) < 32:
            out.append("\\x%02x" % ord(ch) if rnd.random() < 0.5 else ch)      # escaped, or raw between the quotes
        elif ord(ch) > 126 and rnd.random() < 0.12 and unicodedata.name(ch, ""):
            out.append("\\N{%s}" % unicodedata.name(ch))          # the named form of the character
        elif ord(ch) > 126 and rnd.random() < 0.3:
            out.append("\\u%04x" % ord(ch) if ord(ch) < 0x10000 else "\\U%08x" % ord(ch))
        else:
            out.append(ch)
    return q + "".join(out) + q


def gen_value(rnd, depth=0, in_tuple=False):
    r = rnd.random()
    if r < 0.18:
        return ("int", rnd.choice([0, 1, 7, -3, 42, 100000, 2 ** 40, -15]))
    if r < 0.32:
        return ("float", rnd.choice(["0.5", "1.", ".25", "-2.75", "3.0e2", "1.5E-3", "+0.125", "10.0", "6.02e23", "0.1", "-0.0"]))
    if r < 0.52:
        return ("str", rnd.choice(STRS))
    if r < 0.72 or in_tuple:
        x = rnd.choice(PLAINS + IDS)
        if depth > 0 and not in_tuple and ":" in x:
            return ("str", x)        # inside a list `a:b` is a tuple pair: a text with a colon has to be quoted there
        return ("plain", x)
    if r < 0.92 and depth < 3:
        return ("list", [gen_value(rnd, depth + 1) for _ in range(rnd.randint(0, 4))])
    if depth < 2:
        return ("tuple", [(rnd.choice([("plain", rnd.choice(["k", "Description", "DisplayName", "a_b"])), ("str", rnd.choice(["key one", "k:2", "é"]))]),
                           gen_value(rnd, 9, in_tuple=True)) for _ in range(rnd.randint(1, 3))])
    return ("plain", rnd.choice(IDS))


def render_value(R_, v, exp_line_holder):
    """emits the value; returns the expected parsed value (python structure with lines)"""
    rnd = R_.rnd
    kind, x = v
    line = R_.line
    if kind == "int":
        txt = rnd.choice([str(x), str(x), ("+%d" % x) if x >= 0 and rnd.random() < 0.2 else str(x)])
        R_.emit(txt)
        return {"k": "int", "v": x, "line": line}
    if kind == "float":
        R_.emit(x)
        R_.floats[x] = str(float(x))
        return {"k": "float", "v": float(x), "line": line}
    if kind == "str":
        R_.emit(quote(rnd, x))
        return {"k": "str", "v": x, "line": line}
    if kind == "plain":
        R_.emit(x, tight=not id_like(x))
        return {"k": "str", "v": x, "line": line, "plain": True}
    if kind == "list":
        R_.emit("[")
        items = []
        for i, it in enumerate(x):
            R_.gap()
            items.append(render_value(R_, it, None))
            R_.gap()
            if i + 1 < len(x) or (x and rnd.random() < 0.3):
                R_.emit(",")
        R_.gap()
        R_.emit("]")
        return {"k": "list", "v": items, "line": line}
    if kind == "tuple":
        R_.emit("[")
        pairs = []
        for i, ((kk, ks), val) in enumerate(x):
            R_.gap()
            kline = R_.line
            R_.emit(ks if kk == "plain" else quote(rnd, ks))
            R_.gap(allow_nl=False)
            R_.emit(":")
            R_.gap(allow_nl=False)
            ev = render_value(R_, val, None)
            ev["line"] = kline          # tuple values carry the line of their key
            pairs.append((ks, ev))
            if i + 1 < len(x) or rnd.random() < 0.3:
                R_.emit(",")
        R_.gap()
        R_.emit("]")
        # python dict built right-to-left: later pairs first, earlier pairs override duplicates in place
        d = []
        for ks, ev in reversed(pairs):
            for j, (k0, _) in enumerate(d):
                if k0 == ks:
                    d[j] = (ks, ev)
                    break
            else:
                d.append((ks, ev))
        return {"k": "dict", "v": d, "line": line}
    raise ValueError(kind)


def id_like(s):
    return bool(s) and all(ord(c) < 128 and (c.isalnum() or c == "_") for c in s) and not s[0].isdigit()


def plain_trailing_safe(v):
    """an unquoted PLAIN_STRING token swallows the blanks that follow it: the renderer puts none there"""
    return v[0] == "plain" and not all(c.isalnum() or c == "_" for c in v[1]) or (v[0] == "plain" and not v[1][0].isalpha() and v[1][0] != "_")


def render_program(rnd, prog, nl):
    R_ = R(rnd, nl)
    if rnd.random() < 0.3:
        R_.emit("# header comment" + R_.nls(1 + rnd.randint(0, 2), True))
    exp = []
    for (res, cmd, args) in prog:
        R_.emit(rnd.choice(["", "", "  "]))
        start = R_.line
        if res is not None:
            R_.emit(res)
            R_.gap(allow_nl=False)
            R_.emit("=")
            R_.gap(allow_nl=rnd.random() < 0.15)
        cline = R_.line
        R_.emit(cmd)
        R_.gap(allow_nl=False)
        R_.emit("(")
        eargs = []
        for i, (an, av) in enumerate(args):
            R_.gap()
            aline = R_.line
            R_.emit(an)
            R_.gap()
            R_.emit("=")
            R_.gap()
            ev = render_value(R_, av, None)
            R_.gap()
            eargs.append({"name": an, "value": ev, "line": aline})
            if i + 1 < len(args) or (args and rnd.random() < 0.25):
                R_.emit(",")
        R_.gap()
        R_.emit(")")
        done = rnd.random() < 0.3
        if done:
            R_.emit("  # done")
        exp.append({"result": res, "cmd": cmd, "args": eargs, "line": start, "cmd_line": cline})
        R_.emit(R_.nls(rnd.randint(1, 3), done))
    return R_.text(), exp, R_.floats


def gen_program(rnd):
    prog = []
    used = set()
    v2 = rnd.random() < 0.1
    for _ in range(rnd.randint(1, 5)):
        res = rnd.choice(IDS[:7])
        args = []
        names = rnd.sample(ARGS, rnd.randint(0, 4))
        for an in names:
            args.append((an, gen_value(rnd)))
        prog.append((None if v2 and rnd.random() < 0.7 else res, rnd.choice(CMDS), args))
    return prog


from parse_lib import node_value, observe, same_value, ctext, c_oval, c_observed, float_oracle  # noqa: E402
from surface_lib import surface_case  # noqa: E402


def main():
    out, prop, n = sys.argv[1], sys.argv[2], int(sys.argv[3])
    seed = int(os.environ.get("VERIF_SEED", "0"))
    rnd = random.Random(seed * 6700417 + int(prop[1:]))
    cases, descr, fails = [], [], []
    surf_cases, surf_descr = [], []
    cli_cases, cli_descr = [], []
    dist = {"accepted_renderings": 0, "valid": 0, "corrupted": 0, "soup": 0, "multiword": 0, "accepted": 0, "rejected": 0, "crlf": 0, "lines_max": 0, "history_parses": 0,
            "value_kinds": {}, "unprintable": 0, "error_line_checks": 0, "cli_runs": 0}
    seen, nontrivial, evaluations = set(), 0, 0
    first = Parser()       # the first Parser object of the process: every later result is compared with what this one delivers
    shared = Parser()      # one parser object re-used for the whole history (C11: independence of what was parsed before)
    jobs = []
    valid_texts = []
    for i in range(n):
        prog = gen_program(rnd)
        nl = rnd.choice(["\n", "\n", "\r\n", "mixed"])
        src, exp, floats = render_program(rnd, prog, nl)
        jobs.append(("valid", src, exp))
        valid_texts.append(src)
        dist["crlf"] += int(nl == "\r\n")
    for i in range(n // 2):
        src = rnd.choice(valid_texts)
        k = rnd.randrange(max(1, len(src)))
        r = rnd.random()
        toks = "()[]=,:\"'#"
        if r < 0.35:
            bad = src[:k] + src[k + 1:]
        elif r < 0.45:
            # a whole stray token -- a numeral, a word, a quoted string -- so that the parser's error callback sees every kind of token
            bad = src[:k] + rnd.choice([" 7 ", " 2.5 ", " -3 ", " x ", ' "s" ', " .5e3 ", " 007 "]) + src[k:]
        elif r < 0.65:
            bad = src[:k] + rnd.choice(toks) + src[k:]
        elif r < 0.85:
            bad = src[:k] + rnd.choice(toks) + src[k + 1:]
        else:
            j = rnd.randrange(max(1, len(src)))
            lo, hi = min(k, j), max(k, j)
            bad = src[:lo] + src[hi:]
        jobs.append(("corrupted", bad, None))
    ALPH = list("abXY_019..++--eE  \t\n#:,=()[]\"'\\/%") + ["é", "1.5", "e5", "ab", "\r\n", " = ", "(", ")", "A = B(", "P = "]
    for i in range(n // 3):
        jobs.append(("soup", "".join(rnd.choice(ALPH) for _ in range(rnd.randint(0, 24))), None))
    for i in range(n // 6):
        words = [rnd.choice(["This", "is", "a", "string.", "007x", "1.5.2x", "abc def", "1e5", "/a/b.csv ", "x  y", "12 monkeys", "a:b", "k: v w", "3.0 m", "-5x", "+.5y"]) for _ in range(rnd.randint(1, 3))]
        jobs.append(("multiword", "A = Cmd(P = %s, Q = [%s])" % (" ".join(words), ", ".join(words)), None))
    # lists that mix plain elements and key: value pairs are malformed, wherever they occur (the grammar accepts them; an action rejects them)
    for i in range(n // 8):
        plain = lambda: rnd.choice(["a", "1", "'x'", "2.5", "[b, c]", "res_x"])
        pair = lambda: "%s: %s" % (rnd.choice(["k", "m", '"a b"', "j"]), rnd.choice(["v", "1", '"w"', "0.5"]))
        items = [plain() for _ in range(rnd.randint(1, 2))] + [pair() for _ in range(rnd.randint(1, 2))]
        if rnd.random() < 0.3:
            items.append(plain())
        bad = "B = Cmd(P = 1, Q = [%s]%s)" % (", ".join(items), rnd.choice(["", ", R = x"]))
        before = ["A%d = Cmd(X = %d)" % (j, j) for j in range(rnd.randint(0, 2))]
        after = ["Z%d = Cmd(Y = [k: v])" % j for j in range(rnd.randint(0, 2))]
        jobs.append(("corrupted", rnd.choice(["\n", "\n\n", "\r\n"]).join(before + [bad] + after) + "\n", None))
        dist["mixed_lists"] = dist.get("mixed_lists", 0) + 1
    rnd.shuffle(jobs)
    def state_of(psr):
        """what the Parser object holds between two calls of parse()"""
        return (int(getattr(psr.lexer, "lineno", 1)), bool(getattr(psr, "eems_v2", False)), bool(getattr(psr, "errors", [])))

    obj_cases, obj_descr = [], []
    for kind, src, exp in jobs:
        use_shared = rnd.random() < 0.5
        psr = shared if use_shared else Parser()
        pre = state_of(psr)
        o = observe(psr, src)
        post = state_of(psr)
        if pre != (1, False, False):
            dist["parses_from_a_used_object_state"] = dist.get("parses_from_a_used_object_state", 0) + 1
        # what is delivered depends on the text alone: not on which Parser object parses it, nor on what that object parsed before
        o_first = observe(first, src)
        if o_first != o:
            fails.append({"sig": "%s:depends-on-parser-object" % ("C11" if prop == "C11" else "C10"),
                          "what": "the same text gives %s with one Parser object and %s with the first Parser object created in the process" % (
                              json.dumps(o, default=str)[:200], json.dumps(o_first, default=str)[:200]),
                          "replay": {"kind": kind, "source": src, "parser_reused": use_shared}})
        dist["history_parses"] += int(use_shared)
        evaluations += 1
        dist[kind] += 1
        dist["accepted" if o[0] == "ok" else "rejected"] += 1
        dist["lines_max"] = max(dist["lines_max"], src.count("\n") + 1)
        replay = {"kind": kind, "source": src, "parser_reused": use_shared}
        if src not in seen:
            seen.add(src)
            if (src.count("\n") >= 1 or "#" in src or ",)" in src.replace(" ", "")) and "=" in src:
                nontrivial += 1
        if o[0] == "escaped" and o[1] == "None" and prop == "C10":
            # neither a syntax error nor a parse tree: the text was not rejected and nothing of what was written is delivered
            fails.append({"sig": "C10:malformed-not-rejected", "what": "parse() raised no syntax error and returned None", "replay": replay})
            continue
        if o[0] == "escaped":
            fails.append({"sig": "C13:escape:%s" % o[1], "what": "the parser let %s escape: %s" % (o[1], o[2]), "replay": replay})
            continue
        if kind == "valid":
            if o[0] != "ok":
                fails.append({"sig": "C10:rejected-well-formed", "what": "a well-formed rendering was rejected with a syntax error", "replay": replay})
            else:
                got = o[1]
                ok_struct = len(got) == len(exp) and all(
                    g["result"] == e["result"] and g["cmd"] == e["cmd"] and len(g["args"]) == len(e["args"]) and
                    all(ga["name"] == ea["name"] and same_value(ea["value"], ga["value"], False) for ga, ea in zip(g["args"], e["args"]))
                    for g, e in zip(got, exp))
                if not ok_struct:
                    fails.append({"sig": "C10:wrong-result", "what": "parsing a well-formed rendering returned something other than what was written: expected %s, got %s" % (
                        json.dumps(exp, default=str)[:300], json.dumps(got, default=str)[:300]), "replay": replay})
                else:
                    for g, e in zip(got, exp):
                        if g["line"] != e["line"]:
                            fails.append({"sig": "C11:command-line", "what": "command %s = %s starts on line %d but carries line %d" % (e["result"], e["cmd"], e["line"], g["line"]), "replay": replay})
                            break
                        bad = [(ea["name"], ea["line"], ga["line"]) for ga, ea in zip(g["args"], e["args"]) if ga["line"] != ea["line"]]
                        if bad:
                            fails.append({"sig": "C11:argument-line", "what": "argument %s starts on line %d but carries line %d" % bad[0], "replay": replay})
                            break
                        badv = [ea["name"] for ga, ea in zip(g["args"], e["args"]) if not same_value(ea["value"], ga["value"], True)]
                        if badv:
                            fails.append({"sig": "C11:value-line", "what": "a value or list element of argument %s carries a line other than the one it starts on" % badv[0], "replay": replay})
                            break
        # is this rendering an instance of the layout theorem C10_layout_irrelevance?  (decomposition untrusted, decided in Coq)
        if prop == "C10" and o[0] == "ok":
            sc = surface_case(Parser, src)
            dist["accepted_renderings"] += 1
            if sc is not None:
                flo = float_oracle(src)
                surf_cases.append("(%s, %s)" % (sc, clist(["(%s, %s)" % (ctext(k), ctext(v)) for k, v in sorted(flo.items())])))
                surf_descr.append(src)
        # Coq case
        try:
            fl = float_oracle(src)
            cases.append("(%s, %s, %s)" % (ctext(src), clist(["(%s, %s)" % (ctext(k), ctext(v)) for k, v in sorted(fl.items())]), c_observed(o)))
            descr.append(replay)
            if prop == "C11" and o[0] in ("ok", "syntax"):
                st = lambda t: "(%d%%N, %s, %s)" % (t[0], "true" if t[1] else "false", "true" if t[2] else "false")
                obj_cases.append("(%s, %s, %s, %s, %s)" % (st(pre), ctext(src), clist(["(%s, %s)" % (ctext(k), ctext(v)) for k, v in sorted(fl.items())]), c_observed(o), st(post)))
                obj_descr.append(dict(replay, object_state_before={"lexer.lineno": pre[0], "eems_v2": pre[1], "errors_pending": pre[2]},
                                      object_state_after={"lexer.lineno": post[0], "eems_v2": post[1], "errors_pending": post[2]}))
        except ValueError:
            dist["unprintable"] += 1
    # ---------- C11: lines carried by load / validation errors and marked by the CLI ----------
    if prop == "C11":
        from mpilot.program import Program, EEMS_CSV_LIBRARIES
        from mpilot.exceptions import MPilotError
        wd = tempfile.mkdtemp(prefix="c11-", dir=os.getcwd())
        open(os.path.join(wd, "d.csv"), "w").write("a,b\n1,2\n3,4\n")
        for i in range(max(48, n // 5)):
            nl = rnd.choice(["\n", "\n", "\r\n"])
            lines = []
            # comments may hold characters that str.splitlines() treats as line boundaries but the lexer (and a file read line by line) does not
            pad = lambda: lines.extend(rnd.choice([[], [""], ["# comment"], ["", "# c", ""], ["# page\x0cbreak"], ["# a\x0bb \x1c \x1d \x1e c"], ["# nel\x85 and \u2028 sep"]]))
            pad()
            lines.append("A = EEMSRead(")
            lines.append("    InFileName = d.csv,")
            pad()
            lines.append("    InFieldName = a")
            lines.append(")")
            pad()
            fault = rnd.choice(["unknown-command", "bad-number", "missing-result", "undeclared", "missing-arg", "duplicate", "fuzzy", "bad-path",
                                "rt-empty", "rt-header", "rt-weights", "rt-dupraw", "nested-list", "bad-metadata"])
            start = len(lines) + 1
            allowed = None      # run-time faults: the lines an error may carry (None = no line at all, which claims nothing)
            if fault == "unknown-command":
                lines += ["B = NoSuch(", "    InFieldName = A", ")"]
                want, cls = start, "CommandDoesNotExist"
            elif fault == "bad-number":
                k = rnd.random()
                if k < 0.3:
                    lines += ["B = CvtToFuzzy(", "    InFieldName = A,", "", "    TrueThreshold = [1, 2],", "    FalseThreshold = 0", ")"]
                    want, cls = start + 3, "ParameterNotValid"
                elif k < 0.5:   # a list value that opens on a later line than its argument name: the argument still starts at its name
                    lines += ["B = CvtToFuzzy(", "    InFieldName = A,", "    TrueThreshold", "      =", "        [1, 2],", "    FalseThreshold = 0", ")"]
                    want, cls = start + 2, "ParameterNotValid"
                else:     # the value starts on a later line than its argument name
                    lines += ["B = CvtToFuzzy(", "    InFieldName = A,", "    TrueThreshold =", "", "        abc,", "    FalseThreshold = 0", ")"]
                    want, cls = start + 2, "ParameterNotValid"
            elif fault == "bad-metadata":
                # Metadata that is not a set of key: value pairs, below the first line of its command; read through Command.metadata
                lines += ["B = Copy(", "    InFieldName = A,", "", "    Metadata = [a, b]", ")"]
                want, cls = start + 3, "ParameterNotValid"
            elif fault == "nested-list":
                # a list where a number is expected, as an element of a list argument written over several lines: the offending
                # ARGUMENT starts at its name, wherever the inner bracket is
                lines += ["B = WeightedSum(", "    InFieldNames = [A, A],", "", "    Weights = [", "        1,", "", "        [0.25, 0.25]", "    ]", ")"]
                want, cls = start + 3, "ParameterNotValid"
            elif fault == "missing-result":
                if rnd.random() < 0.5:
                    lines += ["B = Sum(", "    InFieldNames = [", "        A,", "        Ghost", "    ]", ")"]
                    want, cls = start + 1, "ResultDoesNotExist"
                else:
                    lines += ["B = Sum(", "", "    InFieldNames =", "    [", "        A,", "        Ghost", "    ]", ")"]
                    want, cls = start + 2, "ResultDoesNotExist"
            elif fault == "undeclared":
                lines += ["B = Copy(", "    InFieldName = A,", "    Bogus = 1", ")"]
                want, cls = start + 2, "NoSuchParameter"
            elif fault == "missing-arg":
                lines += ["B = CvtToBinary(", "    InFieldName = A,", "    Threshold = 2", ")"]
                want, cls = start, "MissingParameters"
            elif fault == "duplicate":
                lines += ["", "A = Copy(InFieldName = A)"]
                want, cls = start + 1, "DuplicateResult"
            elif fault == "fuzzy":
                if rnd.random() < 0.5:
                    lines += ["B = FuzzyNot(", "", "    InFieldName = A", ")"]
                    want, cls = start + 2, "ResultNotFuzzy"
                else:
                    lines += ["B = FuzzyNot(", "    InFieldName", "    =", "    A", ")"]
                    want, cls = start + 1, "ResultNotFuzzy"
            elif fault.startswith("rt-"):
                # faults that only show when the command executes; the faulty command is not a leaf, so it executes while Program.run
                # is running some other command that (transitively) needs it
                if fault == "rt-empty":
                    open(os.path.join(wd, "empty.csv"), "w").close()
                    lines += ["R = EEMSRead(", "    InFileName = empty.csv,", "    InFieldName = a", ")"]
                    cls, allowed = "EmptyDataFile", [None, start, start + 1]
                elif fault == "rt-header":
                    lines += ["R = EEMSRead(", "    InFileName = d.csv,", "", "    InFieldName = zzz", ")"]
                    cls, allowed = "InvalidDataFile", [None, start, start + 3]
                elif fault == "rt-weights":
                    lines += ["R = WeightedSum(", "    InFieldNames = [A, A],", "    Weights = [1]", ")"]
                    cls, allowed = "MismatchedWeights", [None, start, start + 2]
                else:
                    lines += ["R = NormalizeCurve(", "    InFieldName = A,", "", "    RawValues = [1, 1, 2],", "    NormalValues = [0, 1, 2]", ")"]
                    cls, allowed = "DuplicateRawValues", [None, start, start + 3]
                pad()
                lines += ["C = Copy(InFieldName = R)"]
                pad()
                lines += ["D = Sum(", "    InFieldNames = [C, A]", ")"]
                want = start
            else:
                if rnd.random() < 0.5:
                    lines += ["B = EEMSRead(", "    InFieldName = a,", "    InFileName = nofile.csv", ")"]
                    want, cls = start + 2, "PathDoesNotExist"
                else:
                    lines += ["B = EEMSRead(", "    InFieldName = a,", "    InFileName =", "        nofile.csv", ")"]
                    want, cls = start + 2, "PathDoesNotExist"
            pad()
            src = nl.join(lines) + nl
            dist["error_line_checks"] += 1
            evaluations += 1
            replay = {"source": src, "fault": fault, "expected_line": want}
            try:
                pr_ = Program.from_source(src, libraries=EEMS_CSV_LIBRARIES, working_dir=wd)
                if fault == "bad-metadata":
                    pr_.commands["B"].metadata          # the property display tools read; then the run below reports the same fault
                pr_.run()
                fails.append({"sig": "C11:error-not-raised", "what": "fault %s not reported" % fault, "replay": replay})
                continue
            except MPilotError as ex:
                got_line = getattr(ex, "lineno", None)
                if type(ex).__name__ != cls:
                    fails.append({"sig": "C11:error-class", "what": "fault %s reported as %s" % (fault, type(ex).__name__), "replay": replay})
                    continue
                if allowed is not None:
                    if getattr(ex, "lineno", None) not in allowed:
                        fails.append({"sig": "C11:error-line:%s" % cls, "what": "%s carries line %r; the offending command starts on line %d (its arguments: lines %r) and other commands were running it" % (
                            cls, getattr(ex, "lineno", None), start, allowed[2:]), "replay": replay})
                        continue
                elif getattr(ex, "lineno", None) != want:
                    fails.append({"sig": "C11:error-line:%s" % cls, "what": "%s carries line %r; the offending %s is on line %d" % (cls, getattr(ex, "lineno", None), "command" if want == start else "argument", want), "replay": replay})
                    continue
            except SyntaxError:
                continue
            # the line the command-line tool marks
            if i % 2 == 0:
                mp = os.path.join(wd, "m.mpt")
                with open(mp, "w", newline="") as fh:
                    fh.write(src)
                pr = subprocess.run([sys.executable, "-c", "import sys; sys.argv=['mpilot','eems-csv',%r]; from mpilot.cli.mpilot import main; main()" % mp],
                                    cwd=wd, stdout=subprocess.PIPE, stderr=subprocess.PIPE, universal_newlines=True)
                dist["cli_runs"] += 1
                if got_line is not None:
                    try:
                        cli_cases.append("(%s, %d%%nat, %s)" % (ctext(src), got_line, ctext(pr.stderr)))
                        cli_descr.append(dict(replay, error_line=got_line, stderr=pr.stderr[-400:]))
                    except ValueError:
                        pass
                marked = [ln for ln in pr.stderr.split("\n") if ln.startswith("--> ")]
                expect_text = src.replace("\r\n", "\n").split("\n")[want - 1]
                if allowed is not None:
                    texts = [src.replace("\r\n", "\n").split("\n")[k - 1] for k in allowed if k is not None]
                    if pr.returncode == 0 or len(marked) > 1 or (marked and marked[0][4:] not in texts):
                        fails.append({"sig": "C11:cli-marked-line", "what": "the command-line tool marks %r for a fault of the command on line %d (exit %d)" % (marked, start, pr.returncode), "replay": replay})
                elif pr.returncode == 0 or len(marked) != 1 or marked[0][4:] != expect_text:
                    fails.append({"sig": "C11:cli-marked-line", "what": "the command-line tool marks %r; the offending line %d is %r (exit %d)" % (marked, want, expect_text, pr.returncode), "replay": replay})
    files = []
    CH = 60
    for i in range(0, len(cases), CH):
        path = os.path.join(os.getcwd(), "Cases_%s_%03d.v" % (prop, i // CH))
        with open(path, "w") as fh:
            fh.write("From Coq Require Import NArith ZArith QArith List.\nFrom MP Require Import Base.Check Model.Lexer Model.Parser Corr.CheckParser.\n"
                     "Import ListNotations.\nOpen Scope N_scope.\n"
                     "Definition cases : list (text * list (text * text) * observed) := [\n  %s\n].\n"
                     "Eval vm_compute in (failing check_parse cases).\n" % ";\n  ".join(cases[i:i + CH]))
        files.append({"path": path, "first": i, "count": len(cases[i:i + CH])})
    surf_files = []
    for i in range(0, len(surf_cases), CH):
        path = os.path.join(os.getcwd(), "Cases_%ssf_%03d.v" % (prop, i // CH))
        with open(path, "w") as fh:
            fh.write("From Coq Require Import NArith ZArith List.\nFrom MP Require Import Base.Check Model.Lexer Model.Parser Proofs.Surface Corr.CheckSurface.\n"
                     "Import ListNotations.\nOpen Scope N_scope.\n"
                     "Definition cases : list (list xcmd * list text * text * text * list (text * text)) := [\n  %s\n].\n"
                     "Eval vm_compute in (failing instance_of_layout_theorem cases).\n" % ";\n  ".join(surf_cases[i:i + CH]))
        surf_files.append({"path": path, "first": i, "count": len(surf_cases[i:i + CH])})
    cli_files = []
    for i in range(0, len(cli_cases), CH):
        path = os.path.join(os.getcwd(), "Cases_%scli_%03d.v" % (prop, i // CH))
        with open(path, "w") as fh:
            fh.write("From Coq Require Import NArith ZArith List Bool.\nFrom MP Require Import Base.Check Model.Lexer Model.Cli Corr.CheckCli.\n"
                     "Import ListNotations.\nOpen Scope N_scope.\n"
                     "Definition cases : list (text * nat * text) := [\n  %s\n].\n"
                     "Eval vm_compute in (failing check_cli cases).\n" % ";\n  ".join(cli_cases[i:i + CH]))
        cli_files.append({"path": path, "first": i, "count": len(cli_cases[i:i + CH])})
    obj_files = []
    for i in range(0, len(obj_cases), CH):
        path = os.path.join(os.getcwd(), "Cases_%sobj_%03d.v" % (prop, i // CH))
        with open(path, "w") as fh:
            fh.write("From Coq Require Import NArith ZArith QArith List Bool.\nFrom MP Require Import Base.Check Model.Lexer Model.Parser Corr.CheckParser Corr.CheckParserObj.\n"
                     "Import ListNotations.\nOpen Scope N_scope.\n"
                     "Definition cases : list ((N * bool * bool) * text * list (text * text) * observed * (N * bool * bool)) := [\n  %s\n].\n"
                     "Eval vm_compute in (failing check_pobj cases).\n" % ";\n  ".join(obj_cases[i:i + CH]))
        obj_files.append({"path": path, "first": i, "count": len(obj_cases[i:i + CH])})
    import surface_lib
    if surface_lib.REASONS:
        dist["outside_the_surface_family_because"] = dict(sorted(surface_lib.REASONS.items(), key=lambda kv: -kv[1])[:12])
        dist["outside_the_surface_family_samples"] = {k: v[-260:] for k, v in list(surface_lib.SAMPLES.items())[:6]}
    mine = [f for f in fails if f["sig"].startswith(prop + ":")]
    json.dump({"cli_files": cli_files, "cli_descr": cli_descr, "obj_files": obj_files, "obj_descr": obj_descr, "surf_files": surf_files, "surf_descr": surf_descr, "files": files, "descr": descr, "oracle_failures": mine, "other_property_failures": sorted(set(f["sig"] for f in fails if not f["sig"].startswith(prop + ":")))[:20],
               "distribution": dist, "evaluations": evaluations, "distinct_nontrivial": nontrivial, "samples": descr[:1] + descr[-2:],
               "tree": mpilot.__file__}, open(out, "w"), default=str)


main()
