"""C17 driver: CSV reading and writing.   usage: c17_driver.py <out.json> <n>

Random tables (1-6 columns, 0-9 data rows, integers and every kind of finite double: subnormals, extremes, -0.0, long
mantissas; header names that need CSV quoting; blank lines; a declared missing value; both element types) are written to disk
as text and read with the real EEMSRead; faults: empty file, missing header, non-numeric cell, short row.  Arrays are written
with the real EEMSWrite and read back.  Oracles (from the property statement): values in row order, element type, exactly the
missing cells, error class with the file line, header/rows of the written file, bit-identical round trip of non-missing finite
numbers.  Each observation is also compared with Model/Csv.v (rows as csv.reader delivers them, float()/str() as oracles)."""
import csv
import io
import json
import math
import os
import random
import struct
import sys
import tempfile

import numpy

import mpilot
from mpilot.arguments import Argument
from mpilot.exceptions import MPilotError, UnexpectedError
from mpilot.libraries.eems.csv import io as csvio
from mpilot.libraries.eems.exceptions import EmptyDataFile, InvalidDataFile
import cells_common as cc
from c20_driver_lib import c_fnum, printable
from coqfmt import cstr, clist, cbool, copt, cZ, cnat

assert os.path.abspath(mpilot.__file__).startswith(os.path.abspath(os.environ["VERIF_SNAP"])), mpilot.__file__


class Prog(object):
    def __init__(self, wd):
        self.working_dir = wd
        self.commands = {}


def rfloat(rnd):
    r = rnd.random()
    if r < 0.35:
        return float(rnd.randint(-50, 50))
    if r < 0.6:
        return rnd.randint(-4000, 4000) / 64.0
    if r < 0.7:
        return rnd.choice([5e-324, -5e-324, 2.2250738585072014e-308, 1.7976931348623157e308, -1.7976931348623157e308, -0.0, 0.1, 1e-05, 1e22, 1e21, 123456789.123456789, 1 / 3.0])
    if r < 0.85:
        return struct.unpack("<d", struct.pack("<Q", rnd.getrandbits(64)))[0]
    return rnd.uniform(-1e6, 1e6)


def finite(x):
    return not (math.isnan(x) or math.isinf(x))


def cell_text(rnd, v, integer):
    if integer and float(v).is_integer() and abs(v) < 1e15:
        return rnd.choice([str(int(v)), str(int(v)), repr(float(v))])
    t = repr(float(v))
    if rnd.random() < 0.1:
        t = " " + t + " "
    if rnd.random() < 0.05 and "e" not in t and "." in t:
        t = t + "0"
    return t


def enc(s):
    """an injective printable renaming of a text (the model only compares header and cell texts for equality)"""
    return "".join(ch if (32 <= ord(ch) <= 126 and ch != "<") else "<%x>" % ord(ch) for ch in s)


def c_ccell(t):
    try:
        f = c_fnum(float(t))
    except ValueError:
        f = None
    return "{| c_text := %s; c_float := %s |}" % (cstr(enc(t)), copt(f))


def c_ocells(a):
    m = numpy.ma.getmaskarray(a).reshape(-1).tolist()
    d = numpy.ma.getdata(a).reshape(-1).tolist()
    isint = numpy.issubdtype(a.dtype, numpy.integer)
    out = []
    for x, mm in zip(d, m):
        out.append("OMissing" if mm else ("(OInt %s)" % cZ(int(x)) if isint else "(OFloat %s)" % c_fnum(float(x))))
    return clist(out)


def run_read(wd, fname, field, missing, dtype):
    args = [Argument("InFileName", fname, 1), Argument("InFieldName", field, 1)]
    if missing is not None:
        args.append(Argument("MissingVal", missing, 1))
    if dtype is not None:
        args.append(Argument("DataType", dtype, 1))
    cmd = csvio.EEMSRead("r", args, program=Prog(wd), lineno=1)
    try:
        cmd.run()
        return ("ok", cmd._result)
    except UnexpectedError as ex:
        return ("err", "UnexpectedError", type(ex.exc).__name__, None)
    except MPilotError as ex:
        return ("err", type(ex).__name__, str(ex), ex)
    except BaseException as ex:
        return ("err", "ESCAPED:" + type(ex).__name__, str(ex), None)


def main():
    out, n = sys.argv[1], int(sys.argv[2])
    seed = int(os.environ.get("VERIF_SEED", "0"))
    rnd = random.Random(seed * 39916801 + 17)
    wd = tempfile.mkdtemp(prefix="c17-", dir=os.getcwd())
    rcases, wcases, rdescr, wdescr, fails = [], [], [], [], []
    dist = {"tables": 0, "reads": 0, "writes": 0, "outcomes": {}, "int_reads": 0, "with_missing": 0, "blank_lines": 0, "quoted_headers": 0,
            "special_doubles": 0, "roundtrips": 0, "unprintable": 0}
    evaluations = nontrivial = 0
    names_pool = ["a", "b", "elev", "Slope_pct", "x y", "Area, km2", 'say "hi"', "c3", "N", "tmp.v",
                  "Slope\n(deg)", "page\x0cbreak", "a\x0bb\x1cc", "nel\x85sep\u2028x"]      # a two-line column title; characters str.splitlines() splits at
    for ti in range(n):
        ncols, nrows = rnd.randint(1, 5), rnd.randint(0, 8)
        names = rnd.sample(names_pool, ncols)
        integer = [rnd.random() < 0.4 for _ in names]
        marker = rnd.choice([-9999, -9999.0, 0, -1, 1e20, -0.0, 3.5])
        cols = []
        for j in range(ncols):
            col = []
            for _ in range(nrows):
                if rnd.random() < 0.2:
                    col.append(float(marker))
                elif integer[j]:
                    col.append(float(rnd.randint(-30, 30)) if rnd.random() < 0.8 else rnd.randint(-300, 300) / 8.0)
                else:
                    col.append(rfloat(rnd))
            cols.append(col)
        # physical lines
        sio = io.StringIO()
        w = csv.writer(sio, lineterminator="\n")
        w.writerow(names)
        fault = rnd.choice([None] * 6 + ["bad-cell", "short-row", "missing-header", "empty", "empty-row"])
        blank_after = set(i for i in range(nrows) if rnd.random() < 0.12)
        texts = [[cell_text(rnd, cols[j][i], integer[j]) for j in range(ncols)] for i in range(nrows)]
        bad_line = None
        if fault == "bad-cell" and nrows:
            bi, bj = rnd.randrange(nrows), rnd.randrange(ncols)
            texts[bi][bj] = rnd.choice(["", "n/a", "1,5", "--", "1e", "0x10", "1_0", "NULL"])
        if fault == "empty-row" and nrows:
            texts[rnd.randrange(nrows)] = [""] * ncols       # a record whose cells are all empty (`,,,`) is a record, not a blank line
        if fault == "short-row" and nrows and ncols > 1:
            si = rnd.randrange(nrows)
            texts[si] = texts[si][:rnd.randint(1, ncols - 1)]
        lines = []
        for i in range(nrows):
            w.writerow(texts[i])
            if i in blank_after:
                sio.write("\n")
        content = "" if fault == "empty" else sio.getvalue()
        if rnd.random() < 0.15 and content.endswith("\n"):
            content = content[:-1]
        dist["blank_lines"] += len(blank_after)
        dist["quoted_headers"] += sum(1 for nm in names if any(ch in nm for ch in ', "'))
        # histories: half of the tables overwrite a data file that an earlier case already read (the values are those of the file as it is now)
        fname = os.path.join(wd, "t%d.csv" % (ti if rnd.random() < 0.5 else ti % 3))
        earlier = open(fname).read() if os.path.exists(fname) else None
        dist["rewritten_paths"] = dist.get("rewritten_paths", 0) + int(earlier is not None)
        with open(fname, "w") as fh:
            fh.write(content)
        dist["tables"] += 1
        with open(fname) as fh:
            parsed = list(csv.reader(fh.readlines()))
        try:
            rows_term = clist([clist([c_ccell(t) for t in row]) for row in parsed], ";\n      ")
        except ValueError:
            rows_term = None
        # ---- reads ----
        for j in (range(ncols) if ncols <= 3 else rnd.sample(range(ncols), 3)):
            field = names[j] if fault != "missing-header" or rnd.random() < 0.5 else rnd.choice(["nope", names[j].upper() + "_"])
            use_missing = rnd.random() < 0.75
            dtype = rnd.choice([None, "Float", "Integer"]) if not integer[j] else rnd.choice(["Integer", "Integer", "Float", None])
            want_int = dtype == "Integer"
            if want_int and any(not finite(v) or abs(v) > 2 ** 62 for v in cols[j]):
                dtype, want_int = "Float", False      # inf/nan/huge to int is undefined in numpy
            missing = marker if use_missing else None
            o = run_read(wd, fname, field, missing, dtype)
            dist["reads"] += 1
            evaluations += 1
            dist["int_reads"] += int(want_int)
            dist["with_missing"] += int(use_missing)
            key = "ok" if o[0] == "ok" else o[1]
            dist["outcomes"][key] = dist["outcomes"].get(key, 0) + 1
            replay = {"file": content, "InFieldName": field, "MissingVal": missing, "DataType": dtype}
            if earlier is not None:
                replay["history"] = "the same path held this text and was read before it was overwritten: %r" % earlier
            if nrows >= 2 and (use_missing or any(not float(v).is_integer() for v in cols[j])):
                nontrivial += 1
            # ---------- oracle ----------
            expect_err = None
            if fault == "empty" or not parsed:
                expect_err = ("EmptyDataFile", None)
            elif field not in parsed[0]:
                expect_err = ("InvalidDataFile", None)
            else:
                idx = parsed[0].index(field)
                vals = []
                for li, row in enumerate(parsed[1:]):
                    if not row:
                        continue
                    if idx >= len(row):
                        expect_err = ("UnexpectedError", None)
                        break
                    try:
                        vals.append(float(row[idx]))
                    except ValueError:
                        expect_err = ("InvalidDataFile", li + 2)
                        break
            if expect_err:
                if o[0] != "err" or o[1] != expect_err[0]:
                    fails.append({"sig": "C17:read-error:%s" % expect_err[0], "what": "reading %r should fail with %s but gave %s" % (field, expect_err[0], o[1] if o[0] == "err" else "a result"), "replay": replay})
                elif expect_err[1] is not None and ("line %d." % expect_err[1]) not in o[2]:
                    fails.append({"sig": "C17:error-line", "what": "the non-numeric cell is on file line %d but the error says: %s" % (expect_err[1], o[2].splitlines()[0][:160]), "replay": replay})
            else:
                if o[0] != "ok" and want_int and missing is not None and abs(missing) >= 2 ** 63:
                    fails.append({"sig": "C17:int-marker-out-of-range", "what": "DataType=Integer with a MissingVal beyond the 64-bit range (%r) fails with %s (%s) instead of reading the column" % (missing, o[1], o[2]), "replay": replay})
                elif o[0] != "ok":
                    fails.append({"sig": "C17:read-fails", "what": "reading a well-formed column failed with %s" % (o[1],), "replay": replay})
                else:
                    a = o[1]
                    isint = numpy.issubdtype(a.dtype, numpy.integer)
                    if isint != want_int:
                        fails.append({"sig": "C17:element-type", "what": "DataType=%r gave dtype %s" % (dtype, a.dtype), "replay": replay})
                    if want_int:
                        conv = [int(v) for v in vals]
                        mk = int(missing) if missing is not None else None
                    else:
                        conv = list(vals)
                        mk = float(missing) if missing is not None else None
                    emask = [missing is not None and c == mk for c in conv]
                    gm = numpy.ma.getmaskarray(a).tolist()
                    gd = numpy.ma.getdata(a).tolist()
                    if len(gd) != len(conv):
                        fails.append({"sig": "C17:row-count", "what": "%d data rows but %d cells" % (len(conv), len(gd)), "replay": replay})
                    elif gm != emask:
                        fails.append({"sig": "C17:missing-cells", "what": "missing cells %r, expected exactly the cells equal to MissingVal=%r: %r" % (gm, missing, emask), "replay": replay})
                    else:
                        for x, y, mm in zip(gd, conv, emask):
                            if not mm and not (x == y and math.copysign(1, x) == math.copysign(1, y)) and not (x != x and y != y):
                                fails.append({"sig": "C17:values", "what": "read %r where the file holds %r" % (x, y), "replay": replay})
                                break
            if o[0] == "err" and o[1].startswith("ESCAPED"):
                fails.append({"sig": "C17:escaped", "what": "reading let %s escape" % o[1], "replay": replay})
            # ---------- Coq case ----------
            if rows_term is not None:
                if o[0] == "ok":
                    obs = "(ROk %s)" % c_ocells(o[1])
                elif o[1] == "EmptyDataFile":
                    obs = "(RErr CEmptyDataFile)"
                elif o[1] == "UnexpectedError":
                    obs = "(RErr CShortRow)" if o[2] == "IndexError" else None
                elif o[1] == "InvalidDataFile":
                    import re
                    m = re.search(r"on line (\d+)\.", o[2])
                    obs = "(RErr (CBadValue %s))" % cnat(int(m.group(1))) if m else "(RErr CNoHeader)"
                else:
                    obs = None
                if obs is not None:
                    rcases.append("(%s, %s, %s, %s, %s)" % (rows_term, cstr(enc(field)), copt(None if missing is None else c_fnum(float(missing))), "TInt" if want_int else "TFloat", obs))
                    rdescr.append(replay)
                else:
                    dist["unprintable"] += 1
            else:
                dist["unprintable"] += 1
        # ---- write + read back ----
        if nrows and fault is None:
            k = rnd.randint(1, ncols)
            sel = rnd.sample(range(ncols), k)
            arrays, prods = [], []
            all_float = rnd.random() < 0.6
            for j in sel:
                asint = integer[j] and not all_float and all(float(v).is_integer() and abs(v) < 2 ** 53 for v in cols[j] if finite(v))
                vals = [v if finite(v) else 1.0 for v in cols[j]]
                mask = [rnd.random() < 0.15 for _ in vals] if rnd.random() < 0.4 else [False] * len(vals)
                a = numpy.ma.array(numpy.array([int(v) for v in vals], dtype=numpy.int64) if asint else numpy.array(vals, dtype=float), mask=mask)
                arrays.append(a)
                prods.append(cc.producer(names[j], a, False))
            outp = os.path.join(wd, "w%d.csv" % (ti if rnd.random() < 0.5 else ti % 2))       # written, read back, written again ...
            cmd = csvio.EEMSWrite("w", [Argument("OutFileName", outp, 1), Argument("OutFieldNames", prods, 1)], program=Prog(wd), lineno=1)
            try:
                cmd.run()
                werr = None
            except MPilotError as ex:
                werr = type(ex).__name__
            dist["writes"] += 1
            evaluations += 1
            wreplay = {"columns": {names[j]: {"dtype": str(a.dtype), "data": numpy.ma.getdata(a).tolist(), "mask": numpy.ma.getmaskarray(a).tolist()} for j, a in zip(sel, arrays)}}
            if werr:
                fails.append({"sig": "C17:write-fails", "what": "writing failed with %s" % werr, "replay": wreplay})
                continue
            with open(outp) as fh:
                got = list(csv.reader(fh.readlines()))
            if got[0] != [names[j] for j in sel]:
                fails.append({"sig": "C17:write-header", "what": "header %r, expected the result names in the listed order %r" % (got[0], [names[j] for j in sel]), "replay": wreplay})
            if len(got) - 1 != nrows:
                fails.append({"sig": "C17:write-rows", "what": "%d rows written for %d cells" % (len(got) - 1, nrows), "replay": wreplay})
            # read every written column back
            for pos, (j, a) in enumerate(zip(sel, arrays)):
                o = run_read(wd, outp, names[j], None, "Float")
                dist["roundtrips"] += 1
                evaluations += 1
                am = numpy.ma.getmaskarray(a).tolist()
                if any(am):
                    if o[0] != "ok":
                        fails.append({"sig": "C17:missing-written-as-dashes", "what": "a column with a missing cell is written with '--' in that row and cannot be read back (%s)" % o[1],
                                      "replay": dict(wreplay, column=names[j], written=open(outp).read())})
                    continue
                if o[0] != "ok":
                    fails.append({"sig": "C17:roundtrip-fails", "what": "reading back the written column %r failed with %s" % (names[j], o[1]), "replay": dict(wreplay, written=open(outp).read())})
                    continue
                back = numpy.ma.getdata(o[1]).tolist()
                orig = [float(x) for x in numpy.ma.getdata(a).tolist()]
                if len(back) != len(orig) or any(struct.pack("<d", x) != struct.pack("<d", y) for x, y in zip(back, orig)):
                    fails.append({"sig": "C17:roundtrip-not-bit-identical", "what": "written %r, read back %r" % (orig[:6], back[:6]), "replay": dict(wreplay, written=open(outp).read())})
            # Coq write case: the model's rows vs the file as csv.reader sees it
            try:
                stacked = numpy.ma.array(arrays)
                colterms = []
                for pos, a in enumerate(arrays):
                    ws = []
                    for i in range(nrows):
                        x = stacked[pos, i]
                        if numpy.ma.is_masked(x):
                            ws.append('{| w_cell := OMissing; w_text := "" |}')
                        else:
                            isint = numpy.issubdtype(stacked.dtype, numpy.integer)
                            ws.append("{| w_cell := %s; w_text := %s |}" % ("(OInt %s)" % cZ(int(x)) if isint else "(OFloat %s)" % c_fnum(float(x)), cstr(enc(str(x)))))
                    colterms.append(clist(ws))
                if True:
                    wcases.append("(%s, %s, %s)" % (clist([cstr(enc(names[j])) for j in sel]), clist(colterms, ";\n     "), clist([clist([cstr(enc(t)) for t in row]) for row in got], ";\n     ")))
                    wdescr.append(wreplay)
            except ValueError:
                dist["unprintable"] += 1
    # ---- whole models that update a table in place: the file that is read is the file that is written, in any order of the commands ----
    from mpilot.program import Program, EEMS_CSV_LIBRARIES
    dist["in_place_updates"] = 0
    for k in range(max(8, n // 8)):
        rows = [(rnd.randint(-5, 9), rnd.choice([0.5, 2.25, -1.0, 3.0])) for _ in range(rnd.randint(2, 5))]
        fn = os.path.join(wd, "table%d.csv" % (k % 2))
        text = "a,b\n" + "".join("%d,%r\n" % r for r in rows)
        with open(fn, "w") as fh:
            fh.write(text)
        cmds = ["A = EEMSRead(InFileName = %s, InFieldName = a)" % os.path.basename(fn),
                "B = EEMSRead(InFileName = %s, InFieldName = b)" % os.path.basename(fn),
                "S = Sum(InFieldNames = [A, B])",
                "W = EEMSWrite(OutFileName = %s, OutFieldNames = [A, S])" % os.path.basename(fn)]
        rnd.shuffle(cmds)                     # the writer may well be declared before the readers it depends on
        src = "\n".join(cmds)
        dist["in_place_updates"] += 1
        evaluations += 1
        replay = {"file": text, "model": src, "note": "the model reads and writes %s" % os.path.basename(fn)}
        try:
            Program.from_source(src, libraries=EEMS_CSV_LIBRARIES, working_dir=wd).run()
        except Exception as ex:
            fails.append({"sig": "C17:in-place-update-fails", "what": "a model that reads columns of a table and writes the table back failed with %s %s" % (type(ex).__name__, str(getattr(ex, "exc", ""))[:80]), "replay": replay})
            continue
        with open(fn) as fh:
            got = list(csv.reader(fh.readlines()))
        want = [["A", "S"]] + [[repr(float(a)), repr(float(a) + b)] for a, b in rows]
        if [r for r in got if r] != want:
            fails.append({"sig": "C17:in-place-update-values", "what": "after the update the table holds %r, expected %r" % (got[:4], want[:4]), "replay": replay})
    files = []
    CH = 150
    for i in range(0, len(rcases), CH):
        path = os.path.join(os.getcwd(), "Cases_C17r_%03d.v" % (i // CH))
        with open(path, "w") as fh:
            fh.write("From Coq Require Import String List Bool ZArith QArith.\nFrom MP Require Import Base.Check Model.Params Model.Csv Corr.CheckCsv.\n"
                     "Import ListNotations.\nOpen Scope string_scope.\n"
                     "Definition cases : list (list crow * string * option fnum * rdtype * rres) := [\n  %s\n].\n"
                     "Eval vm_compute in (failing check_read cases).\n" % ";\n  ".join(rcases[i:i + CH]))
        files.append({"path": path, "first": i, "count": len(rcases[i:i + CH])})
    base = len(rcases)
    for i in range(0, len(wcases), CH):
        path = os.path.join(os.getcwd(), "Cases_C17w_%03d.v" % (i // CH))
        with open(path, "w") as fh:
            fh.write("From Coq Require Import String List Bool ZArith QArith.\nFrom MP Require Import Base.Check Model.Params Model.Csv Corr.CheckCsv.\n"
                     "Import ListNotations.\nOpen Scope string_scope.\n"
                     "Definition cases : list (list string * list (list wval) * list (list string)) := [\n  %s\n].\n"
                     "Eval vm_compute in (failing check_write cases).\n" % ";\n  ".join(wcases[i:i + CH]))
        files.append({"path": path, "first": base + i, "count": len(wcases[i:i + CH])})
    descr = rdescr + wdescr
    json.dump({"files": files, "descr": descr, "oracle_failures": fails, "distribution": dist, "evaluations": evaluations,
               "distinct_nontrivial": nontrivial, "samples": descr[:1] + descr[-2:], "tree": mpilot.__file__}, open(out, "w"), default=str)


main()
