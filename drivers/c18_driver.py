"""C18 driver: NetCDF reading and writing.   usage: c18_driver.py <out.json> <n>

Grids of rank 1-3 (length-1 axes included) with float64/float32/int32/int16 variables, _FillValue-masked cells, in-file
missing-value markers and coordinate variables are created with netCDF4; read with the real EEMSRead under every
combination of the optional parameters; sets of results (some with missing cells, different masks) are written together with
the real EEMSWrite against a template, inspected with netCDF4 and read back.  Oracles from the property statement; each
observation is also compared with Model/Netcdf.v (the netCDF4 library is the oracle that hands over the stored variable)."""
import json
import math
import os
import random
import sys
import tempfile
from fractions import Fraction as Fr

import netCDF4
import numpy

import cells_common as cc
import mpilot
from mpilot.arguments import Argument
from mpilot.exceptions import MPilotError, UnexpectedError
from mpilot.libraries.eems.netcdf import io as ncio
from coqfmt import cstr, clist, copt, cZ, cQ, cnat
from c20_driver_lib import c_fnum

assert os.path.abspath(mpilot.__file__).startswith(os.path.abspath(os.environ["VERIF_SNAP"])), mpilot.__file__
TYPES = {None: "NFloat", "Float": "NFloat", "Integer": "NInteger", "Positive Float": "NPosFloat", "Positive Integer": "NPosInteger", "Fuzzy": "NFuzzy"}


class Prog(object):
    def __init__(self, wd):
        self.working_dir = wd
        self.commands = {}


def c_cells(a):
    m = numpy.ma.getmaskarray(a).reshape(-1).tolist()
    d = numpy.ma.getdata(a).reshape(-1).tolist()
    isint = numpy.issubdtype(a.dtype, numpy.integer)
    return clist(["OMissing" if mm else ("(OInt %s)" % cZ(int(x)) if isint else "(OFloat %s)" % c_fnum(float(x))) for x, mm in zip(d, m)])


def run_read(wd, fname, var, dtype, missing):
    args = [Argument("InFileName", fname, 1), Argument("InFieldName", var, 1)]
    if dtype is not None:
        args.append(Argument("DataType", dtype, 1))
    if missing is not None:
        args.append(Argument("MissingValue", missing, 1))
    cmd = ncio.EEMSRead("r", args, program=Prog(wd), lineno=1)
    try:
        cmd.run()
        return ("ok", cmd._result)
    except UnexpectedError as ex:
        return ("err", "UnexpectedError", "%s: %s" % (type(ex.exc).__name__, ex.exc))
    except MPilotError as ex:
        return ("err", type(ex).__name__, "")
    except BaseException as ex:
        return ("err", "ESCAPED:" + type(ex).__name__, str(ex))


def main():
    out, n = sys.argv[1], int(sys.argv[2])
    seed = int(os.environ.get("VERIF_SEED", "0"))
    rnd = random.Random(seed * 2147483629 + 18)
    wd = tempfile.mkdtemp(prefix="c18-", dir=os.getcwd())
    rcases, wcases, rdescr, wdescr, fails = [], [], [], [], []
    dist = {"files": 0, "reads": 0, "writes": 0, "roundtrips": 0, "outcomes": {}, "ranks": {}, "stored_types": {}, "param_combos": {}, "masked_cells": 0}
    evaluations = nontrivial = 0
    for fi in range(n):
        rank = rnd.choice([1, 2, 2, 3])
        shape = tuple(rnd.choice([1, 2, 3, 4]) for _ in range(rank))
        dims = ["d%d" % k for k in range(rank)]
        fname = os.path.join(wd, "in%d.nc" % fi)
        stored = rnd.choice(["f8", "f8", "f4", "i4", "i2", "packed", "f8be"])   # f8be: float64 stored big-endian (files written on / for other platforms)     # packed: 16-bit integers on disk with scale_factor / add_offset (CF packing), decoded to float64
        flavour = rnd.choice(["plain", "fuzzy", "positive", "positive", "marker"])
        size = int(numpy.prod(shape))
        if flavour == "fuzzy":
            vals = [rnd.choice([-1.0, -0.5, 0.0, 0.25, 1.0, 1.01, -1.015, 0.999] + ([1.5, -2.0] if rnd.random() < 0.15 else [])) for _ in range(size)]
        elif flavour == "positive":
            neg = rnd.choice([[], [-0.3], [-0.49, -0.001], [-0.25], [-2.0], [-0.5], [-0.125]])      # small negatives round to -0 / 0
            vals = [rnd.choice([0.0, 0.5, 2.5, 7.0, 3.49, 4.5, 100.25]) for _ in range(size)]
            for x in neg:
                vals[rnd.randrange(size)] = x
            if rnd.random() < 0.6:
                stored = "f8"
        else:
            vals = [rnd.choice([rnd.randint(-20, 20) + rnd.choice([0, 0.5, 0.25, 0.75]), -9999.0 if flavour == "marker" else 1.5, 2.5, -3.5, 0.0]) for _ in range(size)]
        if flavour in ("plain", "marker") and stored in ("f8", "f4", "f8be") and size >= 2:
            # real values a hair away from the markers tried below (-9999, 0, 2.5, 1.5): they are values, not missing cells
            for _ in range(rnd.randint(1, 2)):
                vals[rnd.randrange(size)] = rnd.choice([-9998.95, -9999.05, -9998.999, 2.50001, 1.4999999, 3e-9, -2e-9, 2.4999])
            dist["near_marker_values"] = dist.get("near_marker_values", 0) + 1
        if stored.startswith("i"):
            vals = [float(int(v)) for v in vals]
        if stored == "packed":
            vals = [round(v * 2) / 2.0 for v in vals]        # multiples of the scale factor 0.5: stored exactly
        fmask = [rnd.random() < 0.2 for _ in range(size)] if rnd.random() < 0.5 else [False] * size
        if flavour == "positive":
            fmask = [m and v >= 0 for m, v in zip(fmask, vals)]     # keep the negative cells visible
        elif rnd.random() < 0.12:
            fmask = [True] * size                                   # a layer without a single value
            dist["all_missing_files"] = dist.get("all_missing_files", 0) + 1
        # the file (which is also the template of the write below) in any of the NetCDF formats; GDAL writes NETCDF4_CLASSIC by default
        fmt = "NETCDF4" if stored == "f8be" else rnd.choice(["NETCDF4", "NETCDF4", "NETCDF4_CLASSIC", "NETCDF3_CLASSIC", "NETCDF3_64BIT_OFFSET"])
        dist.setdefault("file_formats", {})[fmt] = dist.setdefault("file_formats", {}).get(fmt, 0) + 1
        with netCDF4.Dataset(fname, "w", format=fmt) as ds:
            for dname, ln in zip(dims, shape):
                ds.createDimension(dname, ln)
                cv = ds.createVariable(dname, "f8", (dname,))
                cv[:] = numpy.arange(ln) * 1.5 + 10
                cv.units = "m"
            v = ds.createVariable("elev", {"packed": "i2", "f8be": "f8"}.get(stored, stored), tuple(dims), fill_value=-32768 if stored in ("i2", "packed") else -99999,
                                  **({"endian": "big"} if stored == "f8be" else {}))
            if stored == "packed":
                v.scale_factor = numpy.float64(0.5)
                v.add_offset = numpy.float64(1.0)
            v[:] = numpy.ma.array(numpy.array(vals).reshape(shape), mask=numpy.array(fmask).reshape(shape))
        dist["files"] += 1
        dist["ranks"][rank] = dist["ranks"].get(rank, 0) + 1
        dist["stored_types"][stored] = dist["stored_types"].get(stored, 0) + 1
        dist["masked_cells"] += sum(fmask)
        with netCDF4.Dataset(fname) as ds:
            filevar = ds["elev"][:]
        kind = "KFloat64" if stored in ("f8", "packed", "f8be") else ("KInt" if stored.startswith("i") else "KFloatOther")
        var_term = "(Some {| v_kind := %s; v_shape := %s; v_cells := %s |})" % (kind, clist([cnat(x) for x in shape]), c_cells(filevar))
        # ---- reads under parameter combinations ----
        for ri in range(3):
            dtype = rnd.choice([None, "Float", "Integer", "Positive Float", "Positive Integer", "Fuzzy"])
            if flavour == "positive" and rnd.random() < 0.75:
                dtype = rnd.choice(["Positive Integer", "Positive Integer", "Positive Float"])
            if flavour == "fuzzy" and rnd.random() < 0.6:
                dtype = "Fuzzy"
            missing = rnd.choice([None, None, -9999, -9999.0, 0, 2.5, 1.5])
            varname = "elev" if rnd.random() < 0.93 else "nosuch"
            if stored in ("packed", "f8be") and ri == 1 and flavour not in ("fuzzy",):
                dtype, varname = "Integer", "elev"     # decoded float64 data read as integers: rounded to nearest, whatever the storage
            if all(fmask) and ri == 0:
                dtype, varname = "Fuzzy", "elev"       # a layer without values has no value outside [-1, 1]
            o = run_read(wd, fname, varname, dtype, missing)
            evaluations += 1
            dist["reads"] += 1
            combo = "%s/%s" % (dtype, "missing" if missing is not None else "-")
            dist["param_combos"][combo] = dist["param_combos"].get(combo, 0) + 1
            key = "ok" if o[0] == "ok" else o[1]
            dist["outcomes"][key] = dist["outcomes"].get(key, 0) + 1
            replay = {"stored_type": stored, "shape": list(shape), "values": vals, "file_mask": fmask, "InFieldName": varname, "DataType": dtype, "MissingValue": missing}
            if size >= 2 and (any(fmask) or any(not float(x).is_integer() for x in vals)):
                nontrivial += 1
            valid = [x for x, mm in zip(vals, fmask) if not mm]
            want_int = dtype in ("Integer", "Positive Integer")
            # ---------- oracle (property statement) ----------
            if o[0] == "err" and o[1].startswith("ESCAPED"):
                fails.append({"sig": "C18:escaped", "what": "reading let %s escape" % o[1], "replay": replay})
            elif varname == "nosuch":
                if not (o[0] == "err" and o[1] == "NoSuchVariable"):
                    fails.append({"sig": "C18:no-such-variable", "what": "a missing variable should be reported, got %s" % (o[1] if o[0] == "err" else "a result"), "replay": replay})
            elif dtype in ("Positive Float", "Positive Integer") and any(x < 0 for x in valid):
                if not (o[0] == "err" and o[1] == "InvalidPositiveData"):
                    fails.append({"sig": "C18:positive-check", "what": "negative data read as %s should be rejected, got %s" % (dtype, o[1] if o[0] == "err" else "a result"), "replay": replay})
            elif dtype == "Fuzzy" and any(x > 1.02 or x < -1.02 for x in valid):
                if not (o[0] == "err" and o[1] == "InvalidFuzzyData"):
                    fails.append({"sig": "C18:fuzzy-check", "what": "data outside [-1, 1] read as Fuzzy should be rejected, got %s" % (o[1] if o[0] == "err" else "a result"), "replay": replay})
            elif o[0] != "ok":
                fails.append({"sig": "C18:read-fails:%s" % o[1], "what": "reading with DataType=%r MissingValue=%r failed: %s %s" % (dtype, missing, o[1], o[2][:120]), "replay": replay})
            else:
                a = o[1]
                if a.shape != shape:
                    fails.append({"sig": "C18:read-shape", "what": "shape %r read as %r" % (shape, a.shape), "replay": replay})
                isint = numpy.issubdtype(a.dtype, numpy.integer)
                if isint != want_int:
                    fails.append({"sig": "C18:read-type", "what": "DataType=%r gave dtype %s (float is the default)" % (dtype, a.dtype), "replay": replay})
                gm = numpy.ma.getmaskarray(a).reshape(-1).tolist()
                gd = numpy.ma.getdata(a).reshape(-1).tolist()
                for i, (x, fm) in enumerate(zip(vals, fmask)):
                    exp_missing = fm or (missing is not None and ((int(round(x)) == int(missing)) if want_int else (float(numpy.float32(x)) if stored == "f4" else x) == float(missing)) and (not want_int or True))
                    if want_int and missing is not None:
                        conv = int(numpy.rint(x)) if stored in ("f8", "packed", "f8be") else int(x)
                        exp_missing = fm or conv == int(missing)
                    if gm[i] != exp_missing:
                        fails.append({"sig": "C18:read-missing", "what": "cell %d: missing=%r, expected %r (file mask %r, value %r, MissingValue %r)" % (i, gm[i], exp_missing, fm, x, missing), "replay": replay})
                        break
                    if not gm[i]:
                        if want_int:
                            want = int(numpy.rint(x)) if stored in ("f8", "packed", "f8be") else int(x)
                        else:
                            want = float(numpy.float32(x)) if stored == "f4" else x
                            if dtype == "Fuzzy":
                                want = max(-1.0, min(1.0, want))
                        if gd[i] != want:
                            fails.append({"sig": "C18:read-values", "what": "cell %d read as %r, the file holds %r (expected %r)" % (i, gd[i], x, want), "replay": replay})
                            break
            # ---------- Coq case ----------
            if o[0] == "ok":
                obs = "(NOk %s %s)" % (clist([cnat(x) for x in o[1].shape]), c_cells(o[1]))
            else:
                obs = {"NoSuchVariable": "(NErr NNoSuchVariable)", "InvalidPositiveData": "(NErr NInvalidPositive)", "InvalidFuzzyData": "(NErr NInvalidFuzzy)"}.get(o[1])
            if obs is not None:
                rcases.append("(%s, %s, %s, %s)" % (var_term if varname == "elev" else "None", TYPES[dtype], copt(None if missing is None else cQ(Fr(missing))), obs))
                rdescr.append(replay)
        # ---- write a set of results together, inspect, read back ----
        if rank >= 1:
            k = rnd.randint(1, 3)
            arrays, prods, fuzzy = [], [], []
            for j in range(k):
                dt = rnd.choice([numpy.float64, numpy.float64, numpy.int64, numpy.float32])
                fz = dt == numpy.float64 and rnd.random() < 0.3           # a fuzzy result: read back as DataType Fuzzy
                if fz:
                    data = numpy.array([rnd.choice([-1.0, -0.75, -0.5, 0.0, 0.25, 0.5, 1.0]) for _ in range(size)]).reshape(shape)
                else:
                    data = numpy.array([rnd.randint(-9, 9) + (rnd.choice([0, 0.5, 0.25]) if dt != numpy.int64 else 0) for _ in range(size)], dtype=dt).reshape(shape)
                mk = rnd.random()
                mask = numpy.array([rnd.random() < 0.25 for _ in range(size)]).reshape(shape) if mk < 0.6 else numpy.zeros(shape, dtype=bool)
                if mk < 0.07:
                    mask = numpy.ones(shape, dtype=bool)                   # a result without a single value
                    dist["all_missing_results"] = dist.get("all_missing_results", 0) + 1
                a = numpy.ma.array(data, mask=mask) if mk < 0.85 else numpy.ma.array(data)
                arrays.append(a)
                fuzzy.append(fz)
                prods.append(cc.producer("res%d" % j, a, fz))
            snaps = [(numpy.ma.getdata(a).copy(), numpy.ma.getmaskarray(a).copy()) for a in arrays]
            outp = os.path.join(wd, "out%d.nc" % fi)
            cmd = ncio.EEMSWrite("w", [Argument("OutFileName", outp, 1), Argument("OutFieldNames", prods, 1), Argument("DimensionFileName", fname, 1),
                                       Argument("DimensionFieldName", "elev", 1)], program=Prog(wd), lineno=1)
            wreplay = {"shape": list(shape), "results": [{"dtype": str(a.dtype), "data": numpy.ma.getdata(a).reshape(-1).tolist(), "mask": numpy.ma.getmaskarray(a).reshape(-1).tolist()} for a in arrays]}
            try:
                cmd.run()
                werr = None
            except MPilotError as ex:
                werr = "%s %s" % (type(ex).__name__, str(getattr(ex, "exc", ""))[:100])
            dist["writes"] += 1
            evaluations += 1
            if werr:
                fails.append({"sig": "C18:write-fails", "what": "writing failed: %s" % werr, "replay": wreplay})
                continue
            union = numpy.zeros(shape, dtype=bool)
            for a in arrays:
                union |= numpy.ma.getmaskarray(a)
            written = []
            with netCDF4.Dataset(outp) as ds:
                for dname, ln in zip(dims, shape):
                    if dname not in ds.variables or ds[dname][:].tolist() != (numpy.arange(ln) * 1.5 + 10).tolist() or getattr(ds[dname], "units", None) != "m":
                        fails.append({"sig": "C18:dimension-copy", "what": "dimension variable %s was not copied unchanged from the template" % dname, "replay": wreplay})
                for j, a in enumerate(arrays):
                    wv = ds["res%d" % j][:]
                    written.append(wv)
                    if wv.shape != shape:
                        fails.append({"sig": "C18:write-shape", "what": "result written with shape %r instead of %r" % (wv.shape, shape), "replay": wreplay})
                        continue
                    if numpy.ma.getmaskarray(wv).tolist() != union.tolist():
                        fails.append({"sig": "C18:write-missing", "what": "res%d is missing at %r in the file; the union of the missing cells of the results written together is %r" % (
                            j, numpy.ma.getmaskarray(wv).reshape(-1).tolist(), union.reshape(-1).tolist()), "replay": wreplay})
                    elif not numpy.array_equal(numpy.ma.getdata(wv)[~union], numpy.ma.getdata(a)[~union]):
                        fails.append({"sig": "C18:write-values", "what": "res%d: values in the file differ from the values written" % j, "replay": wreplay})
                    if numpy.issubdtype(wv.dtype, numpy.integer) != numpy.issubdtype(a.dtype, numpy.integer):
                        fails.append({"sig": "C18:write-kind", "what": "res%d of dtype %s stored as %s" % (j, a.dtype, wv.dtype), "replay": wreplay})
            for (d0, m0), a in zip(snaps, arrays):
                if not (numpy.array_equal(numpy.ma.getmaskarray(a), m0) and numpy.array_equal(numpy.ma.getdata(a)[~m0], d0[~m0])):
                    fails.append({"sig": "C18:write-corrupts-input", "what": "writing changed one of the results it was given", "replay": wreplay})
            # read back through EEMSRead
            for j, a in enumerate(arrays):
                isint = numpy.issubdtype(a.dtype, numpy.integer)
                o = run_read(wd, outp, "res%d" % j, "Integer" if isint else ("Fuzzy" if fuzzy[j] else None), None)
                dist["roundtrips"] += 1
                evaluations += 1
                if o[0] != "ok":
                    fails.append({"sig": "C18:roundtrip-fails", "what": "reading back res%d failed: %s %s" % (j, o[1], o[2][:100]), "replay": wreplay})
                    continue
                b = o[1]
                ok = b.shape == shape and numpy.ma.getmaskarray(b).tolist() == union.tolist() and numpy.array_equal(numpy.ma.getdata(b)[~union], numpy.ma.getdata(a)[~union]) \
                    and numpy.issubdtype(b.dtype, numpy.integer) == isint
                if not ok:
                    fails.append({"sig": "C18:roundtrip", "what": "res%d read back as shape %r dtype %s missing %r values %r" % (
                        j, b.shape, b.dtype, numpy.ma.getmaskarray(b).reshape(-1).tolist(), numpy.ma.getdata(b).reshape(-1).tolist()[:8]), "replay": wreplay})
            if len(written) == len(arrays):
                wcases.append("(%s, %s)" % (clist([c_cells(a) for a in arrays], ";\n    "), clist([c_cells(numpy.ma.array(numpy.ma.getdata(w).astype(a.dtype), mask=numpy.ma.getmaskarray(w))) for w, a in zip(written, arrays)], ";\n    ")))
                wdescr.append(wreplay)
    files = []
    CH = 200
    for i in range(0, len(rcases), CH):
        path = os.path.join(os.getcwd(), "Cases_C18r_%03d.v" % (i // CH))
        with open(path, "w") as fh:
            fh.write("From Coq Require Import String List Bool ZArith QArith.\nFrom MP Require Import Base.Check Model.Params Model.Csv Model.Netcdf Corr.CheckNetcdf.\n"
                     "Import ListNotations.\nOpen Scope string_scope.\n"
                     "Definition cases : list (option nvar * ntype * option Q * nres) := [\n  %s\n].\n"
                     "Eval vm_compute in (failing check_nread cases).\n" % ";\n  ".join(rcases[i:i + CH]))
        files.append({"path": path, "first": i, "count": len(rcases[i:i + CH])})
    base = len(rcases)
    for i in range(0, len(wcases), CH):
        path = os.path.join(os.getcwd(), "Cases_C18w_%03d.v" % (i // CH))
        with open(path, "w") as fh:
            fh.write("From Coq Require Import String List Bool ZArith QArith.\nFrom MP Require Import Base.Check Model.Params Model.Csv Model.Netcdf Corr.CheckNetcdf.\n"
                     "Import ListNotations.\nOpen Scope string_scope.\n"
                     "Definition cases : list (list (list ocell) * list (list ocell)) := [\n  %s\n].\n"
                     "Eval vm_compute in (failing check_nwrite cases).\n" % ";\n  ".join(wcases[i:i + CH]))
        files.append({"path": path, "first": base + i, "count": len(wcases[i:i + CH])})
    descr = rdescr + wdescr
    json.dump({"files": files, "descr": descr, "oracle_failures": fails, "distribution": dist, "evaluations": evaluations,
               "distinct_nontrivial": nontrivial, "samples": descr[:1] + descr[-2:], "tree": mpilot.__file__}, open(out, "w"), default=str)


main()
