"""GenCellFacts.v: facts about the EEMS data commands read off the AST of the snapshot sources (fail-closed).

 * fuzzy_returns: for every command class of basic.py / fuzzy.py whose class body sets is_fuzzy = True, the
   classification of every `return` of its execute(): RClamp lo hi for `return insure_fuzzy(<e>, LO, HI)` where LO/HI
   are module-level integer constants (or literals), ROther otherwise.
 * clamp_body: whether utils.insure_fuzzy is the two in-place assignments `arr[arr > hi] = hi; arr[arr < lo] = lo`
   (followed only by the fill-value housekeeping under the mask and `return arr`).
 * command names by fuzziness (class attribute as written in the source).
"""
import ast
import os

from coqfmt import cstr, clist, cZ


def _consts(tree):
    env = {}
    for node in tree.body:
        if isinstance(node, ast.Assign) and len(node.targets) == 1 and isinstance(node.targets[0], ast.Name):
            v = node.value
            if isinstance(v, ast.UnaryOp) and isinstance(v.op, ast.USub) and isinstance(v.operand, ast.Constant) \
                    and type(v.operand.value) is int:
                env[node.targets[0].id] = -v.operand.value
            elif isinstance(v, ast.Constant) and type(v.value) is int:
                env[node.targets[0].id] = v.value
    return env


def _intval(node, env):
    if isinstance(node, ast.Name) and node.id in env:
        return env[node.id]
    if isinstance(node, ast.Constant) and type(node.value) is int:
        return node.value
    if isinstance(node, ast.UnaryOp) and isinstance(node.op, ast.USub) and isinstance(node.operand, ast.Constant) \
            and type(node.operand.value) is int:
        return -node.operand.value
    return None


def _class_fuzzy(cls):
    """is_fuzzy as assigned in the class body (None when absent)"""
    val = None
    for st in cls.body:
        if isinstance(st, ast.Assign) and any(isinstance(t, ast.Name) and t.id == "is_fuzzy" for t in st.targets):
            val = st.value.value if isinstance(st.value, ast.Constant) and isinstance(st.value.value, bool) else "unknown"
    return val


def _returns(fn):
    """every return of the function, with the value it returns: `x = <call>; return x` (the name untouched in between, same
    block) is read as `return <call>`"""
    out = []

    def mentions(stmt, name):
        return any(isinstance(n, ast.Name) and n.id == name for n in ast.walk(stmt))

    def resolve(ret, block, idx):
        v = ret.value
        if isinstance(v, ast.Name):
            for j in range(idx - 1, -1, -1):
                st = block[j]
                if isinstance(st, ast.Assign) and len(st.targets) == 1 and isinstance(st.targets[0], ast.Name) and st.targets[0].id == v.id:
                    return st.value
                if mentions(st, v.id):
                    break
        return v

    def walk_block(block):
        for idx, st in enumerate(block):
            if isinstance(st, (ast.FunctionDef, ast.ClassDef)):
                continue
            if isinstance(st, ast.Return):
                out.append(resolve(st, block, idx))
            for field in ("body", "orelse", "finalbody"):
                sub = getattr(st, field, None)
                if isinstance(sub, list):
                    walk_block(sub)
            for h in getattr(st, "handlers", []) or []:
                walk_block(h.body)
    walk_block(fn.body)
    return out


def _classify_return(v, env):
    if isinstance(v, ast.Call) and isinstance(v.func, ast.Name) and v.func.id == "insure_fuzzy" and len(v.args) == 3 \
            and not v.keywords:
        lo, hi = _intval(v.args[1], env), _intval(v.args[2], env)
        if lo is not None and hi is not None:
            return "(RClamp %s %s)" % (cZ(lo), cZ(hi))
    return "(ROther %s)" % cstr(ast.unparse(v)[:60].replace("\n", " ") if v is not None else "None")


def _is_cmp_index(target, arr, op, bound):
    # arr[arr <op> bound]
    return (isinstance(target, ast.Subscript) and isinstance(target.value, ast.Name) and target.value.id == arr
            and isinstance(target.slice, ast.Compare) and len(target.slice.ops) == 1
            and isinstance(target.slice.ops[0], op) and isinstance(target.slice.left, ast.Name)
            and target.slice.left.id == arr and isinstance(target.slice.comparators[0], ast.Name)
            and target.slice.comparators[0].id == bound)


def clamp_body(utils_tree):
    for node in utils_tree.body:
        if isinstance(node, ast.FunctionDef) and node.name == "insure_fuzzy":
            args = [a.arg for a in node.args.args]
            if len(args) != 3:
                return "ClampUnknown"
            arr, lo, hi = args
            body = [s for s in node.body if not (isinstance(s, ast.Expr) and isinstance(s.value, ast.Constant))]
            if len(body) < 3:
                return "ClampUnknown"
            s1, s2 = body[0], body[1]
            ok1 = (isinstance(s1, ast.Assign) and len(s1.targets) == 1 and _is_cmp_index(s1.targets[0], arr, ast.Gt, hi)
                   and isinstance(s1.value, ast.Name) and s1.value.id == hi)
            ok2 = (isinstance(s2, ast.Assign) and len(s2.targets) == 1 and _is_cmp_index(s2.targets[0], arr, ast.Lt, lo)
                   and isinstance(s2.value, ast.Name) and s2.value.id == lo)
            last = body[-1]
            ok3 = isinstance(last, ast.Return) and isinstance(last.value, ast.Name) and last.value.id == arr
            # what lies between may only touch arr.data under arr.mask (fill-value housekeeping)
            mid_ok = True
            for s in body[2:-1]:
                txt = ast.unparse(s)
                if not (isinstance(s, ast.If) and txt.replace(" ", "").replace("\n", "") ==
                        "ifis_masked(%s):%s.data[%s.mask]=%s.fill_value" % (arr, arr, arr, arr)):
                    mid_ok = False
            return "ClampHiThenLo" if (ok1 and ok2 and ok3 and mid_ok) else "ClampUnknown"
    return "ClampUnknown"


def generate(snap):
    base = os.path.join(snap, "mpilot")
    trees = {}
    for rel in ("libraries/eems/basic.py", "libraries/eems/fuzzy.py", "utils.py"):
        with open(os.path.join(base, rel)) as fh:
            trees[rel] = ast.parse(fh.read())
    rows, fuzzy_names, plain_names = [], [], []
    for rel in ("libraries/eems/basic.py", "libraries/eems/fuzzy.py"):
        env = _consts(trees[rel])
        for node in trees[rel].body:
            if not isinstance(node, ast.ClassDef):
                continue
            fzflag = _class_fuzzy(node)
            ex = [s for s in node.body if isinstance(s, ast.FunctionDef) and s.name == "execute"]
            if fzflag is True:
                fuzzy_names.append(node.name)
                if len(ex) != 1:
                    rows.append("(%s, [ROther %s])" % (cstr(node.name), cstr("no own execute")))
                else:
                    rets = _returns(ex[0])
                    rows.append("(%s, %s)" % (cstr(node.name), clist([_classify_return(r, env) for r in rets] or
                                                                   ['(ROther "falls off the end")'])))
            elif fzflag == "unknown":
                fuzzy_names.append(node.name)
                rows.append("(%s, [ROther %s])" % (cstr(node.name), cstr("is_fuzzy not a literal")))
            elif ex:
                plain_names.append(node.name)
    out = ["(* GENERATED by drivers/gen_cellfacts.py from the /repo snapshot -- do not edit *)",
           "From Coq Require Import String List ZArith.", "Import ListNotations.", "Open Scope string_scope.", "",
           "Inductive ret_kind := RClamp (lo hi : Z) | ROther (text : string).",
           "Inductive clamp_kind := ClampHiThenLo | ClampUnknown.", "",
           "(* every `return` of execute() of the classes declaring is_fuzzy = True *)",
           "Definition fuzzy_returns : list (string * list ret_kind) := %s." % clist(rows, ";\n  "),
           "(* mpilot.utils.insure_fuzzy *)",
           "Definition clamp_body : clamp_kind := %s." % clamp_body(trees["utils.py"]),
           "Definition src_fuzzy_classes : list string := %s." % clist([cstr(n) for n in sorted(fuzzy_names)]),
           "Definition src_plain_classes : list string := %s." % clist([cstr(n) for n in sorted(plain_names)])]
    return "\n".join(out) + "\n"
