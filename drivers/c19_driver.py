"""C19 driver: command lookup depends only on the libraries requested.
usage: c19_driver.py <out.json> <n_histories>
Each history runs in a fresh subprocess (the registry is process-global)."""
import json
import os
import random
import subprocess
import sys
import itertools
from concurrent.futures import ThreadPoolExecutor

import mpilot
from coqfmt import cstr, clist, copt

assert os.path.abspath(mpilot.__file__).startswith(os.path.abspath(os.environ["VERIF_SNAP"])), mpilot.__file__
HERE = os.path.dirname(os.path.abspath(__file__))

LIBSRC = {
    "lib_a.py": "from mpilot.commands import Command\nclass CmdA(Command):\n    pass\nclass Shared(Command):\n    pass\n",
    "lib_ab.py": "from mpilot.commands import Command\nclass CmdAB(Command):\n    pass\nclass Shared(Command):\n    pass\n",
    "lib_c.py": "import lib_a\nfrom mpilot.commands import Command\nclass CmdC(Command):\n    pass\n",
    "pkg_x/__init__.py": "",
    "pkg_x/one.py": "from mpilot.commands import Command\nclass CmdOne(Command):\n    pass\n",
    "pkg_x/two.py": "from mpilot.commands import Command\nclass CmdTwo(Command):\n    name = 'Two'\n",
    "pkg_x/sub/__init__.py": "",
    "pkg_x/sub/deep.py": "from mpilot.commands import Command\nclass CmdDeep(Command):\n    pass\n",
    "lib_sub.py": "from mpilot.libraries.eems import basic\nclass Sum(basic.Sum):\n    pass\nclass CmdSub(basic.Copy):\n    pass\n",
    # a package one of whose modules cannot be imported until a settings file exists
    "pkg_f/__init__.py": "",
    "pkg_f/a_first.py": "from mpilot.commands import Command\nclass CmdFa(Command):\n    pass\n",
    "pkg_f/m_needs_settings.py": "import os\nfrom mpilot.commands import Command\nif not os.path.exists(os.path.join(os.path.dirname(os.path.dirname(__file__)), 'pkg_f_settings')):\n    raise RuntimeError('settings file missing')\nclass CmdFm(Command):\n    pass\n",
    "pkg_f/z_last.py": "from mpilot.commands import Command\nclass CmdFz(Command):\n    pass\n",
    "pkg_xy.py": "from mpilot.commands import Command\nclass CmdXY(Command):\n    pass\nclass CmdOne(Command):\n    pass\n",
}
USER = ["lib_a", "lib_ab", "lib_c", "pkg_x", "pkg_x.one", "pkg_x.sub", "pkg_xy", "lib_sub"]
BUILTIN = ["mpilot.libraries.eems.basic", "mpilot.libraries.eems.csv", "mpilot.libraries.eems.netcdf",
           "mpilot.libraries.eems.fuzzy", "mpilot.libraries.eems"]
DYN_MODULES = ["dyn_mod", "lib_a_dyn", "lib", "pkg_xyz", "mpilot.libraries.eems.basic_extra", "pkg"]
DYN_NAMES = ["Dyn", "Shared", "CmdA", "Sum", "CmdOne"]


def child(libdir, hist):
    env = dict(os.environ)
    p = subprocess.run([sys.executable, os.path.join(HERE, "c19_child.py"), libdir, json.dumps(hist)],
                       stdout=subprocess.PIPE, stderr=subprocess.PIPE, universal_newlines=True, env=env, timeout=300)
    if p.returncode != 0:
        return {"out": [["crash", p.stderr[-300:]]]}
    return json.loads(p.stdout.strip().splitlines()[-1])


def rlibs(rnd):
    k = rnd.random()
    if k < 0.45:
        return rnd.sample(USER, rnd.randint(1, 3))
    if k < 0.7:
        return rnd.sample(BUILTIN[:4], rnd.randint(1, 3))
    if k < 0.8:
        return [rnd.choice(BUILTIN)]
    return rnd.sample(USER, rnd.randint(1, 2)) + rnd.sample(BUILTIN[:4], 1)


def rhistory(rnd):
    h = []
    for _ in range(rnd.randint(0, 4)):
        k = rnd.random()
        if k < 0.6:
            h.append(["program", rlibs(rnd)])
        elif k < 0.72:
            h.append(["define", rnd.choice(DYN_MODULES), rnd.choice(DYN_NAMES)])
        elif k < 0.8:   # ... a class that extends the registered command whose name it takes (defining a class is not requesting a library)
            h.append(["import", rnd.choice(["mpilot.libraries.eems.basic", "lib_a", "pkg_x.one"])])
            h.append(["define", rnd.choice(DYN_MODULES), rnd.choice(DYN_NAMES), "sub"])
        else:
            h.append(["import", rnd.choice(USER + BUILTIN[:4])])
    return h


def c_event(ev):
    if ev[0] == "define":
        return "EDefine (%s, %s)" % (cstr(ev[1]), cstr(ev[2]))
    if ev[0] == "program":
        return "EConstruct %s []" % clist([cstr(x) for x in ev[1]])
    return "EConstruct %s []" % clist([cstr(ev[1])])


def c_obs(o):
    if o[0] == "ok":
        return "(Some %s)" % clist(["(%s, %s)" % (cstr(m), cstr(n)) for n, m in o[1]])
    return "None"


def main():
    out, n = sys.argv[1], int(sys.argv[2])
    seed = int(os.environ.get("VERIF_SEED", "0"))
    rnd = random.Random(seed * 104729 + 19)
    libdir = os.path.join(os.getcwd(), "c19libs")
    for rel, src in LIBSRC.items():
        p = os.path.join(libdir, rel)
        os.makedirs(os.path.dirname(p), exist_ok=True)
        with open(p, "w") as fh:
            fh.write(src)
    # the static universe U: every command class of every importable source file used here
    u = child(libdir, [["program", [m]] for m in USER] + [["program", [b]] for b in BUILTIN[:4]] + [["dump"]])
    U = u["out"][-1][1]
    # corpus first: the prefix-related witnesses of the design, then fixed interesting targets, then random
    jobs = []
    corpus = [
        ([["program", ["lib_ab"]]], ["lib_a"]),
        ([["program", ["lib_ab"]], ["program", ["lib_c"]]], ["lib_a"]),
        ([["import", "lib_ab"]], ["lib_a"]),
        ([["program", ["pkg_xy"]]], ["pkg_x"]),
        ([["program", ["pkg_x"]]], ["pkg_xy"]),
        ([["program", ["pkg_x"]]], ["pkg_x.one"]),
        ([["program", ["mpilot.libraries.eems.netcdf"]]], ["mpilot.libraries.eems.basic", "mpilot.libraries.eems.csv", "mpilot.libraries.eems.fuzzy"]),
        ([["program", ["mpilot.libraries.eems.csv"]]], ["mpilot.libraries.eems.basic", "mpilot.libraries.eems.netcdf", "mpilot.libraries.eems.fuzzy"]),
        ([], ["lib_a", "lib_ab"]),
        ([["program", ["lib_a"]]], ["lib_a", "lib_ab"]),
        ([], ["pkg_x", "pkg_xy"]),
        ([], ["mpilot.libraries.eems"]),
        ([["define", "lib_a_dyn", "Shared"]], ["lib_a"]),
        ([["define", "dyn_mod", "Sum"]], ["mpilot.libraries.eems.basic"]),
        ([["define", "mpilot.libraries.eems.basic_extra", "Sum"]], ["mpilot.libraries.eems.basic"]),
        ([["import", "mpilot.libraries.eems.basic"], ["define", "dyn_mod", "Sum", "sub"]], ["mpilot.libraries.eems.basic", "mpilot.libraries.eems.fuzzy"]),
        ([["import", "lib_a"], ["define", "lib_a_dyn", "Shared", "sub"]], ["lib_a"]),
        ([["import", "lib_sub"]], ["mpilot.libraries.eems.basic"]),
        ([["program", ["lib_sub"]]], ["mpilot.libraries.eems.basic", "mpilot.libraries.eems.csv"]),
        ([], ["lib_sub", "mpilot.libraries.eems.basic"]),
    ]
    for h, libs in corpus:
        jobs.append((h, libs))
    while len(jobs) < n:
        jobs.append((rhistory(rnd), rlibs(rnd)))
    baselines = {}
    for h, libs in jobs:
        baselines.setdefault(tuple(libs), None)
    # "not by other programs created earlier": histories in which a command class appears INSIDE a requested library after a
    # program was built (a plug-in registering late, a class defined in a notebook), each run with and without its earlier
    # Program constructions; the two final look-ups must agree
    LATE = [("lib_a", "Late"), ("lib_a", "Sum"), ("pkg_x.one", "LateOne"), ("lib_ab", "Late")]
    pjobs = []
    for _ in range(max(12, n // 6)):
        mod, nm = rnd.choice(LATE)
        libs = [mod.split(".")[0]] if rnd.random() < 0.5 else [mod]
        pre = [["program", list(libs)]] + ([["program", rlibs(rnd)]] if rnd.random() < 0.4 else [])
        h = pre + [["define", mod, nm]] + ([["program", list(libs)]] if rnd.random() < 0.3 else [])
        pjobs.append((h, libs))
    # a project folder that is NOT on the import path holds a library of its own; a Program constructed with that folder as its
    # working_dir must not make the library available to later programs of the process
    projdir = os.path.join(os.path.dirname(libdir), "c19proj")
    os.makedirs(projdir, exist_ok=True)
    with open(os.path.join(projdir, "only_here.py"), "w") as fh:
        fh.write("from mpilot.commands import Command\nclass CmdOnlyHere(Command):\n    pass\n")
    wjobs = [([["program_wd", ["lib_a"], "c19proj"]], ["only_here"]),
             ([["program_wd", ["mpilot.libraries.eems.basic"], "c19proj"], ["program", ["lib_a"]]], ["only_here", "lib_a"]),
             ([["program_wd", ["lib_a"], "c19proj"]], ["lib_a"])]
    # a library whose import fails, is repaired and is requested again in the same process: the request gives what it gives in a
    # fresh process in which the repair has already happened
    fjobs = []
    for libs in (["pkg_f"], ["pkg_f", "lib_a"], ["pkg_f.m_needs_settings"], ["pkg_f"]):
        pre = [["program", list(libs)]] + ([["program", ["pkg_f.a_first"]]] if rnd.random() < 0.5 else [])
        fjobs.append((pre + [["touch", "pkg_f_settings"]], libs))
    with ThreadPoolExecutor(max_workers=16) as ex:
        res = list(ex.map(lambda j: child(libdir, j[0] + [["program", j[1]]]), jobs))
        pres = list(ex.map(lambda j: (child(libdir, j[0] + [["program", j[1]]]),
                                      child(libdir, [e for e in j[0] if e[0] != "program"] + [["program", j[1]]])), pjobs))
        wres = list(ex.map(lambda j: (child(libdir, j[0] + [["program", j[1]]]), child(libdir, [["program", j[1]]])), wjobs))
        fres = []
        for h, libs in fjobs:      # sequential: they create and remove the settings file in the shared library folder
            a = child(libdir, h + [["program", libs]])
            os.remove(os.path.join(libdir, "pkg_f_settings"))
            b = child(libdir, [["touch", "pkg_f_settings"], ["program", libs]])
            os.remove(os.path.join(libdir, "pkg_f_settings"))
            fres.append((a, b))
        bkeys = sorted(baselines)
        bres = list(ex.map(lambda libs: child(libdir, [["program", list(libs)]]), bkeys))
    for k, r in zip(bkeys, bres):
        baselines[k] = r["out"][-1]
    cases, fails, descr = [], [], []
    dist = {"histories": len(jobs), "events": {}, "final_outcomes": {}, "distinct_final_libs": len(bkeys)}
    seen, nontrivial = set(), 0

    def related(libs_all):
        for a, b in itertools.permutations(set(libs_all), 2):
            if b.startswith(a):
                return True
        return False

    for (h, libs), r in zip(jobs, res):
        obs = r["out"][-1]
        for ev in h:
            dist["events"][ev[0]] = dist["events"].get(ev[0], 0) + 1
        dist["final_outcomes"][obs[0]] = dist["final_outcomes"].get(obs[0], 0) + 1
        if obs[0] in ("error", "crash"):
            fails.append({"sig": "C19:unexpected:%s" % obs[1][:40], "what": "Program(%r) after history %r raised %s" % (libs, h, obs[1]),
                          "replay": {"history": h, "libraries": libs}})
            continue
        cases.append("(%s, %s, %s)" % (clist([c_event(e) for e in h]), clist([cstr(x) for x in libs]), c_obs(obs)))
        descr.append({"history": h, "libraries": libs, "observed": obs})
        key = json.dumps([h, libs])
        allnames = list(libs) + [x for ev in h for x in (ev[1] if ev[0] == "program" else [ev[1]])]
        if key not in seen:
            seen.add(key)
            if len(h) + 1 >= 2 and (related(allnames) or obs[0] == "dup"):
                nontrivial += 1
        base = baselines[tuple(libs)]
        if base != obs:
            fails.append({"sig": "C19:history-dependent",
                          "what": "Program(libraries=%r) gives %s in a fresh process but %s after the history %r" % (
                              libs, short(base), short(obs), h),
                          "replay": {"history": h, "libraries": libs, "fresh": base, "after_history": obs}})
    for (h, libs), (with_p, without_p) in zip(pjobs, pres):
        a, b = with_p["out"][-1], without_p["out"][-1]
        dist["events"]["late-definition histories"] = dist["events"].get("late-definition histories", 0) + 1
        if a != b:
            fails.append({"sig": "C19:history-dependent",
                          "what": "Program(libraries=%r) gives %s after the history %r but %s when the earlier Program constructions are left out of that history" % (
                              libs, short(a), h, short(b)),
                          "replay": {"history": h, "libraries": libs, "after_history": a, "without_earlier_programs": b}})
    for (h, libs), (a, b) in zip(wjobs, wres):
        oa, ob = a["out"][-1], b["out"][-1]
        oa, ob = [oa[0], oa[1] if oa[0] != "error" else oa[1].split(":")[0]], [ob[0], ob[1] if ob[0] != "error" else ob[1].split(":")[0]]
        dist["events"]["working_dir histories"] = dist["events"].get("working_dir histories", 0) + 1
        if oa != ob:
            fails.append({"sig": "C19:history-dependent",
                          "what": "Program(libraries=%r) gives %s after a Program was constructed with working_dir=c19proj, but %s in a fresh process" % (libs, short(oa), short(ob)),
                          "replay": {"history": h, "libraries": libs, "after_history": oa, "fresh": ob}})
    for (h, libs), (a, b) in zip(fjobs, fres):
        oa, ob = a["out"][-1], b["out"][-1]
        dist["events"]["failed-import histories"] = dist["events"].get("failed-import histories", 0) + 1
        if oa != ob:
            fails.append({"sig": "C19:history-dependent",
                          "what": "Program(libraries=%r) gives %s after a first request failed on a missing settings file that was then created, but %s in a fresh process with the settings file in place" % (libs, short(oa), short(ob)),
                          "replay": {"history": h, "libraries": libs, "after_history": oa, "fresh": ob}})
    # requesting libraries that define the same command name must fail at construction
    for libs, must in ((("lib_a", "lib_ab"), "dup"), (("pkg_x", "pkg_xy"), "dup"), (("mpilot.libraries.eems",), "dup"), (("lib_sub", "mpilot.libraries.eems.basic"), "dup")):
        b = baselines.get(libs)
        if b is not None and b[0] != must:
            fails.append({"sig": "C19:duplicate-accepted", "what": "Program(libraries=%r) did not fail although two libraries define the same command name: %s" % (libs, short(b)),
                          "replay": {"history": [], "libraries": list(libs)}})
    path = os.path.join(os.getcwd(), "Cases_C19_000.v")
    with open(path, "w") as fh:
        fh.write("From Coq Require Import String List Bool.\n"
                 "From MP Require Import Base.Check Model.Registry Gen.GenFacts.\nImport ListNotations.\nOpen Scope string_scope.\n"
                 "Definition U : list entry := %s.\n"
                 "Definition cases : list (list event * list string * option (list entry)) := [\n  %s\n].\n"
                 "Eval vm_compute in (failing (fun c => match c with (h, libs, obs) => "
                 "same_lib (construct U lib_filter_kind (run U h) libs []) obs end) cases).\n"
                 % (clist(["(%s, %s)" % (cstr(m), cstr(nm)) for m, nm in U], sep=";\n  "), ";\n  ".join(cases)))
    json.dump({"files": [{"path": path, "first": 0, "count": len(cases)}], "descr": descr, "oracle_failures": fails,
               "distribution": dist, "evaluations": len(jobs) + len(bkeys), "distinct_nontrivial": nontrivial,
               "samples": descr[:2] + descr[len(corpus):len(corpus) + 1], "universe_size": len(U), "tree": u.get("tree")}, open(out, "w"))


def short(o):
    if o[0] == "ok":
        return "ok(%d commands: %s)" % (len(o[1]), ",".join("%s<-%s" % (n, m) for n, m in o[1][:4]))
    return "%s(%s)" % (o[0], str(o[1])[:80])


main()
