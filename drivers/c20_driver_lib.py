"""Coq printers for raw parameter values (shared by the C20 and the loader drivers)."""
import math
from fractions import Fraction as Fr

import numpy

from mpilot.commands import Command
from coqfmt import cstr, clist, cbool, copt, cZ, cQ
import gen_sigs


def printable(s):
    return all(32 <= ord(c) < 127 for c in s)


def c_fnum(x):
    if math.isnan(x):
        return "FNaN"
    if math.isinf(x):
        return "FInf" if x > 0 else "FNInf"
    return "(FFin %s)" % cQ(Fr(x))


def c_raw(v):
    if isinstance(v, bool):
        return "(RBool %s)" % cbool(v)
    if isinstance(v, int):
        return "(RInt %s)" % cZ(v)
    if isinstance(v, float):
        return "(RFloat %s %s)" % (c_fnum(v), cstr(str(v)))
    if isinstance(v, str):
        if not printable(v):
            raise ValueError("unprintable")
        try:
            i = cZ(int(v))
        except ValueError:
            i = None
        try:
            f = c_fnum(float(v))
        except ValueError:
            f = None
        return "(RStr %s %s %s)" % (cstr(v), copt(i), copt(f))
    if isinstance(v, tuple) and len(v) == 0:
        return "RTuple0"
    if isinstance(v, (list, tuple)):
        return "(RList %s)" % clist([c_raw(x) for x in v])
    if isinstance(v, dict):
        return "(RDict %s)" % clist(["(%s, %s)" % (cstr(str(k)), c_raw(x)) for k, x in v.items()])
    if isinstance(v, Command):
        return "(RCmd %s)" % cstr(v.result_name)
    if isinstance(v, type):
        return "(RType %s)" % cstr(gen_sigs.tyname(v))
    if isinstance(v, numpy.ndarray):
        return "RData"
    if v is None:
        return "RNone"
    raise ValueError("unprintable %r" % type(v))


