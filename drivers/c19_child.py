"""One process-history for C19.  argv: <libdir> <history json>; prints one JSON line per Program construction."""
import json
import os
import sys
import warnings

warnings.simplefilter("ignore")
libdir, hist = sys.argv[1], json.loads(sys.argv[2])
sys.path.insert(0, libdir)
import importlib  # noqa: E402
import mpilot  # noqa: E402
from mpilot.commands import Command  # noqa: E402
from mpilot.exceptions import MPilotError  # noqa: E402
from mpilot.program import Program  # noqa: E402

out = []
for ev in hist:
    if ev[0] == "define":
        try:
            bases = (Command,)
            if len(ev) > 3:     # a class that extends an already registered command of the same name
                cands = [i.command for i in Command.get_commands() if i.command.name == ev[2]]
                bases = (cands[0],) if cands else bases
            type(str(ev[2]), bases, {"__module__": ev[1], "execute": lambda self, **kw: None})
            out.append(["defined"])
        except Exception as ex:
            out.append(["define-error", type(ex).__name__])
    elif ev[0] == "import":
        try:
            importlib.import_module(ev[1])
            out.append(["imported"])
        except Exception as ex:
            out.append(["import-error", type(ex).__name__])
    elif ev[0] == "program":
        try:
            p = Program(libraries=tuple(ev[1]))
            out.append(["ok", sorted([k, v.__module__] for k, v in p.command_library.items())])
        except MPilotError as ex:
            msg = str(ex)
            names = sorted(x.strip() for x in msg.split(":", 1)[1].split(",")) if ":" in msg else [msg[:100]]
            out.append(["dup", names])   # canonical: the set order of the message is not part of the behaviour
        except Exception as ex:
            out.append(["error", type(ex).__name__ + ": " + str(ex)[:200]])
    elif ev[0] == "program_wd":     # a Program constructed with the (rarely used) working_dir parameter
        try:
            p = Program(libraries=tuple(ev[1]), working_dir=os.path.join(os.path.dirname(libdir), ev[2]))
            out.append(["ok", sorted([k, v.__module__] for k, v in p.command_library.items())])
        except MPilotError as ex:
            out.append(["dup", [str(ex)[:100]]])
        except Exception as ex:
            out.append(["error", type(ex).__name__])
    elif ev[0] == "touch":          # the cause of an import failure is repaired (a settings file appears)
        open(os.path.join(libdir, ev[1]), "w").close()
        out.append(["touched"])
    elif ev[0] == "dump":
        out.append(["registry", sorted([i.module, i.command.name] for i in Command.get_commands())])
print(json.dumps({"tree": mpilot.__file__, "out": out}))
