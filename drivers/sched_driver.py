"""Scheduler driver for C01 / C02 (abstract part) / C14.
usage: sched_driver.py <out.json> <mode> <n>      mode: dag | cyc
Programs over the probe library verif_cmds (execute logs entry/exit and object identities) are rendered as
command files in a random file order, loaded by Program.from_source and run; a history of further run() /
.result accesses follows.  Output: Coq case files for Corr/CheckSched.v + property-oracle failures."""
import itertools
import json
import os
import random
import sys

import mpilot
from mpilot.program import Program
from mpilot.exceptions import MPilotError, RecursiveModelStructure, ResultDoesNotExist, UnexpectedError
from coqfmt import clist, cbool, copt, cZ, cnat

assert os.path.abspath(mpilot.__file__).startswith(os.path.abspath(os.environ["VERIF_SNAP"])), mpilot.__file__
from verif_cmds import probe  # noqa: E402

M = probe.M


# ---------- abstract graphs ----------
# node i: list of args, each ("D", t) | ("L", [t..]) | ("N", nested lists of t)
def flat(x):
    if isinstance(x, list):
        for y in x:
            for z in flat(y):
                yield z
    else:
        yield x


def rl_of(args):
    out = []
    for kind, v in args:
        if kind == "D":
            out.append((True, v))
        else:
            out.extend((False, t) for t in flat(v))
    return out


def render_val(v):
    if isinstance(v, list):
        return "[" + ", ".join(render_val(x) for x in v) + "]"
    return "r%d" % v


def render(graph, order):
    lines = []
    for i in order:
        parts = ["Id = %d" % i]
        slots = {"D": 0, "L": 0, "N": 0}
        for kind, v in graph[i]:
            slots[kind] += 1
            parts.append("%s%d = %s" % (kind, slots[kind], render_val(v)))
        lines.append("r%d = Probe(%s)" % (i, ", ".join(parts)))
    return "\n".join(lines)


def random_dag(rnd, n):
    """acyclic: node i may reference only nodes with a smaller topological index (labels shuffled)"""
    topo = list(range(n))
    rnd.shuffle(topo)
    graph = {}
    for pos, i in enumerate(topo):
        args = []
        pool = topo[:pos]
        if pool:
            nd = rnd.choice([0, 0, 1, 1, 2, 3])
            for _ in range(min(nd, 5)):
                args.append(("D", rnd.choice(pool)))
            if rnd.random() < 0.5:
                args.append(("L", [rnd.choice(pool) for _ in range(rnd.randint(0, 4))]))
            if rnd.random() < 0.2:
                args.append(("L", [rnd.choice(pool) for _ in range(rnd.randint(1, 3))]))
            if rnd.random() < 0.3:
                args.append(("N", [[rnd.choice(pool) for _ in range(rnd.randint(0, 3))] for _ in range(rnd.randint(1, 3))]))
            rnd.shuffle(args)
        graph[i] = args
    return graph


def graph_from_edges(rnd, n, edges, kinds):
    """edges: set of (a, b) meaning a references b; kinds: 'direct' | 'list' | 'mixed'"""
    graph = {}
    for a in range(n):
        outs = [b for (x, b) in sorted(edges) if x == a]
        args = []
        lst = []
        nd = 0
        for b in outs:
            k = kinds if kinds != "mixed" else rnd.choice(["direct", "list"])
            if k == "direct" and nd < 5:
                args.append(("D", b))
                nd += 1
            else:
                lst.append(b)
        if lst and rnd.random() < 0.35:
            # the same result mentioned more than once in one list ([N, N, Back]): one reference as far as the graph is concerned
            lst = lst + [rnd.choice(lst) for _ in range(rnd.randint(1, 2))]
            rnd.shuffle(lst)
        if lst:
            args.append(("L", lst) if rnd.random() < 0.7 else ("N", [lst]))
        rnd.shuffle(args)
        graph[a] = args
    return graph


def has_cycle(n, graph):
    color = {}

    def dfs(u):
        color[u] = 1
        for _, t in rl_of(graph[u]):
            if color.get(t) == 1:
                return True
            if t not in color and dfs(t):
                return True
        color[u] = 2
        return False
    return any(u not in color and dfs(u) for u in range(n))


def on_cycle(n, graph, u):
    """u reaches u"""
    seen, stack = set(), [t for _, t in rl_of(graph[u])]
    while stack:
        x = stack.pop()
        if x == u:
            return True
        if x not in seen:
            seen.add(x)
            stack.extend(t for _, t in rl_of(graph[x]))
    return False


def ref_eval(n, graph, ids=None):
    """independent evaluation of an acyclic graph (ids: the Id argument of each command, by default its index)"""
    memo = {}
    ids = ids or {}

    def ev(u):
        if u not in memo:
            hs = [ev(t) for _, t in rl_of(graph[u])]
            k = ids.get(u, u)
            memo[u] = None if probe.returns_none(k) else probe.combine(k, [probe.NONE_H if h is None else h for h in hs])
        return memo[u]
    return {u: ev(u) for u in range(n)}


# ---------- observation ----------
def graph_arg_names(v):
    """an argument value with every Command object replaced by its result name"""
    if isinstance(v, (list, tuple)):
        return [graph_arg_names(x) for x in v]
    return getattr(v, "result_name", v)


def topo_order(rnd, graph):
    """a random order in which every command comes after the commands it references"""
    done, order, todo = set(), [], sorted(graph)
    while todo:
        ready = [i for i in todo if all(t in done for _, t in rl_of(graph[i]))]
        i = rnd.choice(ready)
        order.append(i)
        done.add(i)
        todo.remove(i)
    return order


def build_api(graph, order, by_object, keep=None):
    """the same program built in code with Program.add_command; a reference is given as the Command object itself or by name"""
    p = Program(libraries=("verif_cmds",))
    cls = p.find_command_class("Probe")
    text = ["p = Program(libraries=('verif_cmds',))"]
    k = [0]

    def ref(v):
        if isinstance(v, list):
            xs = [ref(x) for x in v]
            return [x[0] for x in xs], "[" + ", ".join(x[1] for x in xs) + "]"
        k[0] += 1
        if by_object[k[0] % len(by_object)]:
            return p.commands["r%d" % v], "p.commands['r%d']" % v
        return "r%d" % v, "'r%d'" % v
    for i in order:
        args, targs = {"Id": i}, ["'Id': %d" % i]
        slots = {"D": 0, "L": 0, "N": 0}
        for kind, v in graph[i]:
            slots[kind] += 1
            val, t = ref(v)
            args["%s%d" % (kind, slots[kind])] = val
            targs.append("'%s%d': %s" % (kind, slots[kind], t))
        p.add_command(cls, "r%d" % i, args)
        if keep is not None:
            keep.append((i, args))
        text.append("p.add_command(Probe, 'r%d', {%s})" % (i, ", ".join(targs)))
    return p, "\n".join(text)


def observe(graph, order, ops, by_object=None, flaky=(), replace=None, copied=False, twin=False):
    n = len(graph)
    src = render(graph, order)
    del probe.LOG[:]
    probe.FLAKY.clear()
    probe.FLAKY.update(flaky)
    obs = {"tag": 3, "rep": None, "vals": [], "enter": [], "exit": [], "after": 0, "detail": "", "identity_ok": True}
    try:
        if twin:
            # one model specification (the same argument dictionaries and LIST OBJECTS) applied to two programs: the first is run,
            # then the second is built from the very same containers and run; it is fed by its own commands
            kept = []
            p1, src = build_api(graph, order, [False], keep=kept)
            p1.run()
            del probe.LOG[:]
            p = Program(libraries=("verif_cmds",))
            for i, args in kept:
                p.add_command(p.find_command_class("Probe"), "r%d" % i, args)
            src += "\n# p.run(); then a second Program is built with add_command from the SAME argument dictionaries and list objects, and run"
        elif by_object is not None:
            p, src = build_api(graph, order, by_object)
        else:
            p = Program.from_source(src, libraries=("verif_cmds",))
    except Exception as ex:  # the generated programs are all loadable
        obs["detail"] = "load: %s" % type(ex).__name__
        return src, obs
    if replace is not None:
        # the model is edited through the API before it runs: one command is removed and added again under the same name with
        # another Id (so with another value); everything that refers to that name is fed by the new command
        e, new_id = replace
        old = p.commands["r%d" % e]
        args = {"Id": new_id}
        for a in old.arguments:
            if a.name != "Id":
                args[a.name] = graph_arg_names(a.value)
        del p.commands["r%d" % e]
        p.add_command(type(old), "r%d" % e, args)
        src += "\n# then, in code: del p.commands['r%d']; p.add_command(Probe, 'r%d', {'Id': %d, <the same references by name>})" % (e, e, new_id)
    p_orig = None
    if copied:
        # a deep copy of the program (a scenario variant) is run while the original stays alive and untouched
        import copy
        p_orig, p = p, copy.deepcopy(p)
        src += "\n# then, in code: variant = copy.deepcopy(p); variant.run()   (p itself is not run)"
    lines = {c.lineno: int(name[1:]) for name, c in p.commands.items()}
    old_limit = sys.getrecursionlimit()
    sys.setrecursionlimit(250 if n > 200 else 400)   # keeps the pinned tree's runaway recursion on cycles cheap to observe
    try:
        try:
            for attempt in range(len(flaky)):
                try:
                    p.run()
                    break
                except UnexpectedError:
                    obs["failed_runs"] = obs.get("failed_runs", 0) + 1      # a flaky command failed; run again
                    if "memo_after_first_failure" not in obs:
                        obs["memo_after_first_failure"] = [[int(k[1:]), (c._result.h if c._result is not None else -1)] for k, c in p.commands.items() if c.is_finished]
                        obs["first_failed"] = [int(e[1][1:]) for e in probe.LOG if e[0] == "failed"][0]
            if flaky:
                # the state a failed run leaves behind: which commands are finished, with which results (compared with the model's
                # run_program started from that partial state: C01_resume)
                obs["memo_before_last_run"] = [[int(k[1:]), (c._result.h if c._result is not None else -1)] for k, c in p.commands.items() if c.is_finished]
                mark = len(probe.LOG)
            p.run()
            obs["tag"] = 0
            if flaky:
                last = probe.LOG[mark:]
                obs["last_run_enter"] = [[i, sum(1 for e in last if e[0] == "enter" and e[1] == "r%d" % i)] for i in range(n)]
                obs["last_run_exit"] = [[i, sum(1 for e in last if e[0] == "exit" and e[1] == "r%d" % i)] for i in range(n)]
        except RecursiveModelStructure as ex:
            obs["tag"] = 2
            obs["rep"] = lines.get(ex.lineno)
            obs["detail"] = "RecursiveModelStructure line %r" % (ex.lineno,)
        except ResultDoesNotExist:
            obs["tag"] = 1
        except UnexpectedError as ex:
            obs["detail"] = "UnexpectedError(%s)" % type(ex.exc).__name__
        except MPilotError as ex:
            obs["detail"] = type(ex).__name__
        except BaseException as ex:
            obs["detail"] = "escaped %s" % type(ex).__name__
        log1 = list(probe.LOG)
        obs["original_touched"] = p_orig is not None and any(c.is_finished for c in p_orig.commands.values())
        obs["executed_at_run"] = len([e for e in log1 if e[0] == "enter"])
        obs["finished_flags"] = sorted(int(k[1:]) for k, c in p.commands.items() if c.is_finished)
        if obs["tag"] == 0:
            for kind in ("enter", "exit"):
                obs[kind] = [[i, sum(1 for e in log1 if e[0] == kind and e[1] == "r%d" % i)] for i in range(n)]
            obs["identity_ok"] = all(e[3] for e in log1 if e[0] == "consumed")
            obs["consumed"] = sorted(set((int(e[1][1:]), int(e[2][1:])) for e in log1 if e[0] == "consumed"))
            # exit of the producer precedes exit of the consumer
            pos = {e[1]: k for k, e in enumerate(log1) if e[0] == "exit"}
            obs["order_ok"] = all(("r%d" % b) in pos and ("r%d" % a) in pos and pos["r%d" % b] < pos["r%d" % a] for a, b in obs["consumed"])
            vals = {}
            for name, c in p.commands.items():
                vals[int(name[1:])] = c._result.h if c.is_finished and c._result is not None else None
            obs["vals"] = [[i, vals[i]] for i in range(n)]
            before = len(probe.LOG)
            ids = {name: id(c._result) for name, c in p.commands.items()}
            for o in ops:
                try:
                    if o[0] == "run":
                        p.run()
                    else:
                        p.commands["r%d" % o[1]].result
                except Exception as ex:
                    obs["detail"] += " history: %s" % type(ex).__name__
            obs["after"] = len([e for e in probe.LOG[before:] if e[0] in ("enter", "exit")])
            obs["same_objects_after"] = all(id(c._result) == ids[name] for name, c in p.commands.items())
    finally:
        sys.setrecursionlimit(old_limit)
    return src, obs


def c_prog(graph, order):
    return clist(["{| nm := %d; rl := %s |}" % (i, clist(["(%s, %d)" % (cbool(d), t) for d, t in rl_of(graph[i])]))
                  for i in order])


def c_case(graph, order, ops, obs):
    cops = clist(["OpRun" if o[0] == "run" else "OpResult %d" % o[1] for o in ops])
    pairs = lambda l: clist(["(%d, %d)" % (a, b) for a, b in l])
    vals = clist(["(%d, %s)" % (a, cZ(b if b is not None else -1)) for a, b in obs["vals"]])
    return "(%s, %s, {| o_tag := %d; o_rep := %s; o_vals := %s; o_enter := %s; o_exit := %s; o_after := %d |})" % (
        c_prog(graph, order), cops, obs["tag"], copt(None if obs["rep"] is None else str(obs["rep"])), vals,
        pairs(obs["enter"]), pairs(obs["exit"]), obs["after"])


def write_cases(prefix, cases, chunk=250):
    files = []
    for i in range(0, len(cases), chunk):
        path = os.path.join(os.getcwd(), "%s_%03d.v" % (prefix, i // chunk))
        with open(path, "w") as fh:
            fh.write("From Coq Require Import List ZArith Bool.\nFrom MP Require Import Base.Check Model.Sched Corr.CheckSched.\n"
                     "Import ListNotations.\nOpen Scope nat_scope.\n"
                     "Definition cases : list (prog * list op * obs) := [\n  %s\n].\n"
                     "Eval vm_compute in (failing check_case cases).\n" % ";\n  ".join(cases[i:i + chunk]))
        files.append({"path": path, "first": i, "count": len(cases[i:i + chunk])})
    return files


def main():
    out, mode, n = sys.argv[1], sys.argv[2], int(sys.argv[3])
    seed = int(os.environ.get("VERIF_SEED", "0"))
    rnd = random.Random(seed * 65537 + (1 if mode == "dag" else 14))
    tier = os.environ.get("VERIF_TIER", "quick")
    cases, descr, fails = [], [], []
    rcases, rdescr = [], []
    fcases, fdescr = [], []
    dist = {"programs": 0, "sizes": {}, "ref_kinds": {"direct": 0, "list": 0}, "history_ops": 0, "outcomes": {}}
    seen, nontrivial = set(), 0
    jobs = []
    if mode == "dag":
        # corpus: diamond, list-only reference, shared sub-result, nested list, forward references
        corpus = [
            {0: [], 1: [("D", 0)], 2: [("D", 0)], 3: [("D", 1), ("D", 2)]},
            {0: [], 1: [("L", [0, 0])], 2: [("L", [0]), ("D", 1)]},
            {0: [], 1: [], 2: [("N", [[0], [1, 0]])], 3: [("L", [2, 0]), ("D", 2)]},
            {0: [("D", 1)], 1: [("D", 2)], 2: [("D", 3)], 3: []},
            {0: [], 1: [("L", [0])], 2: [("L", [1])], 3: [("L", [2])]},
        ]
        for g in corpus:
            nn = len(g)
            for order in (list(range(nn)), list(reversed(range(nn)))):
                jobs.append((g, order, [("run",), ("result", 0), ("run",)]))
        while len(jobs) < n:
            nn = rnd.choice([1, 2, 3, 4, 5, 6, 7, 8, 9, 10, 12, 14])
            g = random_dag(rnd, nn)
            order = list(range(nn))
            rnd.shuffle(order)
            ops = [rnd.choice([("run",), ("result", rnd.randrange(nn))]) for _ in range(rnd.randint(0, 8))]
            jobs.append((g, order, ops))
            if rnd.random() < 0.25:  # the same graph built in code, references given as Command objects and/or names
                jobs.append((g, topo_order(rnd, g), ops, [rnd.random() < 0.6 for _ in range(7)]))
            if rnd.random() < 0.15 and nn >= 2:   # one or two commands fail the first time they execute; the model is run again
                jobs.append((g, order, ops, None, {"flaky": rnd.sample(range(nn), rnd.randint(1, min(2, nn)))}))
            if rnd.random() < 0.1:                # two programs built from the same argument containers
                jobs.append((g, topo_order(rnd, g), ops, None, {"twin": True}))
            if rnd.random() < 0.1:                # a deep copy of the program is run instead of the program
                jobs.append((g, order, ops, None, {"copied": True}))
            if rnd.random() < 0.15 and nn >= 2:   # a command replaced through the API before the run
                jobs.append((g, order, ops, None, {"replace": (rnd.randrange(nn), 1000 + rnd.randrange(50))}))
            if rnd.random() < 0.3:   # the same graph in another file order (C02: order independence)
                order2 = list(order)
                rnd.shuffle(order2)
                jobs.append((g, order2, []))
    else:
        # all digraphs (self-loops allowed) on 1..k nodes, then random larger ones
        k = 3 if tier == "quick" else 4
        for nn in range(1, k + 1):
            pairs = [(a, b) for a in range(nn) for b in range(nn)]
            for mask in range(1 << len(pairs)):
                edges = {pairs[i] for i in range(len(pairs)) if mask >> i & 1}
                kinds = ["direct", "list", "mixed"][mask % 3] if nn >= 3 else None
                for kd in ([kinds] if kinds else ["direct", "list"]):
                    g = graph_from_edges(rnd, nn, edges, kd)
                    order = list(range(nn))
                    rnd.shuffle(order)
                    jobs.append((g, order, []))
        # a loop at the far end of a long chain of references, listed from the command that needs everything down to the loop
        # (and the other way round): the loop check must not depend on how deep the model is
        L = 260
        deep = {i: [("D", i + 1)] for i in range(L - 1)}
        deep[L - 1] = [("D", L - 2)]
        jobs.append((deep, list(range(L)), []))
        jobs.append((deep, list(reversed(range(L))), []))
        while len(jobs) < n:
            nn = rnd.choice([4, 5, 5, 6, 8])
            pairs = [(a, b) for a in range(nn) for b in range(nn)]
            dens = rnd.choice([0.08, 0.15, 0.3])
            edges = {pr for pr in pairs if rnd.random() < dens}
            g = graph_from_edges(rnd, nn, edges, rnd.choice(["direct", "list", "mixed"]))
            order = list(range(nn))
            rnd.shuffle(order)
            jobs.append((g, order, []))
    for job in jobs:
        g, order, ops = job[:3]
        nn = len(g)
        extra = job[4] if len(job) > 4 else {}
        src, obs = observe(g, order, ops, job[3] if len(job) > 3 else None, flaky=extra.get("flaky", ()), replace=extra.get("replace"), copied=extra.get("copied", False), twin=extra.get("twin", False))
        dist["built_in_code"] = dist.get("built_in_code", 0) + int(len(job) > 3 and job[3] is not None)
        dist["flaky_histories"] = dist.get("flaky_histories", 0) + int("flaky" in extra)
        dist["edited_models"] = dist.get("edited_models", 0) + int("replace" in extra)
        cyc = has_cycle(nn, g)
        dist["programs"] += 1
        dist["sizes"][nn] = dist["sizes"].get(nn, 0) + 1
        for d, _ in (x for i in g for x in rl_of(g[i])):
            dist["ref_kinds"]["direct" if d else "list"] += 1
        dist["history_ops"] += len(ops)
        key = "cyclic" if cyc else "acyclic"
        dist["outcomes"][key + ":" + str(obs["tag"])] = dist["outcomes"].get(key + ":" + str(obs["tag"]), 0) + 1
        if "flaky" in extra and obs["tag"] == 0 and "memo_before_last_run" in obs:
            pairs = lambda l: clist(["(%d, %d)" % (a, b) for a, b in l])
            zp = lambda l: clist(["(%d, %s)" % (a, cZ(b if b is not None else -1)) for a, b in l])
            rcases.append("(%s, %s, %s, %s, %s)" % (c_prog(g, order), zp(obs["memo_before_last_run"]), zp(obs["vals"]), pairs(obs["last_run_enter"]), pairs(obs["last_run_exit"])))
            rdescr.append({"source": src, "commands_that_fail_on_their_first_execution": ["r%d" % k for k in extra["flaky"]], "finished_before_the_last_run": obs["memo_before_last_run"]})
            if "memo_after_first_failure" in obs:
                fcases.append("(%s, %s, %s, %d)" % (c_prog(g, order), clist([str(k) for k in extra["flaky"]]), zp(obs["memo_after_first_failure"]), obs["first_failed"]))
                fdescr.append({"source": src, "commands_that_fail_on_their_first_execution": ["r%d" % k for k in extra["flaky"]], "finished_after_the_failed_run": obs["memo_after_first_failure"], "failed": obs["first_failed"]})
        if not extra:        # (API edits are outside the Coq model: judged by the oracle below only; flaky histories: check_resume above)
            cases.append(c_case(g, order, ops, obs))
            descr.append({"source": src, "history": ops, "observed": {k: obs[k] for k in ("tag", "rep", "after", "detail")}})
        nrefs = sum(len(rl_of(g[i])) for i in g)
        sig = json.dumps([sorted((i, g[i]) for i in g), order, ops], default=str)
        if sig not in seen:
            seen.add(sig)
            if mode == "dag":
                targets = [t for i in g for _, t in rl_of(g[i])]
                shared = len(targets) != len(set(targets))
                if nn >= 2 and nrefs >= 1 and (shared or ops):
                    nontrivial += 1
            elif nn >= 1 and cyc:
                nontrivial += 1
        replay = {"source": src, "libraries": ["verif_cmds"], "history": ops, "built": "Program.add_command" if len(job) > 3 and job[3] is not None else "Program.from_source"}
        if "flaky" in extra:
            replay["commands_that_fail_on_their_first_execution"] = ["r%d" % k for k in extra["flaky"]]
            replay["history"] = ["run() until it succeeds (%d failed runs observed)" % obs.get("failed_runs", 0)] + list(ops)
        # ----- property oracle on the real code -----
        if not cyc:
            if obs["tag"] != 0:
                fails.append({"sig": "C01:run-failed", "what": "acyclic program did not run: %s" % obs["detail"], "replay": replay})
                continue
            if obs.get("original_touched"):
                fails.append({"sig": "C01:ran-the-original", "what": "running a deep copy of the program executed commands of the original program", "replay": replay})
            bad = [x for x in (obs["exit"] if "flaky" in extra else obs["enter"] + obs["exit"]) if x[1] != 1]
            if bad:
                fails.append({"sig": "C01:not-exactly-once", "what": "commands not executed exactly once (command, count): %r" % bad[:5], "replay": replay})
            if not obs["identity_ok"] or not obs.get("order_ok", True):
                fails.append({"sig": "C01:unfinished-dependency", "what": "a command consumed something other than the finished result of the referenced command", "replay": replay})
            want = sorted(set((i, t) for i in g for _, t in rl_of(g[i])))
            if obs.get("consumed") != want:
                fails.append({"sig": "C01:wrong-dependencies", "what": "consumed results differ from the referenced commands", "replay": replay})
            if obs["after"] != 0 or not obs.get("same_objects_after", True):
                fails.append({"sig": "C01:re-executed", "what": "running again / reading results again executed %d further events" % obs["after"], "replay": replay})
            ref = ref_eval(nn, g, {extra["replace"][0]: extra["replace"][1]} if "replace" in extra else None)
            wrong = [(i, v) for i, v in obs["vals"] if ref[i] != v]
            if wrong:
                fails.append({"sig": "C02:value", "what": "result differs from the evaluation of the graph for commands %r" % [w[0] for w in wrong][:5], "replay": replay})
        else:
            if obs["tag"] != 2:
                what = ("returned successfully with %d of %d commands executed" % (obs.get("executed_at_run", 0), nn)) if obs["tag"] == 0 else obs["detail"]
                fails.append({"sig": "C14:not-rejected", "what": "cyclic program was not rejected with RecursiveModelStructure: %s" % what, "replay": replay})
            else:
                if obs.get("executed_at_run", 0) != 0:
                    fails.append({"sig": "C14:executed-before-rejection", "what": "commands executed before the cyclic model was rejected", "replay": replay})
                if obs["rep"] is None or not on_cycle(nn, g, obs["rep"]):
                    fails.append({"sig": "C14:wrong-line", "what": "RecursiveModelStructure carries the line of command %r, which is not on a cycle" % obs["rep"], "replay": replay})
    files = write_cases("Cases_%s" % mode, cases)
    rfiles = []
    for i in range(0, len(rcases), 250):
        path = os.path.join(os.getcwd(), "Cases_%s_resume_%03d.v" % (mode, i // 250))
        with open(path, "w") as fh:
            fh.write("From Coq Require Import List ZArith Bool.\nFrom MP Require Import Base.Check Model.Sched Corr.CheckSched.\n"
                     "Import ListNotations.\nOpen Scope nat_scope.\n"
                     "Definition cases : list (prog * list (name * Z) * list (name * Z) * list (name * nat) * list (name * nat)) := [\n  %s\n].\n"
                     "Eval vm_compute in (failing check_resume cases).\n" % ";\n  ".join(rcases[i:i + 250]))
        rfiles.append({"path": path, "first": i, "count": len(rcases[i:i + 250])})
    ffiles = []
    for i in range(0, len(fcases), 250):
        path = os.path.join(os.getcwd(), "Cases_%s_failed_%03d.v" % (mode, i // 250))
        with open(path, "w") as fh:
            fh.write("From Coq Require Import List ZArith Bool.\nFrom MP Require Import Base.Check Model.Sched Corr.CheckSched.\n"
                     "Import ListNotations.\nOpen Scope nat_scope.\n"
                     "Definition cases : list (prog * list name * list (name * Z) * name) := [\n  %s\n].\n"
                     "Eval vm_compute in (failing check_failed cases).\n" % ";\n  ".join(fcases[i:i + 250]))
        ffiles.append({"path": path, "first": i, "count": len(fcases[i:i + 250])})
    json.dump({"failed_files": ffiles, "failed_descr": fdescr, "resume_files": rfiles, "resume_descr": rdescr, "files": files, "descr": descr, "oracle_failures": fails, "distribution": dist,
               "evaluations": len(jobs), "distinct_nontrivial": nontrivial, "samples": descr[:1] + descr[-2:],
               "tree": mpilot.__file__}, open(out, "w"))


main()
