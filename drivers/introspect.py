"""Translator: regenerates the Coq tables theories/Gen/*.v from the /repo snapshot on PYTHONPATH.

usage: introspect.py <outdir>
Fail-closed: whatever is not recognised is emitted as PUnknown / false, so obligations over it fail.
"""
import os
import sys

import mpilot

SNAP = os.environ.get("VERIF_SNAP")
assert SNAP and os.path.abspath(mpilot.__file__).startswith(os.path.abspath(SNAP)), \
    "wrong tree under test: %s (snapshot %s)" % (mpilot.__file__, SNAP)

import gen_sigs  # noqa: E402
import gen_eems2  # noqa: E402

GENERATORS = [("GenSigs.v", gen_sigs.generate), ("GenEems2.v", gen_eems2.generate)]

for modname, fname in (("gen_exc", "GenExc.v"), ("gen_lex", "GenLex.v"), ("gen_grammar", "GenGrammar.v"),
                       ("gen_facts", "GenFacts.v"), ("gen_cellfacts", "GenCellFacts.v"), ("gen_paramfacts", "GenParamFacts.v"), ("gen_effects", "GenEffects.v"),
                       ("gen_cleanfx", "GenCleanEffects.v")):
    try:
        m = __import__(modname)
    except ImportError:
        continue
    GENERATORS.append((fname, m.generate))


def main():
    out = sys.argv[1]
    os.makedirs(out, exist_ok=True)
    for fname, g in GENERATORS:
        text = g(SNAP)
        with open(os.path.join(out, fname), "w") as fh:
            fh.write(text)
        print("generated %s (%d lines)" % (fname, text.count("\n")))
    print("tree under test: %s" % mpilot.__file__)


main()
