"""Loader / validation driver for C12 and C13.   usage: loader_driver.py <out.json> <C12|C13> <n>

Models are command files over the built-in CSV library:
  * the full matrix command x parameter x raw kind (a minimal valid model containing the command, one argument
    replaced by a value of another kind),
  * random valid models (generator of the C02 driver, with writers) with one fault injected at a random position:
    unknown command, duplicate result, missing required argument, undeclared argument, wrong-kind value, reference to a
    result that does not exist, fuzzy / non-fuzzy mismatch, non-data result used as data, missing input file,
  * the unfaulted models themselves.
Each file is loaded with Program.from_source and run.  Observed: the exception (class, line, names), the execute() log
and the directory listing at that moment.  C12 oracle: faulted <=> rejected with the specific error, before anything
executed or was written.  C13 oracle: whatever the file, only SyntaxError or an MPilotError leaves from_source/run, and
the CLI exits non-zero with the problem/solution text on stderr.  The parsed nodes and the observed outcome are written
as Coq terms for Model/Loader.v."""
import json
import re
import os
import random
import subprocess
import sys
import tempfile
import traceback

import numpy

import c02_driver as c02
import cells_common as cc
import mpilot
from mpilot import params as P
from mpilot.commands import Command
from mpilot.exceptions import MPilotError, ProgramError, UnexpectedError
from mpilot.parser.parser import Parser
from mpilot.program import Program, EEMS_CSV_LIBRARIES
from coqfmt import cstr, clist, cbool, copt, cZ, cQ, cnat
from c20_driver_lib import c_raw
import gen_sigs
from verif_cmds import noout

LIBS = tuple(EEMS_CSV_LIBRARIES) + ("verif_cmds.noout",)

STATIC = {"CommandDoesNotExist", "DuplicateResult", "MissingParameters", "NoSuchParameter", "ParameterNotValid", "PathDoesNotExist",
          "InvalidRelativePath", "ResultDoesNotExist", "ResultTypeNotValid", "ResultNotFuzzy", "ResultIsFuzzy"}
LOG = []


def install_log(lib):
    for cls in set(lib.values()):
        for k in cls.__mro__:
            if "execute" in k.__dict__ and not getattr(k.__dict__["execute"], "_logged", False) and k is not Command:
                orig = k.__dict__["execute"]

                def wrapped(self, _orig=orig, **kw):
                    LOG.append(self.result_name)
                    return _orig(self, **kw)
                wrapped._logged = True
                setattr(k, "execute", wrapped)


# ---------- minimal valid models for the matrix ----------
BASE = [("A", "EEMSRead", [("InFileName", "d.csv"), ("InFieldName", "a"), ("MissingVal", "-9999"), ("DataType", "Float")]),
        ("B", "EEMSRead", [("InFileName", "d.csv"), ("InFieldName", "b")]),
        ("F", "CvtToFuzzy", [("InFieldName", "A"), ("TrueThreshold", "5"), ("FalseThreshold", "0")]),
        ("G", "CvtToFuzzy", [("InFieldName", "B")]),
        ("W", "EEMSWrite", [("OutFileName", "o.csv"), ("OutFieldNames", "[A, B]")])]
VALID = {
    "EEMSRead": [("InFileName", "d.csv"), ("InFieldName", "a"), ("MissingVal", "-9999"), ("DataType", "Integer")],
    "EEMSWrite": [("OutFileName", "o2.csv"), ("OutFieldNames", "[A, F]")],
    "Copy": [("InFieldName", "A")], "AMinusB": [("A", "A"), ("B", "B")], "ADividedByB": [("A", "A"), ("B", "B")],
    "Sum": [("InFieldNames", "[A, B]")], "Multiply": [("InFieldNames", "[A, B]")], "Minimum": [("InFieldNames", "[A, B]")],
    "Maximum": [("InFieldNames", "[A, B]")], "Mean": [("InFieldNames", "[A, B]")],
    "WeightedSum": [("InFieldNames", "[A, B]"), ("Weights", "[1, 0.5]")], "WeightedMean": [("InFieldNames", "[A, B]"), ("Weights", "[1, 2]")],
    "Normalize": [("InFieldName", "A"), ("StartVal", "0"), ("EndVal", "10")],
    "NormalizeZScore": [("InFieldName", "A"), ("TrueThresholdZScore", "1"), ("FalseThresholdZScore", "-1"), ("StartVal", "0"), ("EndVal", "1")],
    "NormalizeCat": [("InFieldName", "A"), ("RawValues", "[1, 2]"), ("NormalValues", "[0, 1]"), ("DefaultNormalValue", "0.5")],
    "NormalizeCurve": [("InFieldName", "A"), ("RawValues", "[0, 5]"), ("NormalValues", "[0, 1]")],
    "NormalizeMeanToMid": [("InFieldName", "A"), ("IgnoreZeros", "False"), ("NormalValues", "[0, 0.25, 0.5, 0.75, 1]")],
    "NormalizeCurveZScore": [("InFieldName", "A"), ("ZScoreValues", "[-1, 1]"), ("NormalValues", "[0, 1]")],
    "PrintVars": [("InFieldNames", "[A]"), ("OutFileName", "p.txt")],
    "CvtToFuzzy": [("InFieldName", "A"), ("TrueThreshold", "5"), ("FalseThreshold", "0"), ("Direction", "LowToHigh")],
    "CvtToFuzzyZScore": [("InFieldName", "A"), ("TrueThresholdZScore", "1"), ("FalseThresholdZScore", "-1")],
    "CvtToFuzzyCat": [("InFieldName", "A"), ("RawValues", "[1, 2]"), ("FuzzyValues", "[-1, 1]"), ("DefaultFuzzyValue", "0")],
    "CvtToFuzzyCurve": [("InFieldName", "A"), ("RawValues", "[0, 5]"), ("FuzzyValues", "[-1, 1]")],
    "CvtToFuzzyMeanToMid": [("InFieldName", "A"), ("IgnoreZeros", "True"), ("FuzzyValues", "[-1, -0.5, 0, 0.5, 1]")],
    "CvtToFuzzyCurveZScore": [("InFieldName", "A"), ("ZScoreValues", "[-1, 1]"), ("FuzzyValues", "[-1, 1]")],
    "CvtToBinary": [("InFieldName", "A"), ("Threshold", "2"), ("Direction", "HighToLow")],
    "FuzzyUnion": [("InFieldNames", "[F, G]")], "FuzzyWeightedUnion": [("InFieldNames", "[F, G]"), ("Weights", "[1, 3]")],
    "FuzzySelectedUnion": [("InFieldNames", "[F, G]"), ("TruestOrFalsest", "Truest"), ("NumberToConsider", "1")],
    "FuzzyOr": [("InFieldNames", "[F, G]")], "FuzzyAnd": [("InFieldNames", "[F, G]")], "FuzzyXOr": [("InFieldNames", "[F, G]")],
    "FuzzyNot": [("InFieldName", "F")], "CvtFromFuzzy": [("InFieldName", "F"), ("TrueThreshold", "10"), ("FalseThreshold", "0")],
}
KINDS = ["5", "2.5", "abc", '"quoted text"', "[1, 2]", "[A, B]", "[F]", "[k: v]", "[A: B]", "[]", "true", "A", "F", "W", "Nope", "d.csv", "[[A], [B]]", "Float", "-3"]


def container_mismatch(param, raw_text):
    """the clear-cut part of well-formedness, stated without looking at the cleaners: a list where a scalar is declared, a scalar
    or a dictionary where a list is declared, anything but a dictionary (or []) where a dictionary is declared"""
    from mpilot import params as P
    t = raw_text.strip()
    shape = "dict" if t.startswith("[") and ":" in t else ("list" if t.startswith("[") else "scalar")
    if type(param) is P.ListParameter:
        return shape != "list"
    if type(param) is P.TupleParameter:
        return not (shape == "dict" or t == "[]")
    if type(param) in (P.NumberParameter, P.BooleanParameter, P.PathParameter, P.DataTypeParameter, P.ResultParameter, P.StringParameter):
        return shape != "scalar"
    return False


def render_nodes(nodes, rnd=None):
    out = []
    for res, cmd, args in nodes:
        sep = ",\n    " if rnd is not None and rnd.random() < 0.4 else ", "
        body = sep.join("%s = %s" % kv for kv in args)
        out.append("%s = %s(%s)" % (res, cmd, ("\n    " + body + "\n") if sep != ", " else body))
    return "\n".join(out)


# ---------- random valid models (C02 generator) as editable node lists ----------
def abstract_model(rnd, cols):
    nodes = c02.gen_model(rnd, cols)
    out = []
    for nd in nodes:
        args = []
        if nd.cname in cc.NARY:
            args.append(("InFieldNames", "[" + ", ".join(x.name for x in nd.refs) + "]"))
        elif nd.cname in cc.BINARY:
            args += [("A", nd.refs[0].name), ("B", nd.refs[1].name)]
        elif nd.refs:
            args.append(("InFieldName", nd.refs[0].name))
        for k, v in nd.params.items():
            args.append((k, c02.render_value(v)))
        out.append([nd.name, nd.cname, args, nd.fuzzy])
    raws = [n[0] for n in out if not n[3]]
    if rnd.random() < 0.7:
        out.append(["wout", "EEMSWrite", [("OutFileName", "out.csv"), ("OutFieldNames", "[" + ", ".join(rnd.sample([n[0] for n in out], min(2, len(out)))) + "]")], False])
    if rnd.random() < 0.3:
        out.append(["pv", "PrintVars", [("InFieldNames", "[" + raws[0] + "]"), ("OutFileName", "vars.txt")], False])
    return out


def with_untyped_producer(rnd, model):
    """a user command that declares no output kind, consumed by a typed consumer: the loader cannot judge the kind and accepts
    (only used inside faulted models, where some other fault must get the model rejected before anything runs)"""
    raws = [n[0] for n in model if not n[3] and n[1] not in ("EEMSWrite", "PrintVars")]
    m = list(model)
    pos = rnd.randint(0, len(m))
    m.insert(pos, ["dmp", "Dump", [("OutFileName", "dump.txt"), ("OutFieldNames", "[" + raws[0] + "]")], False])
    if rnd.random() < 0.5:
        m.insert(rnd.randint(0, len(m)), ["cdmp", "Copy", [("InFieldName", "dmp")], False])
    else:
        m.insert(rnd.randint(0, len(m)), ["cdmp", "Sum", [("InFieldNames", "[dmp, " + raws[0] + "]")], False])
    return m


FAULTS = ["unknown-command", "duplicate-result", "missing-argument", "undeclared-argument", "wrong-kind", "missing-result",
          "fuzzy-mismatch", "non-data-as-data", "missing-file"]


def inject(rnd, model, lib, fault):
    """returns (faulted model, expected error class) or None when the fault does not apply"""
    m = [[r, c, list(a), f] for r, c, a, f in model]
    idxs = list(range(len(m)))
    rnd.shuffle(idxs)
    if fault == "unknown-command":
        i = idxs[0]
        m[i][1] = rnd.choice(["NoSuchCommand", "Summ", "eemsread"])
        return m, "CommandDoesNotExist"
    if fault == "duplicate-result":
        if len(m) < 2:
            return None
        i, j = sorted(idxs[:2])
        m[j][0] = m[i][0]
        return m, "DuplicateResult"
    if fault == "missing-argument":
        for i in idxs:
            req = [k for k, p in lib[m[i][1]].inputs.items() if p.required]
            have = [k for k, _ in m[i][2] if k in req]
            if have:
                k = rnd.choice(have)
                m[i][2] = [kv for kv in m[i][2] if kv[0] != k]
                return m, "MissingParameters"
        return None
    if fault == "undeclared-argument":
        i = idxs[0]
        m[i][2].insert(rnd.randint(0, len(m[i][2])), (rnd.choice(["Bogus", "infieldname", "Weight"]), rnd.choice(["1", "x", "[a]"])))
        return m, "NoSuchParameter"
    if fault == "wrong-kind":
        for i in idxs:
            cls = lib[m[i][1]]
            cands = []
            for pos, (k, v) in enumerate(m[i][2]):
                p = cls.inputs.get(k)
                t = type(p)
                if t is P.NumberParameter:
                    cands.append((pos, rnd.choice(["[1, 2]", "abc", "[k: v]"])))
                elif t is P.ListParameter:
                    cands.append((pos, rnd.choice(["5", "abc", "2.5"])))
                elif t is P.BooleanParameter:
                    cands.append((pos, rnd.choice(["[true]", "maybe", "2.5"])))
                elif t is P.StringParameter:
                    cands.append((pos, rnd.choice(["[a]", "[k: v]"])))
                elif t is P.PathParameter:
                    cands.append((pos, rnd.choice(["[d.csv]", "[k: v]"])))
                elif t is P.DataTypeParameter:
                    cands.append((pos, rnd.choice(["Double", "[Float]", "5"])))
                elif t is P.ResultParameter:
                    cands.append((pos, rnd.choice(["[%s]" % v, "[k: v]"])))
            if cands:
                pos, txt = rnd.choice(cands)
                m[i][2][pos] = (m[i][2][pos][0], txt)
                return m, "ParameterNotValid"
        return None
    if fault == "missing-result":
        for i in idxs:
            for pos, (k, v) in enumerate(m[i][2]):
                if k in ("InFieldName", "A", "B") and m[i][1] != "EEMSRead":
                    m[i][2][pos] = (k, "Ghost")
                    return m, "ResultDoesNotExist"
                if k in ("InFieldNames", "OutFieldNames"):
                    m[i][2][pos] = (k, v[:-1] + ", Ghost]")
                    return m, "ResultDoesNotExist"
        return None
    if fault == "fuzzy-mismatch":
        fz = [n[0] for n in m if n[3]]
        nf = [n[0] for n in m if not n[3] and n[1] not in ("EEMSWrite", "PrintVars")]
        for i in idxs:
            cls = lib[m[i][1]]
            for pos, (k, v) in enumerate(m[i][2]):
                p = cls.inputs.get(k)
                rp = p.value_type if isinstance(p, P.ListParameter) else p
                if isinstance(rp, P.ResultParameter) and rp.is_fuzzy is not None:
                    pool = nf if rp.is_fuzzy else fz
                    pool = [x for x in pool if x != m[i][0]]
                    if not pool:
                        continue
                    bad = rnd.choice(pool)
                    m[i][2][pos] = (k, "[%s]" % bad if isinstance(p, P.ListParameter) else bad)
                    return m, "ResultNotFuzzy" if rp.is_fuzzy else "ResultIsFuzzy"
        return None
    if fault == "non-data-as-data":
        sinks = [n[0] for n in m if n[1] in ("EEMSWrite", "PrintVars")]
        if not sinks:
            return None
        for i in idxs:
            if m[i][1] in ("EEMSWrite", "PrintVars"):
                continue
            cls = lib[m[i][1]]
            for pos, (k, v) in enumerate(m[i][2]):
                p = cls.inputs.get(k)
                rp = p.value_type if isinstance(p, P.ListParameter) else p
                if isinstance(rp, P.ResultParameter) and rp.output_type is not None and rp.is_fuzzy is not True:
                    bad = rnd.choice(sinks)
                    m[i][2][pos] = (k, "[%s]" % bad if isinstance(p, P.ListParameter) else bad)
                    return m, "ResultTypeNotValid"
        return None
    if fault == "missing-file":
        for i in idxs:
            if m[i][1] == "EEMSRead":
                m[i][2] = [(k, "nofile.csv" if k == "InFileName" else v) for k, v in m[i][2]]
                return m, "PathDoesNotExist"
        return None
    return None


# ---------- observation ----------
def listing(wd):
    out = []
    for root, dirs, files in os.walk(wd):
        for f in files:
            out.append(os.path.relpath(os.path.join(root, f), wd))
        for d in dirs:                                       # folders count: a rejected model leaves nothing behind
            out.append(os.path.relpath(os.path.join(root, d), wd) + "/")
    return sorted(out)


def observe(src, wd):
    del LOG[:]
    before = listing(wd)
    obs = {"stage": "ok", "cls": None, "line": None, "exc": None}
    try:
        p = Program.from_source(src, libraries=LIBS, working_dir=wd)
        obs["stage"] = "loaded"
        p.run()
        obs["stage"] = "ran"
    except SyntaxError as ex:
        obs.update(cls="SyntaxError", exc=ex)
    except MPilotError as ex:
        obs.update(cls=type(ex).__name__, line=getattr(ex, "lineno", None), exc=ex)
    except BaseException as ex:
        obs.update(cls="ESCAPED:" + type(ex).__name__, exc=ex, tb=traceback.format_exc()[-600:])
    obs["executed"] = list(LOG)
    obs["new_files"] = [f for f in listing(wd) if f not in before]
    for f in sorted(obs["new_files"], key=len, reverse=True):
        (os.rmdir if f.endswith("/") else os.remove)(os.path.join(wd, f))
    return obs


def observe_edit(src, wd, rnd):
    """a model that ran is edited through the API (the producer of a result that other commands use is removed) and run again:
    the edited model is ill-formed and must be rejected before anything executes or is written"""
    try:
        p = Program.from_source(src, libraries=LIBS, working_dir=wd)
        p.run()
    except BaseException:
        return None

    def names(v):
        if isinstance(v, (list, tuple)):
            return [x for y in v for x in names(y)]
        v = getattr(v, "value", v)
        return [getattr(v, "result_name", v)] if isinstance(getattr(v, "result_name", v), str) else []
    used = sorted(set(x for c in p.commands.values() for a in c.arguments if a.name != "Metadata" for x in names(a.value) if x in p.commands and x != c.result_name))
    if not used:
        return None
    victim = rnd.choice(used)
    del p.commands[victim]
    del LOG[:]
    before = listing(wd)
    obs = {"victim": victim, "cls": None}
    try:
        p.run()
    except MPilotError as ex:
        obs["cls"] = type(ex).__name__
    except BaseException as ex:
        obs["cls"] = "ESCAPED:" + type(ex).__name__
    obs["executed"] = list(LOG)
    obs["new_files"] = [f for f in listing(wd) if f not in before]
    return obs


def parsed_nodes(src):
    pn = Parser().parse(src)
    out = []
    for c in pn.commands:
        args = []
        for a in c.arguments:
            args.append("{| g_name := %s; g_value := %s; g_line := %s |}" % (cstr(a.name), c_raw(unwrap(a.value.value)), cnat(a.lineno)))
        out.append("{| n_result := %s; n_cmd := %s; n_args := %s; n_line := %s |}" % (cstr(c.result_name), cstr(c.command), clist(args), cnat(c.lineno)))
    return clist(out, ";\n     ")


def unwrap(v):
    if isinstance(v, list):
        return [unwrap(x.value) for x in v]
    if isinstance(v, dict):
        return {k: unwrap(x.value) for k, x in v.items()}
    return v


PERR = {"ParameterNotValid": '(EParameterNotValid "")', "PathDoesNotExist": "EPathDoesNotExist", "InvalidRelativePath": "EInvalidRelativePath"}


def c_observed(obs):
    """the observed outcome as `option lerr` (None = accepted: load and pre-pass raised nothing)"""
    cls, ex = obs["cls"], obs["exc"]
    if cls is None or cls not in STATIC or obs["executed"]:
        return "None" if (cls is None or obs["executed"] or cls not in STATIC) else None
    line = cnat(ex.lineno if ex.lineno is not None else 0)
    if cls == "CommandDoesNotExist":
        return "(Some (LCommandDoesNotExist %s %s))" % (cstr(ex.name), line)
    if cls == "DuplicateResult":
        return "(Some (LDuplicateResult %s %s))" % (cstr(ex.result), line)
    if cls == "MissingParameters":
        return "(Some (LMissingParameters %s %s %s))" % (cstr(ex.command), clist([cstr(x) for x in sorted(ex.parameters)]), line)
    if cls == "NoSuchParameter":
        return "(Some (LNoSuchParameter %s %s %s))" % (cstr(ex.command), cstr(ex.parameter), line)
    if cls in PERR:
        return "(Some (LParam %s %s))" % (PERR[cls], line)
    return "(Some (LParam (E%s %s) %s))" % (cls, cstr(str(ex.result)), line)


STRINGS = [r'"ab\""', r'"a\x1"', r'"a\u12"', r'"\U00110000"', r'"\N{nope}"', '"caf\u00e9"', '"\u2013 dash"', r'"tab\there"', r"'it\'s'",
           r'"C:\\temp\\new.csv"', '"\\"', r'"\8"', '"line\nbreak"', '"x" "y"', '"\u4e2d\u6587"', r'"\xe9"', r'"\u00e9"']
ODD = ["[c, a:b]", "[a:b, c]", "[a:b, c:d]", "[[a:b]]", "[a:[b]]", "[1:2]", "[a:b:c]", "[,]", "[a,,b]", "[:]", "a:b", "[a b]", "007x", "1e5x",
       "[[[[[[[[[[1]]]]]]]]]]", "[A, B,]", "[A B]", "A B", "1 2", "9" * 5000, "-" + "7" * 4400, "1e999", "1." + "0" * 5000, "[" * 60 + "1" + "]" * 60]
CSVS = ["", "\n", "a,b\n", "b\n1\n2\n", "b\n1\n2\n3\n4\n5\n", "a\n1\n", "b\n1\nx\n3\n4\n", "b,c\n1,2\n3\n4,5,6\n7,8\n", "b\n1\n\n2\n3\n4\n",
        "b\n1\n2\n3\nNaN\n", "b\n1e400\n2\n3\n4\n", "\"b\"\n1\n2\n3\n4\n", "b\n 1 \n2\n3\n4\n", "b\n1\n2\n3\n4", "b;c\n1;2\n", "b\n1\n2\n3\n\u00e9\n",
        "c,b\n1\n2\n3\n4\n"]
CSV_MODEL = ('A = EEMSRead(InFileName = d.csv, InFieldName = a)\nB = EEMSRead(InFileName = data.csv, InFieldName = b)\n'
             'S = Sum(InFieldNames = [A, B])\nW = EEMSWrite(OutFileName = o.csv, OutFieldNames = [S])')


def c13_jobs(rnd, good, n):
    """inputs beyond the C12 stream: corrupted text, string escapes, odd expressions, CSV content faults"""
    jobs = []
    for _ in range(max(40, n // 6)):
        src = rnd.choice(good)[0]
        k = rnd.randrange(len(src))
        r = rnd.random()
        if r < 0.4:
            bad = src[:k] + src[k + 1:]
        elif r < 0.7:
            bad = src[:k] + rnd.choice("()[]=,:\"'#\\%") + src[k:]
        else:
            bad = src[:k] + rnd.choice("()[]=,:\"'") + src[k + 1:]
        jobs.append((bad, "?", "corrupted", {}))
    for txt in STRINGS:
        jobs.append(('A = EEMSRead(InFileName = d.csv, InFieldName = a, Metadata = [Description: %s])' % txt, "?", "string-escape", {}))
        jobs.append(('A = EEMSRead(InFileName = %s, InFieldName = a)' % txt, "?", "string-escape", {}))
    for txt in ODD:
        jobs.append(('A = EEMSRead(InFileName = d.csv, InFieldName = a)\nS = Sum(InFieldNames = %s)' % txt, "?", "odd-expression", {}))
        jobs.append(('A = EEMSRead(InFileName = d.csv, InFieldName = a, Metadata = %s)' % txt, "?", "odd-expression", {}))
    # the EEMS 2.0 form: the result is named by NewFieldName / InFieldName, whatever those arguments hold
    for txt in ODD + ["2020", "1.5", "[a, b]", "[k: v]", "[]", '"two words"', "True"]:
        jobs.append(('READ(InFileName = d.csv, InFieldName = %s)' % txt, "?", "odd-expression", {}))
        jobs.append(('READ(InFileName = d.csv, InFieldName = a, NewFieldName = %s)\nCOPYFIELD(InFieldName = a, NewFieldName = B)' % txt, "?", "odd-expression", {}))
        jobs.append(('READ(InFileName = d.csv, InFieldName = a)\nSUM(InFieldNames = [a], NewFieldName = %s)' % txt, "?", "odd-expression", {}))
    jobs.append(('SUM(InFieldNames = [a])', "?", "odd-expression", {}))
    # output locations that cannot be written: the parent "folder" is a data file, or does not exist and cannot be created
    for out in ("d.csv/out.csv", "d.csv/sub/out.csv", "/proc/nope/out.csv"):
        jobs.append(('A = EEMSRead(InFileName = d.csv, InFieldName = a)\nW = EEMSWrite(OutFileName = %s, OutFieldNames = [A])' % out, "?", "odd-expression", {}))
        jobs.append(('A = EEMSRead(InFileName = d.csv, InFieldName = a)\nP = PrintVars(InFieldNames = [A], OutFileName = %s)' % out, "?", "odd-expression", {}))
    for csvtxt in CSVS:
        jobs.append((CSV_MODEL, "?", "csv-fault", {"csv": csvtxt}))
    return jobs


def main():
    out, prop, n = sys.argv[1], sys.argv[2], int(sys.argv[3])
    seed = int(os.environ.get("VERIF_SEED", "0"))
    rnd = random.Random(seed * 86243 + int(prop[1:]))
    wd = tempfile.mkdtemp(prefix="ld-", dir=os.getcwd())
    lib = Program(libraries=LIBS).command_library
    extra_sigs = clist([gen_sigs.one_sig(noout.Dump, P)])
    install_log(lib)
    cases, descr, fails = [], [], []
    dist = {"matrix_cases": 0, "faulted_models": 0, "valid_models": 0, "outcomes": {}, "faults": {}, "accepted": 0, "rejected": 0,
            "late_runtime_errors": {}, "unprintable": 0, "cli_runs": 0}
    seen, nontrivial, evaluations = set(), 0, 0
    jobs = []   # (source, expectation, kind, extra)  expectation: None = must be accepted | class name | "?" (decided by the model only)
    base_csv = "a,b\n1,4\n-9999,2.5\n3,0\n5,7\n"
    # ---- the matrix ----
    for cname, vargs in sorted(VALID.items()):
        for pos, (pname, _) in enumerate(vargs):
            for kd in KINDS:
                args = list(vargs)
                args[pos] = (pname, kd)
                nodes = [b for b in BASE] + [("X", cname, args)]
                jobs.append((render_nodes(nodes), "?", "matrix", {"command": cname, "parameter": pname, "raw": kd}))
        jobs.append((render_nodes(list(BASE) + [("X", cname, vargs)]), None, "matrix-valid", {"command": cname}))
    nmatrix = len(jobs)
    if os.environ.get("VERIF_TIER") != "thorough":
        keep = [j for j in jobs if j[2] == "matrix-valid"] + rnd.sample([j for j in jobs if j[2] == "matrix"], min(n, nmatrix) // 2)
        jobs = keep
    # ---- random models with single faults ----
    tables = []
    while len(jobs) < max(n, len(jobs) + 60 if False else n):
        cols = c02.gen_table(rnd, rnd.randint(3, 5), rnd.randint(2, 3))
        model = abstract_model(rnd, cols)
        csvtxt = ",".join(c["name"] for c in cols) + "\n" + "\n".join(",".join(repr(c["vals"][i]) for c in cols) for i in range(len(cols[0]["vals"]))) + "\n"
        order = list(range(len(model)))
        rnd.shuffle(order)
        shuffled = [model[i] for i in order]
        jobs.append((render_nodes([(r, c, a) for r, c, a, _ in shuffled], rnd), None, "valid-model", {"csv": csvtxt}))
        for _ in range(2):
            fault = rnd.choice(FAULTS)
            base = with_untyped_producer(rnd, shuffled) if rnd.random() < 0.3 and fault not in ("non-data-as-data",) else shuffled
            r = inject(rnd, base, lib, fault)
            if r is None:
                continue
            if rnd.random() < 0.5:      # outputs go to a folder that does not exist (yet): rejecting the model must not create it
                sub = rnd.choice(["results/", "results/run1/", "out/a/b/"])
                for x in r[0]:
                    x[2] = [(k, sub + v if k == "OutFileName" and re.match(r"^[A-Za-z0-9_.]+$", v) else v) for k, v in x[2]]   # not the values a fault has replaced
            jobs.append((render_nodes([(x[0], x[1], x[2]) for x in r[0]], rnd), r[1], fault, {"csv": csvtxt}))
    if prop == "C13":
        jobs += c13_jobs(rnd, [j for j in jobs if j[1] is None], n)
    for src, expect, kind, extra in jobs:
        with open(os.path.join(wd, "d.csv"), "w") as fh:
            fh.write(base_csv)
        with open(os.path.join(wd, "data.csv"), "w") as fh:
            fh.write(extra.get("csv", base_csv))
        obs = observe(src, wd)
        if kind == "valid-model" and obs["cls"] is None and prop == "C12" and rnd.random() < 0.5:
            eo = observe_edit(src, wd, rnd)
            for f in sorted(listing(wd), key=len, reverse=True):
                if f not in ("d.csv", "data.csv"):
                    (os.rmdir if f.endswith("/") else os.remove)(os.path.join(wd, f))
            if eo is not None:
                dist["models_edited_after_a_run"] = dist.get("models_edited_after_a_run", 0) + 1
                evaluations += 1
                if eo["cls"] != "ResultDoesNotExist" or eo["executed"] or eo["new_files"]:
                    fails.append({"sig": "C12:edited-model-not-rejected", "what": "after a successful run the command %s, which other commands use, was removed with `del program.commands[%r]`; running the edited model gave %s, executed %r, wrote %r (expected: ResultDoesNotExist before anything runs)" % (
                        eo["victim"], eo["victim"], eo["cls"] or "no error", eo["executed"][:5], eo["new_files"]),
                        "replay": {"source": src, "csv": extra.get("csv", base_csv), "history": ["run()", "del program.commands[%r]" % eo["victim"], "run()"]}})
        if kind == "valid-model" and obs["cls"] is None and prop == "C12" and rnd.random() < 0.4:
            # a command the loader rejects (a required parameter missing, an undeclared one given) is not part of the program: the
            # caller catches the error and runs the program it had
            try:
                p3 = Program.from_source(src, libraries=LIBS, working_dir=wd)
                before_names = list(p3.commands)
                bad_args = rnd.choice([{}, {"InFieldNames": [before_names[0]], "Bogus": 1}])
                rejected = None
                try:
                    p3.add_command(lib["Sum"], "Bad", bad_args)
                except MPilotError as ex:
                    rejected = type(ex).__name__
                del LOG[:]
                late = None
                try:
                    p3.run()
                except BaseException as ex:
                    late = type(ex).__name__
                dist["rejected_add_command_then_run"] = dist.get("rejected_add_command_then_run", 0) + 1
                evaluations += 1
                if rejected not in ("MissingParameters", "NoSuchParameter") or list(p3.commands) != before_names or late is not None:
                    fails.append({"sig": "C12:rejected-command-kept", "what": "add_command(Sum, 'Bad', %r) was %s; afterwards the program holds %r and run() gave %s (expected: rejected, program unchanged, run succeeds)" % (
                        bad_args, "rejected with " + rejected if rejected else "accepted", [x for x in p3.commands if x not in before_names], late or "success"),
                        "replay": {"source": src, "csv": extra.get("csv", base_csv), "history": ["from_source", "add_command(Sum, 'Bad', %r) -> error caught" % bad_args, "run()"]}})
            except MPilotError:
                pass
            for f in sorted(listing(wd), key=len, reverse=True):
                if f not in ("d.csv", "data.csv"):
                    (os.rmdir if f.endswith("/") else os.remove)(os.path.join(wd, f))
        if kind == "valid-model" and obs["cls"] is None and prop == "C12" and "data.csv" in src and rnd.random() < 0.4:
            # the same model reading a copy of the table: run while the copy exists, then again after the copy has been deleted
            src2 = src.replace("data.csv", "gone.csv", 1)
            with open(os.path.join(wd, "gone.csv"), "w") as fh:
                fh.write(extra.get("csv", base_csv))
            o1 = observe(src2, wd)
            os.remove(os.path.join(wd, "gone.csv"))
            o2 = observe(src2, wd)
            dist["input_deleted_between_runs"] = dist.get("input_deleted_between_runs", 0) + 1
            evaluations += 2
            if o1["cls"] is None and (o2["cls"] != "PathDoesNotExist" or o2["executed"] or o2["new_files"]):
                fails.append({"sig": "C12:deleted-input-not-rejected", "what": "the model ran while gone.csv existed; after the file was deleted the same model gave %s, executed %r, wrote %r (expected: PathDoesNotExist before anything runs)" % (
                    o2["cls"] or "no error", o2["executed"][:5], o2["new_files"]),
                    "replay": {"source": src2, "csv": extra.get("csv", base_csv), "history": ["run with gone.csv present", "delete gone.csv", "load and run again"]}})
        evaluations += 1
        key = obs["cls"] or "ok"
        dist["outcomes"][key] = dist["outcomes"].get(key, 0) + 1
        dist["matrix_cases" if kind.startswith("matrix") else ("valid_models" if kind == "valid-model" else "faulted_models")] += 1
        if kind in FAULTS:
            dist["faults"][kind] = dist["faults"].get(kind, 0) + 1
        replay = {"source": src, "kind": kind, "csv": extra.get("csv", base_csv), "detail": {k: v for k, v in extra.items() if k != "csv"}}
        rejected_static = obs["cls"] in STATIC and not obs["executed"] and not obs["new_files"]
        dist["rejected" if obs["cls"] in STATIC else "accepted"] += 1
        if src not in seen:
            seen.add(src)
            if kind != "valid-model" and kind != "matrix-valid":
                nontrivial += 1
        what = "%s%s" % (obs["cls"], (" at line %s" % obs["line"]) if obs["line"] else "")
        # ---------- C13: only declared error types escape ----------
        if obs["cls"] and obs["cls"].startswith("ESCAPED"):
            fails.append({"sig": "C13:escape:%s" % obs["cls"].split(":")[1], "what": "loading/running the model let %s escape: %s" % (obs["cls"][8:], str(obs["exc"])[:200]), "replay": replay})
        # ---------- C12 ----------
        if obs["cls"] in STATIC and (obs["executed"] or obs["new_files"]):
            fails.append({"sig": "C12:late-rejection:%s" % obs["cls"], "what": "the model was rejected with %s only after commands %r had executed and files %r were written" % (
                what, obs["executed"][:5], obs["new_files"]), "replay": replay})
        if expect is None and obs["cls"] in STATIC:
            fails.append({"sig": "C12:rejected-well-formed:%s" % obs["cls"], "what": "a well-formed model was rejected: %s %s" % (what, str(obs["exc"]).strip().splitlines()[0][:120]), "replay": replay})
        if kind == "matrix":
            decl = lib[extra["command"]].inputs.get(extra["parameter"])
            if decl is not None and container_mismatch(decl, extra["raw"]) and obs["cls"] not in STATIC and obs["cls"] != "SyntaxError":
                fails.append({"sig": "C12:accepted-ill-formed:%s" % type(decl).__name__,
                              "what": "%s = %s was given for the %s of %s and the model was not rejected by validation (outcome: %s, executed %r, files %r)" % (
                                  extra["parameter"], extra["raw"], type(decl).__name__, extra["command"], what, obs["executed"][:5], obs["new_files"]), "replay": replay})
        if expect not in (None, "?"):
            if obs["cls"] != expect:
                fails.append({"sig": "C12:wrong-or-no-rejection:%s" % kind, "what": "a model with the single fault '%s' should be rejected with %s but the outcome was %s (executed %r, files %r)" % (
                    kind, expect, what, obs["executed"][:5], obs["new_files"]), "replay": replay})
        if obs["cls"] not in STATIC and obs["cls"] is not None and not obs["cls"].startswith("ESCAPED"):
            dist["late_runtime_errors"][obs["cls"]] = dist["late_runtime_errors"].get(obs["cls"], 0) + 1
        # ---------- Coq case ----------
        if obs["cls"] != "SyntaxError":
            try:
                co = c_observed(obs)
                if co is not None:
                    paths = [os.path.join(wd, f) for f in ("d.csv", "data.csv")] + [wd]
                    cases.append("(%s, Some %s, %s, %s, %s)" % (extra_sigs, cstr(wd), clist([cstr(x) for x in paths]), parsed_nodes(src), co))
                    descr.append(dict(replay, observed=what))
            except Exception:
                dist["unprintable"] += 1
    # ---------- C13: models built in code whose references are Command objects of ANOTHER program (shared readers) ----------
    if prop == "C13":
        dist["api_models_with_foreign_commands"] = 0
        lib_csv = Program(libraries=LIBS).command_library
        with open(os.path.join(wd, "data.csv"), "w") as fh:
            fh.write(base_csv)
        for k in range(max(6, n // 40)):
            try:
                p1 = Program.from_source("A = EEMSRead(InFileName = data.csv, InFieldName = a)\nB = EEMSRead(InFileName = data.csv, InFieldName = b)", libraries=LIBS, working_dir=wd)
                shape = rnd.choice(["direct", "list", "mixed", "missing-name"])
                p2 = Program(libraries=LIBS, working_dir=wd)
                if shape == "direct":
                    p2.add_command(lib_csv["Copy"], "X", {"InFieldName": p1.commands["A"]})
                elif shape == "list":
                    p2.add_command(lib_csv["Sum"], "X", {"InFieldNames": [p1.commands["A"], p1.commands["B"]]})
                elif shape == "mixed":
                    p2.add_command(lib_csv["EEMSRead"], "C", {"InFileName": "data.csv", "InFieldName": "a"})
                    p2.add_command(lib_csv["Sum"], "X", {"InFieldNames": ["C", p1.commands["B"]]})
                else:
                    p2.add_command(lib_csv["Sum"], "X", {"InFieldNames": [p1.commands["A"], "NoSuch"]})
                if rnd.random() < 0.5:
                    p2.add_command(lib_csv["Copy"], "Y", {"InFieldName": "X"})
                esc = None
                try:
                    p2.run()
                except MPilotError:
                    pass
                except BaseException as ex:
                    esc = ex
                evaluations += 1
                dist["api_models_with_foreign_commands"] += 1
                if esc is not None:
                    fails.append({"sig": "C13:escape:%s" % type(esc).__name__, "what": "running a model built with add_command whose argument is a Command object of another program (%s) let %s escape: %s" % (shape, type(esc).__name__, str(esc)[:120]),
                                  "replay": {"built": "Program.add_command", "shape": shape, "note": "A and B are EEMSRead commands of another Program object"}})
            except MPilotError:
                pass
    # ---------- C13: an empty working directory (the command-line tool started next to the command file) ----------
    if prop == "C13":
        here = os.getcwd()
        os.chdir(wd)
        try:
            for src in ('A = EEMSRead(InFileName = d.csv, InFieldName = a)\nW = EEMSWrite(OutFileName = out_here.csv, OutFieldNames = [A])',
                        'A = EEMSRead(InFileName = d.csv, InFieldName = a)\nP = PrintVars(InFieldNames = [A], OutFileName = vars_here.txt)'):
                esc = None
                try:
                    Program.from_source(src, libraries=LIBS, working_dir="").run()
                except MPilotError:
                    pass
                except BaseException as ex:
                    esc = ex
                evaluations += 1
                if esc is not None:
                    fails.append({"sig": "C13:escape:%s" % type(esc).__name__, "what": "with working_dir='' (the tool started in the model's folder) running the model let %s escape: %s" % (type(esc).__name__, str(esc)[:120]),
                                  "replay": {"source": src, "working_dir": ""}})
        finally:
            os.chdir(here)
    # ---------- C13: the command-line tool ----------
    if prop == "C13":
        cli = "/venv/bin/mpilot"
        probes = [j for j in jobs if j[2] not in ("valid-model", "csv-fault", "corrupted")][:: max(1, len(jobs) // 25)][:25] + [j for j in jobs if j[2] == "csv-fault"]
        env = dict(os.environ)
        for src, expect, kind, extra in probes:
            with open(os.path.join(wd, "m.mpt"), "w") as fh:
                fh.write(src)
            def fresh_inputs():
                # both runs start from the same input files (a model may overwrite the table it reads)
                with open(os.path.join(wd, "d.csv"), "w") as fh2:
                    fh2.write(base_csv)
                with open(os.path.join(wd, "data.csv"), "w") as fh2:
                    fh2.write(extra.get("csv", base_csv))
            fresh_inputs()
            obs = observe(src, wd)
            fresh_inputs()
            pr = subprocess.run([sys.executable, "-c", "import sys; sys.argv=['mpilot','eems-csv',%r]; from mpilot.cli.mpilot import main; main()" % os.path.join(wd, "m.mpt")],
                                cwd=wd, env=env, stdout=subprocess.PIPE, stderr=subprocess.PIPE, universal_newlines=True)
            dist["cli_runs"] += 1
            for f in sorted(listing(wd), key=len, reverse=True):
                if f not in ("d.csv", "data.csv", "m.mpt"):
                    (os.rmdir if f.endswith("/") else os.remove)(os.path.join(wd, f))
            replay = {"source": src, "csv": extra.get("csv", base_csv), "cli": "mpilot eems-csv m.mpt"}
            if obs["cls"] and obs["cls"] != "SyntaxError" and not obs["cls"].startswith("ESCAPED"):
                if pr.returncode == 0:
                    fails.append({"sig": "C13:cli-exit-zero:%s" % obs["cls"], "what": "the command-line tool exited 0 although the model fails with %s" % obs["cls"], "replay": replay})
                if "Problem" not in pr.stderr and "problem" not in pr.stderr.lower():
                    fails.append({"sig": "C13:cli-no-message:%s" % obs["cls"], "what": "the command-line tool did not print the problem/solution message for %s: stderr=%r" % (obs["cls"], pr.stderr[-200:]), "replay": replay})
                if "Traceback (most recent call last)" in pr.stderr and obs["cls"] != "UnexpectedError":   # UnexpectedError's message quotes the original traceback
                    fails.append({"sig": "C13:cli-traceback:%s" % obs["cls"], "what": "the command-line tool ended in a raw traceback for %s: %s" % (obs["cls"], pr.stderr.strip().splitlines()[-1][:160]), "replay": replay})
            if obs["cls"] is None and pr.returncode != 0:
                fails.append({"sig": "C13:cli-fails-on-valid", "what": "the command-line tool exited %d on a model that runs: %s" % (pr.returncode, pr.stderr[-200:]), "replay": replay})
    files = []
    CH = 120
    for i in range(0, len(cases), CH):
        path = os.path.join(os.getcwd(), "Cases_%s_%03d.v" % (prop, i // CH))
        with open(path, "w") as fh:
            fh.write("From Coq Require Import String List Bool ZArith QArith.\nFrom MP Require Import Base.Sig Base.Check Model.Params Model.Loader Corr.CheckLoader.\n"
                     "Import ListNotations.\nOpen Scope string_scope.\n"
                     "Definition cases : list (list sig * option string * list string * list node * option lerr) := [\n  %s\n].\n"
                     "Eval vm_compute in (failing check_load cases).\n" % ";\n  ".join(cases[i:i + CH]))
        files.append({"path": path, "first": i, "count": len(cases[i:i + CH])})
    mine = [f for f in fails if f["sig"].startswith(prop + ":")]
    json.dump({"files": files, "descr": descr, "oracle_failures": mine, "other_property_failures": [f["sig"] for f in fails if not f["sig"].startswith(prop + ":")][:20],
               "distribution": dist, "evaluations": evaluations, "distinct_nontrivial": nontrivial, "samples": descr[:1] + descr[-2:],
               "tree": mpilot.__file__}, open(out, "w"), default=str)


main()
