"""C16 driver: EEMS 2.0 conversion.  usage: c16_driver.py <out.json> <n_struct> <n_models>

Correspondence: random v2/v3/mixed command files are parsed by the real Parser and loaded by the real
Program.from_source with convert_eems2_commands wrapped by a recorder; the recorded (flag, nodes in,
nodes out) triples are written as Coq terms and checked against Model/Eems2.v (load_nodes_impl).
Oracle: (O1) every EEMS_COMMANDS value exists in both library sets; (O2) a valid v2 model and the v3
model obtained by the documented mapping load to the same structure and compute the same results.
"""
import json
import os
import random
import sys
import tempfile
import warnings

warnings.simplefilter("ignore")

import numpy  # noqa: E402
import mpilot  # noqa: E402
from mpilot import program as mprogram  # noqa: E402
from mpilot.program import Program, EEMS_CSV_LIBRARIES, EEMS_NETCDF_LIBRARIES  # noqa: E402
from mpilot.parser.parser import Parser  # noqa: E402
from mpilot import utils  # noqa: E402
from coqfmt import cstr, clist, cbool, copt, cZ, cQ, cnat  # noqa: E402

assert os.path.abspath(mpilot.__file__).startswith(os.path.abspath(os.environ["VERIF_SNAP"])), mpilot.__file__

# the documented EEMS 2.0 -> MPilot mapping (reference, independent of mpilot.utils.EEMS_COMMANDS)
REF = {
    "READ": "EEMSRead", "CVTTOFUZZY": "CvtToFuzzy", "CVTTOFUZZYCURVE": "CvtToFuzzyCurve",
    "CVTTOFUZZYCAT": "CvtToFuzzyCat", "MEANTOMID": "CvtToFuzzyMeanToMid", "COPYFIELD": "Copy", "NOT": "FuzzyNot",
    "OR": "FuzzyOr", "AND": "FuzzyAnd", "ORNEG": "FuzzyAnd", "XOR": "FuzzyXOr", "SUM": "Sum", "MULT": "Multiply",
    "DIVIDE": "ADividedByB", "MIN": "Minimum", "MAX": "Maximum", "MEAN": "Mean", "UNION": "FuzzyUnion",
    "DIF": "AMinusB", "SELECTEDUNION": "FuzzySelectedUnion", "WTDUNION": "FuzzyWeightedUnion",
    "WTDMEAN": "WeightedMean", "WTDSUM": "WeightedSum", "SCORERANGEBENEFIT": None, "SCORERANGECOST": None,
}


def cval(v):
    if isinstance(v, bool):
        raise ValueError("bool")
    if isinstance(v, str):
        return "(VText %s)" % cstr(v)
    if isinstance(v, int):
        return "(VInt %s)" % cZ(v)
    if isinstance(v, float):
        return "(VFloat %s)" % cQ(v)
    if isinstance(v, list):
        return "(VList %s)" % clist([cval(x.value) for x in v])
    if isinstance(v, dict):
        return "(VDict %s)" % clist(["(%s, %s)" % (cstr(k), cval(x.value)) for k, x in v.items()])
    raise ValueError(type(v))


def cnode(n):
    res = n.result_name
    return "{| n_result := %s; n_cmd := %s; n_args := %s; n_line := %s |}" % (
        copt(None if res is None else cval(res)), cstr(n.command),
        clist(["(%s, %s)" % (cstr(a.name), cval(a.value.value)) for a in n.arguments]), cnat(n.lineno))


# ---------------- random sources for the structural correspondence ----------------
V2 = sorted(REF)
V3 = ["FuzzyNot", "Sum", "EEMSRead", "EEMSWrite", "CvtToFuzzy", "Copy", "NoSuchCommand"]
ARGN = ["InFieldName", "InFieldNames", "NewFieldName", "OutFileName", "InFileName", "Weights", "TrueThreshold",
        "Metadata", "A", "B"]


def rvalue(rnd, depth=0):
    k = rnd.random()
    if k < 0.27:
        return rnd.choice(["a", "b", "c1", "res_x", "field"])
    if k < 0.35:      # file names as EEMS 2.0 users wrote them: every kept argument is carried over character for character
        return rnd.choice(["data\\in.csv", "C:\\path\\to\\file.gdb", "..\\up.csv", "dir/sub/in.nc", '"C:\\\\q\\\\in.csv"', "a\\b"])
    if k < 0.45:
        return '"%s"' % rnd.choice(["", "x y", "a,b", "q"])
    if k < 0.6:
        return str(rnd.choice([0, 1, -3, 17]))
    if k < 0.7:
        return rnd.choice(["0.0", "1.5", "-0.25", "2."])
    if k < 0.9 and depth < 2:
        return "[" + ", ".join(rvalue(rnd, depth + 1) for _ in range(rnd.randint(0, 3))) + "]"
    if depth == 0:
        return "[" + ", ".join('%s: %s' % (rnd.choice(["k", "m", '"a b"']), rnd.choice(["v", "1", '"w"'])) for _ in range(rnd.randint(1, 2))) + "]"
    return "z"


def rsource(rnd):
    style = rnd.choice(["v2", "v2", "v3", "mixed", "v3names"])
    lines = []
    for _ in range(rnd.randint(1, 5)):
        args = []
        for _ in range(rnd.randint(0, 4)):
            args.append("%s = %s" % (rnd.choice(ARGN), rvalue(rnd)))
        body = ("(\n    " + ",\n    ".join(args) + "\n)") if rnd.random() < 0.3 else "(" + ", ".join(args) + ")"
        if style == "v2" or (style == "mixed" and rnd.random() < 0.5):
            lines.append("%s%s" % (rnd.choice(V2 + ["Sum", "Other"]), body))
        elif style == "v3names":
            lines.append("%s = %s%s" % (rnd.choice(["r1", "r2", "out"]), rnd.choice(V2 + V3), body))
        else:
            lines.append("%s = %s%s" % (rnd.choice(["r1", "r2", "out", "x"]), rnd.choice(V3), body))
        if rnd.random() < 0.2:
            lines.append("# comment")
    return "\n".join(lines)


def struct_cases(rnd, n):
    rec = {}
    orig_convert = mprogram.convert_eems2_commands

    def wrapped(nodes):
        try:
            out = orig_convert(nodes)
        except Exception:
            rec["convert_error"] = True      # e.g. a list as NewFieldName: the conversion itself rejects the file
            raise
        rec["in"] = list(nodes)
        rec["out"] = list(out)
        return out

    orig_parse = Parser.parse

    def parse_rec(self, source):
        pn = orig_parse(self, source)
        rec["parsed"] = pn
        return pn

    mprogram.convert_eems2_commands = wrapped
    Parser.parse = parse_rec
    cases, srcs, stats = [], [], {"v2flag": 0, "converted": 0, "not_converted": 0, "parse_rejected": 0}
    seen = set()
    nontrivial = 0
    try:
        while len(cases) < n:
            src = rsource(rnd)
            rec.clear()
            try:
                Program.from_source(src)
            except Exception:
                pass
            if "parsed" not in rec or rec["parsed"] is None:
                stats["parse_rejected"] += 1
                continue
            if rec.get("convert_error"):
                stats["conversion_rejected"] = stats.get("conversion_rejected", 0) + 1
                continue
            pn = rec["parsed"]
            flag = pn.version == 2
            out = rec["out"] if "out" in rec else list(pn.commands)
            try:
                term = "(%s, %s, %s)" % (cbool(flag), clist([cnode(x) for x in pn.commands], sep=";\n    "),
                                         clist([cnode(x) for x in out], sep=";\n    "))
            except ValueError:
                continue
            stats["v2flag"] += int(flag)
            stats["converted" if "out" in rec else "not_converted"] += 1
            cases.append(term)
            srcs.append(src)
            if src not in seen:
                seen.add(src)
                # rule: at least one v2-style command with a renamed command name
                if any(c.result_name is None and c.command in REF for c in pn.commands):
                    nontrivial += 1
    finally:
        mprogram.convert_eems2_commands = orig_convert
        Parser.parse = orig_parse
    return cases, srcs, stats, nontrivial


# ---------------- valid typed models for the loader / result oracle ----------------
class Gen(object):
    """Abstract typed EEMS model; rendered once in EEMS 2.0 syntax and once in MPilot syntax."""

    def __init__(self, rnd, table):
        self.rnd = rnd
        self.cmds = []  # (v2name, resultname, [(arg, text)], use_newfield, outfile)
        self.raw = []
        self.fz = []
        self.n = 0
        self.table = table

    def fresh(self, p):
        self.n += 1
        return "%s%d" % (p, self.n)

    def add(self, v2, res, args, kind):
        style = self.rnd.choice(["v2new", "v2new", "v2out", "mp"])
        self.cmds.append((v2, res, args, style))
        (self.fz if kind == "fz" else self.raw).append(res)

    def build(self, ncols, nops):
        rnd = self.rnd
        for i in range(ncols):
            col = "c%d" % i
            fn = rnd.choice(["data.csv", "data.csv", "win\\data.csv"])     # a Windows-style name, carried over character for character
            # READ with no NewFieldName: the result is named after InFieldName
            if rnd.random() < 0.5:
                self.cmds.append(("READ", col, [("InFileName", fn), ("InFieldName", col)], "v2in"))
                self.raw.append(col)
            else:
                self.add("READ", self.fresh("r"), [("InFileName", fn), ("InFieldName", col)], "raw")
                if rnd.random() < 0.4:
                    # the same column also read under its own name: the field name is then both something a READ renamed and a result
                    self.cmds.append(("READ", col, [("InFileName", fn), ("InFieldName", col)], "v2in"))
                    self.raw.append(col)
        for r in list(self.raw):
            self.add("CVTTOFUZZY", self.fresh("f"), [("InFieldName", r), ("TrueThreshold", str(rnd.randint(3, 9))),
                                                     ("FalseThreshold", str(rnd.randint(-9, 2)))], "fz")
        ops = ["NOT", "OR", "AND", "ORNEG", "XOR", "SUM", "MULT", "DIVIDE", "MIN", "MAX", "MEAN", "UNION", "DIF",
               "SELECTEDUNION", "WTDUNION", "WTDMEAN", "WTDSUM", "COPYFIELD", "CVTTOFUZZYCURVE", "CVTTOFUZZYCAT",
               "MEANTOMID"]
        for _ in range(nops):
            op = rnd.choice(ops)
            lst = lambda pool, lo: "[" + ", ".join(rnd.sample(pool, rnd.randint(lo, min(len(pool), 4)))) + "]"
            if op == "NOT":
                self.add(op, self.fresh("n"), [("InFieldName", rnd.choice(self.fz))], "fz")
            elif op in ("OR", "AND", "ORNEG", "UNION"):
                self.add(op, self.fresh("o"), [("InFieldNames", lst(self.fz, 1))], "fz")
            elif op == "XOR":
                if len(self.fz) >= 2:
                    self.add(op, self.fresh("x"), [("InFieldNames", lst(self.fz, 2))], "fz")
            elif op in ("SUM", "MULT", "MIN", "MAX", "MEAN"):
                self.add(op, self.fresh("s"), [("InFieldNames", lst(self.raw, 1))], "raw")
            elif op in ("DIVIDE", "DIF"):
                self.add(op, self.fresh("d"), [("A", rnd.choice(self.raw)), ("B", rnd.choice(self.raw))], "raw")
            elif op == "SELECTEDUNION":
                k = rnd.randint(1, min(len(self.fz), 4))
                pool = rnd.sample(self.fz, rnd.randint(k, min(len(self.fz), 4)))
                self.add(op, self.fresh("u"), [("InFieldNames", "[" + ", ".join(pool) + "]"),
                                               ("TruestOrFalsest", rnd.choice(["Truest", "Falsest"])),
                                               ("NumberToConsider", str(k))], "fz")
            elif op in ("WTDUNION", "WTDMEAN", "WTDSUM"):
                pool = self.fz if op == "WTDUNION" else self.raw
                sel = rnd.sample(pool, rnd.randint(1, min(len(pool), 3)))
                self.add(op, self.fresh("w"), [("InFieldNames", "[" + ", ".join(sel) + "]"),
                                               ("Weights", "[" + ", ".join(str(rnd.choice([1, 2, 0.5, 3])) for _ in sel) + "]")],
                         "fz" if op == "WTDUNION" else "raw")
            elif op == "COPYFIELD":
                self.add(op, self.fresh("k"), [("InFieldName", rnd.choice(self.raw))], "raw")
            elif op == "CVTTOFUZZYCURVE":
                self.add(op, self.fresh("v"), [("InFieldName", rnd.choice(self.raw)), ("RawValues", "[-5, 0, 6]"),
                                               ("FuzzyValues", "[-1, 0.25, 1]")], "fz")
            elif op == "CVTTOFUZZYCAT":
                self.add(op, self.fresh("t"), [("InFieldName", rnd.choice(self.raw)), ("RawValues", "[1, 2, 3]"),
                                               ("FuzzyValues", "[-1, 0, 1]"), ("DefaultFuzzyValue", "0.5")], "fz")
            elif op == "MEANTOMID":
                self.add(op, self.fresh("m"), [("InFieldName", rnd.choice(self.raw)), ("IgnoreZeros", "False"),
                                               ("FuzzyValues", "[-1, -0.5, 0, 0.5, 1]")], "fz")

    def render(self):
        """(v2 text, v3 text by the documented mapping)"""
        v2, v3 = [], []
        allnamed = self.rnd.random() < 0.2     # every command carries a result name; v2 and MPilot command names mixed
        for idx, (name, res, args, style) in enumerate(self.cmds):
            a = ",\n    ".join("%s = %s" % kv for kv in args)
            target = REF[name]
            v3.append("%s = %s(\n    %s\n)" % (res, target, a))
            half = list(args)
            if style != "v2in" and self.rnd.random() < 0.3:
                # a half-migrated command: it already has its result name but still carries the EEMS 2.0 output arguments
                for kv in [("OutFileName", "ignored_%s.csv" % res)] + ([("NewFieldName", res)] if self.rnd.random() < 0.5 else []):
                    half.insert(self.rnd.randint(0, len(half)), kv)
            ah = ",\n    ".join("%s = %s" % kv for kv in half)
            if allnamed and style != "v2in":
                v2.append("%s = %s(\n    %s\n)" % (res, name if idx % 2 == 0 else target, ah))
            elif style == "v2in":
                v2.append("%s(\n    %s\n)" % (name, a))
            elif style in ("v2new", "v2out"):
                extra = [("NewFieldName", res)] + ([("OutFileName", "ignored_%s.csv" % res)] if style == "v2out" else [])
                al = list(args)
                for kv in extra:      # the v2-only arguments may stand anywhere among the others
                    al.insert(self.rnd.randint(0, len(al)) if self.rnd.random() < 0.5 else len(al), kv)
                v2.append("%s(\n    %s\n)" % (name, ",\n    ".join("%s = %s" % kv for kv in al)))
            else:  # MPilot-style command inside the v2 file, still using the v2 command name half of the time
                v2.append("%s = %s(\n    %s\n)" % (res, name if self.rnd.random() < 0.5 else target, ah))
        return "\n".join(v2), "\n".join(v3)


def canon_prog(p):
    out = []
    for name, c in p.commands.items():
        out.append([repr(name), type(c).__name__, c.name,
                    [[a.name, canon_val(a.value)] for a in c.arguments], c.lineno])
    return out


def canon_val(v):
    from mpilot.arguments import Argument
    if isinstance(v, Argument):
        return canon_val(v.value)
    if isinstance(v, (list, tuple)):
        return [canon_val(x) for x in v]
    if isinstance(v, dict):
        return {str(k): canon_val(x) for k, x in v.items()}
    return repr(v)


def canon_result(r):
    if isinstance(r, numpy.ndarray):
        m = numpy.ma.getmaskarray(r).reshape(-1).tolist()
        d = numpy.ma.getdata(r).reshape(-1).tolist()
        return [list(r.shape), str(r.dtype), [None if mm else float(x).hex() for x, mm in zip(d, m)]]
    return repr(r)


def load_and_run(src, wd, extra_libs=()):
    try:
        p = Program.from_source(src, libraries=tuple(EEMS_CSV_LIBRARIES) + tuple(extra_libs), working_dir=wd)
    except Exception as ex:
        return {"load_error": type(ex).__name__ + ": " + str(ex).splitlines()[0][:200] if str(ex) else type(ex).__name__}
    st = {"structure": canon_prog(p)}
    try:
        p.run()
        st["results"] = {repr(k): canon_result(c.result) for k, c in p.commands.items()}
    except Exception as ex:
        st["run_error"] = type(ex).__name__
    return st


def model_oracle(rnd, n, wd):
    fails, stats, samples = [], {"models": 0, "commands": 0, "per_v2_name": {}}, []
    nontrivial = 0
    seen = set()
    for i in range(n):
        g = Gen(rnd, None)
        g.build(rnd.randint(1, 3), rnd.randint(1, 7))
        v2, v3 = g.render()
        # half of the models are loaded next to a project library whose commands are NAMED like EEMS 2.0 commands
        xl = ("verif_cmds.shadow",) if rnd.random() < 0.5 else ()
        stats["with_a_shadowing_library"] = stats.get("with_a_shadowing_library", 0) + int(bool(xl))
        a = load_and_run(v2, wd, xl)
        b = load_and_run(v3, wd, xl)
        stats["models"] += 1
        stats["commands"] += len(g.cmds)
        for c in g.cmds:
            stats["per_v2_name"][c[0]] = stats["per_v2_name"].get(c[0], 0) + 1
        if v2 not in seen:
            seen.add(v2)
            nontrivial += 1
        # line numbers differ by construction between the two renderings: compare without them
        strip = lambda st: None if "structure" not in st else [x[:4] for x in st["structure"]]
        if i < 2:
            samples.append({"v2": v2, "v3": v3, "same_structure_and_results": strip(a) == strip(b) and a.get("results") == b.get("results")})
        if "load_error" in b or "run_error" in b:
            # the generated v3 model itself does not run (another property's business): only the
            # *difference* between the two renderings is C16's
            stats["v3_side_failed"] = stats.get("v3_side_failed", 0) + 1
        if strip(a) != strip(b) or a.get("results") != b.get("results") or a.get("load_error") != b.get("load_error") \
                or a.get("run_error") != b.get("run_error"):
            # localise: which v2 name is involved (first command whose structure differs)
            culprit = "?"
            sa, sb = strip(a), strip(b)
            if sa is None or sb is None:
                # find the first command name whose mapping is off
                for c in g.cmds:
                    if utils.EEMS_COMMANDS.get(c[0]) != REF[c[0]]:
                        culprit = c[0]
                        break
            else:
                for x, y, c in zip(sa, sb, g.cmds):
                    if x != y:
                        culprit = c[0]
                        break
            fails.append({"sig": "C16:equiv:%s" % culprit,
                          "what": "EEMS 2.0 model and its MPilot translation differ (command %s): v2 -> %s ; v3 -> %s" % (
                              culprit, summarize(a), summarize(b)),
                          "replay": {"v2_source": v2, "v3_source": v3, "csv": open(os.path.join(wd, "data.csv")).read()}})
    return fails, stats, samples, nontrivial


def summarize(st):
    if "load_error" in st:
        return "load error " + st["load_error"]
    if "run_error" in st:
        return "run error " + st["run_error"]
    return "ok(%d commands)" % len(st["structure"])


def table_oracle():
    fails = []
    libs = {"csv": Program(libraries=EEMS_CSV_LIBRARIES).command_library,
            "netcdf": Program(libraries=EEMS_NETCDF_LIBRARIES).command_library}
    for k, v in utils.EEMS_COMMANDS.items():
        missing = [ln for ln, lib in libs.items() if v not in lib]
        if missing:
            fails.append({"sig": "C16:table:%s" % k,
                          "what": "EEMS 2.0 name %s maps to %r, which does not exist in the %s library set" % (k, v, "/".join(missing)),
                          "replay": {"v2_source": "%s(InFieldName = a)" % k, "expected": "a command that exists"}})
    for k in REF:
        if k not in utils.EEMS_COMMANDS:
            fails.append({"sig": "C16:table-missing:%s" % k, "what": "EEMS 2.0 name %s is not mapped at all" % k,
                          "replay": {"v2_source": "%s(InFieldName = a)" % k}})
    return fails


def main():
    out, n_struct, n_models = sys.argv[1], int(sys.argv[2]), int(sys.argv[3])
    seed = int(os.environ.get("VERIF_SEED", "0"))
    rnd = random.Random(seed * 7919 + 16)
    wd = tempfile.mkdtemp(prefix="c16-", dir=os.getcwd())
    rows = ["c0,c1,c2"]
    for i in range(8):
        rows.append(",".join(str(rnd.choice([0, 1, 2, 3, 5, -4, 7.5, 2.25])) for _ in range(3)))
    for fn in ("data.csv", "win\\data.csv"):       # on POSIX the second one is a file NAME containing a backslash
        with open(os.path.join(wd, fn), "w") as fh:
            fh.write("\n".join(rows) + "\n")
    cases, srcs, sstats, nt1 = struct_cases(rnd, n_struct)
    files = []
    CH = 100
    for i in range(0, len(cases), CH):
        path = os.path.join(os.getcwd(), "Cases_C16_%03d.v" % (i // CH))
        with open(path, "w") as fh:
            fh.write("From Coq Require Import String List Bool ZArith QArith.\n"
                     "From MP Require Import Base.Sig Base.Check Model.Eems2 Props.C16.\n"
                     "Import ListNotations.\nOpen Scope string_scope.\n"
                     "Definition cases : list (bool * list node * list node) := [\n  %s\n].\n"
                     "Eval vm_compute in (failing (fun c => match c with (f, i, o) => nodes_eqb (load_nodes_impl f i) o end) cases).\n"
                     % ";\n  ".join(cases[i:i + CH]))
        files.append({"path": path, "first": i, "count": len(cases[i:i + CH])})
    fails = table_oracle()
    f2, mstats, samples, nt2 = model_oracle(rnd, n_models, wd)
    fails += f2
    json.dump({"files": files, "sources": srcs, "n_cases": len(cases), "oracle_failures": fails,
               "distribution": {"struct": sstats, "models": mstats},
               "evaluations": len(cases) + n_models, "distinct_nontrivial": nt1 + nt2,
               "samples": samples + [{"struct_source": srcs[0]}] if srcs else samples,
               "tree": mpilot.__file__}, open(out, "w"))


main()
