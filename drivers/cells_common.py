"""Shared by the array-family drivers (C02-C09): running real EEMS commands on generated masked arrays,
canonical observations, a reference evaluator in exact Fractions (written from the property statements and the
user documentation, independently of the Coq model), and the Coq case printer."""
import math
import os
import warnings
from fractions import Fraction as Fr

warnings.simplefilter("ignore")
import numpy  # noqa: E402

import mpilot  # noqa: E402
from mpilot.arguments import Argument  # noqa: E402
from mpilot.commands import Command  # noqa: E402
from mpilot.exceptions import MPilotError, UnexpectedError  # noqa: E402
from mpilot.libraries.eems import basic, fuzzy  # noqa: E402
from coqfmt import clist, cbool, copt, cZ, cQ, cnat  # noqa: E402

assert os.path.abspath(mpilot.__file__).startswith(os.path.abspath(os.environ["VERIF_SNAP"])), mpilot.__file__


class Src(Command):
    """stand-in producer of a finished non-fuzzy data result"""
    output = mpilot.params.DataParameter()

    def execute(self, **kw):
        raise AssertionError("never executed")


class FSrc(Src):
    is_fuzzy = True


def producer(name, array, fuzzy_flag):
    c = (FSrc if fuzzy_flag else Src)(name)
    c.is_finished = True
    c._result = array
    return c


CLASSES = {}
for mod in (basic, fuzzy):
    for k, v in vars(mod).items():
        if isinstance(v, type) and issubclass(v, Command) and v.__module__ == mod.__name__ and k != "PrintVars":
            CLASSES[k] = v

FUZZY_IN = {"FuzzyUnion", "FuzzyWeightedUnion", "FuzzySelectedUnion", "FuzzyOr", "FuzzyAnd", "FuzzyXOr", "FuzzyNot", "CvtFromFuzzy"}
NARY = {"Sum", "WeightedSum", "Multiply", "Minimum", "Maximum", "Mean", "WeightedMean", "FuzzyUnion", "FuzzyWeightedUnion",
        "FuzzySelectedUnion", "FuzzyOr", "FuzzyAnd", "FuzzyXOr"}
BINARY = {"AMinusB", "ADividedByB"}
FUZZY_OUT = sorted(k for k, v in CLASSES.items() if getattr(v, "is_fuzzy", False))
ERRMAP = {"EmptyInputs": "EEmptyInputs", "MixedArrayShapes": "EMixedShapes", "MismatchedWeights": "EMismatchedWeights",
          "MixedArrayLengths": "EMixedLengths", "DuplicateRawValues": "EDuplicateRaw", "InvalidDirection": "EInvalidDirection",
          "InvalidThresholds": "EInvalidThresholds", "InvalidNumberToConsider": "EInvalidNumber",
          "InvalidTruestOrFalsest": "EInvalidTruest", "UnexpectedError": "EUnexpected"}


def run_impl(cname, arrays, params):
    """Run the real command through Command.run (validate_params + execute + error wrapping).
    Returns ("ok", ndarray) or ("err", class name, detail)."""
    cls = CLASSES[cname]
    fz = cname in FUZZY_IN
    prods = []
    for i, a in enumerate(arrays):
        same = [j for j in range(i) if arrays[j] is a]
        prods.append(prods[same[0]] if same else producer("in%d" % i, a, fz))      # the same array object = the same result mentioned again
    args = []
    if cname in NARY:
        args.append(Argument("InFieldNames", prods, 1))
    elif cname in BINARY:
        args += [Argument("A", prods[0], 1), Argument("B", prods[1], 1)]
        if (arrays[0].size + int(numpy.ma.getmaskarray(arrays[1]).sum())) % 2:
            args.reverse()              # B written before A
    else:
        args.append(Argument("InFieldName", prods[0], 1))
    for k, v in params.items():
        args.append(Argument(k, v, 2))
    if arrays and (arrays[0].size + len(arrays)) % 3 == 0:
        args.append(Argument("Metadata", {"DisplayName": "layer", "Description": "any text"}, 3))       # every command takes Metadata
    cmd = cls("out", args, program=None, lineno=1)
    try:
        cmd.run()
    except UnexpectedError as ex:
        return ("err", "UnexpectedError", type(ex.exc).__name__ + ": " + str(ex.exc)[:120])
    except MPilotError as ex:
        return ("err", type(ex).__name__, "")
    except BaseException as ex:   # nothing else may escape (C13); reported by the callers
        return ("err", "ESCAPED:" + type(ex).__name__, str(ex)[:120])
    return ("ok", cmd._result)


def run_shared(cnames_params, array):
    """several single-input commands run one after the other on the SAME producer command (one layer used by several conversions)"""
    prod = producer("in0", array, False)
    outs = []
    for cname, params in cnames_params:
        args = [Argument("InFieldName", prod, 1)] + [Argument(k, v, 2) for k, v in params.items()]
        cmd = CLASSES[cname]("out", args, program=None, lineno=1)
        try:
            cmd.run()
            outs.append(("ok", cmd._result))
        except UnexpectedError as ex:
            outs.append(("err", "UnexpectedError", type(ex.exc).__name__ + ": " + str(ex.exc)[:120]))
        except MPilotError as ex:
            outs.append(("err", type(ex).__name__, ""))
    return outs


def canon(a):
    """observable part of a result array: dtype tag, shape, cells (None = missing, else exact Fraction)"""
    if not isinstance(a, numpy.ndarray):
        return {"kind": "notarray", "repr": repr(a)[:80]}
    has_mask = isinstance(a, numpy.ma.MaskedArray)
    m = numpy.ma.getmaskarray(a).reshape(-1).tolist()
    d = numpy.ma.getdata(a).reshape(-1).tolist()
    cells = []
    for x, mm in zip(d, m):
        if mm:
            cells.append(None)
        elif isinstance(x, float) and (math.isnan(x) or math.isinf(x)):
            cells.append("nan" if math.isnan(x) else "inf")
        else:
            cells.append(Fr(x))
    dt = "DInt" if numpy.issubdtype(a.dtype, numpy.integer) else ("DFloat" if numpy.issubdtype(a.dtype, numpy.floating) else str(a.dtype))
    return {"kind": "masked" if has_mask else "plain", "dt": dt, "shape": list(a.shape), "cells": cells}


# ---------------- reference evaluator (exact) ----------------
class RefErr(Exception):
    def __init__(self, cls):
        self.cls = cls


def clamp2(lo, hi, x):
    y = hi if x > hi else x
    return lo if y < lo else y


def fzc(x):
    return clamp2(Fr(-1), Fr(1), x)


def interp(pts, x):
    pts = sorted(pts)
    if x <= pts[0][0]:
        return pts[0][1]
    for (r0, n0), (r1, n1) in zip(pts, pts[1:]):
        if r0 < x <= r1:
            return n0 + (n1 - n0) * (x - r0) / (r1 - r0)
    return pts[-1][1]


def ref_eval(cname, ins, p, sigma=None):
    """ins: list of canon() dicts (cells: None | Fraction); p: params with Fraction numbers.
    Returns {"dt","shape","cells"}; raises RefErr(error class) for the documented specific errors.
    'undefined' cells (division by zero) are None."""
    F = lambda v: None if v is None else Fr(v)
    n = len(ins)
    if cname in NARY or cname in BINARY:
        if cname in ("WeightedSum", "WeightedMean", "FuzzyWeightedUnion") and len(p["Weights"]) != n:
            raise RefErr("MismatchedWeights")
        if n == 0:
            raise RefErr("EmptyInputs")
        if any(a["shape"] != ins[0]["shape"] for a in ins):
            raise RefErr("MixedArrayShapes")
    shape = ins[0]["shape"]
    L = len(ins[0]["cells"])
    cols = [[a["cells"][i] for a in ins] for i in range(L)]
    allint = all(a["dt"] == "DInt" for a in ins)

    def percol(f, dt):
        out = []
        for c in cols:
            out.append(None if any(v is None for v in c) else f(c))
        return {"dt": dt, "shape": shape, "cells": out}

    a0 = ins[0]
    valid = [v for v in a0["cells"] if v is not None]
    if cname == "Copy":
        return {"dt": a0["dt"], "shape": shape, "cells": list(a0["cells"])}
    if cname == "AMinusB":
        return percol(lambda c: c[0] - c[1], "DInt" if allint else "DFloat")
    if cname == "ADividedByB":
        return percol(lambda c: None if c[1] == 0 else c[0] / c[1], "DFloat")
    if cname == "Sum":
        return percol(lambda c: sum(c), "DInt" if allint else "DFloat")
    if cname == "Multiply":
        return percol(lambda c: math.prod(c), "DInt" if allint else "DFloat")
    if cname == "Minimum":
        return percol(min, "DInt" if allint else "DFloat")
    if cname == "Maximum":
        return percol(max, "DInt" if allint else "DFloat")
    if cname == "Mean":
        return percol(lambda c: sum(c) / len(c), "DFloat")
    if cname in ("WeightedSum", "WeightedMean", "FuzzyWeightedUnion"):
        ws = [Fr(w) for w in p["Weights"]]
        wint = all(isinstance(w, int) for w in p["Weights"])
        tot = sum(ws)
        if cname == "WeightedSum":
            return percol(lambda c: sum(w * x for w, x in zip(ws, c)), "DInt" if allint and wint else "DFloat")
        if cname == "WeightedMean":
            return percol(lambda c: None if tot == 0 else sum(w * x for w, x in zip(ws, c)) / tot, "DFloat")
        return percol(lambda c: None if tot == 0 else fzc(sum(w * x for w, x in zip(ws, c)) / tot), "DFloat")
    if cname == "FuzzyUnion":
        return percol(lambda c: fzc(sum(c) / len(c)), "DFloat")
    if cname == "FuzzyOr":
        return percol(lambda c: fzc(max(c)), "DFloat")
    if cname == "FuzzyAnd":
        return percol(lambda c: fzc(min(c)), "DFloat")
    if cname == "FuzzyNot":
        return percol(lambda c: fzc(-c[0]), "DFloat")
    if cname == "FuzzySelectedUnion":
        k = p["NumberToConsider"]
        if n < k:
            raise RefErr("InvalidNumberToConsider")
        if p["TruestOrFalsest"] not in ("Truest", "Falsest"):
            raise RefErr("InvalidTruestOrFalsest")
        tr = p["TruestOrFalsest"] == "Truest"
        return percol(lambda c: fzc(sum(sorted(c, reverse=tr)[:k]) / k), "DFloat")
    if cname == "FuzzyXOr":
        def x(c):
            t1, t2 = sorted(c, reverse=True)[:2]
            return fzc(Fr(-1) if t1 <= -1 else t1 - (t1 - t2) * (t2 + 1) / (t1 + 1))
        return percol(x, "DFloat")
    one = lambda f: {"dt": "DFloat", "shape": shape, "cells": [None if v is None else f(v) for v in a0["cells"]]}
    lo, hi = (min(valid), max(valid)) if valid else (None, None)
    if cname == "CvtFromFuzzy":
        t, f = Fr(p["TrueThreshold"]), Fr(p["FalseThreshold"])
        if t == f:
            raise RefErr("InvalidThresholds")
        return one(lambda v: f + (v + 1) * (t - f) / 2)      # the inverse of the linear map: -1 -> F, +1 -> T
    if cname == "CvtToFuzzy":
        d = p.get("Direction")
        if d and d not in ("LowToHigh", "HighToLow"):
            raise RefErr("InvalidDirection")
        f = Fr(p["FalseThreshold"]) if "FalseThreshold" in p else (hi if d == "HighToLow" else lo)
        t = Fr(p["TrueThreshold"]) if "TrueThreshold" in p else (lo if d == "HighToLow" else hi)
        if t == f:
            raise RefErr("InvalidThresholds")
        return one(lambda v: fzc(1 - 2 * (v - t) / (f - t)))
    if cname == "CvtToBinary":
        if p["Direction"] not in ("LowToHigh", "HighToLow"):
            raise RefErr("InvalidDirection")
        thr = Fr(p["Threshold"])
        up = p["Direction"] == "LowToHigh"
        return one(lambda v: Fr(0 if (v < thr) == up else 1))
    if cname == "Normalize":
        s, e = Fr(p.get("StartVal", 0)), Fr(p.get("EndVal", 1))
        return one(lambda v: None if lo == hi else s + (v - lo) * (e - s) / (hi - lo))
    curvey = {"NormalizeCurve": "NormalValues", "CvtToFuzzyCurve": "FuzzyValues"}
    caty = {"NormalizeCat": ("NormalValues", "DefaultNormalValue"), "CvtToFuzzyCat": ("FuzzyValues", "DefaultFuzzyValue")}
    post = fzc if cname.startswith("CvtToFuzzy") else (lambda v: v)
    if cname in curvey or cname in caty:
        raws = [Fr(r) for r in p["RawValues"]]
        ys = [Fr(r) for r in p[curvey[cname] if cname in curvey else caty[cname][0]]]
        if len(raws) != len(ys):
            raise RefErr("MixedArrayLengths")
        if len(set(raws)) != len(raws):
            raise RefErr("DuplicateRawValues")
        if cname in caty:
            d = Fr(p[caty[cname][1]])
            table = dict(zip(raws, ys))
            return one(lambda v: post(table.get(v, d)))
        return one(lambda v: post(interp(list(zip(raws, ys)), v)))
    if cname in ("NormalizeMeanToMid", "CvtToFuzzyMeanToMid"):
        ys = [Fr(r) for r in p["NormalValues" if cname.startswith("Normalize") else "FuzzyValues"]]
        used = [v for v in valid if v != 0] if p["IgnoreZeros"] else valid
        mu = sum(used) / len(used)
        below, above = [v for v in used if v <= mu], [v for v in used if v > mu]
        raws = [lo, sum(below) / len(below), mu, sum(above) / len(above), hi]
        if raws[-1] == raws[-2]:
            del raws[-2], ys[-2]
        if raws[0] == raws[1]:
            del raws[1], ys[1]
        return one(lambda v: post(interp(list(zip(raws, ys)), v)))
    mu = sum(valid) / len(valid) if valid else None
    if cname in ("NormalizeZScore", "CvtToFuzzyZScore"):
        if cname == "NormalizeZScore":
            t, f = Fr(p.get("TrueThresholdZScore", 0)), Fr(p.get("FalseThresholdZScore", 1))
            s, e = Fr(p.get("StartVal", 0)), Fr(p.get("EndVal", 1))
        else:
            t, f, s, e = Fr(p.get("TrueThresholdZScore", 1)), Fr(p.get("FalseThresholdZScore", -1)), Fr(-1), Fr(1)
        x1, x2 = mu + sigma * t, mu + sigma * f
        return one(lambda v: None if x1 == x2 else post(clamp2(s, e, e + (v - x1) * (s - e) / (x2 - x1))))
    if cname in ("NormalizeCurveZScore", "CvtToFuzzyCurveZScore"):
        ys = [Fr(r) for r in p["NormalValues" if cname.startswith("Normalize") else "FuzzyValues"]]
        zs = [Fr(z) for z in p["ZScoreValues"]]
        if len(zs) != len(ys):
            raise RefErr("MixedArrayLengths")
        return one(lambda v: post(interp([(mu + z * sigma, y) for z, y in zip(zs, ys)], v)))
    raise KeyError(cname)


def close(a, b, tol=Fr(1, 1 << 36)):
    if a is None or b is None or isinstance(a, str) or isinstance(b, str):
        return a == b
    return abs(a - b) <= tol * max(1, abs(b))


def same_obs(x, y, tol=Fr(1, 1 << 36)):
    return x["dt"] == y["dt"] and x["shape"] == y["shape"] and len(x["cells"]) == len(y["cells"]) and all(
        close(a, b, tol) for a, b in zip(x["cells"], y["cells"]))


# ---------------- Coq printers ----------------
def c_cells(cells):
    return clist(["None" if v is None else "(Some %s)" % cQ(v) for v in cells])


def c_arr(c):
    return "{| a_dt := %s; a_shape := %s; a_cells := %s |}" % (c["dt"], clist([cnat(x) for x in c["shape"]]), c_cells(c["cells"]))


def c_optq(p, k):
    return copt(cQ(Fr(p[k])) if k in p else None)


def c_ql(l):
    return clist([cQ(Fr(x)) for x in l])


def c_ws(l):
    return clist(["(%s, %s)" % (cQ(Fr(w)), "DInt" if isinstance(w, int) else "DFloat") for w in l])


def c_dir(d):
    return {None: "DirNone", "": "DirNone", "LowToHigh": "DirLowToHigh", "HighToLow": "DirHighToLow"}.get(d, "DirBad")


def c_cmd(cname, p, sigma=None):
    sg = cQ(sigma) if sigma is not None else "0"
    if cname in ("Copy", "AMinusB", "Sum", "Multiply", "ADividedByB", "Minimum", "Maximum", "Mean", "FuzzyUnion", "FuzzyOr",
                 "FuzzyAnd", "FuzzyXOr", "FuzzyNot"):
        return cname
    if cname in ("WeightedSum", "WeightedMean", "FuzzyWeightedUnion"):
        return "(%s %s)" % (cname, c_ws(p["Weights"]))
    if cname == "Normalize":
        return "(Normalize %s %s)" % (c_optq(p, "StartVal"), c_optq(p, "EndVal"))
    if cname == "NormalizeZScore":
        return "(NormalizeZScore %s %s %s %s %s)" % (sg, c_optq(p, "TrueThresholdZScore"), c_optq(p, "FalseThresholdZScore"),
                                                   c_optq(p, "StartVal"), c_optq(p, "EndVal"))
    if cname == "CvtToFuzzyZScore":
        return "(CvtToFuzzyZScore %s %s %s)" % (sg, c_optq(p, "TrueThresholdZScore"), c_optq(p, "FalseThresholdZScore"))
    if cname in ("NormalizeCat", "CvtToFuzzyCat"):
        n, d = ("NormalValues", "DefaultNormalValue") if cname == "NormalizeCat" else ("FuzzyValues", "DefaultFuzzyValue")
        return "(%s %s %s %s)" % (cname, c_ql(p["RawValues"]), c_ql(p[n]), cQ(Fr(p[d])))
    if cname in ("NormalizeCurve", "CvtToFuzzyCurve"):
        return "(%s %s %s)" % (cname, c_ql(p["RawValues"]), c_ql(p["NormalValues" if cname == "NormalizeCurve" else "FuzzyValues"]))
    if cname in ("NormalizeMeanToMid", "CvtToFuzzyMeanToMid"):
        return "(%s %s %s)" % (cname, cbool(bool(p["IgnoreZeros"])), c_ql(p["NormalValues" if cname.startswith("Normalize") else "FuzzyValues"]))
    if cname in ("NormalizeCurveZScore", "CvtToFuzzyCurveZScore"):
        return "(%s %s %s %s)" % (cname, sg, c_ql(p["ZScoreValues"]), c_ql(p["NormalValues" if cname.startswith("Normalize") else "FuzzyValues"]))
    if cname == "CvtToFuzzy":
        return "(CvtToFuzzy %s %s %s)" % (c_optq(p, "TrueThreshold"), c_optq(p, "FalseThreshold"), c_dir(p.get("Direction")))
    if cname == "CvtToBinary":
        return "(CvtToBinary %s %s)" % (cQ(Fr(p["Threshold"])), c_dir(p["Direction"]))
    if cname == "FuzzySelectedUnion":
        t = p["TruestOrFalsest"]
        return "(FuzzySelectedUnion %s %s)" % (copt({"Truest": "true", "Falsest": "false"}.get(t)), cZ(p["NumberToConsider"]))
    if cname == "CvtFromFuzzy":
        return "(CvtFromFuzzy %s %s)" % (cQ(Fr(p["TrueThreshold"])), cQ(Fr(p["FalseThreshold"])))
    raise KeyError(cname)


def c_obs(o):
    """observation of the implementation as a Coq term of type res arr (nan/inf cells cannot be printed)"""
    if o[0] == "ok":
        c = canon(o[1])
        if c.get("kind") == "notarray" or c["dt"] not in ("DInt", "DFloat") or any(isinstance(v, str) for v in c["cells"]):
            return None
        return "(ROk %s)" % c_arr(c)
    e = ERRMAP.get(o[1])
    return None if e is None else "(RErr %s)" % e


def sigma_oracle(a):
    """numpy's standard deviation of the valid cells as an exact rational; 0 when there is no valid cell (the value is then irrelevant)"""
    import math
    import numpy
    from fractions import Fraction
    s = numpy.ma.std(a)
    if s is numpy.ma.masked:
        return Fraction(0)
    s = float(s)
    return Fraction(0) if math.isnan(s) or math.isinf(s) else Fraction(s)


def needs_sigma(cname):
    return "ZScore" in cname
