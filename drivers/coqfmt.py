"""Coq term printers shared by the translator and the correspondence drivers."""
from fractions import Fraction


def cstr(s):
    for ch in s:
        if ord(ch) < 32 or ord(ch) > 126:
            raise ValueError("cstr: non printable character in %r" % (s,))
    return '"' + s.replace('"', '""') + '"'


def ctext(s):
    """text = list N of code points"""
    return "[" + "; ".join(str(ord(c)) for c in s) + "]"


def clist(items, sep="; "):
    return "[" + sep.join(items) + "]"


def cbool(b):
    return "true" if b else "false"


def copt(x):
    return "None" if x is None else "(Some %s)" % x


def cZ(n):
    return "(%d)%%Z" % int(n)


def cN(n):
    return "%d%%N" % int(n)


def cnat(n):
    return "%d%%nat" % int(n)


def cQ(x):
    """exact rational of a python int/float/Fraction"""
    fr = x if isinstance(x, Fraction) else Fraction(x)
    if fr.numerator >= 0:
        return "(%d#%d)" % (fr.numerator, fr.denominator)
    return "(-%d#%d)" % (-fr.numerator, fr.denominator)


def cpair(*xs):
    return "(" + ", ".join(xs) + ")"
