"""A user-library command that declares no output kind (Command.output is None), like many third-party sinks."""
from mpilot import params
from mpilot.commands import Command


class Dump(Command):
    inputs = {
        "OutFileName": params.PathParameter(must_exist=False),
        "OutFieldNames": params.ListParameter(params.ResultParameter(params.DataParameter())),
    }

    def execute(self, **kwargs):
        with open(kwargs["OutFileName"], "w") as f:
            for c in kwargs["OutFieldNames"]:
                f.write("%s\n" % (c.result_name,))
