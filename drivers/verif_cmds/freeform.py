"""A user library with free-form parameters of every kind (used by the serialisation check C15)."""
from mpilot import params
from mpilot.commands import Command


class Note(Command):
    inputs = {
        "Text": params.StringParameter(),
        "Number": params.NumberParameter(required=False),
        "Flag": params.BooleanParameter(required=False),
        "Words": params.ListParameter(params.StringParameter(), required=False),
        "Values": params.ListParameter(params.NumberParameter(), required=False),
        "Grid": params.ListParameter(params.ListParameter(params.NumberParameter()), required=False),
        "Info": params.TupleParameter(required=False),
        "Of": params.ResultParameter(required=False),
        "OfMany": params.ListParameter(params.ResultParameter(), required=False),
    }
    output = params.StringParameter()

    def execute(self, **kwargs):
        def canon(v):
            # dictionaries compare equal whatever their order: print them sorted
            if isinstance(v, dict):
                return "{%s}" % ", ".join("%r: %s" % (k, canon(x)) for k, x in sorted(v.items()))
            if isinstance(v, (list, tuple)):
                return "[%s]" % ", ".join(canon(x) for x in v)
            return "%s:%r" % (type(v).__name__, v)

        return repr(sorted((k, canon(v)) for k, v in kwargs.items() if k not in ("Of", "OfMany")))


class Loose(Command):
    allow_extra_inputs = True
    inputs = {"Text": params.StringParameter(required=False)}
    output = params.StringParameter()

    def execute(self, **kwargs):
        return "loose"
