"""Probe command library used by the scheduler checks (C01, C02, C14): an external library, not a hook.
Each Probe logs entry/exit of execute, pulls the result of everything it references and returns a fresh
object whose value is a hash of its name and of the consumed values."""
from mpilot import params
from mpilot.commands import Command
from mpilot.utils import flatten

LOG = []          # ("enter"|"exit", result_name) and ("consumed", consumer, producer, same_object: bool)
M = (1 << 61) - 1
FLAKY = set()     # Ids of commands that fail on their first execution (set by the driver for "flaky" histories)


class Value(object):
    __slots__ = ("h",)

    def __init__(self, h):
        self.h = h


NONE_H = 5


def returns_none(name_id):
    return name_id % 7 == 3


def combine(name_id, hs):
    acc = 0
    for h in hs:
        acc = (acc * 1000003 + h) % M
    return (name_id + 1 + 31 * acc) % M


class Probe(Command):
    inputs = {
        "Id": params.NumberParameter(),
        "D1": params.ResultParameter(required=False),
        "D2": params.ResultParameter(required=False),
        "D3": params.ResultParameter(required=False),
        "D4": params.ResultParameter(required=False),
        "D5": params.ResultParameter(required=False),
        "L1": params.ListParameter(params.ResultParameter(), required=False),
        "L2": params.ListParameter(params.ResultParameter(), required=False),
        "N1": params.ListParameter(params.ListParameter(params.ResultParameter()), required=False),
    }
    output = params.Parameter()

    def execute(self, **kwargs):
        LOG.append(("enter", self.result_name))
        hs = []
        # references in argument order (the order of self.arguments), flattened
        for arg in self.arguments:
            if arg.name == "Id" or arg.name not in kwargs or arg.name == "Metadata":
                continue
            v = kwargs[arg.name]
            deps = list(flatten(v)) if isinstance(v, (list, tuple)) else [v]
            for dep in deps:
                r = dep.result
                own = self.program is None or self.program.commands.get(dep.result_name) is dep    # the program's command, not a stand-in
                LOG.append(("consumed", self.result_name, dep.result_name, r is dep._result and dep.is_finished and own))
                hs.append(NONE_H if r is None else r.h)
        if int(kwargs["Id"]) in FLAKY and not getattr(self, "_flaked", False):
            self._flaked = True          # fails the first time it executes (a data file that is not there yet, Ctrl-C, ...), works the next time
            LOG.append(("failed", self.result_name))
            raise RuntimeError("flaky command r%d" % int(kwargs["Id"]))
        LOG.append(("exit", self.result_name))
        if returns_none(int(kwargs["Id"])):
            return None      # like EEMSWrite: a command whose result is None is finished all the same
        return Value(combine(int(kwargs["Id"]), hs))
