"""A project library whose commands are named like EEMS 2.0 commands (MEAN, MIN, SUM, NOT) but compute something else.
Loading it next to the built-in libraries must not change what an EEMS 2.0 command file means (C16): MEAN in such a file is the
EEMS 2.0 command and converts to Mean."""
from mpilot import params
from mpilot.commands import Command


class _First(Command):
    inputs = {"InFieldNames": params.ListParameter(params.ResultParameter(params.DataParameter()))}
    output = params.DataParameter()

    def execute(self, **kwargs):
        return kwargs["InFieldNames"][0].result * 0 + 12345


class MEAN(_First):
    pass


class MIN(_First):
    pass


class SUM(_First):
    pass


class MAX(_First):
    pass
