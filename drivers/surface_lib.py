"""Decomposition of a command-file text into the surface program + gaps of Proofs/Surface.v / Proofs/Layout.v, so that Coq can
decide whether the text is an instance of the layout theorem C10_layout_irrelevance (the decomposition is untrusted: Coq
re-assembles the text from it and checks every hypothesis)."""
from coqfmt import clist, ctext, cbool


class Outside(Exception):
    pass


def tokens_with_gaps(parser_cls, text):
    """[(gap before, type, lexeme)], final gap -- positions taken from the real PLY lexer"""
    lx = parser_cls().lexer
    lx.lineno = 1
    lx.input(text)
    out, pos = [], 0
    while True:
        t = lx.token()
        if t is None:
            break
        end = lx.lexpos
        out.append((text[pos:t.lexpos], t.type, text[t.lexpos:end]))
        pos = end
    return out, text[pos:]


LEAF = {"STRING": "XS", "INT": "XI", "FLOAT": "XF", "ID": "XW"}


class P(object):
    def __init__(self, toks):
        self.t = toks
        self.i = 0

    def peek(self, k=0):
        return self.t[self.i + k][1] if self.i + k < len(self.t) else None

    def take(self, ty):
        if self.peek() != ty:
            raise Outside("expected %s, found %s" % (ty, self.peek()))
        self.i += 1
        return self.t[self.i - 1][2]

    def leaf(self):
        ty = self.peek()
        if ty not in LEAF:
            raise Outside("leaf %s" % ty)
        return "(%s %s)" % (LEAF[ty], ctext(self.take(ty)))

    def seq(self, item, close):
        """item (COMMA item)* [COMMA] close  -> (items, trailing comma?)"""
        items, trail = [], False
        while True:
            items.append(item())
            if self.peek() == "COMMA":
                self.take("COMMA")
                if self.peek() == close:
                    trail = True
                    break
                continue
            break
        return items, trail

    WORDS = {"ID": "WW", "INT": "WI", "FLOAT": "WF", "PLAIN_STRING": "WP"}

    def words(self):
        """a maximal run of word tokens (unquoted text): one ID / INT / FLOAT is a leaf, anything else is XWords"""
        run = []
        while self.peek() in self.WORDS:
            ty = self.peek()
            run.append((ty, self.take(ty)))
        if len(run) == 1 and run[0][0] in ("ID", "INT", "FLOAT"):
            return "(XLeaf (%s %s))" % (LEAF[run[0][0]], ctext(run[0][1]))
        if run[-1][0] not in ("ID", "PLAIN_STRING"):
            raise Outside("unquoted text ending in a numeral")
        ws = []
        for ty, lx in run:
            if ty == "FLOAT":
                ws.append("(WF %s %s)" % (ctext(lx), ctext(str(float(lx)))))
            else:
                ws.append("(%s %s)" % (self.WORDS[ty], ctext(lx)))
        return "(XWords %s)" % clist(ws)

    def value(self):
        if self.peek() in self.WORDS:
            v = self.words()
            if self.peek() not in ("COMMA", "RBRACK", "RPAREN"):
                raise Outside("value followed by %s" % self.peek())
            return v
        if self.dict_start():                   # a dictionary as a list element (at any depth)
            self.take("LBRACK")
            pairs, trail = self.seq(self.pair, "RBRACK")
            self.take("RBRACK")
            if self.peek() not in ("COMMA", "RBRACK", "RPAREN"):
                raise Outside("value followed by %s" % self.peek())
            return "(XDict %s %s %s)" % (pairs[0], clist(pairs[1:]), cbool(trail))
        if self.peek() == "LBRACK":
            self.take("LBRACK")
            if self.peek() == "RBRACK":
                self.take("RBRACK")
                return "(XList [] false)"
            items, trail = self.seq(self.value, "RBRACK")
            self.take("RBRACK")
            return "(XList %s %s)" % (clist(items), cbool(trail))
        v = "(XLeaf %s)" % self.leaf()
        if self.peek() not in ("COMMA", "RBRACK", "RPAREN"):
            raise Outside("value followed by %s" % self.peek())
        return v

    def wordrun(self):
        run = []
        while self.peek() in self.WORDS:
            ty = self.peek()
            run.append((ty, self.take(ty)))
        if not run or run[-1][0] not in ("ID", "PLAIN_STRING"):
            raise Outside("unquoted text ending in a numeral")
        ws = []
        for ty, lx in run:
            ws.append("(WF %s %s)" % (ctext(lx), ctext(str(float(lx)))) if ty == "FLOAT" else "(%s %s)" % (self.WORDS[ty], ctext(lx)))
        return run, clist(ws)

    def pair(self):
        if self.peek() == "STRING":
            k = "(KQ %s)" % ctext(self.take("STRING"))
        else:
            _, ws = self.wordrun()
            k = "(KW %s)" % ws
        self.take("COLON")
        if self.peek() == "STRING":
            v = "(PVLeaf (XS %s))" % ctext(self.take("STRING"))
        else:
            if self.peek() not in self.WORDS:
                raise Outside("pair value %s" % self.peek())
            save = self.i
            run, ws = [], None
            while self.peek() in self.WORDS:
                run.append(self.peek())
                self.i += 1
            self.i = save
            if self.peek(len(run)) == "COLON":          # unquoted text with colons as the value of a pair
                _, first = self.wordrun()
                more = []
                while self.peek() == "COLON":
                    self.take("COLON")
                    _, ws = self.wordrun()
                    more.append(ws)
                v = "(PVColon %s %s)" % (first, clist(more))
            elif len(run) == 1 and run[0] in ("ID", "INT", "FLOAT"):
                v = "(PVLeaf %s)" % self.leaf()
            else:
                _, ws = self.wordrun()
                v = "(PVWords %s)" % ws
        if self.peek() not in ("COMMA", "RBRACK"):
            raise Outside("pair value followed by %s" % self.peek())
        return "(%s, %s)" % (k, v)

    def dict_start(self):
        if self.peek() != "LBRACK":
            return False
        if self.peek(1) == "STRING":
            return self.peek(2) == "COLON"
        k = 1
        while self.peek(k) in self.WORDS:
            k += 1
        return k > 1 and self.peek(k) == "COLON"

    def arg(self):
        name = self.take("ID")
        self.take("EQUAL")
        if self.dict_start():
            self.take("LBRACK")
            pairs, trail = self.seq(self.pair, "RBRACK")
            self.take("RBRACK")
            return "(%s, XADict %s %s %s)" % (ctext(name), pairs[0], clist(pairs[1:]), cbool(trail))
        k = 0
        while self.peek(k) in self.WORDS:
            k += 1
        if k > 0 and self.peek(k) == "COLON":     # unquoted text with colons (C:\data\in.csv, 12:30): only as a whole argument value
            _, first = self.wordrun()
            more = []
            while self.peek() == "COLON":
                self.take("COLON")
                _, ws = self.wordrun()
                more.append(ws)
            if self.peek() not in ("COMMA", "RPAREN"):
                raise Outside("colon text followed by %s" % self.peek())
            return "(%s, XAColon %s %s)" % (ctext(name), first, clist(more))
        return "(%s, XAVal %s)" % (ctext(name), self.value())

    def cmd(self):
        if self.peek(1) == "LPAREN":            # COMMAND(...): the EEMS 2.0 form
            res = None
            name = self.take("ID")
        else:
            res = self.take("ID")
            self.take("EQUAL")
            name = self.take("ID")
        self.take("LPAREN")
        args, trail = [], False
        if self.peek() != "RPAREN":
            args, trail = self.seq(self.arg, "RPAREN")
        self.take("RPAREN")
        return "{| xc_result := %s; xc_name := %s; xc_args := %s; xc_trail := %s |}" % (
            "None" if res is None else "(Some %s)" % ctext(res), ctext(name), clist(args), cbool(trail))

    def program(self):
        cmds = []
        while self.peek() is not None:
            cmds.append(self.cmd())
        if not cmds:
            raise Outside("empty")
        return clist(cmds)


SAMPLES = {}
REASONS = {}      # why accepted renderings fall outside the surface family (reported in the evidence)


def surface_case(parser_cls, text):
    """Coq term (program, gaps, final, text) or None when the text is outside the family"""
    try:
        toks, final = tokens_with_gaps(parser_cls, text)
        prog = P(toks).program()
    except Outside as ex:
        REASONS[str(ex)] = REASONS.get(str(ex), 0) + 1
        SAMPLES.setdefault(str(ex), text)
        return None
    except Exception as ex:
        REASONS["error: " + type(ex).__name__] = REASONS.get("error: " + type(ex).__name__, 0) + 1
        return None
    return "(%s, %s, %s, %s)" % (prog, clist([ctext(g) for g, _, _ in toks]), ctext(final), ctext(text))   # the caller appends the float oracle
