"""Array-family driver (C03 C04 C05 C06 C07 C08).  usage: cells_driver.py <out.json> <prop> <n>
Runs real EEMS commands (through Command.run) on generated masked arrays with hidden payloads, compares with the
exact reference evaluator (property oracle) and writes Coq case files for the model correspondence."""
import itertools
import json
import os
import random
import sys
from fractions import Fraction as Fr

import numpy

import cells_common as cc
from cells_common import run_impl, canon, ref_eval, RefErr, same_obs, close

ARITH = ["Sum", "WeightedSum", "Multiply", "AMinusB", "ADividedByB", "Minimum", "Maximum", "Mean", "WeightedMean", "Copy"]
FOPS = ["FuzzyOr", "FuzzyAnd", "FuzzyNot", "FuzzyUnion", "FuzzyWeightedUnion", "FuzzySelectedUnion", "FuzzyXOr"]
CONV = ["CvtToFuzzy", "CvtFromFuzzy", "CvtToBinary", "CvtToFuzzyCat", "CvtToFuzzyCurve", "CvtToFuzzyZScore",
        "CvtToFuzzyCurveZScore", "CvtToFuzzyMeanToMid", "Normalize", "NormalizeCat", "NormalizeCurve", "NormalizeZScore",
        "NormalizeCurveZScore", "NormalizeMeanToMid"]
ALL = ARITH + FOPS + CONV
OWNER = {}
for c in ARITH:
    OWNER[c] = "C07"
for c in FOPS:
    OWNER[c] = "C06"
for c in CONV:
    OWNER[c] = "C08"
COMMUTATIVE = ["Sum", "Multiply", "Minimum", "Maximum", "Mean", "FuzzyOr", "FuzzyAnd", "FuzzyUnion", "FuzzyXOr"]
HIDDEN_F = [0.0, 1e20, -9999.0, 3.5, -1e-300]
HIDDEN_I = [0, -9999, 77, 123456]


NP_INT = {"DInt": numpy.int64, "DInt32": numpy.int32, "DInt16": numpy.int16, "DInt8": numpy.int8, "DUInt": numpy.uint64, "DUInt8": numpy.uint8}
NP_FLOAT = {"DFloat": numpy.float64, "DFloat32": numpy.float32}


def gen_array(rnd, shape, dt, fuzzy, mask_p, hostile=False, big=False, fine=False, zeros=False):
    """dt: DInt | DInt32 | DInt16 | DInt8 | DFloat | DFloat32 (narrow types only ever next to a 64-bit input).
    big: values near the top of the narrow type's range; fine: float64 values that need more than 24 bits."""
    L = int(numpy.prod(shape)) if shape else 1
    if dt in NP_INT:
        top = {"DInt": 6, "DInt32": 2 ** 30, "DInt16": 30000, "DInt8": 100, "DUInt": 12, "DUInt8": 6}[dt]
        vals = [rnd.randint(-6, 6) if not big or rnd.random() < 0.3 else rnd.choice([-1, 1]) * (top - rnd.randint(0, 5)) for _ in range(L)]
        if dt == "DUInt":      # what the NetCDF reader hands over for DataType "Positive Integer": unsigned 64-bit cells
            vals = [rnd.randint(0, 12) for _ in range(L)]
        if dt == "DUInt8":     # a narrow unsigned raster (small values: nothing here may legitimately wrap around)
            vals = [rnd.randint(0, 6) for _ in range(L)]
    elif fuzzy:
        vals = [rnd.randint(-8, 8) / 8.0 for _ in range(L)]
    else:
        vals = [rnd.randint(-24, 24) / 4.0 for _ in range(L)]
    if hostile and not fuzzy and dt not in NP_INT and rnd.random() < 0.3:
        vals = [v * 16 for v in vals]
    if fine and dt == "DFloat":
        vals = [v + rnd.choice([0, 1, 3, -5]) / float(2 ** 30) for v in vals]
    if zeros:
        vals = [0 if rnd.random() < 0.4 else v for v in vals]
    mask = [rnd.random() < mask_p for _ in range(L)]
    if all(mask) and L and mask_p < 1.0:
        mask[rnd.randrange(L)] = False
    isint = dt in NP_INT
    hid = [(rnd.choice([0, 7, 999999] if dt == "DUInt" else [0, 7, 200] if dt == "DUInt8" else [h for h in HIDDEN_I if abs(h) < 120] if dt == "DInt8" else (HIDDEN_I[:3] if isint else HIDDEN_F)) if m else v)
           for v, m in zip(vals, mask)]
    npdt = NP_INT[dt] if isint else NP_FLOAT[dt]
    a = numpy.ma.array(numpy.array(hid, dtype=npdt).reshape(shape), mask=numpy.array(mask).reshape(shape))
    return a


def rehide(rnd, a):
    """same observable array, different payloads under the mask"""
    d = numpy.ma.getdata(a).copy()
    m = numpy.ma.getmaskarray(a).copy()
    pool = HIDDEN_I if numpy.issubdtype(a.dtype, numpy.integer) else HIDDEN_F + [float("nan"), float("inf")]
    flat = d.reshape(-1)
    for i, mm in enumerate(m.reshape(-1)):
        if mm:
            flat[i] = rnd.choice(pool)
    return numpy.ma.array(flat.reshape(a.shape), mask=m)


def rnum(rnd, lo=-6, hi=6, allow_float=True):
    if allow_float and rnd.random() < 0.5:
        return rnd.randint(lo * 4, hi * 4) / 4.0
    return rnd.randint(lo, hi)


def distinct(rnd, k, lo=-6, hi=6):
    out = []
    while len(out) < k:
        v = rnum(rnd, lo, hi)
        if all(Fr(v) != Fr(w) for w in out):
            out.append(v)
    return out


def gen_case(rnd, cname, prop, shape=None, mask_p=None, force_dt=None, zero_weight=False, many=False):
    hostile = prop in ("C04", "C13")
    fuzzy = cname in cc.FUZZY_IN
    forced_mask = mask_p
    if shape is None:
        shape = rnd.choice([(1,), (2,), (3,), (4,), (5,), (6,), (7,)])
        if prop in ("C05", "C03") and rnd.random() < 0.6:
            shape = rnd.choice([(2, 3), (1, 4), (3, 1), (2, 2), (2, 1, 3), (1, 1, 2), (2, 2, 2), (3, 2)])
    mask_p = rnd.choice([0.0, 0.15, 0.3, 0.5]) if prop != "C03" else rnd.choice([0.2, 0.35, 0.5])
    if forced_mask is not None:
        mask_p = forced_mask
    elif rnd.random() < 0.04:
        mask_p = 1.0       # an input with no valid cell at all (e.g. the result of a division by an all-zero layer)
    n = 1
    if cname in cc.NARY:
        n = rnd.choice([1, 2, 2, 3, 3, 4, 5]) if not many else rnd.randint(9, 12)
        if cname == "FuzzyXOr":
            n = max(n, 2)
    elif cname in cc.BINARY:
        n = 2
    dts = []
    for _ in range(n):
        if fuzzy or cname not in ARITH:
            dts.append("DFloat" if (fuzzy or rnd.random() < 0.7) else "DInt")
        else:
            dts.append(rnd.choice(["DInt", "DFloat"]))
    big = fine = False
    if force_dt is not None:
        dts = [force_dt] * n                                       # every input of this element type
    elif not fuzzy and "DInt" in dts and rnd.random() < 0.15:
        dts = ["DUInt" if d == "DInt" else d for d in dts]        # "Positive Integer" layers
    elif prop in ("C07", "C02") and cname in ARITH and n >= 2 and rnd.random() < 0.35:
        # narrow element types next to a 64-bit input: numpy promotes to the wide type, so no overflow is legitimate
        k = rnd.randrange(n)
        wide = "DInt" if dts[k] == "DInt" else "DFloat"
        j = rnd.choice([i for i in range(n) if i != k])
        dts[k] = wide
        if wide == "DInt":
            dts[j] = rnd.choice(["DInt32", "DInt16", "DInt8"])
            if cname in ("Sum", "AMinusB", "Mean", "Minimum", "Maximum"):   # weights multiply inside the narrow type (legitimate wrap-around)
                big = True
                for i in range(n):
                    if i not in (j, k):
                        dts[i] = "DInt"
        else:
            dts[j] = "DFloat32"
            fine = True
    zeros = cname == "ADividedByB" and rnd.random() < 0.5
    arrays = [gen_array(rnd, shape, dt, fuzzy, mask_p, hostile, big=big and dt != "DInt", fine=fine, zeros=zeros) for dt in dts]
    if n >= 2 and cname in cc.NARY and rnd.random() < 0.12 and not big:     # (not next to values near the top of a narrow type: two of them would legitimately wrap around)
        arrays[rnd.randrange(1, n)] = arrays[0]          # the same result mentioned twice in the list ([FA, FB, FA])
    if big:
        # the wide input carries values of the same magnitude as the narrow one
        for i, dt in enumerate(dts):
            if dt == "DInt" and rnd.random() < 0.8:
                d = numpy.ma.getdata(arrays[i])
                nd = numpy.ma.getdata(arrays[dts.index([x for x in dts if x != "DInt"][0])]).astype(numpy.int64)
                arrays[i] = numpy.ma.array(numpy.where(numpy.abs(nd) > 50, nd - numpy.sign(nd) * 3, d), mask=numpy.ma.getmaskarray(arrays[i]))
    if cname in ("NormalizeMeanToMid", "CvtToFuzzyMeanToMid") and rnd.random() < 0.45:
        # data symmetric about a centre that is itself a cell: some valid cell equals the mean exactly
        L = int(numpy.prod(shape))
        if L >= 3:
            c = rnd.randint(-4, 4)
            offs = [rnd.randint(1, 5) / 2.0 for _ in range((L - 1) // 2)]
            vals = [c] + [c + o for o in offs] + [c - o for o in offs]
            while len(vals) < L:
                vals.append(c)
            rnd.shuffle(vals)
            arrays = [numpy.ma.array(numpy.array(vals, dtype=float).reshape(shape), mask=numpy.zeros(shape, dtype=bool))]
    p = {}
    errorish = prop in ("C07", "C13") and rnd.random() < 0.12
    if errorish and cname in cc.NARY | cc.BINARY and n >= 2 and rnd.random() < 0.5:
        other = tuple(reversed(shape)) if len(shape) > 1 and shape != tuple(reversed(shape)) else (shape[0] + 1,) + tuple(shape[1:])
        arrays[rnd.randrange(1, n)] = gen_array(rnd, other, dts[-1], fuzzy, mask_p)
        if n >= 3 and rnd.random() < 0.5:
            # three pairwise different shapes among the inputs
            third = (shape[0] + 2,) + tuple(shape[1:]) if rnd.random() < 0.5 else tuple(shape) + (2,)
            free = [i for i in range(n) if arrays[i].shape == tuple(shape)]
            if len(free) >= 2:
                arrays[free[-1]] = gen_array(rnd, third, dts[-1], fuzzy, mask_p)
    elif errorish and cname in cc.NARY and rnd.random() < 0.3:
        arrays = []
        n = 0
    if cname in ("WeightedSum", "WeightedMean", "FuzzyWeightedUnion"):
        k = n if not (errorish and rnd.random() < 0.5) else max(0, n + rnd.choice([-1, 1]))
        pool = [1, 2, 3, 0.5, 0.25, 1.5, 0, -1, 5, 100] if hostile or prop == "C07" else [1, 2, 3, 0.5, 0.25, 1.5]
        p["Weights"] = [rnd.choice(pool) for _ in range(k)]
        if prop == "C07" and rnd.random() < 0.05 and k >= 2:   # zero-sum weights
            p["Weights"][-1] = -sum(p["Weights"][:-1])
        if force_dt in ("DUInt8", "DInt16"):
            p["Weights"] = [rnd.choice([1, 2, 3, 0.5, 0]) for _ in range(k)]          # products stay far inside the narrow type
        if zero_weight and k >= 2 and not errorish:
            # a weight of exactly 0 at a later position, and a cell that is missing in that input only: the cell is missing in the result
            j = rnd.randrange(1, k)
            p["Weights"][j] = 0
            if all(a.size for a in arrays) and len(set(a.shape for a in arrays)) == 1:
                for i, a in enumerate(arrays):
                    m = numpy.ma.getmaskarray(a).copy()
                    m.reshape(-1)[0] = (i == j)
                    arrays[i] = numpy.ma.array(numpy.ma.getdata(a), mask=m)
        if any(d in ("DUInt", "DUInt8") for d in dts):
            # unsigned data times a negative integer weight is promoted to float64 by numpy (right values, another element type):
            # the element type of such results is outside what the model states, so these cases keep their weights non-negative
            p["Weights"] = [abs(w) for w in p["Weights"]]
        if "DInt8" in dts:
            # an integer weight multiplies inside the narrow type (numpy semantics, legitimate wrap-around: 6 * 100 > 127); keep products in range
            p["Weights"] = [(20 if w > 0 else -20) if abs(w) > 20 else w for w in p["Weights"]]
    elif cname == "FuzzySelectedUnion":
        p["TruestOrFalsest"] = rnd.choice(["Truest", "Falsest"]) if rnd.random() < 0.95 else "Neither"
        p["NumberToConsider"] = rnd.randint(1, max(n, 1)) if rnd.random() < 0.93 else n + 1
        if many:       # the stratified many-layer cases select a proper, non-empty part of the layers
            p["NumberToConsider"] = rnd.randint(2, n - 2)
            p["TruestOrFalsest"] = rnd.choice(["Truest", "Falsest"])
    elif cname == "Normalize":
        if rnd.random() < 0.7:
            p["StartVal"] = rnum(rnd, -3, 3)
        if rnd.random() < 0.7:
            p["EndVal"] = rnum(rnd, -3, 3)
    elif cname in ("NormalizeZScore", "CvtToFuzzyZScore"):
        for k in ("TrueThresholdZScore", "FalseThresholdZScore") + (("StartVal", "EndVal") if cname == "NormalizeZScore" else ()):
            if rnd.random() < 0.6:
                p[k] = rnum(rnd, -2, 2)
        if "StartVal" in p and "EndVal" in p and Fr(p["StartVal"]) > Fr(p["EndVal"]) and rnd.random() < 0.5:
            p["StartVal"], p["EndVal"] = p["EndVal"], p["StartVal"]
    elif cname in ("NormalizeCat", "CvtToFuzzyCat", "NormalizeCurve", "CvtToFuzzyCurve"):
        k = rnd.randint(1 if "Cat" in cname else 2, 6)
        raws = distinct(rnd, k)
        if "Cat" in cname and arrays and rnd.random() < 0.8:
            present = [float(x) for x in numpy.ma.getdata(arrays[0]).reshape(-1)[:k]]
            raws = []
            for v in present + distinct(rnd, k):
                if all(Fr(v) != Fr(w) for w in raws) and len(raws) < k:
                    raws.append(int(v) if float(v).is_integer() and rnd.random() < 0.5 else v)
        if errorish and k >= 2 and rnd.random() < 0.5:
            raws[-1] = raws[0]
        rng = (-9, 9) if hostile else ((-1, 1) if cname.startswith("Cvt") and rnd.random() < 0.7 else (-4, 4))
        ys = [rnum(rnd, *rng) for _ in range(k if not (errorish and rnd.random() < 0.4) else k + 1)]
        if rnd.random() < 0.25 and not errorish:
            ys = [rnd.randint(-1, 1) if cname.startswith("Cvt") else rnd.randint(-3, 3) for _ in ys]      # whole numbers written without a decimal point
        p["RawValues"] = raws
        p["NormalValues" if cname.startswith("Normalize") else "FuzzyValues"] = ys
        if "Cat" in cname:
            p["DefaultNormalValue" if cname == "NormalizeCat" else "DefaultFuzzyValue"] = rnum(rnd, *rng)
            if all(isinstance(y, int) for y in ys) and rnd.random() < 0.8:
                p["DefaultNormalValue" if cname == "NormalizeCat" else "DefaultFuzzyValue"] = rnd.choice([0.5, -0.25, 0.75])
    elif cname in ("NormalizeMeanToMid", "CvtToFuzzyMeanToMid"):
        p["IgnoreZeros"] = rnd.random() < 0.4
        rng = (-9, 9) if hostile else (-1, 1)
        p["NormalValues" if cname.startswith("Normalize") else "FuzzyValues"] = sorted(rnum(rnd, *rng) for _ in range(5)) if rnd.random() < 0.6 else [rnum(rnd, *rng) for _ in range(5)]
        # the property quantifies over arrays with >= 2 distinct valid values among the cells that enter the statistics
        a = arrays[0]
        vals = [float(x) for x, m in zip(numpy.ma.getdata(a).reshape(-1), numpy.ma.getmaskarray(a).reshape(-1)) if not m]
        used = [v for v in vals if v != 0] if p["IgnoreZeros"] else vals
        if len(set(used)) < 2:
            return None
    elif cname in ("NormalizeCurveZScore", "CvtToFuzzyCurveZScore"):
        k = rnd.randint(2, 5)
        p["ZScoreValues"] = distinct(rnd, k, -2, 2)
        rng = (-9, 9) if hostile else (-1, 1)
        p["NormalValues" if cname.startswith("Normalize") else "FuzzyValues"] = [rnum(rnd, *rng) for _ in range(k)]
    elif cname == "CvtToFuzzy":
        if rnd.random() < 0.7:
            p["TrueThreshold"] = rnd.choice([0, 0.0]) if rnd.random() < 0.15 else rnum(rnd)
        if rnd.random() < 0.7:
            p["FalseThreshold"] = rnd.choice([0, 0.0]) if rnd.random() < 0.15 else rnum(rnd)
        if rnd.random() < 0.12:
            p["TrueThreshold"], p["FalseThreshold"] = rnd.choice([(1, -1), (1.0, -1.0), (-1, 1)])       # "already on the fuzzy scale"
        if force_dt is not None and rnd.random() < 0.7:     # integer thresholds inside the data range of an integer raster
            for kk in ("TrueThreshold", "FalseThreshold"):
                if kk in p:
                    p[kk] = rnd.randint(0, 6)
        r = rnd.random()
        if r < 0.3:
            p["Direction"] = "LowToHigh"
        elif r < 0.6:
            p["Direction"] = "HighToLow"
        elif r < 0.64:
            p["Direction"] = "Sideways"
    elif cname == "CvtToBinary":
        p["Threshold"] = rnum(rnd)
        p["Direction"] = rnd.choice(["LowToHigh", "HighToLow"]) if rnd.random() < 0.95 else "Up"
    elif cname == "CvtFromFuzzy":
        p["TrueThreshold"] = rnum(rnd, -9, 9)
        p["FalseThreshold"] = rnum(rnd, -9, 9)
    if needs_two_distinct(cname) and arrays:
        a = arrays[0]
        vals = set(float(x) for x, m in zip(numpy.ma.getdata(a).reshape(-1), numpy.ma.getmaskarray(a).reshape(-1)) if not m)
        if len(vals) < 2 and prop == "C08":
            return None
    return arrays, p


def needs_two_distinct(cname):
    return cname in CONV


def sigma_of(cname, arrays):
    if cc.needs_sigma(cname) and arrays:
        return cc.sigma_oracle(arrays[0])
    return None


def reference(cname, arrays, p, sigma):
    ins = [canon(a) for a in arrays]
    try:
        return ("ok", ref_eval(cname, ins, dict(p), sigma))
    except RefErr as e:
        return ("err", e.cls)
    except (ZeroDivisionError, IndexError, ValueError, TypeError):
        return ("undefined-by-reference",)


def describe(cname, arrays, p):
    return {"command": cname, "params": p,
            "inputs": [{"dtype": str(a.dtype), "shape": list(a.shape), "data": numpy.ma.getdata(a).reshape(-1).tolist(),
                        "mask": numpy.ma.getmaskarray(a).reshape(-1).tolist()} for a in arrays]}


def summarize(o):
    if o[0] == "ok":
        c = canon(o[1])
        if c.get("kind") == "notarray":
            return "non-array %s" % c["repr"]
        return "%s %s shape=%s cells=%s" % (c["kind"], c["dt"], c["shape"], [None if v is None else (v if isinstance(v, str) else float(v)) for v in c["cells"]][:12])
    return "error %s %s" % (o[1], o[2] if len(o) > 2 else "")


def perm_arrays(arrays, perm, newshape):
    out = []
    for a in arrays:
        d = numpy.ma.getdata(a).reshape(-1)[perm].reshape(newshape)
        m = numpy.ma.getmaskarray(a).reshape(-1)[perm].reshape(newshape)
        out.append(numpy.ma.array(d.copy(), mask=m.copy()))
    return out


def relayout(a, how):
    """the same cells (values, missing cells, element type, shape) held in memory in another order"""
    def lay(x):
        if how == "fortran":
            return numpy.asfortranarray(x)
        if how == "transposed-view":
            return numpy.ascontiguousarray(x.T).T
        if how == "reversed-strides":
            return numpy.ascontiguousarray(x[::-1])[::-1]
        big = numpy.zeros(x.shape[:-1] + (2 * x.shape[-1],), dtype=x.dtype)      # every other element of a wider buffer
        big[..., ::2] = x
        return big[..., ::2]
    return numpy.ma.array(lay(numpy.ma.getdata(a)), mask=lay(numpy.ma.getmaskarray(a)))


def main():
    out, prop, n = sys.argv[1], sys.argv[2], int(sys.argv[3])
    seed = int(os.environ.get("VERIF_SEED", "0"))
    rnd = random.Random(seed * 15485863 + int(prop[1:]))
    pools = {"C07": ARITH, "C06": FOPS, "C08": CONV, "C04": cc.FUZZY_OUT, "C03": ALL, "C05": ALL}
    pool = pools[prop]
    cases, descr, fails = [], [], []
    dist = {"per_command": {}, "outcomes": {}, "ranks": {}, "dtypes": {}, "masked_cells": 0, "cells": 0, "skipped_unprintable": 0}
    seen, nontrivial, evaluations = set(), 0, 0
    jobs = []
    # C06: exhaustive lattice for <= 3 inputs (thorough: 9-point lattice + missing; quick: 5-point + missing), one cell each
    if prop == "C06":
        lat = [-1.0, -0.5, 0.0, 0.5, 1.0] if os.environ.get("VERIF_TIER") != "thorough" else [k / 4.0 for k in range(-4, 5)]
        pts = lat + [None]
        for cname in FOPS:
            for k in ((1,) if cname == "FuzzyNot" else ((2, 3) if cname == "FuzzyXOr" else (1, 2, 3))):
                tuples = list(itertools.product(pts, repeat=k))
                # pack all tuples of this arity into ONE multi-cell case per parameter choice (each tuple = one cell position)
                plist = [{}]
                if cname == "FuzzySelectedUnion":
                    plist = [{"TruestOrFalsest": t, "NumberToConsider": kk} for t in ("Truest", "Falsest") for kk in range(1, k + 1)]
                elif cname == "FuzzyWeightedUnion":
                    plist = [{"Weights": w} for w in ([[1] * k, [1, 2, 3][:k], [0.5, 2, 1.5][:k], [2, -1, 0.25][:k], [1, 0, 2][:k], [0, 0, 1][:k]])]
                for chunk in range(0, len(tuples), 36):
                    tp = tuples[chunk:chunk + 36]
                    arrays = []
                    for j in range(k):
                        col = [t[j] for t in tp]
                        arrays.append(numpy.ma.array([rnd.choice(HIDDEN_F) if v is None else v for v in col], mask=[v is None for v in col]))
                    for p in plist:
                        jobs.append((cname, arrays, dict(p)))
                    if k == 2 and chunk == 0 and cname != "FuzzyNot":
                        # the same result mentioned twice: [A, B, A] is a list of three inputs
                        p3 = {"TruestOrFalsest": "Truest", "NumberToConsider": 2} if cname == "FuzzySelectedUnion" else ({"Weights": [1, 2, 0.5]} if cname == "FuzzyWeightedUnion" else {})
                        jobs.append((cname, [arrays[0], arrays[1], arrays[0]], p3))
                        jobs.append((cname, [arrays[1], arrays[0], arrays[0]], p3))
    if prop == "C05":
        # every command once on a rank-3 and once on a rank-2 grid with no axis of length 1 and missing cells in the inputs
        for cname in pool:
            for shp in ((2, 3, 2), (3, 2)):
                for _ in range(5):
                    g = gen_case(rnd, cname, prop, shape=shp, mask_p=0.3)
                    if g is not None:
                        jobs.append((cname, g[0], g[1]))
                        break
        n += len(jobs)
    # stratified part of every stream: each command once per unusual element type, each weighted command with a zero weight
    before = len(jobs)
    for cname in pool:
        for fd in ("DUInt", "DUInt8", "DInt16"):
            if cname in cc.FUZZY_IN or (fd != "DUInt" and cname == "Multiply"):
                continue
            want = 3 if OWNER.get(cname) == prop else 1
            for _ in range(8):
                g = gen_case(rnd, cname, prop, force_dt=fd, mask_p=rnd.choice([0.0, 0.3]))
                if g is not None:
                    jobs.append((cname, g[0], g[1]))
                    want -= 1
                    if want == 0:
                        break
        if cname in ("WeightedSum", "WeightedMean", "FuzzyWeightedUnion"):
            for _ in range(3):
                g = gen_case(rnd, cname, prop, mask_p=0.2, zero_weight=True)
                if g is not None:
                    jobs.append((cname, g[0], g[1]))
        if cname in cc.NARY:           # nine to twelve layers, on a vector and on grids
            for shp in ((4,), (3, 4), (2, 3, 2)):
                g = gen_case(rnd, cname, prop, shape=shp, mask_p=0.2, many=True)
                if g is not None:
                    jobs.append((cname, g[0], g[1]))
    dist["stratified_cases"] = len(jobs) - before
    n += len(jobs) - before
    while len(jobs) < n:
        cname = rnd.choice(pool)
        g = gen_case(rnd, cname, prop)
        if g is None:
            continue
        arrs = g[0]
        if rnd.random() < 0.12 and arrs and all(a.ndim >= 1 and a.size for a in arrs):
            # inputs that are views / Fortran-ordered: the cells are the same, so model and reference do not see the difference
            how = rnd.choice(["fortran", "transposed-view", "reversed-strides", "strided-view"])
            arrs = [relayout(a, how) if rnd.random() < 0.7 else a for a in arrs]
            dist["relaid_inputs"] = dist.get("relaid_inputs", 0) + 1
        jobs.append((cname, arrs, g[1]))
    for cname, arrays, p in jobs:
        sigma = sigma_of(cname, arrays)
        o = run_impl(cname, arrays, p)
        evaluations += 1
        dist["per_command"][cname] = dist["per_command"].get(cname, 0) + 1
        dist["outcomes"][o[0] if o[0] == "ok" else o[1]] = dist["outcomes"].get(o[0] if o[0] == "ok" else o[1], 0) + 1
        for a in arrays:
            dist["ranks"][a.ndim] = dist["ranks"].get(a.ndim, 0) + 1
            dist["dtypes"][str(a.dtype)] = dist["dtypes"].get(str(a.dtype), 0) + 1
            dist["masked_cells"] += int(numpy.ma.getmaskarray(a).sum())
            dist["cells"] += int(a.size)
        d = describe(cname, arrays, p)
        key = json.dumps(d, sort_keys=True, default=str)
        ins = [canon(a) for a in arrays]
        if key not in seen:
            seen.add(key)
            anym = any(v is None for c in ins for v in c["cells"])
            somev = any(v is not None for c in ins for v in c["cells"])
            nt = {
                "C03": anym and somev,
                "C04": True,   # refined below by the reference pre-clamp range
                "C05": (arrays and (arrays[0].ndim >= 2 or arrays[0].size >= 3)),
                "C06": len(arrays) >= 2 and any(ins[0]["cells"] != c["cells"] for c in ins[1:]),
                "C07": (len(arrays) >= 2 and any(ins[0]["cells"] != c["cells"] for c in ins[1:])) or len(set(c["dt"] for c in ins)) > 1 or o[0] != "ok",
                "C08": arrays and len(set(v for v in ins[0]["cells"] if v is not None)) >= 2,
            }[prop]
            if nt:
                nontrivial += 1
        # ---------- Coq correspondence case ----------
        cobs = cc.c_obs(o)
        if cobs is None:
            dist["skipped_unprintable"] += 1
        else:
            cases.append("(%s, %s, %s)" % (cc.c_cmd(cname, p, sigma), cc.clist([cc.c_arr(c) for c in ins]), cobs))
            descr.append({"case": d, "observed": summarize(o)})
        # ---------- property oracle ----------
        replay = dict(d)
        if o[0] == "err" and o[1].startswith("ESCAPED"):
            fails.append({"sig": "%s:escaped:%s" % (prop, cname), "what": "%s let %s escape: %s" % (cname, o[1], o[2]), "replay": replay})
            continue
        r = reference(cname, arrays, p, sigma)
        own = OWNER[cname]
        if r[0] == "ok":
            if o[0] != "ok":
                if own == prop or prop in ("C03", "C05"):
                    fails.append({"sig": "%s:fails:%s" % (prop, cname), "what": "%s failed (%s) on inputs for which it is defined: %s" % (cname, summarize(o), json.dumps(p, default=str)), "replay": replay})
                continue
            c = canon(o[1])
            if c.get("kind") == "notarray":
                fails.append({"sig": "%s:notarray:%s" % (prop, cname), "what": "%s returned %s" % (cname, c["repr"]), "replay": replay})
                continue
            ref = r[1]
            if prop == own and not same_obs(c, ref):
                fails.append({"sig": "%s:value:%s" % (prop, cname), "what": "%s computed %s but its definition gives %s" % (
                    cname, summarize(o), [None if v is None else float(v) for v in ref["cells"]][:12] + [ref["dt"]]), "replay": replay})
            if prop == "C03":
                # mask law: missing iff some input cell missing or the operation is undefined there (reference None)
                if c["kind"] != "masked" and any(v is None for x in ins for v in x["cells"]):
                    fails.append({"sig": "C03:mask-dropped:%s" % cname, "what": "%s returned a plain array: missing input cells are no longer missing" % cname, "replay": replay})
                elif [v is None for v in c["cells"]] != [v is None for v in ref["cells"]]:
                    fails.append({"sig": "C03:mask-law:%s" % cname, "what": "%s: missing cells of the result %s differ from the union of the inputs' missing cells %s" % (
                        cname, [v is None for v in c["cells"]], [v is None for v in ref["cells"]]), "replay": replay})
                # payload non-interference: same observable inputs, other hidden payloads
                o2 = run_impl(cname, [rehide(rnd, a) for a in arrays], p)
                evaluations += 1
                if o2[0] != "ok" or not same_obs(canon(o2[1]), c, Fr(1, 1 << 44)):
                    fails.append({"sig": "C03:payload-leak:%s" % cname, "what": "%s: result changed when only the numbers hidden beneath missing cells changed: %s vs %s" % (cname, summarize(o), summarize(o2)), "replay": replay})
            if prop == "C04" and cname in cc.FUZZY_OUT:
                bad = [float(v) for v in c["cells"] if v is not None and not isinstance(v, str) and not (-1 <= v <= 1)]
                if bad or any(isinstance(v, str) for v in c["cells"]):
                    fails.append({"sig": "C04:range:%s" % cname, "what": "%s returned values outside [-1, 1]: %s" % (cname, bad[:5]), "replay": replay})
            if prop == "C05" and arrays:
                if c["shape"] != list(arrays[0].shape):
                    fails.append({"sig": "C05:shape:%s" % cname, "what": "%s returned shape %s for inputs of shape %s" % (cname, c["shape"], list(arrays[0].shape)), "replay": replay})
                else:
                    # a result is a function of the cells: how the input cells lie in memory (a transposed or strided view, Fortran order) is not an input
                    how = rnd.choice(["fortran", "transposed-view"] if arrays[0].ndim >= 2 and rnd.random() < 0.7 else ["reversed-strides", "strided-view"])
                    which = [rnd.random() < 0.7 for _ in arrays]
                    o3 = run_impl(cname, [relayout(a, how) if w else a for a, w in zip(arrays, which)], p)
                    evaluations += 1
                    dist["memory_layouts"] = dist.get("memory_layouts", 0) + 1
                    if o3[0] != "ok" or not same_obs(c, canon(o3[1]), Fr(1, 1 << 40)):
                        fails.append({"sig": "C05:memory-layout:%s" % cname, "what": "%s gives %s when the same input cells are held as a %s array (inputs re-laid: %s); with ordinary arrays it gives %s" % (
                            cname, summarize(o3), how, which, summarize(o)), "replay": dict(replay, memory_layout=how, relaid_inputs=which)})
                    L = arrays[0].size
                    perm = list(range(L))
                    rnd.shuffle(perm)
                    shapes = [s for s in [(L,), (1, L), (L, 1), (2, L // 2), (L // 2, 2), (1, L, 1), (2, 1, L // 2)] if int(numpy.prod(s)) == L]
                    newshape = rnd.choice(shapes)
                    o2 = run_impl(cname, perm_arrays(arrays, perm, newshape), p)
                    evaluations += 1
                    if o2[0] != "ok":
                        fails.append({"sig": "C05:rearranged-fails:%s" % cname, "what": "%s failed on rearranged inputs: %s" % (cname, summarize(o2)), "replay": replay})
                    else:
                        c2 = canon(o2[1])
                        want = [c["cells"][i] for i in perm]
                        if c2["shape"] != list(newshape) or not all(close(a, b, Fr(1, 1 << 30)) for a, b in zip(c2["cells"], want)):
                            fails.append({"sig": "C05:equivariance:%s" % cname, "what": "%s: rearranging the input cells (permutation %s, shape %s) did not rearrange the result identically: %s vs %s" % (
                                cname, perm, newshape, summarize(o2), [None if v is None else float(v) for v in want]), "replay": replay})
        elif r[0] == "err":
            if prop == own and not (o[0] == "err" and o[1] == r[1]):
                fails.append({"sig": "%s:error:%s" % (prop, cname), "what": "%s should report %s but gave %s" % (cname, r[1], summarize(o)), "replay": replay})
        # order invariance of commutative commands, succeeding or failing alike (C07 / C06)
        if prop in ("C07", "C06") and cname in COMMUTATIVE and len(arrays) >= 2:
            perm = list(range(len(arrays)))
            rnd.shuffle(perm)
            o2 = run_impl(cname, [arrays[i] for i in perm], p)
            evaluations += 1
            same = (o[0] == o2[0]) and (o[1] == o2[1] if o[0] == "err" else same_obs(canon(o[1]), canon(o2[1]), Fr(1, 1 << 40)))
            if not same and not (o[0] == "err" and o[1] in ("MixedArrayShapes",)):
                fails.append({"sig": "%s:order:%s" % (prop, cname), "what": "%s gives %s for one input order and %s for another" % (cname, summarize(o), summarize(o2)), "replay": dict(replay, other_order=perm)})
    if prop == "C08":
        # one layer used by several conversions in one model: each conversion gives what it gives when it is the only user of the layer
        dist["shared_input_layers"] = 0
        singles = [c for c in CONV if c not in cc.FUZZY_IN]
        for _ in range(max(30, n // 12)):
            picks = []
            for cname in rnd.sample(singles, 2) + ([rnd.choice(["NormalizeMeanToMid", "CvtToFuzzyMeanToMid"])] if rnd.random() < 0.6 else []):
                g = gen_case(rnd, cname, prop, shape=(6,), mask_p=0.2)
                if g is not None and g[0]:
                    picks.append((cname, g[1], g[0][0]))
            if len(picks) < 2:
                continue
            layer = numpy.ma.array(numpy.array([0, 2, 0, 5, 3, 7, 1, 0][:rnd.randint(5, 8)], dtype=float), mask=False)        # a layer with valid zero cells
            layer = numpy.ma.array(numpy.ma.getdata(layer), mask=[rnd.random() < 0.15 for _ in range(layer.size)])
            rnd.shuffle(picks)
            shared = cc.run_shared([(c, p) for c, p, _ in picks], layer)
            evaluations += 1
            dist["shared_input_layers"] += 1
            for (cname, p, _), o_sh in zip(picks, shared):
                o_solo = run_impl(cname, [layer.copy()], p)
                same = (o_sh[0] == o_solo[0]) and (o_sh[1] == o_solo[1] if o_sh[0] == "err" else same_obs(canon(o_sh[1]), canon(o_solo[1]), Fr(1, 1 << 40)))
                if not same:
                    fails.append({"sig": "C08:shared-layer:%s" % cname, "what": "%s gives %s when the layer is also used by %s in the same model, and %s on its own" % (
                        cname, summarize(o_sh), [c for c, _, _ in picks if c != cname], summarize(o_solo)),
                        "replay": dict(describe(cname, [layer], p), other_users_of_the_layer=[[c, pp] for c, pp, _ in picks])})
                    break
    if prop == "C06":
        # the definitions hold whatever the process-wide floating-point and warning configuration: under numpy.seterr(divide, invalid, over = "raise")
        # and warnings turned into errors (pytest -W error, a strict host application) every case gives what it gave before
        import warnings
        dist["strict_fp_configuration"] = 0
        for cname, arrays, p in jobs[:: max(1, len(jobs) // 150)]:
            o1 = run_impl(cname, arrays, p)
            with numpy.errstate(divide="raise", invalid="raise", over="raise"), warnings.catch_warnings():
                warnings.simplefilter("error")
                o2 = run_impl(cname, arrays, p)
            evaluations += 1
            dist["strict_fp_configuration"] += 1
            same = (o1[0] == o2[0]) and (o1[1] == o2[1] if o1[0] == "err" else same_obs(canon(o1[1]), canon(o2[1]), Fr(1, 1 << 40)))
            if not same:
                fails.append({"sig": "C06:strict-configuration:%s" % cname, "what": "%s gives %s under numpy.seterr(divide='raise', invalid='raise', over='raise') with warnings as errors, and %s otherwise" % (cname, summarize(o2), summarize(o1)),
                              "replay": dict(describe(cname, arrays, p), configuration="numpy.seterr(divide='raise', invalid='raise', over='raise'); warnings.simplefilter('error')")})
    if prop == "C04":
        # a fuzzy result stays in [-1, +1] for as long as it exists: after every command that CONSUMES fuzzy results has run, its
        # inputs (the results of other fuzzy commands) are still what they were
        dist["consumed_fuzzy_inputs"] = 0
        for cname in sorted(cc.FUZZY_IN):
            for _ in range(max(6, n // 40)):
                g = gen_case(rnd, cname, "C06")
                if g is None or not g[0]:
                    continue
                arrays, p = g
                before = [cc.canon(a) for a in arrays]
                rep0 = describe(cname, arrays, p)
                o = cc.run_impl(cname, arrays, p)
                evaluations += 1
                dist["consumed_fuzzy_inputs"] += len(arrays)
                for k, (a, b) in enumerate(zip(arrays, before)):
                    after = cc.canon(a)
                    outside = [float(v) for v in after["cells"] if v is not None and not isinstance(v, str) and not (-1 <= v <= 1)]
                    if outside or after != b:
                        fails.append({"sig": "C04:range-after-consumption:%s" % cname,
                                      "what": "after %s has run, the fuzzy result it was given as input %d holds %s (it held %s)" % (
                                          cname, k, [None if v is None else float(v) for v in after["cells"]][:8], [None if v is None else float(v) for v in b["cells"]][:8]),
                                      "replay": dict(rep0, observe="the inputs after the command has run")})
                        break
        # floating-point stream (oracle only, not compared with the exact model): decimal, non-dyadic data, thresholds and
        # control points, with cells lying exactly on control points -- where rounding can push an unclamped line past +-1
        RAWKEYS = ("TrueThreshold", "FalseThreshold", "RawValues")
        dist["float_stream"] = 0
        for _ in range(max(200, n // 2)):
            cname = rnd.choice([c for c in cc.FUZZY_OUT if c not in cc.FUZZY_IN])
            g = gen_case(rnd, cname, prop)
            if g is None:
                continue
            arrays, p = g
            if not arrays or any(not numpy.issubdtype(a.dtype, numpy.floating) for a in arrays):
                continue
            scale = rnd.choice([0.1, 1.0 / 3.0, 0.7, 1e-3, 37.3, 1.1])
            arrays = [numpy.ma.array(numpy.ma.getdata(a).astype(float) * scale, mask=numpy.ma.getmaskarray(a)) for a in arrays]
            p = dict(p)
            for k in RAWKEYS:
                if k in p:
                    p[k] = [float(x) * scale for x in p[k]] if isinstance(p[k], list) else float(p[k]) * scale
            if "RawValues" in p and arrays[0].size:
                flat = numpy.ma.getdata(arrays[0]).reshape(-1)
                for j in range(min(len(p["RawValues"]), flat.size)):        # cells exactly on control points
                    flat[j] = p["RawValues"][j]
            for k in ("FuzzyValues",):
                if k in p and rnd.random() < 0.7:
                    p[k] = [rnd.choice([1, -1, 1.0, -1.0, 0.1, -0.7, 0.3]) for _ in p[k]]
            o = run_impl(cname, arrays, p)
            evaluations += 1
            dist["float_stream"] += 1
            if o[0] == "ok":
                c = canon(o[1])
                if c.get("kind") != "notarray":
                    bad = [float(v) for v in c["cells"] if v is not None and not isinstance(v, str) and not (-1 <= v <= 1)]
                    if bad or any(isinstance(v, str) for v in c["cells"]):
                        fails.append({"sig": "C04:range:%s" % cname, "what": "%s returned values outside [-1, 1] (floating-point overshoot): %r" % (cname, bad[:5]),
                                      "replay": describe(cname, arrays, p)})
    if prop == "C05":
        # layers of different rank are different shapes even when one shape is a prefix of the other or numpy could broadcast them:
        # (n,) with (n, 1), (n,) with (n, n), (r, c) with (r, c, 1) -- reported as mixed shapes, never silently broadcast
        dist["rank_mismatches"] = 0
        for cname in ["Sum", "Mean", "Multiply", "Minimum", "AMinusB", "ADividedByB", "WeightedSum", "FuzzyOr", "FuzzyAnd", "FuzzyUnion", "FuzzyXOr", "FuzzySelectedUnion"]:
            for sh1, sh2 in (((3,), (3, 1)), ((3,), (3, 3)), ((2, 3), (2, 3, 1)), ((1, 4), (4,))):
                fz = cname in cc.FUZZY_IN
                a1 = gen_array(rnd, sh1, "DFloat", fz, 0.2)
                a2 = gen_array(rnd, sh2, "DFloat", fz, 0.2)
                pp = {"Weights": [1, 2]} if cname == "WeightedSum" else ({"TruestOrFalsest": "Truest", "NumberToConsider": 1} if cname == "FuzzySelectedUnion" else {})
                o = run_impl(cname, [a1, a2] if rnd.random() < 0.5 else [a2, a1], pp)
                evaluations += 1
                dist["rank_mismatches"] += 1
                if not (o[0] == "err" and o[1] == "MixedArrayShapes"):
                    fails.append({"sig": "C05:rank-mismatch:%s" % cname, "what": "%s was given layers of shapes %s and %s and gave %s instead of reporting mixed shapes" % (cname, sh1, sh2, summarize(o)),
                                  "replay": describe(cname, [a1, a2], pp)})
        # large rasters: a grid made of many copies of a small block gives that many copies of the block's result (cells are
        # computed independently; whole-array statistics are the same for the block and for the grid), whatever its size
        dist["large_rasters"] = 0
        for cname in FOPS + ["Sum", "Mean", "Multiply", "Minimum", "CvtToFuzzy", "CvtToFuzzyCurve", "NormalizeCat"]:
            g = None
            for _ in range(10):
                g = gen_case(rnd, cname, "C06" if cname in FOPS else prop, shape=(3, 5), mask_p=0.3)
                if g is not None and g[0] and len(set(a.shape for a in g[0])) == 1:
                    break
            if g is None or not g[0]:
                continue
            blocks, p = g
            k = len(blocks)
            reps = (4300000 // (15 * max(k, 1))) // 3 * 3 + 3 + 1      # layers x cells just above 4M, rows not a round number
            if os.environ.get("VERIF_TIER") != "thorough" and cname not in ("FuzzyXOr", "FuzzySelectedUnion", "FuzzyUnion", "Sum", "CvtToFuzzy"):
                reps = 7
            big = [numpy.ma.array(numpy.tile(numpy.ma.getdata(a), (reps, 1)), mask=numpy.tile(numpy.ma.getmaskarray(a), (reps, 1))) for a in blocks]
            o1 = run_impl(cname, blocks, p)
            o2 = run_impl(cname, big, p)
            evaluations += 2
            dist["large_rasters"] += 1
            if o1[0] != "ok":
                continue
            ok = o2[0] == "ok" and isinstance(o2[1], numpy.ndarray) and o2[1].shape == big[0].shape
            if ok:
                want_m = numpy.tile(numpy.ma.getmaskarray(o1[1]), (reps, 1))
                want_d = numpy.tile(numpy.ma.getdata(o1[1]), (reps, 1))
                got_m, got_d = numpy.ma.getmaskarray(o2[1]), numpy.ma.getdata(o2[1])
                ok = numpy.array_equal(want_m, got_m) and numpy.allclose(want_d[~want_m], got_d[~want_m], rtol=1e-12, atol=1e-12, equal_nan=True)
            if not ok:
                fails.append({"sig": "C05:large-raster:%s" % cname,
                              "what": "%s on a %d x 5 grid made of %d copies of a 3 x 5 block does not give %d copies of the block's result: %s" % (
                                  cname, 3 * reps, reps, reps, summarize(o2) if o2[0] != "ok" or not isinstance(o2[1], numpy.ndarray) else "shape %s, %d cells differ" % (
                                      o2[1].shape, -1 if o2[1].shape != big[0].shape else int((numpy.ma.getmaskarray(o2[1]) != numpy.tile(numpy.ma.getmaskarray(o1[1]), (reps, 1))).sum()))),
                              "replay": dict(describe(cname, blocks, p), grid="the inputs tiled %d times along the first axis" % reps)})
    files = []
    CH = 150
    for i in range(0, len(cases), CH):
        path = os.path.join(os.getcwd(), "Cases_%s_%03d.v" % (prop, i // CH))
        with open(path, "w") as fh:
            fh.write("From Coq Require Import QArith List ZArith Bool.\nFrom MP Require Import Base.Check Model.Cells Corr.CheckCells.\n"
                     "Import ListNotations.\nOpen Scope Q_scope.\n"
                     "Definition cases : list (ecmd * list arr * res arr) := [\n  %s\n].\n"
                     "Eval vm_compute in (failing check_case cases).\n" % ";\n  ".join(cases[i:i + CH]))
        files.append({"path": path, "first": i, "count": len(cases[i:i + CH])})
    json.dump({"files": files, "descr": descr, "oracle_failures": fails, "distribution": dist, "evaluations": evaluations,
               "distinct_nontrivial": nontrivial, "samples": descr[:1] + descr[-2:], "tree": cc.mpilot.__file__}, open(out, "w"), default=str)


if __name__ == "__main__":
    main()
