"""Observation of the real parser and Coq printers for parse results (shared by the C10/C11 and C15 drivers)."""
import math
from fractions import Fraction as Fr

from coqfmt import clist, copt, cZ, cQ


# ---------- observation ----------
def node_value(e):
    v = e.value
    if isinstance(v, bool):
        return {"k": "bool", "v": v, "line": e.lineno}
    if isinstance(v, int):
        return {"k": "int", "v": v, "line": e.lineno}
    if isinstance(v, float):
        return {"k": "float", "v": v, "line": e.lineno}
    if isinstance(v, str):
        return {"k": "str", "v": v, "line": e.lineno}
    if isinstance(v, list):
        return {"k": "list", "v": [node_value(x) for x in v], "line": e.lineno}
    if isinstance(v, dict):
        return {"k": "dict", "v": [(k, node_value(x)) for k, x in v.items()], "line": e.lineno}
    raise ValueError(type(v))


def observe(parser, src):
    try:
        pn = parser.parse(src)
    except SyntaxError:
        return ("syntax",)
    except BaseException as ex:
        return ("escaped", type(ex).__name__, str(ex)[:100])
    if pn is None:
        return ("escaped", "None", "parse() returned None")
    cmds = []
    for c in pn.commands:
        cmds.append({"result": c.result_name, "cmd": c.command, "line": c.lineno,
                     "args": [{"name": a.name, "value": node_value(a.value), "line": a.lineno} for a in c.arguments]})
    return ("ok", cmds, pn.version)


def same_value(exp, got, with_lines):
    if exp["k"] != got["k"]:
        return False
    if with_lines and exp["line"] != got["line"]:
        return False
    if exp["k"] == "list":
        return len(exp["v"]) == len(got["v"]) and all(same_value(a, b, with_lines) for a, b in zip(exp["v"], got["v"]))
    if exp["k"] == "dict":
        return len(exp["v"]) == len(got["v"]) and all(k1 == k2 and same_value(a, b, with_lines) for (k1, a), (k2, b) in zip(exp["v"], got["v"]))
    if exp["k"] == "float":
        return exp["v"] == got["v"] and math.copysign(1, exp["v"]) == math.copysign(1, got["v"])
    return exp["v"] == got["v"] and type(exp["v"]) is type(got["v"])


# ---------- Coq printers ----------
def ctext(s):
    return "[" + "; ".join(str(ord(c)) for c in s) + "]"


def c_oval(v):
    k = v["k"]
    if k == "int":
        body = "(OVInt %s)" % cZ(v["v"])
    elif k == "float":
        if math.isinf(v["v"]) or math.isnan(v["v"]):
            raise ValueError("nonfinite")
        body = "(OVFloat %s)" % cQ(Fr(v["v"]))
    elif k == "str":
        body = "(OVStr %s)" % ctext(v["v"])
    elif k == "list":
        body = "(OVList %s)" % clist([c_oval(x) for x in v["v"]])
    elif k == "dict":
        body = "(OVDict %s)" % clist(["(%s, %s)" % (ctext(kk), c_oval(x)) for kk, x in v["v"]])
    else:
        raise ValueError(k)
    return "(OE %s %d)" % (body, v["line"])


def c_observed(o):
    if o[0] == "syntax":
        return "ObsSyntaxError"
    cmds = []
    for c in o[1]:
        args = clist(["{| oa_name := %s; oa_value := %s; oa_line := %d |}" % (ctext(a["name"]), c_oval(a["value"]), a["line"]) for a in c["args"]])
        cmds.append("{| oc_result := %s; oc_cmd := %s; oc_args := %s; oc_line := %d |}" % (copt(None if c["result"] is None else ctext(c["result"])), ctext(c["cmd"]), args, c["line"]))
    return "(ObsOk %s %d)" % (clist(cmds, ";\n     "), o[2])


def float_oracle(src):
    """str(float(lexeme)) for everything in the text that the FLOAT rule can match"""
    import re
    out = {}
    for m in re.finditer(r"[\-\+]?((\d+\.\d*)|(\.\d+))([eE][\+\-]?\d+)?", src):
        out[m.group(0)] = str(float(m.group(0)))
    return out


