"""GenFacts.v: facts read off the AST of the snapshot sources (fail-closed)."""
import ast
import inspect
import textwrap

from coqfmt import cstr, clist, cbool


def _is_attr(node, obj, attr):
    return isinstance(node, ast.Attribute) and node.attr == attr and (
        obj is None or (isinstance(node.value, ast.Name) and node.value.id == obj) or
        (isinstance(node.value, ast.Attribute) and node.value.attr == obj))


def lib_filter_kind():
    """How Program.__init__ selects registered commands for the requested libraries."""
    from mpilot import program
    src = textwrap.dedent(inspect.getsource(program.Program.__init__))
    fn = ast.parse(src).body[0]
    kinds = []
    for node in ast.walk(fn):
        if isinstance(node, ast.Call) and getattr(node.func, "id", None) == "any" and len(node.args) == 1 \
                and isinstance(node.args[0], ast.GeneratorExp):
            g = node.args[0]
            if len(g.generators) != 1 or not isinstance(g.generators[0].target, ast.Name):
                kinds.append("MatchUnknown")
                continue
            lib = g.generators[0].target.id
            if getattr(g.generators[0].iter, "id", None) != "libraries" or g.generators[0].ifs:
                kinds.append("MatchUnknown")
                continue
            e = g.elt

            def is_module(x):
                return isinstance(x, ast.Attribute) and x.attr == "module" and isinstance(x.value, ast.Name)

            def is_startswith(x, arg_pred):
                return (isinstance(x, ast.Call) and isinstance(x.func, ast.Attribute) and x.func.attr == "startswith"
                        and is_module(x.func.value) and len(x.args) == 1 and not x.keywords and arg_pred(x.args[0]))

            def is_lib(x):
                return isinstance(x, ast.Name) and x.id == lib

            def is_lib_dot(x):
                return (isinstance(x, ast.BinOp) and isinstance(x.op, ast.Add) and is_lib(x.left)
                        and isinstance(x.right, ast.Constant) and x.right.value == ".")

            def is_eq(x):
                return (isinstance(x, ast.Compare) and len(x.ops) == 1 and isinstance(x.ops[0], ast.Eq)
                        and ((is_module(x.left) and is_lib(x.comparators[0])) or (is_lib(x.left) and is_module(x.comparators[0]))))

            if is_startswith(e, is_lib):
                kinds.append("MatchPrefix")
            elif isinstance(e, ast.BoolOp) and isinstance(e.op, ast.Or) and len(e.values) == 2 and (
                    (is_eq(e.values[0]) and is_startswith(e.values[1], is_lib_dot)) or
                    (is_eq(e.values[1]) and is_startswith(e.values[0], is_lib_dot))):
                kinds.append("MatchModuleOrSub")
            else:
                kinds.append("MatchUnknown")
    return kinds[0] if len(kinds) == 1 else "MatchUnknown"


def parser_resets():
    """Which parts of the Parser object's state Parser.parse() re-initialises before it calls yacc: (lineno, eems_v2, errors).
    Only unconditional top-level assignments of the initial values count; `self.<helper>()` calls are looked into one level."""
    from mpilot.parser import parser as pmod
    cls = ast.parse(textwrap.dedent(inspect.getsource(pmod.Parser))).body[0]
    methods = {f.name: f for f in cls.body if isinstance(f, ast.FunctionDef)}
    if "parse" not in methods:
        return (False, False, False)

    def calls_yacc(st):
        return any(isinstance(n, ast.Call) and _is_attr(n.func, "parser", "parse") for n in ast.walk(st))

    def flat(body, depth):
        for st in body:
            if (depth == 0 and isinstance(st, ast.Expr) and isinstance(st.value, ast.Call) and isinstance(st.value.func, ast.Attribute)
                    and isinstance(st.value.func.value, ast.Name) and st.value.func.value.id == "self" and not st.value.args
                    and not st.value.keywords and st.value.func.attr in methods):
                for x in flat(methods[st.value.func.attr].body, 1):
                    yield x
            else:
                yield st
    found = {"lineno": False, "eems_v2": False, "errors": False}
    for st in flat(methods["parse"].body, 0):
        if calls_yacc(st):
            break
        targets = st.targets if isinstance(st, ast.Assign) else []
        for t in targets:
            for sub, v in zip(t.elts, st.value.elts) if isinstance(t, ast.Tuple) and isinstance(st.value, ast.Tuple) and len(t.elts) == len(st.value.elts) else [(t, st.value)]:
                if _is_attr(sub, "lexer", "lineno") and isinstance(v, ast.Constant) and v.value == 1 and type(v.value) is int:
                    found["lineno"] = True
                elif _is_attr(sub, "self", "eems_v2") and isinstance(v, ast.Constant) and v.value is False:
                    found["eems_v2"] = True
                elif _is_attr(sub, "self", "errors") and isinstance(v, ast.List) and not v.elts:
                    found["errors"] = True
    else:
        return (False, False, False)       # parse() never calls yacc: not the code this fact is about
    return (found["lineno"], found["eems_v2"], found["errors"])


def generate(snap):
    out = ["(* GENERATED by drivers/gen_facts.py from the /repo snapshot -- do not edit *)",
           "From Coq Require Import String List Bool.", "From MP Require Import Model.Registry.",
           "Import ListNotations.", "Open Scope string_scope.", ""]
    out.append("(* Program.__init__: any(<test> for lib in libraries) *)")
    out.append("Definition lib_filter_kind : mkind := %s." % lib_filter_kind())
    out.append("")
    out.append("(* Parser.parse: the state of the Parser object re-initialised before yacc runs: (lexer.lineno = 1, eems_v2 = False, errors = []) *)")
    out.append("Definition parser_resets : bool * bool * bool := (%s, %s, %s)." % tuple(cbool(x) for x in parser_resets()))
    return "\n".join(out) + "\n"
