"""C20 driver: parameter cleaning.  usage: c20_driver.py <out.json> <n>

Every distinct parameter declaration of the built-in libraries (plus nested ones) x raw values of every kind the parser
or the API can deliver x with/without a working directory.  For every case: clean(v) twice (repeatable), deep copy of v and
of the program before/after (pure), clean(clean(v)) (idempotent), type of the result (typed); the outcome is written as a
Coq term and compared with Model/Params.v."""
import copy
import json
import math
import os
import random
import sys
import tempfile
from fractions import Fraction as Fr
from numbers import Number

import numpy

import mpilot
from mpilot import params as P
from mpilot.commands import Command
from mpilot.exceptions import MPilotError
from mpilot.program import Program, EEMS_CSV_LIBRARIES, EEMS_NETCDF_LIBRARIES
from coqfmt import cstr, clist, cbool, copt, cZ, cQ
import gen_sigs

assert os.path.abspath(mpilot.__file__).startswith(os.path.abspath(os.environ["VERIF_SNAP"])), mpilot.__file__


from c20_driver_lib import printable, c_fnum, c_raw  # noqa: E402


ERR = {"ParameterNotValid": '(EParameterNotValid "")', "PathDoesNotExist": "EPathDoesNotExist", "InvalidRelativePath": "EInvalidRelativePath"}


def c_outcome(o):
    if o[0] == "ok":
        return "(COk %s)" % c_raw(o[1])
    if o[0] == "escape":
        return "(CErr (EEscape %s))" % cstr(o[1])
    cls, ex = o[1], o[2]
    if cls in ERR:
        return "(CErr %s)" % ERR[cls]
    if cls in ("ResultDoesNotExist", "ResultNotFuzzy", "ResultIsFuzzy", "ResultTypeNotValid"):
        nm = getattr(ex, "result", None) or getattr(ex, "result_name", None) or getattr(ex, "name", "")
        return "(CErr (E%s %s))" % (cls, cstr(str(nm)))
    raise ValueError("unknown error class " + cls)


def run_clean(param, v, program):
    try:
        return ("ok", param.clean(v, program, 7))
    except MPilotError as ex:
        return ("err", type(ex).__name__, ex)
    except BaseException as ex:
        return ("escape", type(ex).__name__)


def canon(v):
    if isinstance(v, float) and math.isnan(v):
        return "nan"
    if isinstance(v, (list, tuple)):
        return [canon(x) for x in v]
    if isinstance(v, dict):
        return {str(k): canon(x) for k, x in v.items()}
    if isinstance(v, Command):
        return "cmd:" + v.result_name
    if isinstance(v, numpy.ndarray):
        return "array:%s" % (v.tolist(),)
    if isinstance(v, type):
        return "type:" + v.__name__
    return "%s:%r" % (type(v).__name__, v)


def canon_out(o):
    return (o[0], canon(o[1]) if o[0] == "ok" else o[1])


def typed_ok(param, c, program):
    t = type(param)
    if t is P.Parameter:
        return True
    if t is P.NumberParameter:
        return isinstance(c, Number)
    if t is P.BooleanParameter:
        return isinstance(c, bool)
    if t is P.PathParameter:
        return isinstance(c, str) and os.path.isabs(c) and (not param.must_exist or os.path.exists(c))
    if t is P.DataTypeParameter:
        return c in list(param.valid_types.values())
    if t is P.StringParameter:
        return isinstance(c, str)
    if t is P.ListParameter:
        return isinstance(c, list) and all(typed_ok(param.value_type, x, program) for x in c)
    if t is P.TupleParameter:
        return isinstance(c, dict) and all(isinstance(k, str) and isinstance(x, str) for k, x in c.items())
    if t is P.DataParameter:
        return isinstance(c, numpy.ndarray)
    if t is P.ResultParameter:
        return isinstance(c, Command)
    return False


def main():
    out, n = sys.argv[1], int(sys.argv[2])
    seed = int(os.environ.get("VERIF_SEED", "0"))
    rnd = random.Random(seed * 7417 + 20)
    wd = tempfile.mkdtemp(prefix="c20-", dir=os.getcwd())
    open(os.path.join(wd, "in.csv"), "w").write("a\n1\n")
    os.mkdir(os.path.join(wd, "sub"))
    existing = [os.path.join(wd, "in.csv"), os.path.join(wd, "sub"), wd, wd + "/", os.path.join(wd, "sub") + "/", "/", "/tmp"]
    # ---- the program values are cleaned against ----
    prog = Program(libraries=EEMS_CSV_LIBRARIES, working_dir=wd)
    lib = prog.command_library
    prog.add_command(lib["EEMSRead"], "rd", {"InFileName": "in.csv", "InFieldName": "a"}, 1)
    prog.add_command(lib["CvtToFuzzy"], "fzc", {"InFieldName": "rd"}, 2)
    prog.add_command(lib["EEMSWrite"], "wr", {"OutFileName": "o.csv", "OutFieldNames": ["rd"]}, 3)
    prog.add_command(lib["Copy"], "done", {"InFieldName": "rd"}, 4)
    prog.add_command(lib["FuzzyNot"], "donefz", {"InFieldName": "fzc"}, 5)
    prog.add_command(lib["PrintVars"], "donebool", {"InFieldNames": ["rd"]}, 6)
    # a user command that declares no output kind and has not run: nothing can be said about its result, and cleaning a reference to it runs nothing
    from verif_cmds import noout
    prog.add_command(noout.Dump, "dmp", {"OutFileName": "dump.txt", "OutFieldNames": ["rd"]}, 7)
    for nm, res in (("done", numpy.ma.array([1.0, 2.0])), ("donefz", numpy.ma.array([0.5, -1.0])), ("donebool", True)):
        prog.commands[nm].is_finished = True
        prog.commands[nm]._result = res
    prog_nowd = Program(libraries=EEMS_CSV_LIBRARIES, working_dir=None)
    prog_nowd.commands = prog.commands
    wd2 = tempfile.mkdtemp(prefix="c20b-", dir=os.getcwd())
    open(os.path.join(wd2, "only_b.csv"), "w").write("a\n1\n")
    existing += [os.path.join(wd2, "only_b.csv"), wd2]
    prog_b = Program(libraries=EEMS_CSV_LIBRARIES, working_dir=wd2)
    prog_b.commands = prog.commands
    progs = {"A": (prog, wd), "B": (prog_b, wd2), None: (prog_nowd, None)}

    def cinfo(c):
        outk = None if c.output is None else type(c.output).__name__
        fin = "None"
        if c.is_finished:
            fin = "(Some %s)" % c_raw(c._result)
        return "{| ci_fuzzy := %s; ci_output := %s; ci_finished := %s |}" % (cbool(bool(getattr(c, "is_fuzzy", False))), copt(None if outk is None else cstr(outk)), fin)

    cmds_term = clist(["(%s, %s)" % (cstr(k), cinfo(c)) for k, c in prog.commands.items()])
    # ---- parameter declarations ----
    decls = {}
    for libs in (EEMS_CSV_LIBRARIES, EEMS_NETCDF_LIBRARIES):
        for cname, cls in Program(libraries=libs).command_library.items():
            for pname, p in cls.inputs.items():
                decls.setdefault(gen_sigs.kind(p, P), (p, "%s.%s" % (cname, pname)))
            if cls.output is not None:
                decls.setdefault(gen_sigs.kind(cls.output, P), (cls.output, "%s.output" % cname))
    for p in (P.ListParameter(P.ListParameter(P.NumberParameter())), P.ListParameter(P.StringParameter()), P.ListParameter(P.BooleanParameter()),
              P.ResultParameter(P.BooleanParameter()), P.ResultParameter(P.NumberParameter()), P.ResultParameter(P.StringParameter()),
              P.ListParameter(P.PathParameter(must_exist=False)), P.Parameter(), P.ListParameter(), P.ListParameter(P.TupleParameter()),
              P.ResultParameter(P.DataParameter(), is_fuzzy=True), P.ResultParameter(P.DataParameter(), is_fuzzy=False)):
        decls.setdefault(gen_sigs.kind(p, P), (p, "extra"))
    decl_list = sorted(decls.items())
    pristine = {kd: copy.deepcopy(p) for kd, (p, _) in decl_list}      # parameter objects that have never cleaned anything
    # ---- raw values ----
    ints = [0, 1, -3, 7, 2 ** 40, 10]
    floats = [0.0, 1.5, -0.25, 1e22, 1e-05, -0.0, float("inf"), float("nan"), 2.0]
    strs = ["12", "-3", "+7", " 4 ", "1_000", "1.5", "1e3", ".5", "nan", "inf", "-Infinity", "0x10", "", "true", "FALSE", "True", "Yes", "0", "1", "2",
            "rd", "fzc", "wr", "done", "donefz", "donebool", "dmp", "nosuch", "Float", "Integer", "Positive Float", "Fuzzy", "float",
            "in.csv", "missing.csv", "sub", "sub/", os.path.join(wd, "in.csv"), os.path.join(wd, "nope"), "/", "a b", "x,y", "LowToHigh"]
    cmdobjs = list(prog.commands.values())
    types = [float, int, numpy.float64, numpy.uint, str]
    scal = lambda: rnd.choice([rnd.choice(ints), rnd.choice(floats), rnd.choice([True, False]), rnd.choice(strs), rnd.choice(strs)])

    def rvalue(depth=0):
        r = rnd.random()
        if r < 0.5:
            return scal()
        if r < 0.72 and depth < 3:
            k = rnd.randint(0, 4)
            mode = rnd.random()
            if mode < 0.4:
                return [rnd.choice(["rd", "fzc", "done", "donefz", "wr", "dmp", "nosuch"] + cmdobjs[:2]) for _ in range(k)]
            if mode < 0.7:
                return [rnd.choice([rnd.choice(ints), rnd.choice(floats[:5]), rnd.choice(strs[:9])]) for _ in range(k)]
            return [rvalue(depth + 1) for _ in range(k)]
        if r < 0.8:
            return {rnd.choice(["k", "Description", "a b"]): rnd.choice([scal(), scal(), [1]]) for _ in range(rnd.randint(0, 3))}
        if r < 0.88:
            return rnd.choice(cmdobjs)
        if r < 0.94:
            return rnd.choice(types)
        if r < 0.97:
            return numpy.ma.array([1.0, 2.0])
        if r < 0.985:
            return tuple(scal() for _ in range(rnd.randint(0, 3)))
        return None

    def valid_value(p, depth=0):
        t = type(p)
        if t is P.NumberParameter:
            return rnd.choice([rnd.choice(ints), rnd.choice(floats), rnd.choice(strs[:9]), rnd.choice([True, False])])
        if t is P.BooleanParameter:
            return rnd.choice([True, False, 0, 1, 5, "true", "False", "TRUE", "1", "0"])
        if t is P.PathParameter:
            return rnd.choice(["in.csv", "sub", os.path.join(wd, "in.csv"), "only_b.csv", "out/new.csv" if not p.must_exist else "in.csv", "/tmp"])
        if t is P.DataTypeParameter:
            return rnd.choice(list(p.valid_types.keys()) + list(p.valid_types.values()))
        if t is P.StringParameter:
            return rnd.choice([rnd.choice(strs), rnd.choice(ints), rnd.choice(floats[:5]), True])
        if t is P.ListParameter:
            return [valid_value(p.value_type, depth + 1) for _ in range(rnd.randint(0, 4 if depth < 2 else 1))]
        if t is P.TupleParameter:
            return rnd.choice([[], {}, {"Description": "text", "k": 1}, {"a b": 2.5, "c": True}])
        if t is P.DataParameter:
            return numpy.ma.array([1.0, 2.0])
        if t is P.ResultParameter:
            return rnd.choice(["rd", "fzc", "wr", "done", "donefz", "donebool", "dmp"] + cmdobjs)
        return scal()

    def has_array(v):
        if isinstance(v, numpy.ndarray):
            return True
        if isinstance(v, (list, tuple)):
            return any(has_array(x) for x in v)
        if isinstance(v, dict):
            return any(has_array(x) for x in v.values())
        return False

    cases, descr, fails = [], [], []
    dist = {"declarations": len(decl_list), "outcomes": {}, "raw_kinds": {}, "with_wd": 0, "without_wd": 0, "unprintable": 0,
            "idempotence_checked": 0, "per_declaration": {}}
    seen, nontrivial, evaluations = set(), 0, 0
    jobs = []
    for kd, (p, where) in decl_list:      # every declaration x a fixed matrix of raw kinds first
        for v in [3, 1.5, True, "12", "x", "rd", "donefz", "dmp", "in.csv", "Float", [], [1, "2"], ["rd"], {"k": "v"}, cmdobjs[0], cmdobjs[4], float, numpy.ma.array([1.0]), None]:
            jobs.append((kd, p, where, v, "A"))
        if type(p) is P.PathParameter or (type(p) is P.ListParameter and type(p.value_type) is P.PathParameter):
            # the same relative text under different working directories, in one process, on one parameter object
            wrap = (lambda x: [x]) if type(p) is P.ListParameter else (lambda x: x)
            for txt, w in (("in.csv", "A"), ("in.csv", "B"), ("in.csv", None), ("only_b.csv", "B"), ("only_b.csv", "A"), ("in.csv", "A")):
                jobs.append((kd, p, where, wrap(txt), w))
    while len(jobs) < n:
        kd, (p, where) = rnd.choice(decl_list)
        v = valid_value(p) if rnd.random() < 0.65 else rvalue()
        jobs.append((kd, p, where, v, rnd.choice(["A", "A", "A", "B", None])))
    for kd, p, where, v, with_wd in jobs:
        if has_array(v) and "PData" not in kd and "PAny" not in kd:
            continue      # arrays (at any nesting) are not among the raw kinds the parser or the API delivers for these declarations
        program, cur_wd = progs[with_wd]
        dist["with_wd" if with_wd else "without_wd"] += 1
        v0 = copy.deepcopy(v) if not isinstance(v, Command) and not (isinstance(v, list) and any(isinstance(x, Command) for x in v)) else None
        state0 = [(k, c.is_finished, id(c._result), len(c.arguments)) for k, c in prog.commands.items()]
        o1 = run_clean(p, v, program)
        o2 = run_clean(p, v, program)
        evaluations += 1
        dist["outcomes"][o1[0] if o1[0] == "ok" else o1[1]] = dist["outcomes"].get(o1[0] if o1[0] == "ok" else o1[1], 0) + 1
        dist["raw_kinds"][type(v).__name__] = dist["raw_kinds"].get(type(v).__name__, 0) + 1
        dist["per_declaration"][kd] = dist["per_declaration"].get(kd, 0) + 1
        replay = {"declaration": kd, "declared_at": where, "value": repr(v)[:200], "working_dir": with_wd}
        key = json.dumps([kd, repr(v), with_wd])
        if key not in seen:
            seen.add(key)
            if o1[0] != "ok" or not typed_ok(p, v, program):
                nontrivial += 1
        if o1[0] == "escape":
            fails.append({"sig": "C20:escape:%s" % o1[1], "what": "clean() of %s on %r raised %s instead of a parameter error" % (kd, v, o1[1]), "replay": replay})
        o_fresh = run_clean(copy.deepcopy(pristine[kd]), v, program)
        if canon_out(o_fresh) != canon_out(o1):
            fails.append({"sig": "C20:history-dependent", "what": "clean() of %s on %r (working dir %r) gives %r on the long-lived parameter object but %r on one that "
                          "has cleaned nothing before: the outcome depends on earlier cleaning" % (kd, v, cur_wd, canon_out(o1), canon_out(o_fresh)), "replay": replay})
        if canon_out(o1) != canon_out(o2):
            fails.append({"sig": "C20:not-repeatable", "what": "cleaning %r twice as %s gave %r then %r" % (v, kd, canon_out(o1), canon_out(o2)), "replay": replay})
        if v0 is not None and canon(v0) != canon(v):
            fails.append({"sig": "C20:argument-mutated", "what": "clean() of %s altered its raw argument: %r -> %r" % (kd, v0, v), "replay": replay})
        if state0 != [(k, c.is_finished, id(c._result), len(c.arguments)) for k, c in prog.commands.items()]:
            fails.append({"sig": "C20:program-mutated", "what": "clean() of %s on %r changed the program (finished flags / result objects before: %r)" % (kd, v, [(k, f) for k, f, _, _ in state0]), "replay": replay})
            for nm in ("rd", "fzc", "wr", "dmp"):        # put the program back so that the next case starts from the same state
                prog.commands[nm].is_finished = False
                prog.commands[nm]._result = None
        if o1[0] == "ok":
            if not typed_ok(p, o1[1], program):
                fails.append({"sig": "C20:not-typed", "what": "clean() of %s on %r returned %r, not a value of the documented type" % (kd, v, o1[1]), "replay": replay})
            if type(p) is P.NumberParameter and isinstance(v, str):
                try:
                    want = int(v)
                except ValueError:
                    want = None
                if want is not None and not (type(o1[1]) is int and o1[1] == want):
                    fails.append({"sig": "C20:integer-not-kept", "what": "NumberParameter cleaned the integer text %r to %r" % (v, o1[1]), "replay": replay})
            if with_wd:
                o3 = run_clean(p, o1[1], program)
                dist["idempotence_checked"] += 1
                if canon_out(o3) != canon_out(o1):
                    fails.append({"sig": "C20:not-idempotent", "what": "clean(clean(v)) != clean(v) for %s on %r: %r vs %r" % (kd, v, canon_out(o3), canon_out(o1)), "replay": replay})
        try:
            envt = "{| e_wd := %s; e_paths := %s; e_cmds := %s |}" % (copt(cstr(cur_wd)) if with_wd else "None", "PATHS", "CMDS")
            cases.append("(%s, %s, %s, %s)" % (envt, kd, c_raw(v), c_outcome(o1)))
            descr.append(replay)
        except ValueError:
            dist["unprintable"] += 1
    # ---- numbers that are not built-in int / float (what numpy, decimal and fractions hand over through the API): a Number
    #      parameter keeps their value -- decimals stay decimals -- or rejects them with the parameter error ----
    from decimal import Decimal
    from fractions import Fraction
    dist["foreign_numbers"] = 0
    for v in [numpy.float32(0.75), numpy.float16(0.5), numpy.float64(-1.5), Decimal("2.5"), Decimal("-0.125"), Fraction(5, 2), Fraction(-3, 4),
              numpy.int16(3), numpy.uint8(7), numpy.int64(-4), numpy.float32(2.5)]:
        for label, prm, raw in (("Number", P.NumberParameter(), v), ("List of Number", P.ListParameter(P.NumberParameter()), [v, 1, v])):
            o = run_clean(prm, raw, prog)
            evaluations += 1
            dist["foreign_numbers"] += 1
            if o[0] == "ok":
                got = o[1] if isinstance(o[1], list) else [o[1]]
                want = raw if isinstance(raw, list) else [raw]
                if len(got) != len(want) or any(not (g == w) for g, w in zip(got, want)):
                    fails.append({"sig": "C20:not-typed", "what": "clean() of %s on %r (%s) returned %r: the value changed" % (label, raw, type(v).__name__, o[1]),
                                  "replay": {"parameter": label, "value": repr(raw), "value_type": type(v).__name__}})
            elif o[1] not in ("ParameterNotValid",):
                fails.append({"sig": "C20:raw-exception", "what": "clean() of %s on %r let %s escape" % (label, raw, o[1]), "replay": {"parameter": label, "value": repr(raw)}})
    # ---- whole programs: loading, validating and running a model cleans every argument at least twice; the raw arguments the
    #      program holds (and therefore what to_string() writes) are the same before and after ----
    def tagged(v):
        if isinstance(v, (list, tuple)):
            return [type(v).__name__] + [tagged(x) for x in v]
        if isinstance(v, dict):
            return ["dict"] + sorted((k, tagged(x)) for k, x in v.items())
        if hasattr(v, "result_name") and hasattr(v, "arguments"):
            return ["Command", v.result_name]
        return [type(v).__name__, repr(v)]

    def raw_arguments(pr):
        return [(c.result_name, [(a.name, tagged(a.value)) for a in c.arguments]) for c in pr.commands.values()]
    dist["whole_program_runs"] = 0
    for k in range(max(8, n // 60)):
        lines = ["A = EEMSRead(InFileName = in.csv, InFieldName = a, DataType = %s%s)" % (rnd.choice(["Float", "Integer", '"Float"']), rnd.choice(["", ", MissingVal = -9999"])),
                 "F = CvtToFuzzy(InFieldName = A, TrueThreshold = %s, FalseThreshold = 0, Direction = %s)" % (rnd.choice(["3", "2.5", "7"]), rnd.choice(["LowToHigh", "HighToLow"])),
                 "S = WeightedSum(InFieldNames = [A, A], Weights = [%s, 2])" % rnd.choice(["1", "0.5"]),
                 "N = NormalizeMeanToMid(InFieldName = A, IgnoreZeros = %s, NormalValues = [0, 0.25, 0.5, 0.75, 1])" % rnd.choice(["true", "False", "1", "0"]),
                 "U = FuzzySelectedUnion(InFieldNames = [F], TruestOrFalsest = Truest, NumberToConsider = 1)",
                 "W = EEMSWrite(OutFileName = %s, OutFieldNames = [S, N])" % rnd.choice(["out.csv", "sub/out.csv"])]
        rnd.shuffle(lines)
        src = "\n".join(lines[:rnd.randint(3, 6)] + [l for l in lines if l.startswith("A =")][:1])
        src = "\n".join(dict.fromkeys(src.split("\n")))
        try:
            pr = Program.from_source(src, libraries=EEMS_CSV_LIBRARIES, working_dir=wd)
            before, text0 = raw_arguments(pr), pr.to_string()
            try:
                pr.run()
            except Exception:
                pass
            after, text1 = raw_arguments(pr), pr.to_string()
        except Exception as ex:
            continue
        evaluations += 1
        dist["whole_program_runs"] += 1
        if before != after or text0 != text1:
            diff = [(b[0], x[0], x[1], y[1]) for b, a in zip(before, after) for x, y in zip(b[1], a[1]) if x != y][:2]
            fails.append({"sig": "C20:program-mutated", "what": "Program.run() altered raw arguments of the program it ran: %r%s" % (
                diff, "" if text0 == text1 else "; to_string() before and after differ"), "replay": {"source": src, "history": ["from_source", "run()"]}})
    files = []
    CH = 300
    for i in range(0, len(cases), CH):
        path = os.path.join(os.getcwd(), "Cases_C20_%03d.v" % (i // CH))
        with open(path, "w") as fh:
            fh.write("From Coq Require Import String List Bool ZArith QArith.\nFrom MP Require Import Base.Sig Base.Check Model.Params Corr.CheckParams.\n"
                     "Import ListNotations.\nOpen Scope string_scope.\n"
                     "Definition PATHS : list string := %s.\nDefinition CMDS : list (string * cinfo) := %s.\n"
                     "Definition cases : list (penv * pkind * raw * cres) := [\n  %s\n].\n"
                     "Eval vm_compute in (failing check_case cases).\n" % (clist([cstr(x) for x in existing]), cmds_term, ";\n  ".join(cases[i:i + CH])))
        files.append({"path": path, "first": i, "count": len(cases[i:i + CH])})
    json.dump({"files": files, "descr": descr, "oracle_failures": fails, "distribution": dist, "evaluations": evaluations,
               "distinct_nontrivial": nontrivial, "samples": descr[:1] + descr[-2:], "tree": mpilot.__file__}, open(out, "w"), default=str)


main()
