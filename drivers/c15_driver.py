"""C15 driver: serialise then load.   usage: c15_driver.py <out.json> <n>

Programs over the built-in CSV library and the test library, built (a) from rendered source and (b) through the programming
interface (add_command with raw values, already-clean values, Command objects, nested lists), with string values containing
quotes, backslashes, delimiters, line breaks and non-ASCII characters, numbers of every magnitude (exponent forms included),
booleans, nested lists, references, metadata.  P.to_string() is loaded back with from_source: same commands in the same order,
same argument names, equal cleaned values, identical results when run.  The serialised text and the re-parsed structure are
also compared with the Coq model of the serialiser (Model/Serial.v) composed with the parser model."""
import json
import math
import os
import random
import sys
import tempfile

import numpy

import mpilot
from mpilot.arguments import Argument, ListArgument
from mpilot.commands import Command
from mpilot.exceptions import MPilotError
from mpilot.program import Program, EEMS_CSV_LIBRARIES
from coqfmt import clist, copt, cZ, cQ
from parse_lib import observe, ctext, c_observed, float_oracle
from mpilot.parser.parser import Parser

assert os.path.abspath(mpilot.__file__).startswith(os.path.abspath(os.environ["VERIF_SNAP"])), mpilot.__file__
STRS = ["", "text", "two words", "it's", 'say "hi"', "back\\slash", "tab\there", "line\nbreak", "é à ü", "\u2013 dash", "中文", "a,b=(c)[d]:#e", "  padded  ",
        "C:\\temp\\new.csv", "'quoted'", '"dq"', "ends with \\", "\\n literal", "x\ry", "percent % and #hash", "True", "12", "1e5", "[x]", "k: v",
        "cover_{2020}", "{{x}}", "{", "{0} %s %(a)s", "$HOME ~ `x` | & ; < > ? * ! @ ^", "a\\\"b", "\x00ctl\x7f", "\u00ff\u0100 \U0001F600",
        "a sentence that is long enough to run past any line-length limit a formatter might have in mind - with hyphen-ated words, a\ttab and more words " * 2,
        "word " * 40, "x" * 150]
ALPHA = [chr(c) for c in range(32, 127)] + ["\t", "\n", "\r", "\\", '"', "'", "{", "}", "\u00e9", "\u4e2d", "\u2013"]


def rstr(rnd):
    if rnd.random() < 0.65:
        return rnd.choice(STRS)
    return "".join(rnd.choice(ALPHA) for _ in range(rnd.randint(0, 9)))

NUMS = [0, 1, -3, 42, 2 ** 40, 0.5, -2.75, 1e-05, 1e22, 5e-324, 1.7976931348623157e308, 123456789.123456789, 1e16, 1e-7, 100.0, -0.0, 0.1]


LEGACY = "READ(InFileName = d.csv, InFieldName = a, NewFieldName = A)\nCVTTOFUZZY(InFieldName = A, TrueThreshold = 3, FalseThreshold = 0, NewFieldName = F)\n"


def cleaned(cmd, prog):
    out = []
    for a in cmd.arguments:
        p = cmd.inputs.get(a.name)
        try:
            v = p.clean(a.value, prog, a.lineno) if p is not None else a.value
        except MPilotError as ex:
            v = "ERR:" + type(ex).__name__
        out.append((a.name, canon(v)))
    return out


def canon(v):
    if isinstance(v, Argument):
        return canon(v.value)
    if isinstance(v, Command):
        return "cmd:" + v.result_name
    if isinstance(v, (list, tuple)):
        return [canon(x) for x in v]
    if isinstance(v, dict):
        return {str(k): canon(x) for k, x in v.items()}
    if isinstance(v, float):
        return "float:" + v.hex()
    if isinstance(v, type):
        return "type:" + v.__name__
    return "%s:%r" % (type(v).__name__, v)


def abstract(prog):
    """the program as Python values (input of Model/Serial.v: ser_program), read off the live objects"""
    from mpilot import params as P

    def sval(v):
        if isinstance(v, Argument):
            v = v.value
        if isinstance(v, (list, tuple)):
            return "(SVList %s)" % clist([sval(x) for x in v])
        if isinstance(v, Command):
            return "(SVCmd %s)" % ctext(v.result_name)
        if isinstance(v, bool):
            return "(SVBool %s)" % ("true" if v else "false")
        if isinstance(v, str):
            return "(SVStr %s)" % ctext(v)
        if isinstance(v, int):
            return "(SVInt %s)" % cZ(v)
        if isinstance(v, float):
            return "(SVFloat %s)" % ctext(repr(v))
        return "(SVOther %s)" % ctext(str(v))

    cmds = []
    for name, c in prog.commands.items():
        args = []
        for a in c.arguments:
            if isinstance(a.value, dict):
                args.append("(%s, SADict %s)" % (ctext(a.name), clist(["(%s, %s)" % (ctext(str(k)), ctext(str(x))) for k, x in a.value.items()])))
                continue
            p = c.inputs.get(a.name)
            while isinstance(p, P.ListParameter):
                p = p.value_type
            args.append("(%s, SAVal %s %s)" % (ctext(a.name), "true" if isinstance(p, P.ResultParameter) else "false", sval(a.value)))
        cmds.append("{| sc_result := %s; sc_name := %s; sc_args := %s |}" % (ctext(c.result_name), ctext(c.name), clist(args)))
    return clist(cmds)


def structure(prog):
    return [(name, type(c).__name__, cleaned(c, prog)) for name, c in prog.commands.items()]


def results(prog):
    out = {}
    for name, c in prog.commands.items():
        r = c.result
        if isinstance(r, numpy.ndarray):
            out[name] = (r.shape, str(r.dtype), numpy.ma.getmaskarray(r).tolist(), [float(x).hex() for x in numpy.ma.getdata(r).reshape(-1).tolist()])
        else:
            out[name] = repr(r)
    return out


def main():
    out, n = sys.argv[1], int(sys.argv[2])
    seed = int(os.environ.get("VERIF_SEED", "0"))
    rnd = random.Random(seed * 999331 + 15)
    wd = tempfile.mkdtemp(prefix="c15-", dir=os.getcwd())
    open(os.path.join(wd, "d.csv"), "w").write("a,b\n1,4\n-9999,2.5\n3,0\n5,7\n")
    LIBS = tuple(EEMS_CSV_LIBRARIES) + ("verif_cmds.freeform",)
    lib = Program(libraries=LIBS).command_library
    fails, descr, cases = [], [], []
    ser_cases, ser_descr = [], []
    dist = {"programs": 0, "api_built": 0, "source_built": 0, "commands": 0, "string_values": 0, "number_values": 0, "list_values": 0, "metadata": 0,
            "run_compared": 0, "reparse_errors": {}, "other_loads_in_history": 0}
    evaluations = nontrivial = 0
    seen = set()
    for i in range(n):
        # history: other command files (the legacy EEMS 2.0 form among them) are loaded in this process between round trips
        if i == 2 or rnd.random() < 0.1:
            try:
                Program.from_source(LEGACY if rnd.random() < 0.7 else "X = EEMSRead(InFileName = d.csv,\n\n InFieldName = a)\n# end\n", libraries=LIBS, working_dir=wd)
                dist["other_loads_in_history"] += 1
            except (MPilotError, SyntaxError):
                pass
        prog = Program(libraries=LIBS, working_dir=wd)
        api = rnd.random() < 0.6
        dist["api_built" if api else "source_built"] += 1
        names = []
        cmds = []
        # data commands (runnable)
        cmds.append(("A", "EEMSRead", {"InFileName": "d.csv", "InFieldName": "a", "MissingVal": rnd.choice([-9999, -9999.0])}))
        cmds.append(("B", "EEMSRead", {"InFileName": rnd.choice(["d.csv", os.path.join(wd, "d.csv")]), "InFieldName": "b", "DataType": rnd.choice(["Float", "Integer"])}))
        if rnd.random() < 0.4:
            cmds[rnd.randint(0, 1)][2]["NewFieldName"] = rnd.choice(["Zed", "new name", "A"])
        if rnd.random() < 0.4:
            cmds.append(("W", "EEMSWrite", {"OutFileName": "o%d.csv" % (i % 3), "OutFieldNames": rnd.choice([["A"], ["A", "B"]])}))
        if rnd.random() < 0.8:
            cmds.append(("F", "CvtToFuzzy", {"InFieldName": "A", "TrueThreshold": rnd.choice(NUMS[:6] + [5, 7.5]), "FalseThreshold": rnd.choice([0, -1, 0.25, 1e-05])}))
        if rnd.random() < 0.7:
            cmds.append(("S", "WeightedSum", {"InFieldNames": ["A", "B"], "Weights": [rnd.choice(NUMS[:9]), rnd.choice([1, 0.5, 1e-05, 2e22])]}))
        if rnd.random() < 0.5:
            cmds.append(("C", "NormalizeCurve", {"InFieldName": "A", "RawValues": [0, 2.5, 1e-05, -1e22][:rnd.randint(2, 4)], "NormalValues": [0, 1, 0.5, 0.25][:4]}))
            cmds[-1][2]["NormalValues"] = cmds[-1][2]["NormalValues"][:len(cmds[-1][2]["RawValues"])]
        # commands of the test library with free-form arguments (not executed: see tests/commands.py)
        free = [k for k, c in lib.items() if c.__module__ == "verif_cmds.freeform"]
        for j in range(rnd.randint(0, 3)):
            cname = rnd.choice(free)
            cls = lib[cname]
            args = {}
            for pname, p in cls.inputs.items():
                if pname == "Metadata" or (not p.required and rnd.random() < 0.5):
                    continue
                args[pname] = value_for(rnd, p)
                if pname == "OfMany":
                    args[pname] = [rnd.choice(["A", "B"]) for _ in range(rnd.randint(0, 3))]
            if cname == "Loose" and rnd.random() < 0.7:
                args[rnd.choice(["Extra", "Anything"])] = rnd.choice(STRS + NUMS)
            cmds.append(("T%d" % j, cname, args))
        for (res, cname, args) in cmds:
            if rnd.random() < 0.4:
                args["Metadata"] = {rnd.choice(["Description", "DisplayName", "k 1"]): rstr(rnd), "Color": rnd.choice(["red", "#fff", "a:b"])}
                dist["metadata"] += 1
        if api:
            for (res, cname, args) in cmds:
                a2 = {}
                for k, v in args.items():
                    if k in ("InFieldName", "Of") and isinstance(v, str) and v in prog.commands and rnd.random() < 0.5:
                        v = prog.commands[v]            # a Command object instead of its name
                    elif k in ("InFieldNames", "OutFieldNames", "OfMany") and rnd.random() < 0.5:
                        v = [prog.commands[x] if rnd.random() < 0.5 else x for x in v]
                    a2[k] = v
                try:
                    prog.add_command(lib[cname], res, a2, None)
                except MPilotError as ex:
                    pass
        else:
            src = "\n".join("%s = %s(%s)" % (res, cname, ", ".join("%s = %s" % (k, render(rnd, v)) for k, v in args.items())) for res, cname, args in cmds)
            try:
                prog = Program.from_source(src, libraries=LIBS, working_dir=wd)
            except (MPilotError, SyntaxError) as ex:
                continue
        dist["programs"] += 1
        dist["commands"] += len(prog.commands)
        evaluations += 1
        for c in prog.commands.values():
            for a in c.arguments:
                v = a.value
                dist["string_values"] += int(isinstance(v, str))
                dist["number_values"] += int(isinstance(v, (int, float)) and not isinstance(v, bool))
                dist["list_values"] += int(isinstance(v, list))
        replay = {"built": "api" if api else "source", "commands": [[r, c, {k: repr(v) for k, v in a.items()}] for r, c, a in cmds]}
        try:
            text = prog.to_string()
        except BaseException as ex:
            fails.append({"sig": "C15:to_string-fails:%s" % type(ex).__name__, "what": "to_string() raised %s: %s" % (type(ex).__name__, str(ex)[:120]), "replay": replay})
            continue
        replay["serialised"] = text
        ser_cases.append("(%s, %s)" % (abstract(prog), ctext(text)))
        ser_descr.append(replay)
        key = text
        if key not in seen:
            seen.add(key)
            if len(prog.commands) >= 2:
                nontrivial += 1
        try:
            back = Program.from_source(text, libraries=LIBS, working_dir=wd)
        except SyntaxError as ex:
            dist["reparse_errors"]["SyntaxError"] = dist["reparse_errors"].get("SyntaxError", 0) + 1
            fails.append({"sig": "C15:reload-fails:SyntaxError", "what": "the serialised program does not parse: %s" % str(ex)[:120], "replay": replay})
            continue
        except MPilotError as ex:
            dist["reparse_errors"][type(ex).__name__] = dist["reparse_errors"].get(type(ex).__name__, 0) + 1
            fails.append({"sig": "C15:reload-fails:%s" % type(ex).__name__, "what": "the serialised program does not load: %s" % str(ex).splitlines()[0][:120], "replay": replay})
            continue
        except BaseException as ex:
            fails.append({"sig": "C15:reload-escaped:%s" % type(ex).__name__, "what": "loading the serialised program let %s escape" % type(ex).__name__, "replay": replay})
            continue
        s1, s2 = structure(prog), structure(back)
        if s1 != s2:
            # localise the first difference
            what = "different number/order of commands"
            for (n1, c1, a1), (n2, c2, a2) in zip(s1, s2):
                if (n1, c1) != (n2, c2):
                    what = "command %s %s came back as %s %s" % (n1, c1, n2, c2)
                    break
                if a1 != a2:
                    d = [(x, y) for x, y in zip(a1, a2) if x != y]
                    what = "%s = %s: argument %s came back as %s" % (n1, c1, d[0][0] if d else a1, d[0][1] if d else a2)
                    break
            kind = "value"
            fails.append({"sig": "C15:structure-differs", "what": "serialise + load changed the program: %s" % what[:300], "replay": replay})
            continue
        # identical results for the runnable part
        try:
            r1 = {k: v for k, v in results_of(prog).items()}
            r2 = {k: v for k, v in results_of(back).items()}
            dist["run_compared"] += 1
            if r1 != r2:
                fails.append({"sig": "C15:results-differ", "what": "the reloaded program computes different results", "replay": replay})
        except MPilotError:
            pass
        descr.append(replay)
        # Coq case: the parser model on the serialised text vs the real parser (what the loader then consumes)
        try:
            o = observe(Parser(), text)
            fl = float_oracle(text)
            cases.append("(%s, %s, %s)" % (ctext(text), clist(["(%s, %s)" % (ctext(k), ctext(v)) for k, v in sorted(fl.items())]), c_observed(o)))
        except ValueError:
            pass
    files = []
    CH = 40
    for i in range(0, len(cases), CH):
        path = os.path.join(os.getcwd(), "Cases_C15_%03d.v" % (i // CH))
        with open(path, "w") as fh:
            fh.write("From Coq Require Import NArith ZArith QArith List.\nFrom MP Require Import Base.Check Model.Lexer Model.Parser Corr.CheckParser.\n"
                     "Import ListNotations.\nOpen Scope N_scope.\n"
                     "Definition cases : list (text * list (text * text) * observed) := [\n  %s\n].\n"
                     "Eval vm_compute in (failing check_parse cases).\n" % ";\n  ".join(cases[i:i + CH]))
        files.append({"path": path, "first": i, "count": len(cases[i:i + CH])})
    ser_files, wf_files = [], []
    for i in range(0, len(ser_cases), CH):
        path = os.path.join(os.getcwd(), "Cases_C15ser_%03d.v" % (i // CH))
        with open(path, "w") as fh:
            fh.write("From Coq Require Import NArith ZArith List.\nFrom MP Require Import Base.Check Model.Lexer Model.Parser Model.Serial Corr.CheckSerial.\n"
                     "Import ListNotations.\nOpen Scope N_scope.\n"
                     "Definition cases : list (list scmd * text) := [\n  %s\n].\n"
                     "Eval vm_compute in (failing check_ser cases).\n" % ";\n  ".join(ser_cases[i:i + CH]))
        ser_files.append({"path": path, "first": i, "count": len(ser_cases[i:i + CH])})
        # which of these programs meet the hypotheses of the round-trip theorem C15_serialise_parse (indices printed: those that do not)
        path = os.path.join(os.getcwd(), "Cases_C15wf_%03d.v" % (i // CH))
        with open(path, "w") as fh:
            fh.write("From Coq Require Import NArith ZArith List.\nFrom MP Require Import Base.Check Model.Lexer Model.Parser Model.Serial Proofs.LexSerial.\n"
                     "Import ListNotations.\nOpen Scope N_scope.\n"
                     "Definition cases : list (list scmd * text) := [\n  %s\n].\n"
                     "Eval vm_compute in (failing (fun c : list scmd * text => forallb wfc (fst c)) cases).\n" % ";\n  ".join(ser_cases[i:i + CH]))
        wf_files.append({"path": path, "first": i, "count": len(ser_cases[i:i + CH])})
    json.dump({"ser_files": ser_files, "wf_files": wf_files, "ser_descr": ser_descr, "files": files, "descr": descr, "oracle_failures": fails, "distribution": dist, "evaluations": evaluations,
               "distinct_nontrivial": nontrivial, "samples": descr[:1] + descr[-2:], "tree": mpilot.__file__}, open(out, "w"), default=str)


def results_of(prog):
    out = {}
    for name in prog.commands:
            r = prog.commands[name].result
            if not isinstance(r, numpy.ndarray):
                out[name] = repr(r)
                continue
            out[name] = (r.shape, str(r.dtype), numpy.ma.getmaskarray(r).tolist(), [float(x).hex() for x in numpy.ma.getdata(r).reshape(-1).tolist()])
    return out


def value_for(rnd, p, depth=0):
    from mpilot import params as P
    t = type(p)
    if t is P.StringParameter:
        return rstr(rnd)
    if t is P.NumberParameter:
        return rnd.choice(NUMS)
    if t is P.BooleanParameter:
        return rnd.choice([True, False])
    if t is P.ListParameter:
        k = rnd.randint(0, 3) if depth or rnd.random() < 0.75 else rnd.randint(12, 40)      # long lists: the line gets far longer than any screen
        return [value_for(rnd, p.value_type, depth + 1) for _ in range(k)]
    if t is P.TupleParameter:
        return {rnd.choice(["k", "Description"]): rstr(rnd)} if rnd.random() < 0.85 else {}
    if t is P.PathParameter:
        return "d.csv"
    if t is P.ResultParameter:
        return "A"
    return rnd.choice(STRS + NUMS)


def render(rnd, v):
    if isinstance(v, bool):
        return "True" if v else "False"
    if isinstance(v, str):
        if v and all(c.isalnum() or c in "_." for c in v) and not v[0].isdigit():
            return v
        return '"' + v.replace("\\", "\\\\").replace('"', '\\"').replace("\n", "\\n").replace("\r", "\\r").replace("\t", "\\t") + '"'
    if isinstance(v, float):
        t = repr(v)
        return t if "e" not in t or "." in t else t.replace("e", ".0e")
    if isinstance(v, int):
        return str(v)
    if isinstance(v, list):
        return "[" + ", ".join(render(rnd, x) for x in v) + "]"
    if isinstance(v, dict):
        return "[" + ", ".join("%s: %s" % (render(rnd, k), render(rnd, x)) for k, x in v.items()) + "]"
    raise ValueError(type(v))


main()
