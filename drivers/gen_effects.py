"""GenEffects.v: the ownership/effect IR (Model/Effects.v) of every execute() body of the built-in EEMS libraries,
translated from the AST of the snapshot sources.  Python only maps syntax to tags; what the tags mean (which are
aliases, which are new objects, which statements write in place) is listed in the tables below and is part of the
trusted base; whatever is not recognised becomes SUnknown (never accepted by the Coq check) or the conservative
`RAny <everything the expression mentions>`.

Abstract values: every Python variable denotes "a new object or one of these inputs".  Inputs are the parameters of
the command: a result parameter (its .result array), a list of results (any element), or a plain parameter value.
"""
import ast
import os

from coqfmt import cstr, clist, cbool, cnat

# ---- tables (trusted): numpy / stdlib API facts -------------------------------------------------------------
# functions returning a view / the argument itself (possibly): result may alias any array argument
VIEW_FUNCS = {"asarray", "asanyarray", "ascontiguousarray", "atleast_1d", "atleast_2d", "atleast_3d", "broadcast_to",
              "broadcast_arrays", "reshape", "ravel", "transpose", "swapaxes", "moveaxis", "rollaxis", "squeeze",
              "expand_dims", "diagonal", "split", "array_split", "hsplit", "vsplit", "dsplit", "flip", "fliplr", "flipud",
              "real", "imag", "getdata", "getmask", "getmaskarray", "array", "masked_array", "MaskedArray", "filled",
              "nditer", "view", "require", "trim_zeros", "rot90", "tril", "triu", "compress_rowcols", "harden_mask",
              "soften_mask", "fix_invalid", "masked_where", "masked_values", "masked_equal", "masked_invalid",
              "masked_greater", "masked_less", "masked_inside", "masked_outside", "masked_object"}
COPY_FUNCS = {"copy", "deepcopy"}          # copy.copy, copy.deepcopy, numpy.copy, numpy.ma.copy
# functions that write into one of their arguments
MUTATING_FUNCS = {"put": 0, "place": 0, "copyto": 0, "putmask": 0, "fill_diagonal": 0, "shuffle": 0, "put_along_axis": 0,
                  "heapify": 0, "heappush": 0, "heappop": 0, "insort": 0}
# methods that return a view of / the receiver
VIEW_METHODS = {"reshape", "ravel", "transpose", "swapaxes", "squeeze", "view", "filled", "get", "diagonal", "setdefault",
                "__getitem__", "pop", "values", "items", "result"}
# methods that return a new object (or a scalar) and do not write to the receiver
PURE_METHODS = {"copy", "astype", "compressed", "flatten", "tolist", "min", "max", "mean", "std", "var", "sum", "prod", "any",
                "all", "count", "round", "clip", "cumsum", "cumprod", "argsort", "argmin", "argmax", "nonzero", "dot", "item",
                "index", "keys", "format", "startswith", "endswith", "join", "split", "strip", "lower", "upper", "replace",
                "readlines", "read", "readline", "conj", "ptp", "tobytes", "isoformat", "get_fill_value", "ids", "anom",
                "validate_array_shapes"}
# methods that write to the receiver
MUTATING_METHODS = {"sort", "fill", "put", "itemset", "resize", "partition", "setflags", "harden_mask", "soften_mask",
                    "unshare_mask", "shrink_mask", "byteswap", "append", "extend", "insert", "remove", "clear", "update",
                    "reverse", "write", "writerow", "writerows", "writelines", "close", "set_fill_value", "setncattr",
                    "setncatts", "set_auto_mask", "set_auto_maskandscale", "set_auto_scale", "sync", "flush", "seek"}
# attributes that are views of the object
VIEW_ATTRS = {"mask", "data", "T", "real", "imag", "flat", "base", "_data", "_mask", "recordmask", "baseclass", "result", "_result"}
SCALAR_ATTRS = {"shape", "dtype", "fill_value", "size", "ndim", "itemsize", "nbytes", "lineno", "argument_lines", "result_name",
                "name", "hardmask", "sharedmask", "flags", "strides", "variables", "dimensions"}
FRESH_BUILTINS = {"float", "int", "str", "bool", "len", "range", "abs", "round", "isinstance", "repr", "hash", "id", "type",
                  "open", "print", "format", "ord", "chr", "divmod", "pow", "issubclass", "hasattr", "callable", "super",
                  "dir", "vars", "is_masked", "Dataset"}      # is_masked: numpy.ma; Dataset: netCDF4 (a new handle)
# builtins whose result may contain / be one of the arguments' elements
CONTAINER_BUILTINS = {"list", "tuple", "sorted", "zip", "enumerate", "reversed", "iter", "next", "set", "dict", "filter", "map",
                      "min", "max", "reduce", "getattr", "frozenset"}
ALWAYS_NEW = {"sum"}   # builtins.sum starts from the int 0: always a new object


class Body(object):
    def __init__(self, label, inputs):
        self.label = label
        self.inputs = inputs            # [(param name, fz flag, kind)] kind: 'result' | 'results' | 'param' | 'paramlist'
        self.vars = {}                  # python name -> nat
        self.bound = set()

    def var(self, name):
        if name not in self.vars:
            self.vars[name] = len(self.vars)
        return self.vars[name]

    def inp(self, pname):
        for i, (n, _, _) in enumerate(self.inputs):
            if n == pname:
                return i
        return None


class Unknown(Exception):
    pass


def seq(stmts):
    stmts = [s for s in stmts if s != "SSkip"]
    if not stmts:
        return "SSkip"
    out = stmts[-1]
    for s in reversed(stmts[:-1]):
        out = "(SSeq %s %s)" % (s, out)
    return out


def unknown(txt):
    return "(SUnknown %s)" % cstr("".join(ch if 32 <= ord(ch) < 127 else "?" for ch in txt)[:70])


class Translator(object):
    """One execute() body (callee bodies reached through super().execute / self.helper / module helpers are inlined)."""

    def __init__(self, body, classes, helpers, cls_name, depth=0):
        self.b = body
        self.classes = classes          # class name -> (ast.ClassDef, module consts)
        self.helpers = helpers          # module-level project functions: name -> ast.FunctionDef
        self.cls = cls_name
        self.depth = depth
        self.tmp = 0
        self.kw = {"kwargs": {}}        # kwargs-like dict variables -> overrides {key: python var name}
        self.pre = []                   # statements produced while evaluating expressions

    # ---------- expressions: returns ("fresh",) | ("set", [vars], [inps]) ----------
    def fresh_tmp(self):
        self.tmp += 1
        return "$t%d_%d" % (self.depth, self.tmp)

    def union(self, *ds):
        vs, ins = [], []
        for d in ds:
            if d[0] == "set":
                vs += [v for v in d[1] if v not in vs]
                ins += [i for i in d[2] if i not in ins]
        if not vs and not ins:
            return ("fresh",)
        return ("set", vs, ins)

    def bind(self, pyname, d):
        x = self.b.var(pyname)
        if d[0] == "fresh":
            r = "RFresh"
        elif len(d[1]) == 1 and not d[2]:
            r = "(RAlias %s)" % cnat(d[1][0])
        else:
            r = "(RAny %s %s)" % (clist([cnat(v) for v in d[1]]), clist([cnat(i) for i in d[2]]))
        self.b.bound.add(pyname)
        return "(SBind %s %s)" % (cnat(x), r)

    def stable(self, d):
        """a form of the abstract value that stays valid when variables are re-bound later"""
        if d[0] == "fresh" or not d[1]:
            return d
        return self.as_var(d)

    def as_var(self, d):
        """materialise an abstract value as a (temporary) variable so that it can be mutated"""
        t = self.fresh_tmp()
        self.pre.append(self.bind(t, d))
        return t

    def kwargs_lookup(self, dictname, key):
        over = self.kw[dictname]
        if key in over:
            return over[key] if isinstance(over[key], tuple) else self.name_val(over[key])
        i = self.b.inp(key)
        if i is None:
            return ("fresh",)           # a key the command does not declare (e.g. StartVal passed by a subclass): a scalar
        return ("set", [], [i])

    def name_val(self, name):
        if name in self.b.bound:
            return ("set", [self.b.var(name)], [])
        return ("fresh",)               # globals: modules, constants, classes

    def const_key(self, node):
        if isinstance(node, ast.Constant) and isinstance(node.value, str):
            return node.value
        return None

    def ev(self, e):
        if e is None or isinstance(e, (ast.Constant, ast.JoinedStr, ast.FormattedValue)):
            return ("fresh",)
        if isinstance(e, ast.Name):
            return self.name_val(e.id)
        if isinstance(e, (ast.BinOp,)):
            self.ev(e.left), self.ev(e.right)
            return ("fresh",)           # numpy/py arithmetic creates a new object
        if isinstance(e, ast.UnaryOp):
            # numpy.ma: -a is a new array whose mask is the very mask array of a (observed: shares_memory, sharedmask False)
            return self.ev(e.operand)
        if isinstance(e, ast.Compare):
            self.ev(e.left)
            for c in e.comparators:
                self.ev(c)
            return ("fresh",)
        if isinstance(e, ast.BoolOp):   # `a or b` returns one of the operands
            return self.union(*[self.ev(v) for v in e.values])
        if isinstance(e, ast.IfExp):
            self.ev(e.test)
            return self.union(self.ev(e.body), self.ev(e.orelse))
        if isinstance(e, (ast.List, ast.Tuple, ast.Set)):
            return self.union(*[self.ev(x) for x in e.elts])      # a new container holding these objects
        if isinstance(e, ast.Dict):
            return self.union(*[self.ev(x) for x in e.values if x is not None])
        if isinstance(e, ast.Starred):
            return self.ev(e.value)
        if isinstance(e, (ast.ListComp, ast.GeneratorExp, ast.SetComp)):
            return self.comprehension(e)
        if isinstance(e, ast.Lambda):
            return ("fresh",)
        if isinstance(e, ast.Slice):
            return self.union(self.ev(e.lower), self.ev(e.upper), self.ev(e.step))
        if isinstance(e, ast.Attribute):
            return self.attribute(e)
        if isinstance(e, ast.Subscript):
            return self.subscript(e)
        if isinstance(e, ast.Call):
            return self.call(e)
        raise Unknown("expression %s" % type(e).__name__)

    def comprehension(self, e):
        saved = set(self.b.bound)
        for g in e.generators:
            it = self.ev(g.iter)
            for n in ast.walk(g.target):
                if isinstance(n, ast.Name):
                    self.pre.append(self.bind(n.id, it))
            for c in g.ifs:
                self.ev(c)
        d = self.ev(e.elt)
        if d[0] == "set":   # comprehension variables go out of scope: replace them by what they denote
            t = self.as_var(d)
            d = ("set", [self.b.var(t)], [])
        self.b.bound = saved | {k for k in self.b.bound if k.startswith("$")}
        return d

    def attribute(self, e):
        # kwargs["K"].result  /  c.result
        base = self.ev(e.value)
        if e.attr in SCALAR_ATTRS:
            return ("fresh",)
        if e.attr in VIEW_ATTRS:
            return base
        if isinstance(e.value, ast.Name) and e.value.id in ("self", "numpy", "np", "params", "os", "csv", "copy", "version"):
            return ("fresh",)
        return base                      # unknown attribute: may be a view of the object

    def subscript(self, e):
        # kwargs["K"]
        if isinstance(e.value, ast.Name) and e.value.id in self.kw:
            k = self.const_key(e.slice)
            if k is None:
                raise Unknown("kwargs[<non-constant>]")
            return self.kwargs_lookup(e.value.id, k)
        base = self.ev(e.value)
        sl = e.slice
        # a full slice of a plain list parameter is a new list
        if isinstance(sl, ast.Slice) and sl.lower is None and sl.upper is None and sl.step is None and base[0] == "set" \
                and not base[1] and all(self.b.inputs[i][2] == "paramlist" for i in base[2]):
            return ("fresh",)
        idx = self.ev(sl) if not isinstance(sl, ast.Slice) else self.union(self.ev(sl.lower), self.ev(sl.upper), self.ev(sl.step))
        # boolean-array / index-array selection copies
        if isinstance(sl, ast.Compare) or (isinstance(sl, ast.Call) and self.func_name(sl.func)[-1] in ("where", "nonzero", "logical_and", "logical_or", "logical_not")):
            return ("fresh",)
        return base

    def func_name(self, f):
        parts = []
        while isinstance(f, ast.Attribute):
            parts.append(f.attr)
            f = f.value
        if isinstance(f, ast.Name):
            parts.append(f.id)
        else:
            parts.append("?")
        return list(reversed(parts))

    def call(self, e):
        fn = self.func_name(e.func)
        args = [self.ev(a) for a in e.args]
        kwargs = {k.arg: self.ev(k.value) for k in e.keywords if k.arg is not None}
        star = [self.ev(k.value) for k in e.keywords if k.arg is None and not (isinstance(k.value, ast.Name) and k.value.id in self.kw)]
        allargs = self.union(*(args + list(kwargs.values()) + star))
        # ufunc(..., out=x): writes x
        if "out" in kwargs and kwargs["out"][0] == "set":
            t = self.as_var(kwargs["out"])
            self.pre.append("(SMut %s KArb)" % cnat(self.b.var(t)))
        # ---- project code: inlined ----
        if fn == ["insure_fuzzy"] and len(e.args) == 3:
            lo, hi = self.intconst(e.args[1]), self.intconst(e.args[2])
            t = self.as_var(args[0])
            self.pre.append("(SMut %s %s)" % (cnat(self.b.var(t)), "KClamp" if (lo, hi) == (-1, 1) else "KArb"))
            return ("set", [self.b.var(t)], [])
        if len(fn) == 1 and fn[0] in self.helpers:
            return self.inline_function(self.helpers[fn[0]], e, args, None)
        if fn[0] == "self" and len(fn) == 2:
            m = self.find_method(self.cls, fn[1])
            if m is not None:
                return self.inline_function(m[1], e, args, m[0], skip_self=True)
            if fn[1] in PURE_METHODS:
                return ("fresh",)
            raise Unknown("self.%s" % fn[1])
        if isinstance(e.func, ast.Attribute) and e.func.attr == "execute" and isinstance(e.func.value, ast.Call) \
                and self.func_name(e.func.value.func) == ["super"]:
            return self.inline_super(e)
        # ---- library code ----
        last = fn[-1]
        root = fn[0]
        if fn == ["setattr"] and args:
            if args[0][0] == "set":
                t = self.as_var(args[0])
                self.pre.append("(SMut %s KArb)" % cnat(self.b.var(t)))
            return ("fresh",)
        if len(fn) == 1 and (fn[0] in self.b.bound or getattr(self, "renames", {}).get(fn[0]) in self.b.bound):
            return self.union(self.name_val(fn[0]), allargs)      # calling a local value (a type taken from the arguments)
        if root in ("numpy", "np", "copy", "csv", "os", "version", "netCDF4", "random", "heapq", "bisect", "math", "six") or \
                (len(fn) == 1 and (last in FRESH_BUILTINS or last in CONTAINER_BUILTINS or last in ALWAYS_NEW or last in ("Dataset",))):
            if last in MUTATING_FUNCS and args and args[MUTATING_FUNCS[last]][0] == "set":
                t = self.as_var(args[MUTATING_FUNCS[last]])
                self.pre.append("(SMut %s KArb)" % cnat(self.b.var(t)))
                return ("fresh",)
            if last in COPY_FUNCS or last in ALWAYS_NEW or (len(fn) == 1 and last in FRESH_BUILTINS) or \
                    (root == "csv" and last in ("reader", "writer", "DictReader", "DictWriter")):
                return ("fresh",)
            if last == "array" and root in ("numpy", "np") and len(fn) == 2 and "copy" not in kwargs:
                return ("fresh",)       # numpy.array copies by default (numpy.ma.array does not)
            if last in VIEW_FUNCS or (len(fn) == 1 and last in CONTAINER_BUILTINS):
                return allargs
            if root in ("numpy", "np"):
                return ("fresh",)       # every other numpy / numpy.ma function returns a new array
            return allargs              # other library functions: may return something reachable from the arguments
        # ---- method call on an object ----
        if isinstance(e.func, ast.Attribute):
            recv = self.ev(e.func.value)
            m = e.func.attr
            if m in MUTATING_METHODS:
                if recv[0] == "set":
                    t = self.as_var(recv)
                    self.pre.append("(SMut %s KArb)" % cnat(self.b.var(t)))
                return ("fresh",)
            if m in COPY_FUNCS or m in PURE_METHODS:
                return ("fresh",)
            if m in VIEW_METHODS or m in VIEW_FUNCS:
                return self.union(recv, allargs)
            if recv[0] == "fresh":
                return allargs          # a method of a new / immutable object
            # a method this table does not know: it may write to its receiver (the Coq check accepts that only
            # when the receiver is certainly a new object) and may return the receiver or an argument
            t = self.as_var(recv)
            self.pre.append("(SMut %s KArb)" % cnat(self.b.var(t)))
            return self.union(recv, allargs)
        if len(fn) == 1 and fn[0][:1].isupper():
            return allargs              # constructing an object (exception classes, ...)
        raise Unknown("call %s" % ".".join(fn))

    def intconst(self, node):
        consts = self.classes.get(self.cls, (None, {}))[1]
        if isinstance(node, ast.Name) and node.id in consts:
            return consts[node.id]
        if isinstance(node, ast.Constant) and type(node.value) is int:
            return node.value
        if isinstance(node, ast.UnaryOp) and isinstance(node.op, ast.USub) and isinstance(node.operand, ast.Constant):
            return -node.operand.value
        return None

    def find_method(self, cls, name):
        seen = []
        todo = [cls]
        while todo:
            c = todo.pop(0)
            if c in seen or c not in self.classes:
                continue
            seen.append(c)
            node = self.classes[c][0]
            for st in node.body:
                if isinstance(st, ast.FunctionDef) and st.name == name:
                    return c, st
            for bnode in node.bases:
                if isinstance(bnode, ast.Name):
                    todo.append(bnode.id)
        return None

    def inline_function(self, fndef, call, args, owner, skip_self=False):
        if self.depth > 4:
            raise Unknown("inlining too deep")
        sub = Translator(self.b, self.classes, self.helpers, owner or self.cls, self.depth + 1)
        sub.kw = {}
        saved = set(self.b.bound)
        params = [a.arg for a in fndef.args.args]
        if skip_self:
            params = params[1:]
        stmts = []
        renames = {}
        for i, pname in enumerate(params):
            local = "%s@%d.%d" % (pname, self.depth + 1, id(call) % 100000)
            renames[pname] = local
            d = args[i] if i < len(args) else ("fresh",)
            for k in call.keywords:
                if k.arg == pname:
                    d = self.ev(k.value)
            stmts.append(self.bind(local, d))
        sub.renames = renames
        body = sub.block(self.rename(fndef.body, renames))
        ret = "$ret%d.%d" % (self.depth + 1, id(call) % 100000)
        self.pre += stmts + [self.bind(ret, ("fresh",)), body.replace("$RET$", cnat(self.b.var(ret)))]
        self.b.bound = saved | {ret} | {k for k in self.b.bound if k.startswith("$")}
        return ("set", [self.b.var(ret)], [])

    def rename(self, stmts, renames):
        class R(ast.NodeTransformer):
            def visit_Name(self, node):
                if node.id in renames:
                    return ast.copy_location(ast.Name(id=renames[node.id], ctx=node.ctx), node)
                return node
        import copy as _c
        return [R().visit(_c.deepcopy(s)) for s in stmts]

    def inline_super(self, call):
        # super(C, self).execute(**kwargs-like [, K=v ...])
        sup = call.func.value
        start = sup.args[0].id if sup.args and isinstance(sup.args[0], ast.Name) else self.cls
        node = self.classes[start][0]
        target = None
        for bnode in node.bases:
            if isinstance(bnode, ast.Name):
                m = self.find_method(bnode.id, "execute")
                if m:
                    target = m
                    break
        if target is None:
            raise Unknown("super().execute not found")
        if self.depth > 4:
            raise Unknown("inlining too deep")
        sub = Translator(self.b, self.classes, self.helpers, target[0], self.depth + 1)
        over = {}
        for k in call.keywords:
            if k.arg is None:
                if isinstance(k.value, ast.Name) and k.value.id in self.kw:
                    over.update(self.kw[k.value.id])
                else:
                    raise Unknown("**<expression>")
            else:
                over[k.arg] = self.stable(self.ev(k.value))
        kwname = target[1].args.kwarg.arg if target[1].args.kwarg else "kwargs"
        sub.kw = {kwname: over}
        body = sub.block(target[1].body)
        ret = "$ret%d.%d" % (self.depth + 1, id(call) % 100000)
        self.pre += [self.bind(ret, ("fresh",)), body.replace("$RET$", cnat(self.b.var(ret)))]
        self.b.bound.add(ret)
        return ("set", [self.b.var(ret)], [])

    # ---------- statements ----------
    def flush(self):
        p, self.pre = self.pre, []
        return p

    def root_name(self, t):
        while isinstance(t, (ast.Subscript, ast.Attribute)):
            t = t.value
        return t

    def mutate_target(self, t):
        """assignment into x[...] / x.attr: an in-place write to what x denotes"""
        root = self.root_name(t)
        if isinstance(root, ast.Name) and root.id in self.kw and isinstance(t, ast.Subscript) and t.value is root:
            return None                 # kwargs[...] = v : handled by the caller (a per-call dict)
        d = self.ev(t.value)            # the object written to (t.value: x for x[i], x.data for x.data[i], x for x.mask)
        if d[0] == "fresh":
            return "SSkip"
        tv = self.as_var(d)
        return "(SMut %s KArb)" % cnat(self.b.var(tv))

    def assign(self, targets, value_d, value_node=None):
        out = []
        for t in targets:
            if isinstance(t, ast.Name):
                if value_node is not None and self.is_kwargs_like(value_node):
                    self.kw[t.id] = dict(self.kwargs_of(value_node))
                    continue
                self.kw.pop(t.id, None) if t.id != "kwargs" or value_node is None else None
                out.append(self.bind(t.id, value_d))
            elif isinstance(t, (ast.Tuple, ast.List)):
                out += self.assign(list(t.elts), value_d)
            elif isinstance(t, ast.Starred):
                out += self.assign([t.value], value_d)
            elif isinstance(t, (ast.Subscript, ast.Attribute)):
                root = self.root_name(t)
                if isinstance(t, ast.Subscript) and isinstance(root, ast.Name) and root.id in self.kw and t.value is root:
                    k = self.const_key(t.slice)
                    if k is None:
                        raise Unknown("kwargs[<non-constant>] = ...")
                    self.kw[root.id][k] = self.stable(value_d)
                else:
                    out.append(self.mutate_target(t))
            else:
                raise Unknown("assignment target %s" % type(t).__name__)
        return out

    def is_kwargs_like(self, node):
        # kwargs, copy.copy(kwargs), dict(kwargs)
        if isinstance(node, ast.Name) and node.id in self.kw:
            return True
        if isinstance(node, ast.Call) and self.func_name(node.func) in (["copy", "copy"], ["dict"], ["copy", "deepcopy"]) \
                and len(node.args) == 1 and isinstance(node.args[0], ast.Name) and node.args[0].id in self.kw:
            return True
        return False

    def kwargs_of(self, node):
        if isinstance(node, ast.Name):
            return self.kw[node.id]
        return self.kw[node.args[0].id]

    def stmt(self, s):
        try:
            return self.stmt_(s)
        except Unknown as ex:
            self.pre = []
            return unknown("%s: %s" % (ex, ast.unparse(s).splitlines()[0]))

    def stmt_(self, s):
        if isinstance(s, ast.Expr):
            if isinstance(s.value, ast.Constant):
                return "SSkip"
            # updated_kwargs.update(kwargs): merges the declared parameters under the given overrides
            if isinstance(s.value, ast.Call) and isinstance(s.value.func, ast.Attribute) and s.value.func.attr == "update" \
                    and isinstance(s.value.func.value, ast.Name) and s.value.func.value.id in self.kw:
                arg = s.value.args[0]
                if isinstance(arg, ast.Name) and arg.id in self.kw:
                    self.kw[s.value.func.value.id].update(self.kw[arg.id])
                    # keys present in the caller's kwargs win over the defaults: they resolve to the declared parameters
                    for k in list(self.kw[s.value.func.value.id]):
                        if self.b.inp(k) is not None and k not in self.kw[arg.id]:
                            del self.kw[s.value.func.value.id][k]
                    return "SSkip"
                raise Unknown("kwargs.update(<expression>)")
            self.ev(s.value)
            return seq(self.flush())
        if isinstance(s, ast.Assign):
            # a literal dict assigned to a name that is later used as **kwargs
            if len(s.targets) == 1 and isinstance(s.targets[0], ast.Name) and isinstance(s.value, ast.Dict) and \
                    all(self.const_key(k) is not None for k in s.value.keys):
                over = {}
                for k, v in zip(s.value.keys, s.value.values):
                    over[self.const_key(k)] = self.stable(self.ev(v))
                self.kw[s.targets[0].id] = over
                return seq(self.flush())
            d = self.ev(s.value)
            out = self.assign(s.targets, d, s.value)
            return seq(self.flush() + out)
        if isinstance(s, ast.AnnAssign):
            d = self.ev(s.value)
            return seq(self.flush() + self.assign([s.target], d, s.value))
        if isinstance(s, ast.AugAssign):
            self.ev(s.value)
            if isinstance(s.target, ast.Name):
                d = self.name_val(s.target.id)
                if d[0] == "fresh":
                    return seq(self.flush() + [self.bind(s.target.id, ("fresh",))])
                return seq(self.flush() + ["(SMut %s KArb)" % cnat(self.b.var(s.target.id))])
            m = self.mutate_target(s.target)
            return seq(self.flush() + [m])
        if isinstance(s, ast.Return):
            d = self.ev(s.value)
            x = "$RET$"
            if d[0] == "fresh":
                r = "RFresh"
            else:
                r = "(RAny %s %s)" % (clist([cnat(v) for v in d[1]]), clist([cnat(i) for i in d[2]]))
            # a function may return from several places: the result is the join of all of them (prologue binds it fresh)
            return seq(self.flush() + ["(SIf (SBind %s %s) SSkip)" % (x, r)])
        if isinstance(s, (ast.Raise, ast.Assert)):
            for sub in ast.iter_child_nodes(s):
                if isinstance(sub, ast.expr):
                    self.ev(sub)
            return seq(self.flush())
        if isinstance(s, (ast.Pass, ast.Import, ast.ImportFrom, ast.Global, ast.Nonlocal, ast.Break, ast.Continue)):
            return "SSkip"
        if isinstance(s, ast.If):
            self.ev(s.test)
            pre = self.flush()
            saved_kw = {k: dict(v) for k, v in self.kw.items()}
            a = self.block(s.body)
            kw_a = self.kw
            self.kw = {k: dict(v) for k, v in saved_kw.items()}
            b = self.block(s.orelse)
            if kw_a != self.kw:
                raise Unknown("kwargs rebuilt differently in the two branches")
            return seq(pre + ["(SIf %s %s)" % (a, b)])
        if isinstance(s, (ast.For, ast.While)):
            if isinstance(s, ast.For):
                it = self.ev(s.iter)
                pre = self.flush()
                binds = self.assign([s.target], it)
                body = self.block(s.body)
                # the loop target is re-bound on every iteration, and once before (so that the invariant mentions it)
                inner = seq(binds + [body])
                return seq(pre + binds + ["(SLoop %s)" % inner] + ([self.block(s.orelse)] if s.orelse else []))
            self.ev(s.test)
            pre = self.flush()
            return seq(pre + ["(SLoop %s)" % self.block(s.body)])
        if isinstance(s, ast.With):
            out = []
            for item in s.items:
                d = self.ev(item.context_expr)
                out += self.flush()
                if item.optional_vars is not None:
                    out += self.assign([item.optional_vars], d)
            return seq(out + [self.block(s.body)])
        if isinstance(s, ast.Try):
            # handlers may only raise (possibly after evaluating call arguments); the body may stop anywhere before
            for h in s.handlers:
                for st in h.body:
                    if not isinstance(st, (ast.Raise, ast.Pass)):
                        raise Unknown("except-handler that does more than raise")
            return seq([self.block(s.body)] + ([self.block(s.orelse)] if s.orelse else []) + ([self.block(s.finalbody)] if s.finalbody else []))
        if isinstance(s, ast.Delete):
            out = []
            for t in s.targets:
                if isinstance(t, ast.Subscript):
                    root = self.root_name(t)
                    if isinstance(root, ast.Name) and root.id in self.kw and t.value is root:
                        k = self.const_key(t.slice)
                        if k is None:
                            raise Unknown("del kwargs[<non-constant>]")
                        self.kw[root.id].pop(k, None)
                        # a deleted declared parameter is no longer visible to the callee
                        self.kw[root.id][k] = ("fresh",)
                    else:
                        out.append(self.mutate_target(t))
                elif isinstance(t, ast.Name):
                    pass
                else:
                    raise Unknown("del %s" % type(t).__name__)
            return seq(self.flush() + out)
        if isinstance(s, (ast.FunctionDef, ast.ClassDef)):
            raise Unknown("nested definition")
        raise Unknown("statement %s" % type(s).__name__)

    @staticmethod
    def terminates(stmts):
        if not stmts:
            return False
        last = stmts[-1]
        if isinstance(last, (ast.Return, ast.Raise)):
            return True
        if isinstance(last, ast.If):
            return Translator.terminates(last.body) and Translator.terminates(last.orelse)
        return False

    @staticmethod
    def raises(stmts):
        return bool(stmts) and isinstance(stmts[-1], ast.Raise)

    def block(self, stmts):
        out = []
        stmts = list(stmts)
        for i, s in enumerate(stmts):
            rest = stmts[i + 1:]
            if isinstance(s, (ast.Return, ast.Raise)):
                out.append(self.stmt(s))
                break                                   # what follows is unreachable
            if isinstance(s, ast.If) and self.raises(s.body) and not self.raises(s.orelse):
                # `if c: ...; raise X`: the body is abandoned there; whatever the branch did before raising is kept
                # (as if it had run and control went on), and only the other branch continues
                self.ev(s.test)
                out += self.flush()
                out.append(self.block(s.body))
                out.append(self.block(list(s.orelse) + rest))
                break
            if isinstance(s, ast.If) and self.raises(s.orelse) and not self.raises(s.body):
                self.ev(s.test)
                out += self.flush()
                out.append(self.block(s.orelse))
                out.append(self.block(list(s.body) + rest))
                break
            if isinstance(s, ast.If) and rest and (self.terminates(s.body) or self.terminates(s.orelse)):
                tb, te = self.terminates(s.body), self.terminates(s.orelse)
                if tb and te:
                    out.append(self.stmt(s))
                elif tb:                                # the rest runs only when the test is false
                    out.append(self.stmt(ast.If(test=s.test, body=s.body, orelse=list(s.orelse) + rest)))
                else:
                    out.append(self.stmt(ast.If(test=s.test, body=list(s.body) + rest, orelse=s.orelse)))
                break
            out.append(self.stmt(s))
        return seq(out)


def param_kind(node):
    """(kind, fz) of an inputs-dict value `params.X(...)`"""
    txt = ast.unparse(node)
    fzflag = False
    kind = "param"
    if isinstance(node, ast.Call):
        name = node.func.attr if isinstance(node.func, ast.Attribute) else getattr(node.func, "id", "")
        if name == "ResultParameter":
            kind = "result"
            for k in node.keywords:
                if k.arg == "is_fuzzy" and isinstance(k.value, ast.Constant) and k.value.value is True:
                    fzflag = True
        elif name == "ListParameter":
            inner = node.args[0] if node.args else None
            ik, ifz = param_kind(inner) if inner is not None else ("param", False)
            if ik in ("result", "results"):
                kind, fzflag = "results", ifz
            else:
                kind = "paramlist"
    return kind, fzflag


def generate(snap):
    base = os.path.join(snap, "mpilot")
    files = ["libraries/eems/basic.py", "libraries/eems/fuzzy.py", "libraries/eems/csv/io.py", "libraries/eems/netcdf/io.py"]
    helper_files = ["utils.py", "libraries/eems/mixins.py", "commands.py"]
    classes, helpers, order = {}, {}, []
    from gen_cellfacts import _consts
    for rel in helper_files + files:
        with open(os.path.join(base, rel)) as fh:
            tree = ast.parse(fh.read())
        consts = _consts(tree)
        for node in tree.body:
            if isinstance(node, ast.ClassDef):
                key = node.name if node.name not in classes else "%s@%s" % (node.name, rel)
                classes[key] = (node, consts)
                if rel in files:
                    order.append((rel, key))
            elif isinstance(node, ast.FunctionDef) and rel in helper_files and node.name not in ("insure_fuzzy",):
                helpers[node.name] = node
    rows, names = [], []
    for rel, key in order:
        node = classes[key][0]
        ex = [s for s in node.body if isinstance(s, ast.FunctionDef) and s.name == "execute"]
        if not ex:
            continue
        # declared inputs of the class (own dict; a subclass re-declares its inputs in this code base)
        inputs = []
        for st in node.body:
            if isinstance(st, ast.Assign) and any(isinstance(t, ast.Name) and t.id == "inputs" for t in st.targets) \
                    and isinstance(st.value, ast.Dict):
                for k, v in zip(st.value.keys, st.value.values):
                    kind, fzflag = param_kind(v)
                    inputs.append((k.value, fzflag, kind))
        label = "%s:%s" % (rel.split("/")[-2] if rel.endswith("io.py") else rel.split("/")[-1][:-3], node.name)
        b = Body(label, inputs)
        tr = Translator(b, classes, helpers, key)
        kwname = ex[0].args.kwarg.arg if ex[0].args.kwarg else "kwargs"
        tr.kw = {kwname: {}}
        body = tr.block(ex[0].body)
        ret = b.var("$result")
        body = "(SSeq (SBind %s RFresh) %s)" % (cnat(ret), body.replace("$RET$", cnat(ret)))
        rows.append("(%s, %s, %s,\n   %s)" % (cstr(label), clist([cbool(f) for (_, f, _) in inputs]), cnat(ret), body))
        names.append((label, [n for (n, _, _) in inputs]))
    out = ["(* GENERATED by drivers/gen_effects.py from the /repo snapshot -- do not edit *)",
           "From Coq Require Import String List.", "From MP Require Import Model.Effects.", "Import ListNotations.",
           "Open Scope string_scope.", "",
           "(* (label, is_fuzzy flag of each declared input, variable holding the returned object, body) for every execute() *)",
           "Definition execute_bodies4 : list (string * list bool * nat * stmt) := %s." % clist(rows, ";\n  "),
           "Definition execute_bodies : list (string * list bool * stmt) := map (fun b => (fst (fst (fst b)), snd (fst (fst b)), snd b)) execute_bodies4.",
           "Definition input_names : list (string * list string) := %s." % clist(["(%s, %s)" % (cstr(l), clist([cstr(n) for n in ns])) for l, ns in names], ";\n  ")]
    return "\n".join(out) + "\n"
