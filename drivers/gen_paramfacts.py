"""GenParamFacts.v: what the cleaners of mpilot/params.py do with exceptions and kinds -- exception classes that end as
ParameterNotValid, kind guards -- observed on the live classes of the snapshot with probe objects (fail-closed: an unexpected
outcome yields `nothing is caught' / `no guard').  (An earlier version read the same facts off the AST; a harmless rewrite
of a cleaner -- a named tuple of types, a loop over converters -- made it blind.)"""
import ast
import os

from coqfmt import cstr, clist, cbool


def _exc_names(h):
    if h.type is None:
        return ["BaseException"]
    if isinstance(h.type, ast.Name):
        return [h.type.id]
    if isinstance(h.type, ast.Tuple):
        return [e.id for e in h.type.elts if isinstance(e, ast.Name)]
    return []


def _method(tree, cls, name):
    for node in tree.body:
        if isinstance(node, ast.ClassDef) and node.name == cls:
            for st in node.body:
                if isinstance(st, ast.FunctionDef) and st.name == name:
                    return st
    return None


def _raises_pnv(stmts):
    return any(isinstance(s, ast.Raise) and isinstance(s.exc, ast.Call) and getattr(s.exc.func, "id", "") == "ParameterNotValid" for s in stmts)


def _isinstance_guard(fn, negated):
    """type names of a leading `if [not] isinstance(value, (...)): raise ParameterNotValid`"""
    for st in fn.body:
        if isinstance(st, ast.If) and _raises_pnv(st.body):
            t = st.test
            neg = False
            if isinstance(t, ast.UnaryOp) and isinstance(t.op, ast.Not):
                t, neg = t.operand, True
            if neg == negated and isinstance(t, ast.Call) and getattr(t.func, "id", "") == "isinstance" and len(t.args) == 2 \
                    and isinstance(t.args[0], ast.Name) and t.args[0].id == "value":
                ty = t.args[1]
                elts = ty.elts if isinstance(ty, ast.Tuple) else [ty]
                return [ast.unparse(e) for e in elts]
    return []


CANDIDATES = ["ValueError", "TypeError", "OverflowError", "KeyError", "AttributeError", "IndexError", "ZeroDivisionError", "RuntimeError"]


def _probe_facts():
    """The same facts read off the BEHAVIOUR of the live cleaners (the snapshot is what is imported): which exception classes
    raised by int(value) / float(value) / the data-type look-up end as ParameterNotValid, which Python types the String cleaner
    rejects, whether the Path cleaner rejects non-text.  Robust against rewrites of the cleaners that keep their behaviour;
    fail-closed: an unexpected outcome of a probe counts as `not caught' / `no guard'."""
    import builtins
    import numpy
    from mpilot import params as P
    from mpilot.exceptions import ParameterNotValid

    def outcome(fn):
        try:
            return ("ok", fn())
        except ParameterNotValid:
            return ("pnv", None)
        except BaseException as ex:          # noqa: B902 -- the class of whatever escapes is the observation
            return ("escape", type(ex).__name__)

    def raiser(name):
        exc = getattr(builtins, name)

        def f(self, *a):
            raise exc("probe")
        return f

    c_int, c_float, d_catch = [], [], []
    for name in CANDIDATES:
        cls = type("IntProbe", (object,), {"__int__": raiser(name), "__float__": lambda self: 1.5})
        if outcome(lambda: P.NumberParameter().clean(cls()))[0] in ("ok", "pnv"):
            c_int.append(name)
    for name in CANDIDATES:
        if not c_int:
            break
        cls = type("FloatProbe", (object,), {"__int__": raiser(c_int[0]), "__float__": raiser(name)})
        if outcome(lambda: P.NumberParameter().clean(cls()))[0] == "pnv":
            c_float.append(name)
    for name in CANDIDATES:
        cls = type("HashProbe", (object,), {"__hash__": raiser(name), "__eq__": lambda self, other: False})
        if outcome(lambda: P.DataTypeParameter().clean(cls()))[0] == "pnv":
            d_catch.append(name)
    eq_cls = type("EqProbe", (object,), {"__eq__": raiser("TypeError"), "__hash__": lambda self: 1})
    d_guarded = outcome(lambda: P.DataTypeParameter().clean(eq_cls()))[0] == "pnv" and \
        outcome(lambda: P.DataTypeParameter().clean(numpy.array([1.0, 2.0])))[0] == "pnv"
    samples = [("int", 1), ("float", 1.5), ("bool", True), ("str", "x"), ("list", [1]), ("dict", {"a": 1}), ("type", float),
               ("ndarray", numpy.array([1.0])), ("NoneType", None), ("tuple", (1,))]
    try:
        from mpilot.commands import Command
        probe_cmd = type("ProbeCommand", (Command,), {"inputs": {}, "output": None, "execute": lambda self, **kw: None})
        samples.append(("Command", probe_cmd("probe", [], program=None, lineno=1)))
    except BaseException:                     # noqa: B902
        pass
    s_rej = [name for name, v in samples if outcome(lambda: P.StringParameter().clean(v))[0] == "pnv"]
    p_guard = outcome(lambda: P.PathParameter().clean(5, None))[0] == "pnv" and outcome(lambda: P.PathParameter().clean([1], None))[0] == "pnv"
    return c_int, c_float, d_catch, d_guarded, s_rej, p_guard


def generate(snap):
    c_int, c_float, d_catch, d_guarded, s_rej, p_guard = _probe_facts()
    out = ["(* GENERATED by drivers/gen_paramfacts.py from the /repo snapshot -- do not edit *)",
           "From Coq Require Import String List Bool.", "From MP Require Import Model.Params.", "Import ListNotations.",
           "Open Scope string_scope.", "",
           "Definition param_facts : pfacts := {|",
           "  number_catch_int := %s;" % clist([cstr(x) for x in c_int]),
           "  number_catch_float := %s;" % clist([cstr(x) for x in c_float]),
           "  datatype_catch := %s;" % clist([cstr(x) for x in d_catch]),
           "  datatype_membership_guarded := %s;" % cbool(d_guarded),
           "  string_rejects := %s;" % clist([cstr(x) for x in s_rej]),
           "  path_requires_text := %s |}." % cbool(p_guard)]
    return "\n".join(out) + "\n"
