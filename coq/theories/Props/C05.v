(* C05 -- results keep the input shape; cells are computed independently. *)
From Coq Require Import QArith List Bool Permutation.
From MP Require Import Model.Cells Proofs.CellProofs Proofs.CellPerm.
Import ListNotations.
Open Scope Q_scope.

(* every data command, any number of dimensions: the result has exactly the shape of its (first) input and one
   cell per input cell *)
Theorem C05_shape : forall c ins r, run c ins = ROk r ->
  a_shape r = first_shape ins /\ length (a_cells r) = ncells (map a_cells ins).
Proof. intros c ins r H. split; [apply (run_ok c ins r) in H; tauto | eapply run_ncells; exact H]. Qed.

(* Rearranging the cells of all inputs in the same way -- any permutation p of the n cell positions combined with
   any new shape sh (p = identity: a pure reshape of a vector into a grid) -- rearranges the result identically:
   same element type, the new shape, the same cells at the permuted positions.  All 31 commands, whole-array
   statistics (min, max, mean, means below/above the mean, zero-filtering) included. *)
Theorem C05_rearrange : forall c ins p sh n r,
  Permutation p (seq 0 n) -> Forall (fun a => length (a_cells a) = n) ins ->
  run c ins = ROk r ->
  run c (map (rearr p sh) ins) = ROk {| a_dt := a_dt r; a_shape := sh; a_cells := permute None p (a_cells r) |}.
Proof. exact run_rearr. Qed.

Corollary C05_reshape : forall c ins sh n r,
  Forall (fun a => length (a_cells a) = n) ins -> run c ins = ROk r ->
  run c (map (rearr (seq 0 n) sh) ins) = ROk {| a_dt := a_dt r; a_shape := sh; a_cells := permute None (seq 0 n) (a_cells r) |}.
Proof. intros c ins sh n r Hn H. eapply run_rearr; eauto. Qed.

(* non-vacuity: a data-dependent command on a 2x3 grid with a missing cell, cells reversed and viewed as 3x2 *)
Example C05_example :
  let a := {| a_dt := DFloat; a_shape := [2%nat; 3%nat]; a_cells := [Some (1#1); None; Some (4#1); Some (2#1); Some (7#1); Some (0#1)] |} in
  let p := [5; 4; 3; 2; 1; 0]%nat in
  Permutation p (seq 0 6) /\ Forall (fun x => length (a_cells x) = 6%nat) [a] /\
  run (NormalizeMeanToMid false [0; 1#4; 1#2; 3#4; 1]) [a]
    = ROk {| a_dt := DFloat; a_shape := [2%nat; 3%nat]; a_cells := [Some (1#4); None; Some (11#18); Some (7#18); Some 1; Some 0] |} /\
  run (NormalizeMeanToMid false [0; 1#4; 1#2; 3#4; 1]) [rearr p [3%nat; 2%nat] a]
    = ROk {| a_dt := DFloat; a_shape := [3%nat; 2%nat]; a_cells := [Some 0; Some 1; Some (7#18); Some (11#18); None; Some (1#4)] |}.
Proof. split; [|split; [|split]].
  - change (Permutation (rev (seq 0 6)) (seq 0 6)). apply Permutation_sym, Permutation_rev.
  - repeat constructor.
  - vm_compute. reflexivity.
  - vm_compute. reflexivity. Qed.

Print Assumptions C05_shape.
Print Assumptions C05_rearrange.
Print Assumptions C05_reshape.
