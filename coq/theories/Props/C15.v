(* C15 -- serialising a program and loading it back gives the same program.  (partial: see the end of the file) *)
From Coq Require Import NArith ZArith List Bool String.
From MP Require Import Model.Lexer Model.Parser Model.Serial Proofs.SerialProofs Props.C10.
Import ListNotations.
Open Scope N_scope.

(* strings: for EVERY string -- quotes, backslashes, delimiters, line breaks, tabs, any code point -- the text the
   serialiser writes is taken whole by the lexer as one STRING token, whatever follows it, and decodes to the string *)
Theorem C15_quoted_string_is_one_token : forall s rest, lex1 (quote s ++ rest) = ([], LTok KSTRING (quote s) rest).
Proof. exact lex1_takes_quoted. Qed.
Theorem C15_string_roundtrip : forall s, string_value (quote s) = DOk s.
Proof. exact string_roundtrip. Qed.
(* integers: for EVERY integer, of any magnitude and sign, the digits written are taken whole by the lexer as one INT token
   when no digit and no dot follows (the serialiser follows a value by a comma, a bracket or a line feed) and read back
   as that integer *)
Theorem C15_integer_is_one_token : forall z rest, stops_int rest = true -> lex1 (int_text z ++ rest) = ([], LTok KINT (int_text z) rest).
Proof. exact lexer_takes_int. Qed.
Theorem C15_integer_roundtrip : forall z, int_of_lexeme (int_text z) = z.
Proof. exact int_roundtrip. Qed.

(* non-vacuity: a program with every kind of value goes through the serialiser model and the parser model and comes back *)
Definition ex_prog : list scmd :=
  [ {| sc_result := rx "A"; sc_name := rx "EEMSRead";
       sc_args := [(rx "InFileName", SAVal false (SVStr (rx "C:\temp\new.csv"))); (rx "MissingVal", SAVal false (SVInt (-9999)%Z))] |};
    {| sc_result := rx "S"; sc_name := rx "WeightedSum";
       sc_args := [(rx "InFieldNames", SAVal true (SVList [SVStr (rx "A"); SVCmd (rx "B")]));
                   (rx "Weights", SAVal false (SVList [SVFloat (rx "1e-05"); SVInt 1099511627776%Z]));
                   (rx "Metadata", SADict [(rx "k 1", rx "say ""hi"", it's # [x]: y")])] |} ].
Example C15_example :
  match parse (fun _ => None) (ser_program ex_prog) with
  | POk {| pp_cmds := [ {| pc_result := Some r1; pc_args := [a1; a2] |}; {| pc_result := Some r2; pc_args := [b1; b2; b3] |} ] |} =>
      r1 = rx "A" /\ r2 = rx "S" /\
      (match pa_value a1 with PE v _ => v end) = PStr (rx "C:\temp\new.csv") /\ (match pa_value a2 with PE v _ => v end) = PInt (-9999)%Z /\
      (match pa_value b2 with PE (PList [PE f _; PE i _]) _ => f = PFloat (rx "1.0e-05") /\ i = PInt 1099511627776%Z | _ => False end) /\
      (match pa_value b3 with PE (PDict [(k, PE v _)]) _ => k = rx "k 1" /\ v = PStr (rx "say ""hi"", it's # [x]: y") | _ => False end)
  | _ => False
  end.
Proof. vm_compute. repeat split; reflexivity. Qed.

(* NOT proved: that for every abstract program p the composition parse (ser_program p) gives p back as a whole -- it needs
   the completeness of the LALR automaton on the serialiser's output (see C10) -- and anything about float texts (repr() and
   float() are oracles).  The whole composition -- to_string, from_source, cleaning, running -- is covered by the
   correspondence: ser_program is compared with the real to_string, the parser model with the real parser on that text, and
   the oracle compares structure, cleaned values and results of the program and of the reloaded program. *)
Print Assumptions C15_quoted_string_is_one_token.
Print Assumptions C15_string_roundtrip.
Print Assumptions C15_integer_is_one_token.
Print Assumptions C15_integer_roundtrip.
