(* C15 -- serialising a program and loading it back gives the same program.  (partial only in what is stated at the end) *)
From Coq Require Import NArith ZArith List Bool String.
From MP Require Import Model.Lexer Gen.GenGrammar Model.Parser Model.Serial Proofs.SerialProofs Proofs.LrComplete Proofs.LexSerial Props.C10.
Import ListNotations.
Close Scope string_scope.
Open Scope N_scope.

(* strings: for EVERY string -- quotes, backslashes, delimiters, line breaks, tabs, any code point -- the text the
   serialiser writes is taken whole by the lexer as one STRING token, whatever follows it, and decodes to the string *)
Theorem C15_quoted_string_is_one_token : forall s rest, lex1 (quote s ++ rest) = ([], LTok KSTRING (quote s) rest).
Proof. exact lex1_takes_quoted. Qed.
Theorem C15_string_roundtrip : forall s, string_value (quote s) = DOk s.
Proof. exact string_roundtrip. Qed.
(* integers: for EVERY integer, of any magnitude and sign, the digits written are taken whole by the lexer as one INT token
   when no digit and no dot follows (the serialiser follows a value by a comma, a bracket or a line feed) and read back
   as that integer *)
Theorem C15_integer_is_one_token : forall z rest, stops_int rest = true -> lex1 (int_text z ++ rest) = ([], LTok KINT (int_text z) rest).
Proof. exact lexer_takes_int. Qed.
Theorem C15_integer_roundtrip : forall z, int_of_lexeme (int_text z) = z.
Proof. exact int_roundtrip. Qed.

(* THE WHOLE ROUND TRIP at the level of the parsed program.  For EVERY non-empty program p -- any number of commands and
   arguments, strings of any content, integers of any size, float texts of FLOAT shape, booleans, references, lists nested
   to any depth, metadata dictionaries of any size -- whose names are identifiers (wfc: result, command and argument names;
   text written unquoted: references, strings under a Result parameter, str() of other objects), the text the serialiser
   model writes is split by the lexer model into exactly the tokens of p, the LR driver over the tables PLY generated for
   the grammar of the snapshot accepts them, and the semantic actions return a version-3 program with the same commands in
   the same order, the same result names, command names, argument names in order and the same values (lines erased).
   Whatever the float oracle fs is. *)
Theorem C15_serialise_parse : forall fs p, p <> [] -> forallb wfc p = true ->
  exists pp, parse fs (ser_program p) = POk pp /\ pp_version pp = 3 /\ Forall2 cmd_matches p (pp_cmds pp).
Proof. exact serialise_parse. Qed.
(* its three stages, each for every program: the lexer on the text ... *)
Theorem C15_text_is_the_tokens : forall p, forallb wfc p = true -> lexes (ser_program p) (tk_program p).
Proof. exact prog_lexes. Qed.
(* ... the LALR automaton and the semantic actions on those tokens, whatever lines and positions they carry ... *)
Theorem C15_parser_accepts_the_tokens : forall L P fs p, p <> [] ->
  exists T pp, lr (deco L P 0 (tk_program p)) = Some T /\ eval fs T = SOk (SProg pp) /\ pp_version pp = 3 /\ Forall2 cmd_matches p (pp_cmds pp).
Proof. exact lr_complete. Qed.
(* ... and what a metadata dictionary with distinct keys comes back as: its pairs, in the reverse of the written order (the
   grammar action builds it from the right; dictionaries compare equal whatever their order) *)
Theorem C15_metadata : forall kv, NoDup (map fst kv) -> dexp kv = rev (map pexp kv).
Proof. exact dexp_nodup. Qed.

(* non-vacuity: a program with every kind of value goes through the serialiser model and the parser model and comes back *)
Definition ex_prog : list scmd :=
  [ {| sc_result := rx "A"; sc_name := rx "EEMSRead";
       sc_args := [(rx "InFileName", SAVal false (SVStr (rx "C:\temp\new.csv"))); (rx "MissingVal", SAVal false (SVInt (-9999)%Z))] |};
    {| sc_result := rx "S"; sc_name := rx "WeightedSum";
       sc_args := [(rx "InFieldNames", SAVal true (SVList [SVStr (rx "A"); SVCmd (rx "B")]));
                   (rx "Weights", SAVal false (SVList [SVFloat (rx "1e-05"); SVInt 1099511627776%Z]));
                   (rx "Metadata", SADict [(rx "k 1", rx "say ""hi"", it's # [x]: y")])] |} ].
Example C15_example :
  match parse (fun _ => None) (ser_program ex_prog) with
  | POk {| pp_cmds := [ {| pc_result := Some r1; pc_args := [a1; a2] |}; {| pc_result := Some r2; pc_args := [b1; b2; b3] |} ] |} =>
      r1 = rx "A" /\ r2 = rx "S" /\
      (match pa_value a1 with PE v _ => v end) = PStr (rx "C:\temp\new.csv") /\ (match pa_value a2 with PE v _ => v end) = PInt (-9999)%Z /\
      (match pa_value b2 with PE (PList [PE f _; PE i _]) _ => f = PFloat (rx "1.0e-05") /\ i = PInt 1099511627776%Z | _ => False end) /\
      (match pa_value b3 with PE (PDict [(k, PE v _)]) _ => k = rx "k 1" /\ v = PStr (rx "say ""hi"", it's # [x]: y") | _ => False end)
  | _ => False
  end.
Proof. vm_compute. repeat split; reflexivity. Qed.
Example C15_example_is_well_formed : ex_prog <> [] /\ forallb wfc ex_prog = true.
Proof. split; [discriminate | vm_compute; reflexivity]. Qed.

(* NOT proved: anything about the float texts beyond their shape (repr() and float() are oracles: the value read back is
   compared bit for bit by the correspondence only); what happens AFTER parsing -- cleaning the values against the
   declared parameters (C20) and running both programs (C01/C02) -- is composed from those properties' theorems only
   informally; programs with names that are not identifiers are outside wfc (the loader produces none; add_command accepts
   any result name: the correspondence generates identifiers).  ser_program is tied to the real to_string character for
   character, the parser model to the real parser on that text, and the oracle compares structure, cleaned values and
   results of the program and of the reloaded program. *)
Print Assumptions C15_quoted_string_is_one_token.
Print Assumptions C15_string_roundtrip.
Print Assumptions C15_integer_is_one_token.
Print Assumptions C15_integer_roundtrip.
Print Assumptions C15_serialise_parse.
Print Assumptions C15_parser_accepts_the_tokens.
Print Assumptions C15_metadata.
