(* C17 -- CSV reading and writing are faithful.  (partial: Python's csv module and float <-> text are oracles) *)
From Coq Require Import String List Bool ZArith QArith Arith.
From MP Require Import Base.Sig Model.Params Model.Csv Proofs.CsvProofs.
Import ListNotations.
Open Scope string_scope.
Open Scope nat_scope.

(* reading returns the numeric values of the chosen column in row order, blank lines skipped, one cell per data row *)
Theorem C17_read_values : forall idx rows vs, column idx rows 0 = inl vs ->
  map Some vs = map (fun r => match nth_error r idx with Some c => c_float c | None => None end) (filter nonblank rows) /\
  length vs = length (filter nonblank rows).
Proof. intros. split; [eapply column_values | eapply column_length]; eauto. Qed.
(* ... unaffected by other columns: tables that agree on the chosen column and on which lines are blank read alike *)
Theorem C17_other_columns_irrelevant : forall idx rows rows',
  Forall2 (fun r r' => nonblank r = nonblank r' /\ nth_error r idx = nth_error r' idx) rows rows' ->
  column idx rows 0 = column idx rows' 0.
Proof. intros. apply column_only. assumption. Qed.
(* ... with exactly the cells equal to the declared missing value marked missing (float columns; for integer columns
   the comparison is between the truncated value and the truncated marker) *)
Theorem C17_missing_exact : forall missing vs cs k v, convert_all TFloat missing vs = Some cs -> nth_error vs k = Some v ->
  nth_error cs k = Some (match missing with Some m => if feq v m then OMissing else OFloat v | None => OFloat v end).
Proof. intros missing vs cs k v H N. destruct (convert_all_nth _ _ _ _ _ _ H N) as [c [Nc Cc]]. rewrite Nc. f_equal.
  rewrite convert_float_mask in Cc. inversion Cc. reflexivity. Qed.
Theorem C17_element_type : forall t missing vs cs, convert_all t missing vs = Some cs ->
  length cs = length vs /\ Forall (fun c => match t, c with TFloat, OInt _ | TInt, OFloat _ => False | _, _ => True end) cs.
Proof. intros t missing vs cs H. split; [eapply convert_all_length; eauto|]. revert cs H. induction vs as [|v r IH]; simpl; intros cs H; [inversion H; constructor|].
  destruct (convert t missing v) as [c|] eqn:C; [|discriminate]. destruct (convert_all t missing r) as [cs'|]; [|discriminate]. inversion H; subst.
  constructor; [|apply IH; reflexivity]. destruct t; simpl in C.
  - inversion C. destruct missing; [destruct (feq v f)|]; exact I.
  - destruct v; try discriminate. inversion C. destruct missing as [[m| | |]|]; try exact I. destruct (Z.eqb _ _); exact I. Qed.
(* a missing header or a non-numeric cell is reported; the latter with its file line (header = line 1) *)
Theorem C17_errors : forall rows field missing t,
  (rows = [] -> read rows field missing t = Some (RErr CEmptyDataFile)) /\
  (forall hdr rest, rows = hdr :: rest -> index_of_text field hdr 0 = None -> read rows field missing t = Some (RErr CNoHeader)) /\
  (forall idx rest l, column idx rest 0 = inr (CBadValue l) ->
     exists k r c, nth_error rest k = Some r /\ l = k + 2 /\ nth_error r idx = Some c /\ c_float c = None /\
       forall j r', j < k -> nth_error rest j = Some r' -> r' = [] \/ exists c', nth_error r' idx = Some c' /\ c_float c' <> None).
Proof. intros. split; [intros ->; reflexivity|]. split.
  - intros hdr rest -> H. simpl. rewrite H. reflexivity.
  - intros idx rest l H. destruct (column_bad_line idx rest 0 l H) as (k & r & c & A & B & C & D & E). exists k, r, c. repeat split; auto. Qed.

(* writing: a header of the result names in the listed order, then one row per cell, each holding the text of the value *)
Theorem C17_write : forall names cols n, match cols with c :: _ => length c | [] => 0 end = n ->
  exists rows, write names cols = names :: rows /\ length rows = n /\
    forall k, k < n -> nth_error rows k = Some (map (fun c => match nth_error c k with Some w => cell_text w | None => "" end) cols).
Proof. intros names cols n H. exists (transpose_cols n cols). unfold write. rewrite H. split; [reflexivity|]. split; [apply transpose_length|].
  intros k Hk. apply transpose_nth. exact Hk. Qed.

(* round trip, for any reader-side float parser that inverts the writer-side str() on the values of the column (H_repr):
   a written column without missing cells reads back as exactly the values written, whatever the other columns hold *)
Theorem C17_roundtrip_partial : forall parse names cols j name col,
  nth_error names j = Some name -> index_of_text name (as_cells parse names) 0 = Some j ->
  nth_error cols j = Some col -> (match cols with c :: _ => length c | [] => 0 end) = length col -> repr_ok parse col ->
  exists vs, read (map (as_cells parse) (write names cols)) name None TFloat = Some (ROk (map OFloat vs)) /\
             map Some vs = map value_of col.
Proof. intros parse names cols j name col Nn Ix Nc Len Hr.
  assert (Ne : cols <> []) by (intros ->; destruct j; discriminate).
  destruct (column_of_written parse cols j col (length col) Nc Ne (le_n _) Hr) as [vs [C V]].
  exists vs. unfold write, read. rewrite Len. cbn [map]. rewrite Ix, C. rewrite firstn_all in V. split; [|exact V].
  assert (K : convert_all TFloat None vs = Some (map OFloat vs)) by (clear; induction vs; simpl; [reflexivity | rewrite IHvs; reflexivity]).
  rewrite K. reflexivity. Qed.

(* the full round trip is FALSE of the code as it stands: a missing cell is written as numpy's "--", which no reader accepts
   as a number, so the written column cannot be read back at all (recorded known finding C17:missing-written-as-dashes) *)
Theorem C17_roundtrip_refuted : exists parse names cols,
  (forall s, s = "--" -> parse s = None) /\
  read (map (as_cells parse) (write names cols)) "a" None TFloat = Some (RErr (CBadValue 3)).
Proof. exists (fun s => if String.eqb s "1.5" then Some (FFin (3#2)) else None), ["a"],
  [[ {| w_cell := OFloat (FFin (3#2)); w_text := "1.5" |}; {| w_cell := OMissing; w_text := "" |} ]].
  split; [intros s ->; reflexivity | vm_compute; reflexivity]. Qed.

(* non-vacuity: blank line, second of two columns, missing marker, a bad cell *)
Example C17_example :
  let c t f := {| c_text := t; c_float := f |} in
  let rows := [[c "x" None; c "y" None]; [c "1" (Some (FFin 1)); c "2.5" (Some (FFin (5#2)))]; [];
               [c "3" (Some (FFin 3)); c "-9999" (Some (FFin (-9999#1)))]; [c "4" (Some (FFin 4)); c "-0.0" (Some (FFin 0))]] in
  read rows "y" (Some (FFin (-9999#1))) TFloat = Some (ROk [OFloat (FFin (5#2)); OMissing; OFloat (FFin 0)]) /\
  read rows "y" (Some (FFin 0)) TInt = Some (ROk [OInt 2; OInt (-9999); OMissing]) /\
  read (rows ++ [[c "5" (Some (FFin 5)); c "n/a" None]])%list "y" None TFloat = Some (RErr (CBadValue 6)) /\
  read rows "z" None TFloat = Some (RErr CNoHeader).
Proof. vm_compute. repeat split; reflexivity. Qed.

Print Assumptions C17_read_values.
Print Assumptions C17_other_columns_irrelevant.
Print Assumptions C17_missing_exact.
Print Assumptions C17_element_type.
Print Assumptions C17_errors.
Print Assumptions C17_write.
Print Assumptions C17_roundtrip_partial.
Print Assumptions C17_roundtrip_refuted.
