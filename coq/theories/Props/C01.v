(* C01 -- every command executes exactly once, fed by its finished dependencies. *)
From Coq Require Import List Arith Bool.
From MP Require Import Model.Sched Model.SchedFail Proofs.SchedProofs Proofs.SchedTop Proofs.SchedResume Proofs.SchedFailProofs.
Import ListNotations.

(* For EVERY command semantics F, every program P that passes the pre-pass of Program.run (unique result
   names, references resolve, no reference loop) -- any size, fan-in/fan-out, references through direct
   parameters or (nested, flattened) lists, in any file order (P is the file order):
   run() succeeds; every command is entered and left exactly once and nothing else is executed; every
   command is finished and its result is F applied to the memoised results of the commands it references. *)
Theorem C01_exactly_once : forall (V : Type) (F : cmd -> list V -> V) P fuel,
  accepted P -> length P < fuel ->
  exists s, run_program F fuel P (init V) = Ok s /\
    (forall n, In n (names P) -> fin s n = true /\ count_ev (Enter n) (trace s) = 1 /\ count_ev (Exit n) (trace s) = 1) /\
    (forall n, ~ In n (names P) -> count_ev (Enter n) (trace s) = 0 /\ count_ev (Exit n) (trace s) = 0) /\
    solves V F P (get s).
Proof. exact run_ok. Qed.

(* every acyclic program (a rank function exists) passes the cycle check: the quantifier of C01 is met *)
Theorem C01_acyclic_accepted : forall P rank, wf_dag P rank -> find_cycle P = None.
Proof. exact acyclic_accepted. Qed.

(* any sequence of further run() calls and result reads, of any length, changes neither trace nor memo *)
Theorem C01_history : forall (V : Type) (F : cmd -> list V -> V) P fuel s,
  accepted P -> length P < fuel -> run_program F fuel P (init V) = Ok s ->
  forall ops, fold_left (apply_op F fuel P) ops s = s.
Proof. exact history_inert. Qed.

(* non-vacuity: a diamond whose shared node is referenced once directly and once through a list *)
Example C01_example :
  let P := [ {| nm := 3; rl := [(true, 1); (false, 2)] |}; {| nm := 1; rl := [(true, 0)] |};
             {| nm := 2; rl := [(false, 0); (false, 0)] |}; {| nm := 0; rl := [] |} ] in
  first_missing P P = None /\ find_cycle P = None /\
  match run_program (fun c vs => nm c :: concat vs) 6 P (init (list nat)) with
  | Ok s => trace s = [Enter 3; Enter 1; Enter 0; Exit 0; Exit 1; Enter 2; Exit 2; Exit 3]
  | _ => False end.
Proof. vm_compute. repeat split; reflexivity. Qed.

(* Resuming.  Program.run started from ANY consistent partial state -- a memo whose entries belong to commands of the program, each
   the command's semantics applied to the memoised results of what it references: what result reads before the first run, a run
   that failed inside some execute() (a failing execute memoises nothing), or an interrupted run leave behind; the trace recorded
   so far is arbitrary and may hold the Enter of an aborted execution -- succeeds, appends exactly one Enter and one Exit for every
   command that was not finished and nothing for the finished ones, keeps every memoised result, and ends in the solution of the
   equations.  C01_exactly_once is the case of the empty state, C01_history the case of the complete one. *)
Theorem C01_resume : forall (V : Type) (F : cmd -> list V -> V) P fuel (s0 : st V),
  accepted P -> length P < fuel -> consistent F P s0 ->
  exists suffix s, run_program F fuel P s0 = Ok s /\ trace s = trace s0 ++ suffix /\ extends s0 s /\
    (forall n, In n (names P) -> fin s n = true /\
       count_ev (Enter n) suffix = (if fin s0 n then 0 else 1) /\ count_ev (Exit n) suffix = (if fin s0 n then 0 else 1)) /\
    (forall n, ~ In n (names P) -> count_ev (Enter n) suffix = 0 /\ count_ev (Exit n) suffix = 0) /\
    solves V F P (get s).
Proof. exact run_resume. Qed.
(* ... and a run in which some execute() fails -- whichever, whenever: Fo is ANY partial semantics that agrees with F where it is
   defined -- leaves such a consistent partial state behind, extending the one it started from (Model/SchedFail.v: the failing
   command memoises nothing and the exception unwinds through every command that was waiting for it).  So by C01_resume the
   next run(), with the cause repaired, executes exactly what had not finished. *)
Theorem C01_failed_run_leaves_a_consistent_state : forall (V : Type) (F : cmd -> list V -> V) (Fo : cmd -> list V -> option V),
  (forall c vs v, Fo c vs = Some v -> v = F c vs) ->
  forall P fuel (s0 : st V), accepted P -> length P < fuel -> consistent F P s0 ->
  match run_programf Fo fuel P (memo s0) with
  | FOk m' | FFailed m' _ => forall t, consistent F P {| memo := m'; trace := t |} /\
                                      (forall n w, assoc (memo s0) n = Some w -> assoc m' n = Some w)
  | FOther => False
  end.
Proof. exact failed_run_consistent. Qed.
(* Put together, from a fresh program: a first run in which something fails, then -- the cause repaired -- a second run; the second
   run executes exactly the commands the first one had not finished and ends with every result as if nothing had failed. *)
Theorem C01_fail_then_retry : forall (V : Type) (F : cmd -> list V -> V) (Fo : cmd -> list V -> option V),
  (forall c vs v, Fo c vs = Some v -> v = F c vs) ->
  forall P fuel m' k, accepted P -> length P < fuel -> run_programf Fo fuel P [] = FFailed m' k ->
  forall t, exists suffix s, run_program F fuel P {| memo := m'; trace := t |} = Ok s /\ trace s = t ++ suffix /\
    (forall n w, assoc m' n = Some w -> get s n = Some w) /\
    (forall n, In n (names P) -> fin s n = true /\
       count_ev (Enter n) suffix = (if assoc m' n then 0 else 1) /\ count_ev (Exit n) suffix = (if assoc m' n then 0 else 1)) /\
    solves V F P (get s).
Proof. exact fail_then_retry. Qed.
(* the diamond above after a run in which command 2 failed: 0 and 1 are memoised, 3 and 2 were entered and aborted *)
Example C01_resume_example :
  let P := [ {| nm := 3; rl := [(true, 1); (false, 2)] |}; {| nm := 1; rl := [(true, 0)] |};
             {| nm := 2; rl := [(false, 0); (false, 0)] |}; {| nm := 0; rl := [] |} ] in
  let F := fun c vs => nm c :: concat vs in
  let s0 := {| memo := [(1, [1; 0]); (0, [0])]; trace := [Enter 3; Enter 1; Enter 0; Exit 0; Exit 1; Enter 2] |} in
  match run_program F 6 P s0 with
  | Ok s => trace s = trace s0 ++ [Enter 3; Enter 2; Exit 2; Exit 3] /\ get s 3 = Some [3; 1; 0; 2; 0; 0]
  | _ => False end.
Proof. vm_compute. split; reflexivity. Qed.

Print Assumptions C01_exactly_once.
Print Assumptions C01_acyclic_accepted.
Print Assumptions C01_history.
Print Assumptions C01_resume.
Print Assumptions C01_failed_run_leaves_a_consistent_state.
Print Assumptions C01_fail_then_retry.
