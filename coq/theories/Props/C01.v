(* C01 -- every command executes exactly once, fed by its finished dependencies. *)
From Coq Require Import List Arith Bool.
From MP Require Import Model.Sched Proofs.SchedProofs Proofs.SchedTop.
Import ListNotations.

(* For EVERY command semantics F, every program P that passes the pre-pass of Program.run (unique result
   names, references resolve, no reference loop) -- any size, fan-in/fan-out, references through direct
   parameters or (nested, flattened) lists, in any file order (P is the file order):
   run() succeeds; every command is entered and left exactly once and nothing else is executed; every
   command is finished and its result is F applied to the memoised results of the commands it references. *)
Theorem C01_exactly_once : forall (V : Type) (F : cmd -> list V -> V) P fuel,
  accepted P -> length P < fuel ->
  exists s, run_program F fuel P (init V) = Ok s /\
    (forall n, In n (names P) -> fin s n = true /\ count_ev (Enter n) (trace s) = 1 /\ count_ev (Exit n) (trace s) = 1) /\
    (forall n, ~ In n (names P) -> count_ev (Enter n) (trace s) = 0 /\ count_ev (Exit n) (trace s) = 0) /\
    solves V F P (get s).
Proof. exact run_ok. Qed.

(* every acyclic program (a rank function exists) passes the cycle check: the quantifier of C01 is met *)
Theorem C01_acyclic_accepted : forall P rank, wf_dag P rank -> find_cycle P = None.
Proof. exact acyclic_accepted. Qed.

(* any sequence of further run() calls and result reads, of any length, changes neither trace nor memo *)
Theorem C01_history : forall (V : Type) (F : cmd -> list V -> V) P fuel s,
  accepted P -> length P < fuel -> run_program F fuel P (init V) = Ok s ->
  forall ops, fold_left (apply_op F fuel P) ops s = s.
Proof. exact history_inert. Qed.

(* non-vacuity: a diamond whose shared node is referenced once directly and once through a list *)
Example C01_example :
  let P := [ {| nm := 3; rl := [(true, 1); (false, 2)] |}; {| nm := 1; rl := [(true, 0)] |};
             {| nm := 2; rl := [(false, 0); (false, 0)] |}; {| nm := 0; rl := [] |} ] in
  first_missing P P = None /\ find_cycle P = None /\
  match run_program (fun c vs => nm c :: concat vs) 6 P (init (list nat)) with
  | Ok s => trace s = [Enter 3; Enter 1; Enter 0; Exit 0; Exit 1; Enter 2; Exit 2; Exit 3]
  | _ => False end.
Proof. vm_compute. repeat split; reflexivity. Qed.

Print Assumptions C01_exactly_once.
Print Assumptions C01_acyclic_accepted.
Print Assumptions C01_history.
