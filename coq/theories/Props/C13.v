(* C13 -- only declared error types escape, and the CLI reports them.  (partial: see the end of the file) *)
From Coq Require Import String List Bool ZArith QArith.
From MP Require Import Base.Sig Model.Params Proofs.ParamsProofs Model.Loader Proofs.LoaderProofs Gen.GenSigs Gen.GenParamFacts Gen.GenExc.
From MP Require Import Props.C12.
Import ListNotations.
Open Scope string_scope.

(* (1) every exception class the package defines is an MPilotError (live classes, regenerated) *)
Theorem C13_hierarchy : forallb (fun c => mem_str "MPilotError" (snd c)) exception_classes = true.
Proof. vm_compute. reflexivity. Qed.

(* (2) every `raise` statement of the package raises one of those classes -- or SyntaxError inside the parser, a bare
   re-raise, or NotImplementedError in the abstract Command.execute (inside the wrapper of (4)) *)
Definition raise_ok (s : string * string) : bool :=
  let '(file, cls) := s in
  (if assoc_str exception_classes cls then true else false)
  || (String.eqb file "parser/parser.py" && String.eqb cls "SyntaxError")
  || String.eqb cls "<re-raise>"
  || (String.eqb file "commands.py" && String.eqb cls "NotImplementedError").
Theorem C13_raise_sites : forallb raise_ok raise_sites = true.
Proof. vm_compute. reflexivity. Qed.

(* (3) loading and the validation pre-pass -- which run OUTSIDE the wrapper of Command.run -- never let a raw Python
   exception out: for every signature table of modelled declarations, every file system and every list of command nodes
   with arguments of every kind, the only outcomes are acceptance or one of the five MPilot error families *)
Theorem C13_validation_never_escapes : forall sigs wdir ex nodes, all_supported sigs = true ->
  match accept sigs wdir ex nodes with Some (LParam (EEscape _) _) => False | _ => True end.
Proof.
  intros sigs wdir ex nodes S. destruct (accept sigs wdir ex nodes) as [[c l|r l|c m l|c p l|pe l]|] eqn:A; auto.
  destruct pe; auto. pose proof (C12_blame sigs wdir ex nodes _ A) as (n & s & a & p & Hn & Fs & Ha & _ & Fp & Cl). simpl in Cl.
  destruct C12_source_facts as [G1 G2].
  assert (Sp : supported (p_kind p) = true).
  { unfold all_supported in S. rewrite forallb_forall in S. specialize (S s (find_sig_In_gen sigs _ _ Fs)). rewrite forallb_forall in S. apply S.
    clear - Fp. induction (s_inputs s) as [|q t IH]; simpl in *; [discriminate|]. destruct (String.eqb (p_name q) (g_name a)); [inversion Fp; auto | right; auto]. }
  pose proof (no_escape param_facts accepts_table (env_of_nodes sigs wdir ex nodes) G1 (p_kind p) (g_value a) Sp) as NE.
  rewrite Cl in NE. discriminate.
Qed.

(* (4) everything that happens inside Command.run -- the second validation and execute(), whatever they raise (division by
   zero, IndexError on a ragged CSV row, a failing third-party call) -- leaves as an MPilotError: the shape of the wrapper is
   read off the source on every run *)
Inductive pyexc := ExMPilot (cls : string) | ExRaw (cls : string).
Definition command_run_outcome (w : wrapper_kind) (raised : pyexc) : pyexc :=
  match w, raised with
  | WrapsEveryException, ExRaw _ => ExMPilot "UnexpectedError"
  | _, e => e
  end.
Theorem C13_run_wraps : forall raised, exists c, command_run_outcome run_wrapper raised = ExMPilot c.
Proof. intros [c|c]; simpl; eauto. Qed.

(* non-vacuity of (3): a list where a number is declared, a number where a path is declared *)
Example C13_example :
  let mk v := {| n_result := "A"; n_cmd := "EEMSRead"; n_line := 1;
                 n_args := [{| g_name := "InFileName"; g_value := v; g_line := 1 |}; {| g_name := "InFieldName"; g_value := RStr "a" None None; g_line := 1 |}] |} in
  accept sigs_csv (Some "/w") (fun _ => true) [mk (RList [RInt 1])] = Some (LParam (EParameterNotValid "Path") 1) /\
  accept sigs_csv (Some "/w") (fun _ => true) [mk (RInt 5)] = Some (LParam (EParameterNotValid "Path") 1).
Proof. vm_compute. split; reflexivity. Qed.

(* What is NOT proved here (partial): that the lexer/parser raise nothing but SyntaxError for every text (C10 models the
   lexer and the LALR driver), interpreter-level failures (RecursionError on ~1000-deep nesting, MemoryError), failures inside
   third-party __str__, undecodable command-file bytes, and the command-line tool itself (exit status and stderr are
   observed by the correspondence: every CSV fault and a sample of all other models through the real entry point). *)
Print Assumptions C13_hierarchy.
Print Assumptions C13_raise_sites.
Print Assumptions C13_validation_never_escapes.
Print Assumptions C13_run_wraps.
