(* C18 -- NetCDF reading and writing are faithful.  (partial: the netCDF4 library is an oracle) *)
From Coq Require Import String List Bool ZArith QArith Arith Lia.
From MP Require Import Base.Sig Model.Params Model.Csv Model.Netcdf Proofs.NetcdfProofs.
Import ListNotations.
Open Scope nat_scope.

(* writing: every result is stored with missing cells exactly where ANY of the results written together is missing, and its
   own value elsewhere -- any number of results, any grid size *)
Theorem C18_write : forall cols n j col i x, cols <> [] -> Forall (fun c => length c = n) cols ->
  nth_error cols j = Some col -> nth_error col i = Some x ->
  exists w, nth_error (write_all cols) j = Some w /\
            nth_error w i = Some (if any_missing_at cols i then OMissing else x).
Proof. intros cols n j col i x Ne Hl Hj Hx. unfold write_all. rewrite nth_error_map, Hj. simpl. eexists. split; [reflexivity|].
  assert (Hn : length col = n). { rewrite Forall_forall in Hl. apply Hl. eapply nth_error_In; eauto. }
  assert (Hi : i < n). { rewrite <- Hn. apply nth_error_Some. congruence. }
  apply write_var_nth; [apply (union_mask_nth cols n i Ne Hl Hi) | exact Hx]. Qed.

(* round trip, under the named oracle hypothesis: the file hands back the variable it was given (load (store v) = v), with
   the template's shape.  Reading the written variable with the default parameters returns the same shape, floating values
   equal to those written, missing exactly where any written result was missing. *)
Theorem C18_roundtrip : forall (store_load : nvar -> option nvar) cols n j col shape,
  (forall v, store_load v = Some v) ->
  cols <> [] -> Forall (fun c => length c = n) cols -> nth_error cols j = Some col ->
  Forall (fun c => match c with OMissing | OFloat (FFin _) => True | _ => False end) col ->
  exists w, nth_error (write_all cols) j = Some w /\
    read_var (store_load {| v_kind := KFloat64; v_shape := shape; v_cells := w |}) NFloat None = NOk shape w /\
    forall i x, nth_error col i = Some x -> nth_error w i = Some (if any_missing_at cols i then OMissing else x).
Proof. intros sl cols n j col shape Hsl Ne Hl Hj Hf. unfold write_all. rewrite nth_error_map, Hj. simpl. eexists. split; [reflexivity|]. split.
  - rewrite Hsl. apply read_default_float. unfold write_var. apply Forall_forall. intros c Hc. apply in_map_iff in Hc. destruct Hc as [[b x] [<- Hin]].
    simpl. destruct b; [exact I|]. apply in_combine_r in Hin. rewrite Forall_forall in Hf. apply Hf. exact Hin.
  - intros i x Hx. destruct (C18_write cols n j col i x Ne Hl Hj Hx) as [w' [A B]]. unfold write_all in A. rewrite nth_error_map, Hj in A. inversion A; subst. exact B. Qed.

(* reading honours the optional parameters *)
Theorem C18_read_parameters : forall var missing,
  (* float by default and for "Float": every finite value is returned as a float, missing cells stay missing *)
  (exists cells, read_var (Some var) NFloat missing = NOk (v_shape var) cells /\ length cells = length (v_cells var)) /\
  (* the positive types reject exactly the variables with a negative non-missing value *)
  (read_var (Some var) NPosFloat missing = NErr NInvalidPositive <-> existsb (fun q => qlt q 0) (valid_qs (v_cells var)) = true) /\
  (* the fuzzy type rejects values outside [-1.02, 1.02] and otherwise returns values within [-1, 1] *)
  (forall shape cells, read_var (Some var) NFuzzy missing = NOk shape cells ->
     Forall (fun c => match c with OFloat (FFin q) => (-1 <= q <= 1)%Q | _ => True end) cells) /\
  read_var None NFloat missing = NErr NNoSuchVariable.
Proof. intros var missing. split; [|split; [|split]].
  - unfold read_var. simpl. eexists. split; [reflexivity|]. apply map_length.
  - unfold read_var. destruct (existsb _ _); split; intros H; try reflexivity; try discriminate.
  - intros shape cells H. unfold read_var in H. simpl in H. destruct (existsb _ _); [discriminate|]. inversion H; subst. apply Forall_forall. intros c Hc.
    apply in_map_iff in Hc. destruct Hc as [c0 [<- _]].
    destruct c0 as [|f|z]; [destruct missing; exact I | destruct f as [q| | |] |]; unfold mark_missing, conv_cell, cell_q; simpl;
    destruct missing as [m|]; simpl; try exact I;
    try match goal with |- context [Qeq_bool ?a ?b] => destruct (Qeq_bool a b) end; try exact I; apply clampq_range.
  - reflexivity. Qed.
(* the missing value marks exactly the equal cells (and leaves cells the file already masks) *)
Theorem C18_missing_value : forall t m c, is_int_type t = false ->
  mark_missing t (Some m) c = match c with OFloat (FFin q) => if Qeq_bool q m then OMissing else c | _ => c end.
Proof. intros t m c H. unfold mark_missing. rewrite H. destruct c as [|[q| | |]|z]; reflexivity. Qed.

(* non-vacuity *)
Example C18_example :
  let a := [OFloat (FFin (1#2)); OMissing; OFloat (FFin 3)] in let b := [OFloat (FFin 1); OFloat (FFin 2); OMissing] in
  write_all [a; b] = [[OFloat (FFin (1#2)); OMissing; OMissing]; [OFloat (FFin 1); OMissing; OMissing]] /\
  read_var (Some {| v_kind := KFloat64; v_shape := [3]; v_cells := [OFloat (FFin (5#2)); OFloat (FFin (-9999#1)); OFloat (FFin (7#2))] |}) NInteger (Some (-9999#1))
    = NOk [3] [OInt 2; OMissing; OInt 4] /\
  read_var (Some {| v_kind := KFloat64; v_shape := [2]; v_cells := [OFloat (FFin (101#100)); OFloat (FFin (-3#2))] |}) NFuzzy None = NErr NInvalidFuzzy /\
  read_var (Some {| v_kind := KFloat64; v_shape := [2]; v_cells := [OFloat (FFin (101#100)); OFloat (FFin (-1#2))] |}) NFuzzy None = NOk [2] [OFloat (FFin 1); OFloat (FFin (-1#2))].
Proof. vm_compute. repeat split; reflexivity. Qed.

Print Assumptions C18_write.
Print Assumptions C18_roundtrip.
Print Assumptions C18_read_parameters.
Print Assumptions C18_missing_value.
