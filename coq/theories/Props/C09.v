(* C09 -- computed results are immutable: commands never modify their inputs. *)
From Coq Require Import List Arith Bool String.
From MP Require Import Model.Effects Proofs.EffectsProofs Gen.GenEffects.
Import ListNotations.

Definition fz_of (flags : list bool) (i : inp) : bool := nth i flags false.
Definition body_ok (b : string * list bool * stmt) : bool :=
  match check (fz_of (snd (fst b))) (snd b) [] with Some _ => true | None => false end.

(* the source obligation: the effect IR of EVERY execute() body of the built-in libraries (regenerated from the AST of
   /repo on every run) passes the ownership check: in-place writes only hit objects that are certainly new, and the
   in-place clamp to [-1, 1] only hits new objects or inputs declared is_fuzzy=True *)
Theorem C09_all_bodies_pass : forallb body_ok execute_bodies = true.
Proof. vm_compute. reflexivity. Qed.
Definition failing_bodies := map (fun b => fst (fst b)) (filter (fun b => negb (body_ok b)) execute_bodies).

(* what the check guarantees, for any notion of observable part Ob (shape, element type, missing cells, non-missing
   values) and hidden part Hd, any store and any execution of the body -- any number of loop iterations, any branch,
   any aliasing the tags allow: every object that existed when the body started (in particular every finished
   result of every other command, consumed or not) has the same observable part when it ends.  Premise: the values
   of inputs declared fuzzy lie in [-1, 1] (C04 for their producers). *)
Theorem C09_body : forall (Ob Hd : Type) (inrange : Ob -> Prop) (inloc : inp -> loc -> Prop) b,
  In b execute_bodies ->
  forall (s0 s' : store Ob Hd) (e e' : env),
  (forall i l o, fz_of (snd (fst b)) i = true -> inloc i l -> s0 l = Some o -> inrange (ob _ _ o)) ->
  exec Ob Hd inrange inloc (snd b) (s0, e) (s', e') ->
  forall l o0, s0 l = Some o0 -> exists o, s' l = Some o /\ ob _ _ o = ob _ _ o0.
Proof.
  intros Ob Hd inrange inloc b Hb s0 s' e e' Hfz Hx.
  pose proof C09_all_bodies_pass as A. rewrite forallb_forall in A. specialize (A b Hb). unfold body_ok in A.
  destruct (check (fz_of (snd (fst b))) (snd b) []) as [g'|] eqn:E; [|discriminate].
  eapply body_preserves_observables; eauto.
Qed.

(* any sequence of consumer executions, in any order, any number of times: by induction over the sequence *)
Inductive run_seq (Ob Hd : Type) (inrange : Ob -> Prop) (inloc : inp -> loc -> Prop) :
  list (string * list bool * stmt) -> store Ob Hd -> store Ob Hd -> Prop :=
| rs_nil s : run_seq Ob Hd inrange inloc [] s s
| rs_cons b bs s e s1 e1 s2 : exec Ob Hd inrange inloc (snd b) (s, e) (s1, e1) -> run_seq Ob Hd inrange inloc bs s1 s2 ->
                              run_seq Ob Hd inrange inloc (b :: bs) s s2.
Theorem C09_history : forall (Ob Hd : Type) (inrange : Ob -> Prop) (inloc : inp -> loc -> Prop) bs s0 s',
  Forall (fun b => In b execute_bodies) bs ->
  (* fuzzy inputs are in range in every store (an invariant of well-typed models, C04) *)
  (forall b (s : store Ob Hd) i l o, In b bs -> fz_of (snd (fst b)) i = true -> inloc i l -> s l = Some o -> inrange (ob _ _ o)) ->
  run_seq Ob Hd inrange inloc bs s0 s' ->
  forall l o0, s0 l = Some o0 -> exists o, s' l = Some o /\ ob _ _ o = ob _ _ o0.
Proof.
  intros Ob Hd inrange inloc bs s0 s' Hall Hfz Hr. induction Hr as [s|b bs s e s1 e1 s2 Hx Hr IH]; intros l o0 Hl.
  - exists o0. auto.
  - inversion Hall; subst.
    destruct (C09_body Ob Hd inrange inloc b H1 s s1 e e1 (fun i l0 o F I S => Hfz b s i l0 o (or_introl eq_refl) F I S) Hx l o0 Hl) as [o1 [E1 O1]].
    destruct (IH H2 (fun b' s'' i l0 o Hin => Hfz b' s'' i l0 o (or_intror Hin)) l o1 E1) as [o2 [E2 O2]].
    exists o2. split; [exact E2 | congruence].
Qed.

(* non-vacuity and discrimination: an in-place accumulation into the first input is rejected; the same on a copy passes;
   the clamp on a possibly-aliased fuzzy input passes, on a non-fuzzy one it does not *)
Example C09_example :
  check (fun _ => false) (SSeq (SBind 0 (RAny [] [0])) (SMut 0 KArb)) [] = None /\
  check (fun _ => false) (SSeq (SBind 0 (RAny [] [0])) (SSeq (SBind 1 RFresh) (SMut 1 KArb))) [] <> None /\
  check (fun _ => true) (SSeq (SBind 0 (RAny [] [0])) (SMut 0 KClamp)) [] <> None /\
  check (fun _ => false) (SSeq (SBind 0 (RAny [] [0])) (SMut 0 KClamp)) [] = None /\
  List.length execute_bodies = 36.
Proof. vm_compute. repeat split; discriminate. Qed.

Print Assumptions C09_all_bodies_pass.
Print Assumptions C09_body.
Print Assumptions C09_history.
