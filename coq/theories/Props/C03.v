(* C03 -- missing data stays missing and never leaks into valid results. *)
From Coq Require Import QArith List Bool.
From MP Require Import Model.Cells Proofs.CellProofs.
Import ListNotations.
Open Scope Q_scope.

(* An implementation array carries a payload underneath every missing cell; the model observes an array only
   through [observe]: the payload of a missing cell is dropped. *)
Record parr := { p_dt : dtype; p_shape : list nat; p_cells : list (Q * bool)%type }.     (* (payload, missing?) *)
Definition observe (a : parr) : arr :=
  {| a_dt := p_dt a; a_shape := p_shape a; a_cells := map (fun c : Q * bool => if snd c then None else Some (fst c)) (p_cells a) |}.
Definition run_p (c : ecmd) (ins : list parr) : res arr := run c (map observe ins).

(* Mask law, all 31 commands, every number of inputs, shape, element type and placement of missing cells:
   a result cell is missing exactly when some input cell of its column is missing or the operation is
   undefined on the values of that column. *)
Theorem C03_mask_law : forall c ins r, run c ins = ROk r ->
  map isnone (a_cells r) = map (fun col => any_none col || undefined_at (colf c ins) col) (in_cols ins).
Proof. exact run_mask_law. Qed.

(* ... in particular a missing input cell is never resurrected ... *)
Theorem C03_missing_stays_missing : forall c ins r i, run c ins = ROk r ->
  any_none (nth i (in_cols ins) []) = true -> nth i (a_cells r) None = None.
Proof. exact missing_stays_missing. Qed.

(* ... for the 25 commands whose operation is defined on all values, missing iff an input cell is missing ... *)
Theorem C03_total : forall c ins r, total_cmd c = true -> run c ins = ROk r ->
  map isnone (a_cells r) = map any_none (in_cols ins).
Proof. exact total_mask_law. Qed.

(* ... and the undefined places of division are exactly the zero divisors (zero weight sum for weighted means). *)
Theorem C03_division : forall ins a b, colf ADividedByB ins [a; b] = None <-> b == 0.
Proof. exact div_undefined. Qed.
Theorem C03_weighted_mean : forall ws ins vs, colf (WeightedMean ws) ins vs = None <-> qsum (wvals ws) == 0.
Proof. exact wmean_undefined. Qed.

(* Non-interference: the numbers underneath missing cells influence nothing -- neither cells nor statistics nor errors. *)
Theorem C03_noninterference : forall c ins ins', map observe ins = map observe ins' -> run_p c ins = run_p c ins'.
Proof. intros c ins ins' H. unfold run_p. rewrite H. reflexivity. Qed.

(* non-vacuity: hidden payloads -9999 / 10^20 under missing cells, a zero divisor, a whole-array statistic *)
Example C03_example :
  let a  := {| p_dt := DFloat; p_shape := [3%nat]; p_cells := [(1#1, false); (-9999#1, true); (4#1, false)] |} in
  let a' := {| p_dt := DFloat; p_shape := [3%nat]; p_cells := [(1#1, false); (100000000000000000000#1, true); (4#1, false)] |} in
  let b  := {| p_dt := DFloat; p_shape := [3%nat]; p_cells := [(2#1, false); (5#1, false); (0#1, false)] |} in
  map observe [a; b] = map observe [a'; b]
  /\ run_p ADividedByB [a; b] = ROk {| a_dt := DFloat; a_shape := [3%nat]; a_cells := [Some (1#2); None; None] |}
  /\ run_p (Normalize None None) [a] = ROk {| a_dt := DFloat; a_shape := [3%nat]; a_cells := [Some 0; None; Some 1] |}.
Proof. vm_compute. repeat split; reflexivity. Qed.

Print Assumptions C03_mask_law.
Print Assumptions C03_missing_stays_missing.
Print Assumptions C03_total.
Print Assumptions C03_division.
Print Assumptions C03_weighted_mean.
Print Assumptions C03_noninterference.
