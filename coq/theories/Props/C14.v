(* C14 -- cyclic models are rejected, never silently skipped. *)
From Coq Require Import List Arith Bool Permutation.
From MP Require Import Model.Sched Proofs.SchedProofs Proofs.SchedTop Proofs.SchedBlame Proofs.SchedCycle.
Import ListNotations.

(* any graph size (the property asks for <= 5), self-loops, cycles with tails, separate acyclic components,
   references through direct parameters or lists, every file order, every fuel (so never OutOfStack),
   from every state: the recursive-model error, and nothing is executed (the error carries no new state) *)
Theorem C14 : forall (V : Type) (F : cmd -> list V -> V) P fuel s,
  first_missing P P = None -> has_cycle P -> exists n, run_program F fuel P s = ErrRecursive n.
Proof. exact cyclic_rejected. Qed.

Theorem C14_no_partial_success : forall (V : Type) (F : cmd -> list V -> V) P fuel s,
  NoDup (names P) -> length P < fuel -> run_program F fuel P (init V) = Ok s ->
  forall n, In n (names P) -> fin s n = true.
Proof. exact no_partial_success. Qed.

(* the check rejects nothing it should accept *)
Theorem C14_only_cycles_rejected : forall P rank, wf_dag P rank -> find_cycle P = None.
Proof. exact acyclic_accepted. Qed.

(* the command the error names is one of the program's own commands, in every file order and graph size *)
Theorem C14_names_a_command : forall (V : Type) (F : cmd -> list V -> V) P fuel s n,
  find_cycle P = Some n -> first_missing P P = None ->
  run_program F fuel P s = ErrRecursive n /\ In n (names P).
Proof. intros V F P fuel s n H M. split; [unfold run_program; rewrite M, H; reflexivity | exact (reported_is_a_command P n H)]. Qed.

(* whether a program is rejected depends on its reference graph only, never on the textual order of its commands:
   the pre-pass accepts exactly the programs that have a rank function (an acyclic reference graph) *)
Theorem C14_accepted_iff_ranked : forall P, NoDup (names P) -> first_missing P P = None ->
  (find_cycle P = None <-> exists rank, wf_dag P rank).
Proof. exact accepted_iff_ranked. Qed.

Theorem C14_rejection_is_order_free : forall P P', Permutation P P' -> NoDup (names P) -> first_missing P P = None ->
  find_cycle P = None -> find_cycle P' = None.
Proof. exact rejection_order_irrelevant. Qed.

(* rejection is sound as well as complete: the pre-pass reports a recursive model exactly when the reference
   graph has a cycle -- any program, any size, duplicate names and dangling references included *)
Theorem C14_rejected_iff_cyclic : forall P, (exists n, find_cycle P = Some n) <-> has_cycle P.
Proof. exact rejected_iff_cyclic. Qed.

(* the command the error names lies on a cycle itself (it is not merely upstream of one) *)
Theorem C14_names_a_command_on_a_cycle : forall P n, find_cycle P = Some n -> exists l, chain P n l n.
Proof. exact reported_on_cycle. Qed.

(* at run level: a run that ends in the recursive-model outcome got it from the pre-pass (pulling results never
   produces it), so the outcome always names a command on a cycle -- from every state, with every fuel *)
Theorem C14_recursive_outcome_sound : forall (V : Type) (F : cmd -> list V -> V) P fuel s n,
  run_program F fuel P s = ErrRecursive n -> find_cycle P = Some n /\ exists l, chain P n l n.
Proof. exact recursive_outcome_sound. Qed.

Example C14_example :
  let P := [ {| nm := 0; rl := [(true, 1)] |}; {| nm := 1; rl := [(false, 2)] |}; {| nm := 2; rl := [(true, 1)] |};
             {| nm := 3; rl := [] |} ] in
  has_cycle P /\ first_missing P P = None /\ run_program (fun c vs => 0) 0 P (init nat) = ErrRecursive 1.
Proof. split; [exists 1, [2]; simpl; split; [exists {| nm := 1; rl := [(false, 2)] |} | exists {| nm := 2; rl := [(true, 1)] |}]; simpl; tauto |].
  vm_compute. split; reflexivity. Qed.

Print Assumptions C14.
Print Assumptions C14_no_partial_success.
Print Assumptions C14_only_cycles_rejected.
Print Assumptions C14_names_a_command.
Print Assumptions C14_accepted_iff_ranked.
Print Assumptions C14_rejection_is_order_free.
Print Assumptions C14_rejected_iff_cyclic.
Print Assumptions C14_names_a_command_on_a_cycle.
Print Assumptions C14_recursive_outcome_sound.
