(* C10 -- parsing delivers exactly what was written, regardless of layout.  (partial: see the end of the file) *)
From Coq Require Import NArith ZArith List Bool String.
From MP Require Import Model.Lexer Gen.GenLex Gen.GenGrammar Model.Parser Proofs.LexProofs Proofs.ParserProofs.
Import ListNotations.

(* tie 1: the token rules of the live lexer, in PLY's effective order, with the regexes the scanners of Model/Lexer.v were
   written against (an edited, added or reordered rule stops this obligation) *)
Definition expected_rules : list (string * bool) :=
  [("ID", true); ("FLOAT", true); ("INT", true); ("STRING", true); ("newline", true); ("PLAIN_STRING", false); ("FALSE", false);
   ("TRUE", false); ("ignore_COMMENT", false); ("LBRACK", false); ("LPAREN", false); ("RBRACK", false); ("RPAREN", false);
   ("COLON", false); ("COMMA", false); ("EQUAL", false)]%string.
Definition rx (s : string) : list N := map (fun a => N.of_nat (Ascii.nat_of_ascii a)) (list_ascii_of_string s).
Definition expected_regexes : list (list N) :=
  [rx "[a-zA-Z_][a-zA-Z_0-9]*"; rx "[\-\+]?((\d+\.\d*)|(\.\d+))([eE][\+\-]?\d+)?"; rx "[\-\+]?\d+";
   [40; 34; 40; 92; 92; 46; 124; 91; 94; 34; 92; 92; 93; 41; 42; 34; 41; 124; 40; 92; 39; 40; 92; 92; 46; 124; 91; 94; 92; 39; 92; 92; 93; 41; 42; 92; 39; 41]%N;
   rx "[\r\n]+";
   [91; 94; 92; 35; 92; 58; 92; 44; 92; 61; 92; 40; 92; 41; 92; 91; 92; 93; 92; 34; 92; 39; 92; 114; 92; 110; 93; 43]%N;
   rx "False"; rx "True"; rx "\#.*"; rx "\["; rx "\("; rx "\]"; rx "\)"; rx ":"; rx ","; rx "="].
Theorem C10_lexer_rules : map (fun r => (fst (fst r), snd (fst r))) lex_rules = expected_rules
                          /\ map snd lex_rules = expected_regexes /\ lex_ignore = [32; 9]%N.
Proof. vm_compute. repeat split; reflexivity. Qed.
(* tie 2: the LALR tables are the ones PLY built for the grammar of the snapshot; the semantic-action model knows every
   action function that occurs in them *)
Theorem C10_grammar : List.length grammar_text = 44%nat /\ n_states = 63%nat.
Proof. vm_compute. split; reflexivity. Qed.

(* (a) nothing is invented or lost by the lexer: for EVERY text, every token is the verbatim piece of the source found at
   its recorded position (so identifiers, numerals, quoted and unquoted strings are delivered as written) *)
Theorem C10_tokens_are_pieces_of_the_source : forall s toks, lex_all s = LexOk toks -> toks_in s toks.
Proof. exact tokens_are_source_pieces. Qed.
(* (b) nothing is invented, lost or reordered by the parser: for EVERY token sequence the LR driver accepts -- whatever the
   tables -- the leaves of the parse tree are exactly those tokens in order (lists keep their order at any nesting) *)
Theorem C10_parse_tree_yields_the_tokens : forall toks t, lr toks = Some t -> yield t = toks.
Proof. exact lr_yield. Qed.
(* (c) the only outcomes are a program, a syntax error, or `outside the model' (a \N{...} escape / an unknown action) *)
Theorem C10_outcomes : forall fs s, match parse fs s with POk _ | PSyntaxError | PUnsupported => True end.
Proof. intros fs s. destruct (parse fs s); exact I. Qed.

(* non-vacuity: layout, comments, trailing commas, both quote characters, nesting, a tuple, numerals *)
Definition ex_text : text := rx ("A = Cmd( P = [1, 'x y', [2.5,], ],  # note" ++ String (Ascii.ascii_of_nat 10) "  Q = k: v,)").
Example C10_example :
  match parse (fun _ => None) ex_text with
  | POk {| pp_cmds := [ {| pc_result := Some r; pc_cmd := c; pc_args := [a1; a2]; pc_line := 1%N |} ]; pp_version := 3%N |} =>
      pa_value a1 = PE (PList [PE (PInt 1%Z) 1%N; PE (PStr (rx "x y")) 1%N; PE (PList [PE (PFloat (rx "2.5")) 1%N]) 1%N]) 1%N /\ pa_line a2 = 2%N
  | _ => False
  end.
Proof. vm_compute. split; reflexivity. Qed.

(* NOT proved (the round-trip / layout-irrelevance half of the property): that every rendering of every abstract program
   parses back to that program.  It needs the completeness of the LALR automaton for the grammar (one induction per
   recursive nonterminal over facts computed from the tables) and boundary lemmas for the lexer; here it is covered by the
   correspondence only: random programs x random layouts, single-token corruptions, token soups, unquoted multi-word text,
   all compared with the real parser's result including line numbers.  Recorded limitation of the code itself (modelled
   faithfully): an unquoted multi-word value loses its blanks and re-prints numerals ("This is a string." -> "Thisisastring."). *)
Print Assumptions C10_lexer_rules.
Print Assumptions C10_grammar.
Print Assumptions C10_tokens_are_pieces_of_the_source.
Print Assumptions C10_parse_tree_yields_the_tokens.
Print Assumptions C10_outcomes.
