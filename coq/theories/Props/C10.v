(* C10 -- parsing delivers exactly what was written, regardless of layout.  (partial only in what is stated at the end) *)
From Coq Require Import NArith ZArith List Bool String.
From MP Require Import Model.Lexer Gen.GenLex Gen.GenGrammar Model.Parser Model.Serial Proofs.LexProofs Proofs.ParserProofs
  Proofs.LrComplete Proofs.LexSerial Proofs.Layout Proofs.Surface Proofs.SurfaceLayout.
Import ListNotations.

(* tie 1: the token rules of the live lexer, in PLY's effective order, with the regexes the scanners of Model/Lexer.v were
   written against (an edited, added or reordered rule stops this obligation) *)
Definition expected_rules : list (string * bool) :=
  [("ID", true); ("FLOAT", true); ("INT", true); ("STRING", true); ("newline", true); ("PLAIN_STRING", false); ("FALSE", false);
   ("TRUE", false); ("ignore_COMMENT", false); ("LBRACK", false); ("LPAREN", false); ("RBRACK", false); ("RPAREN", false);
   ("COLON", false); ("COMMA", false); ("EQUAL", false)]%string.
Definition rx (s : string) : list N := map (fun a => N.of_nat (Ascii.nat_of_ascii a)) (list_ascii_of_string s).
Definition expected_regexes : list (list N) :=
  [rx "[a-zA-Z_][a-zA-Z_0-9]*"; rx "[\-\+]?((\d+\.\d*)|(\.\d+))([eE][\+\-]?\d+)?"; rx "[\-\+]?\d+";
   [40; 34; 40; 92; 92; 46; 124; 91; 94; 34; 92; 92; 93; 41; 42; 34; 41; 124; 40; 92; 39; 40; 92; 92; 46; 124; 91; 94; 92; 39; 92; 92; 93; 41; 42; 92; 39; 41]%N;
   rx "[\r\n]+";
   [91; 94; 92; 35; 92; 58; 92; 44; 92; 61; 92; 40; 92; 41; 92; 91; 92; 93; 92; 34; 92; 39; 92; 114; 92; 110; 93; 43]%N;
   rx "False"; rx "True"; rx "\#.*"; rx "\["; rx "\("; rx "\]"; rx "\)"; rx ":"; rx ","; rx "="].
Theorem C10_lexer_rules : map (fun r => (fst (fst r), snd (fst r))) lex_rules = expected_rules
                          /\ map snd lex_rules = expected_regexes /\ lex_ignore = [32; 9]%N.
Proof. vm_compute. repeat split; reflexivity. Qed.
(* tie 2: the LALR tables are the ones PLY built for the grammar of the snapshot; the semantic-action model knows every
   action function that occurs in them *)
Theorem C10_grammar : List.length grammar_text = 44%nat /\ n_states = 63%nat.
Proof. vm_compute. split; reflexivity. Qed.

(* (a) nothing is invented or lost by the lexer: for EVERY text, every token is the verbatim piece of the source found at
   its recorded position (so identifiers, numerals, quoted and unquoted strings are delivered as written) *)
Theorem C10_tokens_are_pieces_of_the_source : forall s toks, lex_all s = LexOk toks -> toks_in s toks.
Proof. exact tokens_are_source_pieces. Qed.
(* (b) nothing is invented, lost or reordered by the parser: for EVERY token sequence the LR driver accepts -- whatever the
   tables -- the leaves of the parse tree are exactly those tokens in order (lists keep their order at any nesting) *)
Theorem C10_parse_tree_yields_the_tokens : forall toks t, lr toks = Some t -> yield t = toks.
Proof. exact lr_yield. Qed.
(* (c) the only outcomes are a program, a syntax error, or `outside the model' (a \N{...} escape / an unknown action) *)
Theorem C10_outcomes : forall fs s, match parse fs s with POk _ | PSyntaxError | PUnsupported => True end.
Proof. intros fs s. destruct (parse fs s); exact I. Qed.

(* non-vacuity: layout, comments, trailing commas, both quote characters, nesting, a tuple, numerals *)
Definition ex_text : text := rx ("A = Cmd( P = [1, 'x y', [2.5,], ],  # note" ++ String (Ascii.ascii_of_nat 10) "  Q = k: v,)").
Example C10_example :
  match parse (fun _ => None) ex_text with
  | POk {| pp_cmds := [ {| pc_result := Some r; pc_cmd := c; pc_args := [a1; a2]; pc_line := 1%N |} ]; pp_version := 3%N |} =>
      pa_value a1 = PE (PList [PE (PInt 1%Z) 1%N; PE (PStr (rx "x y")) 1%N; PE (PList [PE (PFloat (rx "2.5")) 1%N]) 1%N]) 1%N /\ pa_line a2 = 2%N
  | _ => False
  end.
Proof. vm_compute. split; reflexivity. Qed.

(* ---------------- the round trip and layout irrelevance ---------------- *)
(* A SURFACE PROGRAM (Proofs/Surface.v) is what is written, token by token: result and command names, argument names, values
   that are quoted strings (either quote character, any escapes: given by their lexeme), integers and decimals in any
   spelling the token rules accept, unquoted identifiers, lists at any nesting with or without a trailing comma,
   dictionaries of key: value pairs with quoted or unquoted keys, argument lists with or without a trailing comma, commands in the `Result = Command(...)` form or
   in the EEMS 2.0 form `COMMAND(...)` (which makes the program version 2).  Its DENOTATION (xden / xaexp) is
   what it means: decoded strings, integer values, lists, dictionaries -- no layout, no quote style, no commas.

   LAYOUT IRRELEVANCE (C10_layout_irrelevance): put ANY gaps -- blanks, tabs, line breaks of any kind (LF, CR, CRLF), blank
   lines, comments -- before, between and after the tokens of ANY lexically well-formed surface program (where a gap is
   empty the two tokens must not run together: lay_ok); the text parses to a program of the right version with the same commands in
   order, the same names and, for every argument, the denotation of what was written.  Every hypothesis is a computable
   boolean (surface_okb).  Proved through: gaps are skipped by the master regex (Proofs/Layout.v); every token is taken
   whole when followed by a gap or by a token it cannot run into (per-rule lemmas, Proofs/LexSerial.v, SurfaceLayout.v);
   the LALR automaton of the regenerated tables accepts the token stream and the semantic actions compute the denotation
   (simulation lemmas per syntactic category, Proofs/Surface.v). *)
Theorem C10_layout_irrelevance : forall fs p gaps final, p <> [] -> surface_okb fs p gaps final = true ->
  exists pp, parse fs (lay (combine gaps (tkx_program p)) final) = POk pp /\ pp_version pp = xversion p /\ Forall2 xcmd_matches p (pp_cmds pp).
Proof. exact surface_layout_b. Qed.
(* hence two renderings with the same denotation -- differing in gaps, quote characters, escapes, spelling of numerals,
   trailing commas -- parse to the same program, line numbers apart *)
Theorem C10_same_denotation : forall fs p1 p2 g1 g2 f1 f2,
  p1 <> [] -> surface_okb fs p1 g1 f1 = true -> p2 <> [] -> surface_okb fs p2 g2 f2 = true -> map xcmd_den p1 = map xcmd_den p2 ->
  exists pp1 pp2, parse fs (lay (combine g1 (tkx_program p1)) f1) = POk pp1 /\ parse fs (lay (combine g2 (tkx_program p2)) f2) = POk pp2 /\
                  map erase_cmd (pp_cmds pp1) = map erase_cmd (pp_cmds pp2) /\ pp_version pp1 = pp_version pp2.
Proof. intros fs p1 p2 g1 g2 f1 f2 A1 A2 B1 B2 Hd.
  destruct (surface_layout_b fs p1 g1 f1 A1 A2) as (pp1 & E1 & V1 & M1). destruct (surface_layout_b fs p2 g2 f2 B1 B2) as (pp2 & E2 & V2 & M2).
  exists pp1, pp2. repeat split; [exact E1 | exact E2 | | rewrite V1, V2; apply den_version; exact Hd]. rewrite (matches_dens _ _ M1), (matches_dens _ _ M2). exact Hd. Qed.
(* the layout the serialiser writes is one of them, for every program (C15), and so is every re-layout of it *)
Theorem C10_layout_of_serialised_programs : forall fs p gaps final, p <> [] -> forallb wfc p = true -> List.length gaps = List.length (tk_program p) ->
  Forall isgap gaps -> lexes final [] -> lay_ok (combine gaps (tk_program p)) final ->
  exists pp, parse fs (lay (combine gaps (tk_program p)) final) = POk pp /\ pp_version pp = 3%N /\ Forall2 cmd_matches p (pp_cmds pp).
Proof. exact layout_irrelevant. Qed.

(* non-vacuity: single quotes, a hex escape in a key, +1, trailing commas everywhere, a comment before a CRLF, a final
   comment without line break:   A = Cmd( P = [+1, 'x y', [2.5,], ],  # note<CR><LF>  Q = ["k\x41": v,], )<LF># end   *)
Definition ex_surface : list xcmd :=
  [ {| xc_result := Some (rx "A"); xc_name := rx "Cmd"; xc_trail := true;
       xc_args := [ (rx "P", XAVal (XList [XLeaf (XI (rx "+1")); XLeaf (XS (rx "'x y'")); XList [XLeaf (XF (rx "2.5"))] true] true));
                    (rx "Q", XADict (KQ (rx """k\x41"""), PVLeaf (XW (rx "v"))) [] true) ] |} ].
Definition ex_gaps : list text :=
  let sp := [32%N] in
  [ []; sp; sp; []; sp; sp; sp; []; []; sp; []; sp; []; []; []; []; sp; [];
    [32; 32; 35; 32; 110; 111; 116; 101; 13; 10; 32; 32]%N; sp; sp; []; []; sp; []; []; []; sp ].
Definition ex_final : text := [10; 35; 32; 101; 110; 100]%N.
Example C10_layout_example : ex_surface <> [] /\ surface_okb (fun _ => None) ex_surface ex_gaps ex_final = true /\
  match parse (fun _ => None) (lay (combine ex_gaps (tkx_program ex_surface)) ex_final) with
  | POk {| pp_cmds := [ {| pc_args := [a1; a2] |} ] |} =>
      erase_e (pa_value a1) = PE (PList [PE (PInt 1%Z) 0%N; PE (PStr (rx "x y")) 0%N; PE (PList [PE (PFloat (rx "2.5")) 0%N]) 0%N]) 0%N /\
      erase_e (pa_value a2) = PE (PDict [(rx "kA", PE (PStr (rx "v")) 0%N)]) 0%N
  | _ => False end.
Proof. split; [discriminate|]. split; vm_compute; [reflexivity | split; reflexivity]. Qed.

(* unquoted text: a path in two tokens, words with blanks between them (the blanks are lost, as the code does), a numeral inside
   (re-printed), an unquoted dictionary key:   B = Cmd(P = data/in.csv, Q = This is 1 string., M = [k x: some text]) *)
Definition ex_words : list xcmd :=
  [ {| xc_result := Some (rx "B"); xc_name := rx "Cmd"; xc_trail := false;
       xc_args := [ (rx "P", XAVal (XWords [WW (rx "data"); WP (rx "/in.csv")]));
                    (rx "Q", XAVal (XWords [WW (rx "This"); WW (rx "is"); WI (rx "1"); WW (rx "string"); WP (rx ".")]));
                    (rx "M", XADict (KW [WW (rx "k"); WW (rx "x")], PVWords [WW (rx "some"); WW (rx "text")]) [] false) ] |} ].
Definition ex_words_gaps : list text :=
  let sp := [32%N] in [ []; sp; sp; []; []; sp; sp; []; []; sp; sp; sp; sp; sp; sp; []; []; sp; sp; sp; []; sp; []; sp; sp; []; [] ].
Example C10_unquoted_text_example : surface_okb (fun _ => None) ex_words ex_words_gaps [] = true /\
  lay (combine ex_words_gaps (tkx_program ex_words)) [] = rx "B = Cmd(P = data/in.csv, Q = This is 1 string., M = [k x: some text])" /\
  map xcmd_den ex_words = [ (Some (rx "B"), rx "Cmd", [ (rx "P", PE (PStr (rx "data/in.csv")) 0%N); (rx "Q", PE (PStr (rx "Thisis1string.")) 0%N);
                                                      (rx "M", PE (PDict [(rx "kx", PE (PStr (rx "sometext")) 0%N)]) 0%N) ]) ].
Proof. vm_compute. repeat split; reflexivity. Qed.

(* unquoted text with colons as an argument value (the permissive_plain_string COLON production): a Windows path in three tokens
   and a time of day in three; the colons are kept, the blanks around them are not:   B = Cmd(P = C:\data\in.csv, Q = 12 : 30 h) *)
Definition ex_colon : list xcmd :=
  [ {| xc_result := Some (rx "B"); xc_name := rx "Cmd"; xc_trail := false;
       xc_args := [ (rx "P", XAColon [WW (rx "C")] [[WP (rx "\data\in.csv")]]);
                    (rx "Q", XAColon [WI (rx "12"); WW (rx "h")] [[WI (rx "30"); WW (rx "h")]]) ] |} ].
Definition ex_colon_gaps : list text :=
  let sp := [32%N] in [ []; sp; sp; []; []; sp; sp; []; []; []; sp; sp; sp; sp; sp; sp; sp; [] ].
Example C10_colon_text_example : surface_okb (fun _ => None) ex_colon ex_colon_gaps [] = true /\
  lay (combine ex_colon_gaps (tkx_program ex_colon)) [] = rx "B = Cmd(P = C:\data\in.csv, Q = 12 h : 30 h)" /\
  map xcmd_den ex_colon = [ (Some (rx "B"), rx "Cmd", [ (rx "P", PE (PStr (rx "C:\data\in.csv")) 0%N); (rx "Q", PE (PStr (rx "12h:30h")) 0%N) ]) ].
Proof. vm_compute. repeat split; reflexivity. Qed.

(* a dictionary as a list element:   B = Cmd(P = [[k: 1, "a b": x y], z]) *)
Definition ex_nested : list xcmd :=
  [ {| xc_result := Some (rx "B"); xc_name := rx "Cmd"; xc_trail := false;
       xc_args := [ (rx "P", XAVal (XList [XDict (KW [WW (rx "k")], PVLeaf (XI (rx "1"))) [(KQ (rx """a b"""), PVWords [WW (rx "x"); WW (rx "y")])] false;
                                           XLeaf (XW (rx "z"))] false)) ] |} ].
Definition ex_nested_gaps : list text :=
  let sp := [32%N] in [ []; sp; sp; []; []; sp; sp; []; []; []; sp; []; sp; []; sp; sp; []; []; sp; []; [] ].
Example C10_nested_dictionary_example : surface_okb (fun _ => None) ex_nested ex_nested_gaps [] = true /\
  lay (combine ex_nested_gaps (tkx_program ex_nested)) [] = rx "B = Cmd(P = [[k: 1, ""a b"": x y], z])" /\
  map xcmd_den ex_nested = [ (Some (rx "B"), rx "Cmd", [ (rx "P", PE (PList [PE (PDict [(rx "a b", PE (PStr (rx "xy")) 0%N); (rx "k", PE (PInt 1%Z) 0%N)]) 0%N; PE (PStr (rx "z")) 0%N]) 0%N) ]) ].
Proof. vm_compute. repeat split; reflexivity. Qed.

(* The surface family now spans every production of the grammar (the TRUE / FALSE tokens are never produced: the ID rule wins):
   colon text may also be the value of a tuple pair (PVColon).   B = Cmd(M = [when: 12 h:30 h, "p": C:\x])  *)
Definition ex_pvcolon : list xcmd :=
  [ {| xc_result := Some (rx "B"); xc_name := rx "Cmd"; xc_trail := false;
       xc_args := [ (rx "M", XADict (KW [WW (rx "when")], PVColon [WI (rx "12"); WW (rx "h")] [[WI (rx "30"); WW (rx "h")]])
                                    [(KQ (rx """p"""), PVColon [WW (rx "C")] [[WP (rx "\x")]])] false) ] |} ].
Definition ex_pvcolon_gaps : list text :=
  let sp := [32%N] in [ []; sp; sp; []; []; sp; sp; []; []; sp; sp; []; []; sp; []; sp; []; sp; []; []; []; [] ].
Example C10_colon_in_pair_example : surface_okb (fun _ => None) ex_pvcolon ex_pvcolon_gaps [] = true /\
  lay (combine ex_pvcolon_gaps (tkx_program ex_pvcolon)) [] = rx "B = Cmd(M = [when: 12 h:30 h, ""p"": C:\x])" /\
  map xcmd_den ex_pvcolon = [ (Some (rx "B"), rx "Cmd", [ (rx "M", PE (PDict [(rx "p", PE (PStr (rx "C:\x")) 0%N); (rx "when", PE (PStr (rx "12h:30h")) 0%N)]) 0%N) ]) ].
Proof. vm_compute. repeat split; reflexivity. Qed.

(* NOT proved: renderings in which two adjacent tokens are separated only by PLY's longest-match rule (`1.5.2x`: the boundary
   hypothesis lay_ok is sufficient, not necessary), and malformed input.  These are covered by the correspondence only: random
   programs x random layouts, single-token corruptions, token soups, mixed lists, unquoted multi-word text, all compared with the
   real parser's result including line numbers; the evidence counts how many of the accepted renderings are instances of
   C10_layout_irrelevance (Coq re-assembles each text from its decomposition and evaluates surface_okb) and says why the others
   are not.  Recorded limitation of the code itself (modelled faithfully): an unquoted multi-word value loses its blanks and
   re-prints numerals ("This is a string." -> "Thisisastring."). *)
Print Assumptions C10_lexer_rules.
Print Assumptions C10_grammar.
Print Assumptions C10_tokens_are_pieces_of_the_source.
Print Assumptions C10_parse_tree_yields_the_tokens.
Print Assumptions C10_outcomes.
Print Assumptions C10_layout_irrelevance.
Print Assumptions C10_same_denotation.
Print Assumptions C10_layout_of_serialised_programs.
