(* C19 -- command lookup depends only on the libraries requested. *)
From Coq Require Import String List Bool.
From MP Require Import Model.Registry Proofs.RegistryProofs Gen.GenFacts.
Import ListNotations.
Open Scope string_scope.

(* tie: the selection test of Program.__init__, read off the source by the translator *)
Theorem C19_filter_kind : lib_filter_kind = MatchModuleOrSub.
Proof. reflexivity. Qed.

(* For every universe of source files U, every history h of class definitions and Program constructions
   (any length, any libraries, prefix-related names included) consistent with the source files, and every
   request libs: the lookup built by Program(libraries=libs) is the history-free function of libs. *)
Theorem C19 : forall U h libs extra,
  NoDup U -> consistent U libs (h ++ [EConstruct libs extra]) ->
  lib_equiv (construct U lib_filter_kind (run U h) libs extra) (spec U libs).
Proof. rewrite C19_filter_kind. exact construct_history_free. Qed.

Theorem C19_dup : forall U h libs extra a b,
  NoDup U -> consistent U libs (h ++ [EConstruct libs extra]) ->
  In a U -> In b U -> a <> b -> snd a = snd b ->
  selected MatchModuleOrSub libs a = true -> selected MatchModuleOrSub libs b = true ->
  construct U lib_filter_kind (run U h) libs extra = None.
Proof. rewrite C19_filter_kind. exact construct_duplicate_fails. Qed.

(* non-vacuity, and the prefix-related history of the pinned tree's defect: with module-or-submodule
   matching the request for lib_a is not disturbed by an earlier Program over lib_ab *)
Example C19_example :
  let U := [("lib_a", "CmdA"); ("lib_a", "Shared"); ("lib_ab", "CmdAB"); ("lib_ab", "Shared")] in
  construct U lib_filter_kind (run U [EConstruct ["lib_ab"] []]) ["lib_a"] [] = Some [("lib_a", "CmdA"); ("lib_a", "Shared")]
  /\ construct U MatchPrefix (run U [EConstruct ["lib_ab"] []]) ["lib_a"] [] = None
  /\ construct U lib_filter_kind (run U []) ["lib_a"; "lib_ab"] [] = None.
Proof. vm_compute. repeat split; reflexivity. Qed.

Print Assumptions C19_filter_kind.
Print Assumptions C19.
Print Assumptions C19_dup.
