(* C08 -- fuzzy conversions and normalisations compute their documented mappings. *)
From Coq Require Import QArith List Bool ZArith Permutation Sorting.Sorted Lqa.
From MP Require Import Model.Cells Proofs.CellProofs Proofs.CellPerm Proofs.CellAlgebra Proofs.CellMaps.
Import ListNotations.
Open Scope Q_scope.

(* CvtToFuzzy: the true threshold goes to +1 and the false threshold to -1, linearly (lin_f is the affine map
   through (tv, 1) and (fv, -1)), clamped; thresholds default to the data minimum / maximum by direction *)
Theorem C08_cvt_to_fuzzy : forall t f d ins tv fv x,
  ctf_thresholds t f d (vals_of ins) = Some (tv, fv) -> ~ tv == fv ->
  colf (CvtToFuzzy t f d) ins [x] = Some (fz (lin_f tv 1 fv (-1) x)) /\
  fz (lin_f tv 1 fv (-1) tv) == 1 /\ fz (lin_f tv 1 fv (-1) fv) == -1 /\
  (forall y z l, lin_f tv 1 fv (-1) (l * y + (1 - l) * z) == l * lin_f tv 1 fv (-1) y + (1 - l) * lin_f tv 1 fv (-1) z).
Proof. intros t f d ins tv fv x H N. split; [apply cvt_to_fuzzy_map; assumption|].
  destruct (cvt_to_fuzzy_endpoints tv fv N) as [A B]. split; [exact A | split; [exact B|]]. intros. apply lin_affine. lra. Qed.
Theorem C08_cvt_to_fuzzy_defaults : forall t f d vals lo hi, lo_of vals = Some lo -> hi_of vals = Some hi ->
  ctf_thresholds t f d vals =
  Some (match t with Some v => v | None => match d with DirHighToLow => lo | _ => hi end end,
        match f with Some v => v | None => match d with DirHighToLow => hi | _ => lo end end).
Proof. exact cvt_to_fuzzy_defaults. Qed.
(* CvtFromFuzzy is its inverse between the thresholds *)
Theorem C08_cvt_from_fuzzy_inverse : forall tv fv ins x, ~ tv == fv -> -1 <= lin_f tv 1 fv (-1) x <= 1 ->
  exists y, colf (CvtFromFuzzy tv fv) ins [fz (lin_f tv 1 fv (-1) x)] = Some y /\ y == x.
Proof. intros tv fv ins x N R. eexists. split; [apply cvt_from_fuzzy_map | apply cvt_from_to_inverse; assumption]. Qed.
(* monotone: with the false threshold below the true one the order of cells is preserved *)
Theorem C08_monotone : forall tv fv x y, fv < tv -> x <= y -> fz (lin_f tv 1 fv (-1) x) <= fz (lin_f tv 1 fv (-1) y).
Proof. exact cvt_to_fuzzy_monotone. Qed.

(* each CvtToFuzzy variant is its Normalize counterpart clamped to [-1, 1], with the same checks *)
Theorem C08_variants : forall ins vs,
  (forall s t f, colf (CvtToFuzzyZScore s t f) ins vs
                 = ofz (colf (NormalizeZScore s (Some (opt 1 t)) (Some (opt (-1) f)) (Some (-1)) (Some 1)) ins vs)) /\
  (forall r n d, colf (CvtToFuzzyCat r n d) ins vs = ofz (colf (NormalizeCat r n d) ins vs)) /\
  (forall r n, colf (CvtToFuzzyCurve r n) ins vs = ofz (colf (NormalizeCurve r n) ins vs)) /\
  (forall iz n, colf (CvtToFuzzyMeanToMid iz n) ins vs = ofz (colf (NormalizeMeanToMid iz n) ins vs)) /\
  (forall s z n, colf (CvtToFuzzyCurveZScore s z n) ins vs = ofz (colf (NormalizeCurveZScore s z n) ins vs)).
Proof. exact variants_are_clamped_normalize. Qed.
Theorem C08_variants_checks : forall ins,
  (forall s t f, pre (CvtToFuzzyZScore s t f) ins = pre (NormalizeZScore s t f None None) ins) /\
  (forall r n d, pre (CvtToFuzzyCat r n d) ins = pre (NormalizeCat r n d) ins) /\
  (forall r n, pre (CvtToFuzzyCurve r n) ins = pre (NormalizeCurve r n) ins) /\
  (forall iz n, pre (CvtToFuzzyMeanToMid iz n) ins = pre (NormalizeMeanToMid iz n) ins) /\
  (forall s z n, pre (CvtToFuzzyCurveZScore s z n) ins = pre (NormalizeCurveZScore s z n) ins).
Proof. exact variants_same_checks. Qed.

(* CvtToBinary: the threshold test *)
Theorem C08_binary : forall thr ins x,
  colf (CvtToBinary thr DirLowToHigh) ins [x] = Some (if Qlt_le_dec x thr then 0 else 1) /\
  colf (CvtToBinary thr DirHighToLow) ins [x] = Some (if Qlt_le_dec x thr then 1 else 0).
Proof. exact cvt_to_binary_map. Qed.

(* category lookup: the value listed for the matching raw value, else the default *)
Theorem C08_cat : forall raws normals d ins x,
  colf (NormalizeCat raws normals d) ins [x] = Some (lookup_cat raws normals d x) /\
  (forall i r v, nth_error raws i = Some r -> nth_error normals i = Some v -> has_dupq raws = false -> x == r ->
                 lookup_cat raws normals d x = v) /\
  ((forall r, In r raws -> ~ x == r) -> lookup_cat raws normals d x = d).
Proof. intros. split; [reflexivity | split; [intros; eapply cat_lookup_hit; eauto | apply cat_lookup_miss]]. Qed.

(* piecewise-linear curve: control points are the given pairs in ascending raw order (any order of entry);
   flat below the first and above the last, the straight line through the two neighbours in between *)
Theorem C08_curve : forall raws normals ins x,
  colf (NormalizeCurve raws normals) ins [x] = interp (curve_pts raws normals) x /\
  Permutation (curve_pts raws normals) (zipw pair raws normals) /\ Sorted fst_le (curve_pts raws normals).
Proof. intros. split; [reflexivity | split; [apply curve_pts_perm | apply curve_pts_sorted]]. Qed.
Theorem C08_curve_shape : forall p0 x,
  (forall t, x <= fst p0 -> interp (p0 :: t) x = Some (snd p0)) /\
  (forall t, Forall (fun p => fst p < x) (p0 :: t) -> interp (p0 :: t) x = Some (snd (last t p0))) /\
  (forall pre_ p q rest, fst p0 < x -> Forall (fun r => fst r < x) pre_ -> fst p < x -> x <= fst q ->
     interp (p0 :: pre_ ++ p :: q :: rest) x
     = Some (x * ((snd q - snd p) / (fst q - fst p)) + (snd p - (snd q - snd p) / (fst q - fst p) * fst p))).
Proof. intros. split; [intros; apply curve_below; assumption | split; [intros; apply curve_above; assumption | intros; apply curve_between; assumption]]. Qed.
(* z-score and mean-to-mid conversions are the same curve / line over control points derived from the statistics *)
Theorem C08_derived : forall ins x,
  (forall s zs n, colf (NormalizeCurveZScore s zs n) ins [x]
                  = interp (sort_pts (zipw pair (map (fun z => mean_of (vals_of ins) + z * s) zs) n)) x) /\
  (forall iz n, colf (NormalizeMeanToMid iz n) ins [x] = interp (mtm_pts iz n (vals_of ins)) x) /\
  (forall s t f a e, colf (NormalizeZScore s t f a e) ins [x]
                     = zscore_f s (mean_of (vals_of ins)) (opt 0 t) (opt 1 f) (opt 0 a) (opt 1 e) x).
Proof. intros. repeat split; reflexivity. Qed.

(* non-vacuity: unsorted control points, a value on a control point, defaults with HighToLow, mean-to-mid *)
Example C08_example :
  let a := {| a_dt := DFloat; a_shape := [5%nat]; a_cells := [Some 0; Some 2; Some 4; None; Some 10] |} in
  run (NormalizeCurve [4; 0; 10] [1; 0; 3]) [a] = ROk {| a_dt := DFloat; a_shape := [5%nat]; a_cells := [Some 0; Some (1#2); Some 1; None; Some 3] |} /\
  run (CvtToFuzzy None None DirHighToLow) [a] = ROk {| a_dt := DFloat; a_shape := [5%nat]; a_cells := [Some 1; Some (3#5); Some (1#5); None; Some (-1)] |} /\
  run (CvtToFuzzy (Some 0) (Some 0) DirNone) [a] = RErr EInvalidThresholds.
Proof. vm_compute. repeat split; reflexivity. Qed.

Print Assumptions C08_cvt_to_fuzzy.
Print Assumptions C08_cvt_to_fuzzy_defaults.
Print Assumptions C08_cvt_from_fuzzy_inverse.
Print Assumptions C08_monotone.
Print Assumptions C08_variants.
Print Assumptions C08_variants_checks.
Print Assumptions C08_binary.
Print Assumptions C08_cat.
Print Assumptions C08_curve.
Print Assumptions C08_curve_shape.
Print Assumptions C08_derived.
