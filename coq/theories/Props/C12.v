(* C12 -- models are accepted iff well-formed, and rejected before any side effect. *)
From Coq Require Import String List Bool ZArith QArith.
From MP Require Import Base.Sig Model.Params Proofs.ParamsProofs Model.Loader Proofs.LoaderProofs Gen.GenSigs Gen.GenParamFacts.
Import ListNotations.
Open Scope string_scope.

(* ties regenerated on every run: handlers/guards of the cleaners, exactness of the String guard, every declared
   parameter of both library sets is of a modelled class *)
Theorem C12_source_facts : good_facts param_facts = true /\ string_guard_exact param_facts = true.
Proof. vm_compute. split; reflexivity. Qed.
Definition all_supported (sigs : list sig) : bool := forallb (fun s => forallb (fun p => supported (p_kind p)) (s_inputs s)) sigs.
Theorem C12_signatures_modelled : all_supported sigs_csv = true /\ all_supported sigs_netcdf = true.
Proof. vm_compute. split; reflexivity. Qed.

Definition accept sigs := load_and_prepass param_facts accepts_table sigs.

(* For every signature table whose declarations are of modelled classes (in particular both built-in library sets),
   every working directory / file system, every list of command nodes with arguments of every kind: loading plus the
   validation pre-pass raise no error EXACTLY WHEN the model is well-formed -- command names exist, result names are
   unique, required parameters present, no undeclared parameter, every argument of the declared kind, every
   referenced result exists with the declared output kind and fuzziness ([wf], stated without reference to the order of
   the checks; Model/Loader.v). *)
Theorem C12_accepted_iff_well_formed : forall sigs wdir ex nodes, all_supported sigs = true ->
  accept sigs wdir ex nodes = None <-> wf accepts_table sigs wdir ex nodes = true.
Proof. intros sigs wdir ex nodes S. destruct C12_source_facts as [G1 G2]. exact (accepted_iff_wf param_facts accepts_table sigs G1 G2 S wdir ex nodes). Qed.
Corollary C12_builtin_csv : forall wdir ex nodes, accept sigs_csv wdir ex nodes = None <-> wf accepts_table sigs_csv wdir ex nodes = true.
Proof. intros. apply C12_accepted_iff_well_formed. exact (proj1 C12_signatures_modelled). Qed.
Corollary C12_builtin_netcdf : forall wdir ex nodes, accept sigs_netcdf wdir ex nodes = None <-> wf accepts_table sigs_netcdf wdir ex nodes = true.
Proof. intros. apply C12_accepted_iff_well_formed. exact (proj2 C12_signatures_modelled). Qed.

(* the specific error names a real fault of the model: the offending command, parameter, value or result *)
Theorem C12_blame : forall sigs wdir ex nodes e, accept sigs wdir ex nodes = Some e ->
  match e with
  | LCommandDoesNotExist c l => exists n, In n nodes /\ n_cmd n = c /\ n_line n = l /\ find_sig sigs c = None
  | LDuplicateResult r l => exists pre n post, nodes = (pre ++ n :: post)%list /\ n_result n = r /\ n_line n = l /\ In r (map n_result pre)
  | LMissingParameters c miss l => exists n s, In n nodes /\ n_cmd n = c /\ n_line n = l /\ find_sig sigs c = Some s /\ miss <> [] /\
                                   forall m, In m miss <-> (In m (required s) /\ ~ In m (given n))
  | LNoSuchParameter c p l => exists n s a, In n nodes /\ n_cmd n = c /\ find_sig sigs c = Some s /\ In a (n_args n) /\ g_name a = p /\ g_line a = l /\
                              s_extra s = false /\ ~ In p (declared s)
  | LParam pe l => exists n s a p, In n nodes /\ find_sig sigs (n_cmd n) = Some s /\ In a (n_args n) /\ g_line a = l /\
                   find_param (s_inputs s) (g_name a) = Some p /\
                   clean param_facts accepts_table (env_of_nodes sigs wdir ex nodes) (p_kind p) (g_value a) = CErr pe
  end.
Proof. intros. apply (blame param_facts accepts_table sigs wdir ex nodes e H). Qed.

(* rejection comes first: in the model of running a program the executed trace of a rejected model is empty by
   construction (Program.run performs the pre-pass before the first execute; that the code does so is what the
   correspondence observes: execute log and directory listing at the moment of rejection) *)
Inductive outcome := Rejected (e : lerr) | Started.
Definition run_model sigs wdir ex nodes : outcome * list string (* results executed before the outcome was known *) :=
  match accept sigs wdir ex nodes with Some e => (Rejected e, []) | None => (Started, []) end.
Theorem C12_rejected_before_any_execution : forall sigs wdir ex nodes e,
  fst (run_model sigs wdir ex nodes) = Rejected e -> snd (run_model sigs wdir ex nodes) = [].
Proof. intros. unfold run_model in *. destruct (accept sigs wdir ex nodes); reflexivity. Qed.

(* non-vacuity: a well-formed forward-referencing model, and three single faults *)
Example C12_example :
  let ex := fun s => String.eqb s "/w/d.csv" in
  let rd := {| n_result := "A"; n_cmd := "EEMSRead"; n_line := 1;
               n_args := [{| g_name := "InFileName"; g_value := RStr "d.csv" None None; g_line := 1 |}; {| g_name := "InFieldName"; g_value := RStr "a" None None; g_line := 1 |}] |} in
  let fzc v := {| n_result := "F"; n_cmd := "CvtToFuzzy"; n_line := 2; n_args := [{| g_name := "InFieldName"; g_value := v; g_line := 2 |}] |} in
  let nt x := {| n_result := "N"; n_cmd := "FuzzyNot"; n_line := 3; n_args := [{| g_name := "InFieldName"; g_value := RStr x None None; g_line := 3 |}] |} in
  accept sigs_csv (Some "/w") ex [nt "F"; fzc (RStr "A" None None); rd] = None /\
  wf accepts_table sigs_csv (Some "/w") ex [nt "F"; fzc (RStr "A" None None); rd] = true /\
  accept sigs_csv (Some "/w") ex [nt "A"; fzc (RStr "A" None None); rd] = Some (LParam (EResultNotFuzzy "A") 3) /\
  accept sigs_csv (Some "/w") ex [nt "F"; fzc (RList [RStr "A" None None]); rd] = Some (LParam (EParameterNotValid "Result") 2) /\
  accept sigs_csv None ex [rd] = Some (LParam EInvalidRelativePath 1).
Proof. vm_compute. repeat split; reflexivity. Qed.

Print Assumptions C12_source_facts.
Print Assumptions C12_signatures_modelled.
Print Assumptions C12_accepted_iff_well_formed.
Print Assumptions C12_blame.
Print Assumptions C12_rejected_before_any_execution.
