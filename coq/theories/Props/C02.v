(* C02 -- model results equal the evaluation of the graph, whatever the file order. *)
From Coq Require Import QArith List Arith Bool Permutation.
From MP Require Import Model.Sched Proofs.SchedProofs Proofs.SchedTop Model.Cells Model.EemsProg.
Import ListNotations.
Open Scope nat_scope.

(* For EVERY command semantics F and every accepted program (unique names, references resolve, no loop; P is
   the file order, forward references allowed): after run() the result of every command c is F c applied to
   the results of the commands it references -- the results solve the data-flow equations of the graph ... *)
Theorem C02_values : forall (V : Type) (F : cmd -> list V -> V) P fuel,
  accepted P -> length P < fuel ->
  exists s, run_program F fuel P (init V) = Ok s /\ solves V F P (get s).
Proof. intros V F P fuel A Hf. destruct (run_ok V F P fuel A Hf) as [s [E [_ [_ S]]]]. exists s. split; assumption. Qed.

(* ... and these equations have exactly one solution on an acyclic graph: the value of a command is determined
   by the graph and the input data alone (the mathematical evaluation), not by which other commands consume an
   intermediate result, by the schedule, or by anything else *)
Theorem C02_evaluation_unique : forall (V : Type) (F : cmd -> list V -> V) P rank g g',
  wf_dag P rank -> solves V F P g -> solves V F P g' -> forall n, In n (names P) -> g n = g' n.
Proof. exact solution_unique. Qed.

(* file order is irrelevant: every permutation of the commands computes the same result for every command *)
Theorem C02_order : forall (V : Type) (F : cmd -> list V -> V) P P' fuel s s',
  accepted P -> accepted P' -> Permutation P P' -> length P < fuel ->
  run_program F fuel P (init V) = Ok s -> run_program F fuel P' (init V) = Ok s' ->
  forall n, In n (names P) -> get s n = get s' n.
Proof. exact order_irrelevant. Qed.

(* the EEMS instance: sources are arrays, every other node a data command of Model/Cells.v; metadata is not an
   input of the semantics at all (that the code ignores it is what the correspondence observes) *)
Corollary C02_eems : forall sem P fuel,
  accepted P -> length P < fuel ->
  exists s, run_program (eemsF sem) fuel P (init (res arr)) = Ok s /\
    forall c, In c P -> exists vs, Forall2 (fun d v => get s d = Some v) (refs c) vs /\ get s (nm c) = Some (eemsF sem c vs).
Proof. intros sem P fuel A Hf. destruct (C02_values (res arr) (eemsF sem) P fuel A Hf) as [s [E S]]. exists s. split; [exact E | exact S]. Qed.

(* non-vacuity: a forward-referencing three-command model with a missing cell and an integer column *)
Example C02_example :
  let a := {| a_dt := DInt; a_shape := [3%nat]; a_cells := [Some 1; None; Some 4]%Q |} in
  let b := {| a_dt := DFloat; a_shape := [3%nat]; a_cells := [Some (1#2); Some 2; Some 0]%Q |} in
  let sem := sem_of [(0, NSource a); (1, NSource b); (2, NOp Sum); (3, NOp ADividedByB)] in
  let P := [ {| nm := 3; rl := [(true, 2); (true, 1)] |}; {| nm := 2; rl := [(false, 0); (false, 1)] |};
             {| nm := 0; rl := [] |}; {| nm := 1; rl := [] |} ] in
  match run_program (eemsF sem) 6 P (init (res arr)) with
  | Ok s => get s 3 = Some (ROk {| a_dt := DFloat; a_shape := [3%nat]; a_cells := [Some 3; None; None]%Q |})
  | _ => False end.
Proof. vm_compute. reflexivity. Qed.

Print Assumptions C02_values.
Print Assumptions C02_evaluation_unique.
Print Assumptions C02_order.
Print Assumptions C02_eems.
