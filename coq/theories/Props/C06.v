(* C06 -- fuzzy-logic operators compute the EEMS definitions and obey their algebra. *)
From Coq Require Import QArith List Bool ZArith Permutation Sorting.Sorted.
From MP Require Import Model.Cells Proofs.CellProofs Proofs.CellPerm Proofs.CellAlgebra.
Import ListNotations.
Open Scope Q_scope.

(* What each operator computes from the values vs of one column (all inputs present at that cell), for any number
   of inputs.  Every value is then clamped to [-1, 1] (fz is the identity on fuzzy values). *)
Theorem C06_definitions : forall ins vs,
  (forall o, colf FuzzyOr ins vs = Some o -> exists m, is_max m vs /\ o = fz m) /\
  (forall a, colf FuzzyAnd ins vs = Some a -> exists m, is_min m vs /\ a = fz m) /\
  (forall x, colf FuzzyNot ins [x] = Some (fz (- x))) /\
  colf FuzzyUnion ins vs = Some (fz (qsum vs / qlen vs)) /\
  (forall ws, colf (FuzzyWeightedUnion ws) ins vs =
              if Qeq_bool (qsum (wvals ws)) 0 then None else Some (fz (wsum (wvals ws) vs / qsum (wvals ws)))) /\
  (* mean of the k truest / k falsest: the last / first k of the ascending sorted rearrangement of the column *)
  (forall k, colf (FuzzySelectedUnion (Some true) (Z.of_nat k)) ins vs =
             Some (fz (qmean (skipn (length (sortq vs) - k) (sortq vs))))) /\
  (forall k, colf (FuzzySelectedUnion (Some false) (Z.of_nat k)) ins vs = Some (fz (qmean (firstn k (sortq vs))))) /\
  Permutation (sortq vs) vs /\ Sorted Qle (sortq vs) /\
  (* exclusive or: from the truest t1 and the second truest t2 *)
  (forall t1 t2 rest, rev (sortq vs) = t1 :: t2 :: rest ->
     colf FuzzyXOr ins vs = Some (fz (if Qle_bool t1 (-1) then -1 else t1 - (t1 - t2) * (t2 + 1) / (t1 + 1)))).
Proof.
  intros ins vs. repeat apply conj.
  - unfold colf; simpl. intros o H. destruct (qmaxl vs) as [m|] eqn:E; [|discriminate]. inversion H. exists m. split; [apply qmaxl_is_max; exact E | reflexivity].
  - unfold colf; simpl. intros a H. destruct (qminl vs) as [m|] eqn:E; [|discriminate]. inversion H. exists m. split; [apply qminl_is_min; exact E | reflexivity].
  - reflexivity.
  - reflexivity.
  - intros ws. unfold colf; simpl. unfold divq. destruct (Qeq_bool _ 0); reflexivity.
  - intros k. unfold colf; simpl. unfold sel_union. rewrite Nat2Z.id. reflexivity.
  - intros k. unfold colf; simpl. unfold sel_union. rewrite Nat2Z.id. reflexivity.
  - apply sortq_perm.
  - apply sortq_sorted.
  - intros t1 t2 rest H. unfold colf; simpl. unfold xor_cell. rewrite H. reflexivity.
Qed.

(* Consequences.  (1) reordering the inputs changes nothing: neither outcome, element type, shape nor any cell --
   Or, And, Union, XOr, SelectedUnion (and the commutative arithmetic commands) *)
Theorem C06_order_invariance : forall c ins ins' n,
  commutative c = true -> Permutation ins ins' -> Forall (fun a => length (a_cells a) = n) ins ->
  res_same (run c ins) (run c ins').
Proof. exact run_order_invariant. Qed.
(* (2) Not is an involution on fuzzy values and exchanges Or with And *)
Theorem C06_not_involution : forall ins x y z, -1 <= x <= 1 ->
  colf FuzzyNot ins [x] = Some y -> colf FuzzyNot ins [y] = Some z -> z == x.
Proof. exact not_involution. Qed.
Theorem C06_de_morgan : forall ins vs o n a, Forall (fun x => -1 <= x <= 1) vs ->
  colf FuzzyOr ins vs = Some o -> colf FuzzyNot ins [o] = Some n ->
  colf FuzzyAnd ins (map (fun x => fz (- x)) vs) = Some a -> n == a.
Proof. exact not_or_is_and_not. Qed.
(* (3) And <= Union <= Or *)
Theorem C06_and_union_or : forall ins vs a u o,
  colf FuzzyAnd ins vs = Some a -> colf FuzzyUnion ins vs = Some u -> colf FuzzyOr ins vs = Some o -> a <= u <= o.
Proof. exact and_union_or. Qed.
(* (4) selected union with k = 1 is Or (truest) / And (falsest); with k = all it is Union *)
Theorem C06_selected_k1 : forall ins vs, vs <> [] ->
  oeq (colf (FuzzySelectedUnion (Some true) 1) ins vs) (colf FuzzyOr ins vs) /\
  oeq (colf (FuzzySelectedUnion (Some false) 1) ins vs) (colf FuzzyAnd ins vs).
Proof. intros ins vs N. split; [apply selected_truest1_is_or | apply selected_falsest1_is_and]; exact N. Qed.
Theorem C06_selected_all : forall ins tr vs,
  oeq (colf (FuzzySelectedUnion (Some tr) (Z.of_nat (length vs))) ins vs) (colf FuzzyUnion ins vs).
Proof. exact selected_all_is_union. Qed.

(* non-vacuity: three inputs with a tie, the XOr singularity at -1, and a missing cell *)
Example C06_example :
  let mk l := {| a_dt := DFloat; a_shape := [4%nat]; a_cells := l |} in
  let ins := [mk [Some (1#2); Some (-1); Some (1#4); None]; mk [Some (1#2); Some (-1); Some (-1#2); Some 0]; mk [Some (-1#4); Some (-1); Some 1; Some 1]] in
  run FuzzyXOr ins = ROk (mk [Some (1#2); Some (-1); Some (17#32); None]) /\
  run (FuzzySelectedUnion (Some true) 2) ins = ROk (mk [Some (1#2); Some (-1); Some (5#8); None]).
Proof. vm_compute. split; reflexivity. Qed.

Print Assumptions C06_definitions.
Print Assumptions C06_order_invariance.
Print Assumptions C06_not_involution.
Print Assumptions C06_de_morgan.
Print Assumptions C06_and_union_or.
Print Assumptions C06_selected_k1.
Print Assumptions C06_selected_all.
