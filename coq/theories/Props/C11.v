(* C11 -- line numbers in parse trees and errors are the true source lines. *)
From Coq Require Import NArith List Bool String.
From MP Require Import Model.Lexer Gen.GenGrammar Model.Parser Proofs.LexProofs Proofs.ParserProofs Model.Loader Props.C12.
From MP Require Import Model.ParserObj Proofs.ParserObjProofs Gen.GenFacts Corr.CheckParserObj.
From MP Require Import Model.Cli Proofs.CliProofs.
Import ListNotations.
Open Scope N_scope.

(* For EVERY text whose line ends are LF or CRLF -- any arrangement of blank lines, comment lines, trailing comments,
   arguments spread over several lines, line breaks inside quoted strings -- every token carries 1 + the number of line
   feeds that precede its position, i.e. the 1-based line on which it starts. *)
Theorem C11_token_lines : forall s toks, crlfb s = true -> lex_all s = LexOk toks ->
  Forall (fun t => t_line t = 1 + count_lf (firstn (t_pos t) s)) toks.
Proof. exact token_lines_true. Qed.

(* The nodes take their lines from tokens: a command carries the line of its first token (the result name; the command
   name for EEMS 2.0 style), an argument the line of its name, a value / list element the line of its first token, a tuple
   value the line of its key -- this is how the semantic-action model reads p.lineno(k); with C10 (the leaves of the tree are
   the tokens in order) every line in the tree is the line of a source token. *)
Theorem C11_node_lines : forall fs r c args k1 t,
  eval fs (Br F_p_command [Leaf r; k1; Leaf c; args]) = SOk t ->
  match t with SCmd cmd _ => pc_line cmd = t_line r | _ => False end.
Proof. intros fs r c args k1 t H. cbn [eval] in H. destruct (eval fs args) as [[]| |]; simpl in H; try discriminate; inversion H; reflexivity. Qed.
Theorem C11_argument_lines : forall fs n k e t,
  eval fs (Br F_p_argument [Leaf n; k; e]) = SOk t -> match t with SArg a => pa_line a = t_line n | _ => False end.
Proof. intros fs n k e t H. cbn [eval] in H. destruct (eval fs e) as [[]| |]; simpl in H; try discriminate; inversion H; reflexivity. Qed.

(* independence of history.  A Parser object keeps three things between two calls of parse(): the lexer's running line
   counter, the EEMS 2.0 flag and the list of pending action errors (Model/ParserObj.v).  REGENERATED OBLIGATION: parse()
   re-initialises all three before yacc runs (read off the source on every run). *)
Theorem C11_parser_resets : parser_resets = (true, true, true).
Proof. reflexivity. Qed.
(* Hence, for EVERY state the object may be in -- whatever it parsed before, successfully or not -- parse() delivers exactly
   what a fresh parser delivers for the text, lines included, and leaves the object in a state that depends on that text alone. *)
Theorem C11_history_free : forall fs (o : pobj) s, fst (parse_obj gen_resets fs o s) = parse fs s.
Proof. exact parse_obj_reset. Qed.
Theorem C11_state_after_parse : forall fs (o o' : pobj) s, snd (parse_obj gen_resets fs o s) = snd (parse_obj gen_resets fs o' s).
Proof. exact parse_obj_state. Qed.
(* Each of the three resets is needed: drop one and there is a reachable state of the object (after `A = B()` + line feed; after
   the EEMS 2.0 text `B()`; with an error pending) from which `A = B()` is delivered with another line / version / not at all.
   (The dynamic side: the driver re-uses one Parser object for its whole stream, observes the object's state before and after
   every parse and checks each step against parse_obj -- Corr/CheckParserObj.v.) *)
Theorem C11_each_reset_is_needed :
  (let R := {| rs_lineno := false; rs_v2 := true; rs_errors := true |} in
   fst (parse_obj R (fun _ => None) (after R t_cmd_nl) t_cmd) <> parse (fun _ => None) t_cmd) /\
  (let R := {| rs_lineno := true; rs_v2 := false; rs_errors := true |} in
   fst (parse_obj R (fun _ => None) (after R t_v2) t_cmd) <> parse (fun _ => None) t_cmd) /\
  (let R := {| rs_lineno := true; rs_v2 := true; rs_errors := false |} in
   fst (parse_obj R (fun _ => None) {| po_lineno := 1; po_v2 := false; po_pending := true |} t_cmd) <> parse (fun _ => None) t_cmd).
Proof. exact (conj lineno_reset_needed (conj v2_reset_needed errors_reset_needed)). Qed.

(* errors: every load-time and validation error carries the line of the offending command or argument node *)
Theorem C11_error_lines : forall sigs wdir ex nodes e, accept sigs wdir ex nodes = Some e ->
  match e with
  | LCommandDoesNotExist _ l | LDuplicateResult _ l | LMissingParameters _ _ l => exists n, In n nodes /\ n_line n = l
  | LNoSuchParameter _ _ l | LParam _ l => exists n a, In n nodes /\ In a (n_args n) /\ g_line a = l
  end.
Proof. intros sigs wdir ex nodes e H. pose proof (C12_blame sigs wdir ex nodes e H) as B. destruct e.
  - destruct B as (n & A & _ & L & _). eauto.
  - destruct B as (pre & n & post & E & _ & L & _). exists n. split; [rewrite E; apply in_or_app; right; left; reflexivity | exact L].
  - destruct B as (n & s & A & _ & L & _). eauto.
  - destruct B as (n & s & a & A & _ & _ & Ia & _ & L & _). eauto.
  - destruct B as (n & s & a & p & A & _ & Ia & L & _). eauto.
Qed.

(* the command-line tool (Model/Cli.v: mpilot/cli/mpilot.py reads the file in text mode, strips the line ends, joins the lines with
   LF for the parser, and prints lines[lineno-4 .. lineno+1] around an error with `-->` before lines[lineno-1]).  For EVERY command
   file -- LF, CRLF or CR line ends, with or without a final line break, any characters -- and every token of the source the
   parser is given: the context display for the token's line exists (no IndexError), and the marked line is the line of the file
   in which the token starts: the source before the token is exactly the lines before the marked one, complete, plus a prefix of
   the marked line.  With C11_error_lines (errors carry the line of a node) and C11_node_lines (nodes carry the line of their
   first token) the line the tool marks for a load-time or validation error is the line on which the offending command or
   argument starts. *)
Theorem C11_cli_marks_the_token_line : forall file toks, lex_all (source_of_file file) = LexOk toks ->
  Forall (fun t => exists before marked after pre post,
            context (lines_of_file file) (N.to_nat (t_line t)) = Some (before, marked, after) /\ marked = (pre ++ post)%list /\
            firstn (t_pos t) (source_of_file file) = join_lf (firstn (N.to_nat (t_line t) - 1) (lines_of_file file) ++ [pre])%list) toks.
Proof. exact cli_marks_the_token_line. Qed.
(* "A = B(\r\n\r\n  x = 1)\r\n": three lines; the argument is on line 3 and that is the line marked, with the two lines before it shown *)
Example C11_cli_example :
  let file := [65; 32; 61; 32; 66; 40; 13; 10; 13; 10; 32; 32; 120; 32; 61; 32; 49; 41; 13; 10] in
  lines_of_file file = [[65; 32; 61; 32; 66; 40]; []; [32; 32; 120; 32; 61; 32; 49; 41]] /\
  context (lines_of_file file) 3 = Some ([[65; 32; 61; 32; 66; 40]; []], [32; 32; 120; 32; 61; 32; 49; 41], []) /\
  context (lines_of_file file) 4 = None.
Proof. vm_compute. repeat split; reflexivity. Qed.

Print Assumptions C11_token_lines.
Print Assumptions C11_node_lines.
Print Assumptions C11_argument_lines.
Print Assumptions C11_error_lines.
Print Assumptions C11_parser_resets.
Print Assumptions C11_history_free.
Print Assumptions C11_state_after_parse.
Print Assumptions C11_each_reset_is_needed.
Print Assumptions C11_cli_marks_the_token_line.
