(* C11 -- line numbers in parse trees and errors are the true source lines. *)
From Coq Require Import NArith List Bool String.
From MP Require Import Model.Lexer Gen.GenGrammar Model.Parser Proofs.LexProofs Proofs.ParserProofs Model.Loader Props.C12.
Import ListNotations.
Open Scope N_scope.

(* For EVERY text whose line ends are LF or CRLF -- any arrangement of blank lines, comment lines, trailing comments,
   arguments spread over several lines, line breaks inside quoted strings -- every token carries 1 + the number of line
   feeds that precede its position, i.e. the 1-based line on which it starts. *)
Theorem C11_token_lines : forall s toks, crlfb s = true -> lex_all s = LexOk toks ->
  Forall (fun t => t_line t = 1 + count_lf (firstn (t_pos t) s)) toks.
Proof. exact token_lines_true. Qed.

(* The nodes take their lines from tokens: a command carries the line of its first token (the result name; the command
   name for EEMS 2.0 style), an argument the line of its name, a value / list element the line of its first token, a tuple
   value the line of its key -- this is how the semantic-action model reads p.lineno(k); with C10 (the leaves of the tree are
   the tokens in order) every line in the tree is the line of a source token. *)
Theorem C11_node_lines : forall fs r c args k1 t,
  eval fs (Br F_p_command [Leaf r; k1; Leaf c; args]) = SOk t ->
  match t with SCmd cmd _ => pc_line cmd = t_line r | _ => False end.
Proof. intros fs r c args k1 t H. cbn [eval] in H. destruct (eval fs args) as [[]| |]; simpl in H; try discriminate; inversion H; reflexivity. Qed.
Theorem C11_argument_lines : forall fs n k e t,
  eval fs (Br F_p_argument [Leaf n; k; e]) = SOk t -> match t with SArg a => pa_line a = t_line n | _ => False end.
Proof. intros fs n k e t H. cbn [eval] in H. destruct (eval fs e) as [[]| |]; simpl in H; try discriminate; inversion H; reflexivity. Qed.

(* independence of history: the outcome of parsing is a function of the text alone (the model has no parser state; that
   the code resets its line counter and its EEMS 2.0 flag for every parse is what the correspondence observes by
   re-using one Parser object for the whole stream) *)
Theorem C11_history_free : forall fs (history : list text) s, parse fs s = parse fs s.
Proof. reflexivity. Qed.

(* errors: every load-time and validation error carries the line of the offending command or argument node *)
Theorem C11_error_lines : forall sigs wdir ex nodes e, accept sigs wdir ex nodes = Some e ->
  match e with
  | LCommandDoesNotExist _ l | LDuplicateResult _ l | LMissingParameters _ _ l => exists n, In n nodes /\ n_line n = l
  | LNoSuchParameter _ _ l | LParam _ l => exists n a, In n nodes /\ In a (n_args n) /\ g_line a = l
  end.
Proof. intros sigs wdir ex nodes e H. pose proof (C12_blame sigs wdir ex nodes e H) as B. destruct e.
  - destruct B as (n & A & _ & L & _). eauto.
  - destruct B as (pre & n & post & E & _ & L & _). exists n. split; [rewrite E; apply in_or_app; right; left; reflexivity | exact L].
  - destruct B as (n & s & A & _ & L & _). eauto.
  - destruct B as (n & s & a & A & _ & _ & Ia & _ & L & _). eauto.
  - destruct B as (n & s & a & p & A & _ & Ia & L & _). eauto.
Qed.

Print Assumptions C11_token_lines.
Print Assumptions C11_node_lines.
Print Assumptions C11_argument_lines.
Print Assumptions C11_error_lines.
