(* C20 -- parameter cleaning is typed, pure and idempotent. *)
From Coq Require Import String List Bool ZArith QArith.
From MP Require Import Base.Sig Model.Params Proofs.ParamsProofs Gen.GenSigs Gen.GenParamFacts Model.Effects Proofs.EffectsProofs Gen.GenCleanEffects.
Import ListNotations.
Open Scope string_scope.

Definition cleanR := clean param_facts accepts_table.

(* ties (regenerated on every run): the cleaners catch what they must and guard what they must; every parameter
   declared by any command of the two built-in library sets is of a modelled class *)
Theorem C20_source_facts : good_facts param_facts = true.
Proof. vm_compute. reflexivity. Qed.
Definition all_kinds (l : list sig) : list pkind := flat_map (fun s => map p_kind (s_inputs s)) l.
Theorem C20_every_declared_parameter_is_modelled :
  forallb supported (all_kinds sigs_csv ++ all_kinds sigs_netcdf) = true.
Proof. vm_compute. reflexivity. Qed.

(* for every parameter declaration p (any nesting of lists, any result typing), every environment (working directory
   set or not, any file system, any program) and every raw value of every kind: cleaning either returns a value of the
   documented type or raises a parameter error -- never a raw Python exception *)
Theorem C20_typed : forall E p v c,
  (forall d, wd E = Some d -> starts_with_slash d = true) -> cleanR E p v = COk c -> has_type E p c = true.
Proof. intros E p v c W H. exact (typed param_facts accepts_table E W p v c H). Qed.
Theorem C20_errors_are_parameter_errors : forall E p v, supported p = true ->
  match cleanR E p v with CErr (EEscape _) => False | _ => True end.
Proof. intros E p v S. pose proof (no_escape param_facts accepts_table E C20_source_facts p v S) as H. unfold cleanR.
  destruct (clean _ _ _ p v) as [c|[]]; simpl in *; auto; discriminate. Qed.
(* integers stay integers, decimals decimals, numeric text becomes the number Python reads in it, anything else is rejected *)
Theorem C20_number_kinds : forall v,
  match v with
  | RInt _ | RFloat _ _ | RBool _ => clean_number param_facts v = COk v
  | RStr _ (Some z) _ => clean_number param_facts v = COk (RInt z)
  | RStr _ None (Some f) => clean_number param_facts v = COk (RFloat f "")
  | _ => clean_number param_facts v = CErr (EParameterNotValid "Number")
  end.
Proof. exact (number_kinds param_facts C20_source_facts). Qed.

(* cleaning an already-cleaned value returns it unchanged (paths: under an absolute working directory) *)
Theorem C20_idempotent : forall E p v c,
  (forall d, wd E = Some d -> starts_with_slash d = true) -> supported p = true ->
  cleanR E p v = COk c -> cleanR E p c = COk c.
Proof. intros E p v c W S H. exact (idempotent param_facts accepts_table E C20_source_facts W p v c S H). Qed.
(* Repeatability -- cleaning the same raw value again gives an equal value -- is not a separate theorem: in the model cleanR is
   a function of the declaration, the environment and the value, and on the code what could make two calls differ is state kept by
   the parameter object or the program, which C20_clean_is_pure below rules out from the source of every clean() body (and which
   the history oracle observes: a long-lived parameter object compared with a fresh deep copy on the same call). *)

(* non-vacuity: nested list of numeric text, a relative path, a data-type name, a wrong kind *)
Example C20_example :
  let E := {| wd := Some "/work"; path_exists := fun s => String.eqb s "/work/in.csv"; cmds := [] |} in
  cleanR E (PList (PList PNumber)) (RList [RList [RStr "-3" (Some (-3)%Z) (Some (FFin (-3#1))); RInt 4]; RList [RStr "1e3" None (Some (FFin (1000#1)))]])
    = COk (RList [RList [RInt (-3); RInt 4]; RList [RFloat (FFin (1000#1)) ""]]) /\
  cleanR E (PPath true) (RStr "in.csv" None None) = COk (RStr "/work/in.csv" None None) /\
  cleanR E (PPath true) (RStr "/work/in.csv" None None) = COk (RStr "/work/in.csv" None None) /\
  cleanR E (PDataType [("Float", "float"); ("Integer", "int")]) (RStr "Integer" None None) = COk (RType "int") /\
  cleanR E PNumber (RList [RInt 1]) = CErr (EParameterNotValid "Number") /\
  cleanR E (PPath true) (RInt 5) = CErr (EParameterNotValid "Path").
Proof. vm_compute. repeat split; reflexivity. Qed.

(* ---------------- purity, from the source ---------------- *)
Definition cfz_of (flags : list bool) (i : inp) : bool := nth i flags false.
Definition cbody_ok (b : string * list bool * stmt) : bool :=
  match check (cfz_of (snd (fst b))) (snd b) [] with Some _ => true | None => false end.
(* the effect IR of EVERY clean() method of mpilot/params.py (regenerated from the AST of /repo on every run; inputs: the
   parameter object itself, the raw value, the program) passes the ownership check: nothing a cleaner writes in place can be
   the parameter object, the value, the program or anything reachable from them *)
Theorem C20_clean_bodies_pass : forallb cbody_ok clean_bodies = true /\ forallb (fun b => forallb negb (snd (fst b))) clean_bodies = true.
Proof. vm_compute. split; reflexivity. Qed.
Lemma nth_all_false l i : forallb negb l = true -> nth i l false = false.
Proof. revert i. induction l as [|a l IH]; intros i H; [destruct i; reflexivity|]. cbn [forallb] in H. apply andb_true_iff in H as [A B].
  destruct i; [destruct a; [discriminate | reflexivity] | apply IH; exact B]. Qed.
(* hence, for any notion of object state: every object that exists when clean() is entered -- the parameter object, the
   raw value, the program, every command and every finished result -- is in the same state when it returns or raises,
   for every execution of the body (any branch, any number of iterations, any aliasing the tags allow) *)
Theorem C20_clean_is_pure : forall (Ob Hd : Type) (inrange : Ob -> Prop) (inloc : inp -> loc -> Prop) b,
  In b clean_bodies ->
  forall (s0 s' : store Ob Hd) (e e' : env),
  exec Ob Hd inrange inloc (snd b) (s0, e) (s', e') ->
  forall l o0, s0 l = Some o0 -> exists o, s' l = Some o /\ ob _ _ o = ob _ _ o0.
Proof.
  intros Ob Hd inrange inloc b Hb s0 s' e e' Hx.
  destruct C20_clean_bodies_pass as [A F]. rewrite forallb_forall in A, F. specialize (A b Hb). specialize (F b Hb). unfold cbody_ok in A.
  destruct (check (cfz_of (snd (fst b))) (snd b) []) as [g'|] eqn:E; [|discriminate].
  eapply body_preserves_observables; eauto.
  intros i l o Hfz. unfold cfz_of in Hfz. rewrite (nth_all_false _ i F) in Hfz. discriminate.
Qed.

Print Assumptions C20_source_facts.
Print Assumptions C20_every_declared_parameter_is_modelled.
Print Assumptions C20_typed.
Print Assumptions C20_errors_are_parameter_errors.
Print Assumptions C20_number_kinds.
Print Assumptions C20_idempotent.
Print Assumptions C20_clean_bodies_pass.
Print Assumptions C20_clean_is_pure.
