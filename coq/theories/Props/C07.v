(* C07 -- arithmetic commands are correct for all numeric types and input orders. *)
From Coq Require Import QArith List Bool ZArith Permutation.
From MP Require Import Model.Cells Proofs.CellProofs Proofs.CellPerm Proofs.CellAlgebra Proofs.CellMaps.
Import ListNotations.
Open Scope Q_scope.

(* what each command computes from the values of one column (cell by cell; run c ins is by construction
   the column function applied to every column, see Model/Cells.v and C03) *)
Theorem C07_definitions : forall ins,
  (forall x, colf Copy ins [x] = Some x) /\
  (forall a b, colf AMinusB ins [a; b] = Some (a - b)) /\
  (forall a b, colf ADividedByB ins [a; b] = if Qeq_bool b 0 then None else Some (a / b)) /\
  (forall vs, colf Sum ins vs = Some (qsum vs)) /\
  (forall vs, colf Multiply ins vs = Some (qprod vs)) /\
  (forall vs, colf Mean ins vs = Some (qsum vs / qlen vs)) /\
  (forall ws vs, colf (WeightedSum ws) ins vs = Some (wsum (wvals ws) vs)) /\
  (forall ws vs, colf (WeightedMean ws) ins vs =
                 if Qeq_bool (qsum (wvals ws)) 0 then None else Some (wsum (wvals ws) vs / qsum (wvals ws))).
Proof. exact arith_defs. Qed.
Theorem C07_min_max : forall ins vs m,
  (colf Minimum ins vs = Some m -> is_min m vs) /\ (colf Maximum ins vs = Some m -> is_max m vs).
Proof. exact arith_minmax. Qed.

(* element types in any combination: integer exactly when every input (and, for WeightedSum, every weight) is *)
Theorem C07_element_type : forall c ins, arith c = true ->
  odt c ins = match c with
              | Copy => first_dt ins
              | AMinusB | Sum | Multiply | Minimum | Maximum => if all_int ins then DInt else DFloat
              | WeightedSum ws => if all_int ins && ws_int ws then DInt else DFloat
              | _ => DFloat
              end.
Proof. exact arith_dtype. Qed.

(* commutative commands: the same result -- success or failure alike -- for every ordering of the inputs *)
Theorem C07_order_invariance : forall c ins ins' n,
  commutative c = true -> Permutation ins ins' -> Forall (fun a => length (a_cells a) = n) ins ->
  res_same (run c ins) (run c ins').
Proof. exact run_order_invariant. Qed.

(* division by zero: a missing cell, exactly at the zero divisors, never an error (the checks do not depend on values) *)
Theorem C07_division_by_zero : forall ins a b, colf ADividedByB ins [a; b] = None <-> b == 0.
Proof. exact div_undefined. Qed.
Theorem C07_division_checks_ignore_values : forall a b a' b',
  a_shape a = a_shape a' -> a_shape b = a_shape b' -> pre ADividedByB [a; b] = pre ADividedByB [a'; b'].
Proof. exact division_never_fails_on_values. Qed.

(* the specific errors: empty input list, mismatched shapes, weight count (checked first) *)
Theorem C07_errors : forall c ins, arith c = true ->
  pre c ins =
  match c with
  | Copy => match ins with [_] => None | _ => Some EUnexpected end
  | AMinusB | ADividedByB =>
      match ins with [a; b] => if shape_eqb (a_shape b) (a_shape a) then None else Some EMixedShapes | _ => Some EUnexpected end
  | WeightedSum ws | WeightedMean ws =>
      if negb (Nat.eqb (length ws) (length ins)) then Some EMismatchedWeights else validate_shapes ins
  | _ => validate_shapes ins
  end.
Proof. exact arith_errors. Qed.
Theorem C07_shape_errors :
  validate_shapes [] = Some EEmptyInputs /\
  (forall ins, ins <> [] -> ~ same_shapes ins -> validate_shapes ins = Some EMixedShapes) /\
  (forall ins, validate_shapes ins = None <-> ins <> [] /\ same_shapes ins).
Proof. split; [reflexivity | split; [exact mixed_shapes_error | exact validate_spec]]. Qed.

(* non-vacuity: mixed element types in both orders, a zero divisor, a weight-count error that precedes the shape error *)
Example C07_example :
  let i := {| a_dt := DInt; a_shape := [2%nat]; a_cells := [Some 3; Some (-2)] |} in
  let f := {| a_dt := DFloat; a_shape := [2%nat]; a_cells := [Some (1#2); Some 0] |} in
  let g := {| a_dt := DFloat; a_shape := [3%nat]; a_cells := [Some 1; Some 1; Some 1] |} in
  run Sum [i; f] = run Sum [f; i] /\
  run Sum [i; f] = ROk {| a_dt := DFloat; a_shape := [2%nat]; a_cells := [Some (7#2); Some (-2)] |} /\
  run ADividedByB [i; f] = ROk {| a_dt := DFloat; a_shape := [2%nat]; a_cells := [Some 6; None] |} /\
  run (WeightedSum [(2, DInt)]) [i; g] = RErr EMismatchedWeights /\ run Sum [i; g] = RErr EMixedShapes /\ run Sum [] = RErr EEmptyInputs.
Proof. vm_compute. repeat split; reflexivity. Qed.

Print Assumptions C07_definitions.
Print Assumptions C07_min_max.
Print Assumptions C07_element_type.
Print Assumptions C07_order_invariance.
Print Assumptions C07_division_by_zero.
Print Assumptions C07_division_checks_ignore_values.
Print Assumptions C07_errors.
Print Assumptions C07_shape_errors.
