(* C16 -- EEMS 2.0 command files translate to equivalent MPilot programs.
   Only statements closed by [exact]; the model constants come from the regenerated tables. *)
From Coq Require Import String List Bool.
From MP Require Import Base.Sig Model.Eems2 Model.Eems2Spec Proofs.Eems2Proofs Gen.GenSigs Gen.GenEems2.
Import ListNotations.
Open Scope string_scope.

(* the model the correspondence runs: the code's algorithm over the constants read from the source *)
Definition convert_impl := convert eems_commands result_name_fallbacks dropped_arguments.
Definition load_nodes_impl := load_nodes eems_commands result_name_fallbacks dropped_arguments.

(* tie: the translator recognised convert_eems2_commands and its constants are the documented ones *)
Theorem C16_constants :
  convert_recognised = true /\ result_name_fallbacks = ["NewFieldName"; "InFieldName"] /\
  dropped_arguments = ["NewFieldName"; "OutFileName"].
Proof. repeat split; reflexivity. Qed.

(* every EEMS 2.0 name maps to an MPilot command that exists in BOTH built-in library sets; the
   only entries allowed to fail are the listed known findings (they are allowed, not required, to fail) *)
Definition known_unmapped : list string := ["SCORERANGEBENEFIT"; "SCORERANGECOST"].
Definition entry_ok (kv : string * string) : bool :=
  mem_str (fst kv) known_unmapped ||
  (mem_str (snd kv) (sig_names sigs_csv) && mem_str (snd kv) (sig_names sigs_netcdf)).
Theorem C16_table : forall k v, In (k, v) eems_commands -> ~ In k known_unmapped ->
  In v (sig_names sigs_csv) /\ In v (sig_names sigs_netcdf).
Proof.
  assert (H : forallb entry_ok eems_commands = true) by (vm_compute; reflexivity).
  intros k v Hin Hk. rewrite forallb_forall in H. specialize (H _ Hin). unfold entry_ok in H. cbn [fst snd] in H.
  apply orb_prop in H. destruct H as [H|H].
  - apply mem_str_In in H. contradiction.
  - apply andb_prop in H. destruct H as [H1 H2]. split; apply mem_str_In; assumption.
Qed.

(* the table has the 25 names the property speaks of, each once *)
Theorem C16_table_keys : length eems_commands = 25 /\ NoDup (map fst eems_commands).
Proof.
  split; [reflexivity|].
  repeat (constructor; [simpl; intros H; repeat (destruct H as [H|H]; [discriminate H|]); exact H|]). constructor.
Qed.

(* for every program of well-formed EEMS 2.0 nodes -- any number of commands, any arguments, any mix
   with MPilot-style commands -- what the code computes IS the documented mapping *)
Theorem C16_equiv : forall P, forallb wf_v2 P = true -> convert_impl P = translate_v2 eems_commands P.
Proof. exact (convert_spec eems_commands). Qed.

Theorem C16_shape : forall P, length (convert_impl P) = length P /\ map n_line (convert_impl P) = map n_line P.
Proof. intros P. split; [exact (convert_length eems_commands P) | exact (convert_lines eems_commands P)]. Qed.

Theorem C16_mpilot_style_untouched : forall P, forallb (mp_style eems_commands) P = true -> load_nodes_impl false P = P.
Proof. exact (load_mp_style eems_commands). Qed.

(* non-vacuity: a concrete v2 program meets the hypotheses and is translated as documented *)
Example C16_example :
  let P := [ {| n_result := None; n_cmd := "READ"; n_args := [("InFileName", VText "x.csv"); ("InFieldName", VText "a"); ("OutFileName", VText "o.csv")]; n_line := 1 |};
             {| n_result := None; n_cmd := "NOT"; n_args := [("InFieldName", VText "a"); ("NewFieldName", VText "b")]; n_line := 2 |} ] in
  forallb wf_v2 P = true /\
  convert_impl P = [ {| n_result := Some (VText "a"); n_cmd := "EEMSRead"; n_args := [("InFileName", VText "x.csv"); ("InFieldName", VText "a")]; n_line := 1 |};
                     {| n_result := Some (VText "b"); n_cmd := "FuzzyNot"; n_args := [("InFieldName", VText "a")]; n_line := 2 |} ].
Proof. split; reflexivity. Qed.

Print Assumptions C16_constants.
Print Assumptions C16_table.
Print Assumptions C16_table_keys.
Print Assumptions C16_equiv.
Print Assumptions C16_shape.
Print Assumptions C16_mpilot_style_untouched.
