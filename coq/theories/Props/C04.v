(* C04 -- fuzzy results always lie in [-1, +1]. *)
From Coq Require Import QArith List Bool String ZArith.
From MP Require Import Base.Sig Model.Cells Proofs.CellProofs Gen.GenSigs Gen.GenCellFacts.
Import ListNotations.
Open Scope string_scope.

(* the commands the code itself declares fuzzy-producing (live class attribute is_fuzzy, regenerated every run) *)
Definition declared_fuzzy : list string := map s_name (filter s_fuzzy sigs_csv).

(* tie 1: the model's notion of "fuzzy-producing command" is the code's, for the CSV and the NetCDF library sets *)
Theorem C04_fuzzy_commands_are_the_declared_ones :
  forall c, fuzzy_cmd c = mem_str (cmd_name c) declared_fuzzy.
Proof. destruct c; vm_compute; reflexivity. Qed.
Theorem C04_declared_fuzzy_same_in_both_library_sets :
  map s_name (filter s_fuzzy sigs_netcdf) = declared_fuzzy /\ src_fuzzy_classes = declared_fuzzy.
Proof. vm_compute. split; reflexivity. Qed.

(* tie 2 (source obligation): every return of every fuzzy-producing execute() is insure_fuzzy(_, -1, 1), and
   insure_fuzzy is the two-sided in-place clamp *)
Definition clamped (r : ret_kind) : bool := match r with RClamp lo hi => Z.eqb lo (-1) && Z.eqb hi 1 | ROther _ => false end.
Theorem C04_clamp_on_every_return :
  forallb (fun row => negb (Nat.eqb (List.length (snd row)) 0) && forallb clamped (snd row)) fuzzy_returns = true
  /\ map fst fuzzy_returns = filter (fun n => mem_str n declared_fuzzy) (map fst fuzzy_returns)
  /\ List.length fuzzy_returns = List.length declared_fuzzy
  /\ clamp_body = ClampHiThenLo.
Proof. vm_compute. repeat split; reflexivity. Qed.

(* The property: for every command the code declares fuzzy-producing, every list of input arrays (any number,
   shape, element type, placement of missing cells), and every parameter choice (thresholds, weights, category,
   curve and z-score values of any magnitude, any sigma): each non-missing cell of the result lies in [-1, 1]. *)
Theorem C04 : forall c ins, mem_str (cmd_name c) declared_fuzzy = true ->
  match run c ins with ROk r => Forall (cellP (fun q => -1 <= q <= 1)%Q) (a_cells r) | RErr _ => True end.
Proof. intros c ins H. rewrite <- C04_fuzzy_commands_are_the_declared_ones in H. exact (fuzzy_range c ins H). Qed.

(* non-vacuity: a weighted union with weights and values far outside the fuzzy range is clamped, not rejected *)
Example C04_example :
  run (FuzzyWeightedUnion [(100#1, DInt); (-3#2, DFloat)])
      [ {| a_dt := DFloat; a_shape := [2%nat]; a_cells := [Some (1#1); None] |};
        {| a_dt := DFloat; a_shape := [2%nat]; a_cells := [Some (-1#1); Some (1#2)] |} ]
  = ROk {| a_dt := DFloat; a_shape := [2%nat]; a_cells := [Some (1#1); None] |}.
Proof. vm_compute. reflexivity. Qed.

Print Assumptions C04_fuzzy_commands_are_the_declared_ones.
Print Assumptions C04_declared_fuzzy_same_in_both_library_sets.
Print Assumptions C04_clamp_on_every_return.
Print Assumptions C04.
