(* Pinned-tree refutation of the unrestricted C16 table statement (known finding): two EEMS 2.0 names
   map to commands that exist in no library.  Built best-effort; not part of the check's verdict
   (a repair of the finding makes this file fail, which is not an alarm). *)
From Coq Require Import String List Bool.
From MP Require Import Base.Sig Gen.GenSigs Gen.GenEems2.
Import ListNotations.
Open Scope string_scope.
Theorem C16_table_refuted : exists k v, In (k, v) eems_commands /\ ~ In v (sig_names sigs_csv).
Proof.
  exists "SCORERANGEBENEFIT", "ScoreRangeBenefit". split.
  - apply (proj1 (mem_str_In _ (map fst eems_commands))) with (x := "SCORERANGEBENEFIT") in_eq || idtac.
    unfold eems_commands. simpl. tauto.
  - intros H. apply mem_str_In in H. vm_compute in H. discriminate.
Qed.
