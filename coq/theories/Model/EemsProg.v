(* Whole EEMS models: the scheduler model (Model/Sched.v) instantiated with the cell semantics of the data
   commands (Model/Cells.v).  A node is either a source (an array read from a file) or a data command applied to
   the results it references, in argument order; a failing input makes the consumer fail. *)
From Coq Require Import QArith List Bool Arith.
From MP Require Import Model.Sched Model.Cells.
Import ListNotations.

Inductive nsem := NSource (a : arr) | NOp (c : ecmd).
Fixpoint collect (vs : list (res arr)) : res (list arr) :=
  match vs with
  | [] => ROk []
  | RErr e :: _ => RErr e
  | ROk a :: t => match collect t with ROk l => ROk (a :: l) | RErr e => RErr e end
  end.
Definition eemsF (sem : name -> nsem) (c : cmd) (vs : list (res arr)) : res arr :=
  match sem (nm c) with
  | NSource a => ROk a
  | NOp e => match collect vs with ROk arrs => run e arrs | RErr er => RErr er end
  end.
Fixpoint sem_of (tbl : list (name * nsem)) (n : name) : nsem :=
  match tbl with [] => NSource {| a_dt := DFloat; a_shape := []; a_cells := [] |}
  | (k, s) :: t => if Nat.eqb k n then s else sem_of t n end.
