(* Model of the PLY lexer of mpilot/parser/parser.py: one structurally recursive scanner per token rule, tried in PLY's
   effective order (Python's `re` alternation: the first rule that matches at the position wins, not the longest),
   after skipping t_ignore.  Text is a list of code points.  Lines: the counter grows by the number of line breaks
   (CRLF, CR, LF each count once) in newline tokens and in quoted strings; a token carries the counter's value at its
   start.  The rule order and the regex texts are tied to the live lexer by an obligation over Gen/GenLex.v. *)
From Coq Require Import NArith List Bool Lia.
Import ListNotations.
Open Scope N_scope.

Definition ch := N.
Definition text := list ch.
(* character classes *)
Definition is_digit (c : ch) := (48 <=? c) && (c <=? 57).
Definition is_alpha_ (c : ch) := ((65 <=? c) && (c <=? 90)) || ((97 <=? c) && (c <=? 122)) || (c =? 95).
Definition is_idc (c : ch) := is_alpha_ c || is_digit c.
Definition is_sign (c : ch) := (c =? 43) || (c =? 45).
Definition is_nl (c : ch) := (c =? 10) || (c =? 13).
Definition is_ign (c : ch) := (c =? 32) || (c =? 9).
(* hash colon comma equal parentheses brackets both quote characters CR LF *)
Definition is_delim (c : ch) := existsb (N.eqb c) [35; 58; 44; 61; 40; 41; 91; 93; 34; 39; 13; 10].
Definition is_plainc (c : ch) := negb (is_delim c).

Fixpoint span (p : ch -> bool) (s : text) : text * text :=
  match s with c :: t => if p c then let (a, b) := span p t in (c :: a, b) else ([], s) | [] => ([], []) end.

Inductive tkind := KID | KFLOAT | KINT | KSTRING | KPLAIN | KLBRACK | KLPAREN | KRBRACK | KRPAREN | KCOLON | KCOMMA | KEQUAL.
Record token := { t_kind : tkind; t_lexeme : text; t_line : N; t_pos : nat }.

Definition scan_id (s : text) : option (text * text) :=
  match s with c :: t => if is_alpha_ c then let (a, b) := span is_idc t in Some (c :: a, b) else None | [] => None end.
Definition digits1 (s : text) : option (text * text) := match span is_digit s with ([], _) => None | (a, b) => Some (a, b) end.
Definition opt_sign (s : text) : text * text := match s with c :: t => if is_sign c then ([c], t) else ([], s) | [] => ([], []) end.
Definition scan_exp (s : text) : text * text :=     (* optional exponent, backing off when incomplete *)
  match s with
  | c :: t => if (c =? 101) || (c =? 69) then
                let (sg, t1) := opt_sign t in
                match digits1 t1 with Some (d, r) => (c :: sg ++ d, r) | None => ([], s) end
              else ([], s)
  | [] => ([], []) end.
Definition starts_dot (s : text) : option text := match s with c :: r => if c =? 46 then Some r else None | [] => None end.
Definition scan_float (s : text) : option (text * text) :=
  let (sg, s1) := opt_sign s in
  let body := match digits1 s1 with
              | Some (d, rest) => match starts_dot rest with      (* digits, a dot, optional digits *)
                                  | Some r => let (f, r') := span is_digit r in Some (d ++ 46 :: f, r')
                                  | None => None
                                  end
              | None => match starts_dot s1 with                 (* a dot followed by digits *)
                        | Some r => match digits1 r with Some (f, r') => Some (46 :: f, r') | None => None end
                        | None => None
                        end
              end in
  match body with Some (b, r) => let (e, r') := scan_exp r in Some (sg ++ b ++ e, r') | None => None end.
Definition scan_int (s : text) : option (text * text) :=
  let (sg, s1) := opt_sign s in match digits1 s1 with Some (d, r) => Some (sg ++ d, r) | None => None end.
Fixpoint scan_str_body (q : ch) (s : text) : option (text * text) :=      (* after the opening quote; body incl. the closing quote *)
  match s with
  | [] => None
  | c :: t => if c =? q then Some ([c], t)
              else if c =? 92 then match t with
                                   | d :: t' => if d =? 10 then None        (* backslash-dot: the dot does not match a line feed *)
                                                else match scan_str_body q t' with Some (a, b) => Some (c :: d :: a, b) | None => None end
                                   | [] => None end
              else match scan_str_body q t with Some (a, b) => Some (c :: a, b) | None => None end
  end.
Definition scan_string (s : text) : option (text * text) :=
  match s with c :: t => if (c =? 34) || (c =? 39) then match scan_str_body c t with Some (a, b) => Some (c :: a, b) | None => None end else None | [] => None end.
Definition scan_plain (s : text) : option (text * text) := match span is_plainc s with ([], _) => None | (a, b) => Some (a, b) end.
Definition punct (c : ch) : option tkind :=
  if c =? 91 then Some KLBRACK else if c =? 40 then Some KLPAREN else if c =? 93 then Some KRBRACK else if c =? 41 then Some KRPAREN
  else if c =? 58 then Some KCOLON else if c =? 44 then Some KCOMMA else if c =? 61 then Some KEQUAL else None.

(* line breaks in a piece of text: CRLF, CR and LF count once each *)
Fixpoint breaks (s : text) : N :=
  match s with
  | [] => 0
  | c :: t => if c =? 13 then match t with d :: t' => if d =? 10 then 1 + breaks t' else 1 + breaks t | [] => 1 end
              else if c =? 10 then 1 + breaks t else breaks t
  end.

(* one call of the master regex at the current position: skipped blanks, then a token / a skipped newline run or comment / error / end *)
Inductive lexres := LTok (k : tkind) (lexeme rest : text) | LSkip (skipped rest : text) | LErr | LEnd.
Definition lex1 (s0 : text) : text * lexres :=
  let (ign, s) := span is_ign s0 in
  (ign,
  match s with [] => LEnd | c :: _ =>
  match scan_id s with Some (a, r) => LTok KID a r | None =>
  match scan_float s with Some (a, r) => LTok KFLOAT a r | None =>
  match scan_int s with Some (a, r) => LTok KINT a r | None =>
  match scan_string s with Some (a, r) => LTok KSTRING a r | None =>
  match span is_nl s with ((_ :: _) as a, r) => LSkip a r | _ =>
  match scan_plain s with Some (a, r) => LTok KPLAIN a r | None =>
  if c =? 35 then let (a, r) := span (fun d => negb (d =? 10)) s in LSkip a r else
  match punct c with Some k => LTok k [c] (tl s) | None => LErr end end end end end end end end).

Inductive lexout := LexOk (toks : list token) | LexError (toks : list token) (pos : nat).   (* tokens before the illegal character *)
Fixpoint lex (fuel : nat) (line : N) (pos : nat) (s : text) : lexout :=
  match fuel with
  | O => LexError [] pos
  | S f =>
    let (ign, r) := lex1 s in
    let p := (pos + length ign)%nat in
    match r with
    | LEnd => LexOk []
    | LErr => LexError [] p
    | LSkip a rest => lex f (line + (if match a with c :: _ => is_nl c | [] => false end then breaks a else 0)) (p + length a)%nat rest
    | LTok k a rest =>
        let tk := {| t_kind := k; t_lexeme := a; t_line := line; t_pos := p |} in
        let line' := match k with KSTRING => line + breaks a | _ => line end in
        match lex f line' (p + length a)%nat rest with
        | LexOk l => LexOk (tk :: l)
        | LexError l e => LexError (tk :: l) e
        end
    end
  end.
Definition lex_all (s : text) : lexout := lex (S (length s)) 1 0 s.

(* the rule order and the regexes this model was written against (compared with Gen/GenLex.v by an obligation) *)
Definition expected_rule_names : list (list N) := [].
