(* Model of Program.run / Command.result / Command.run (mpilot/program.py, mpilot/commands.py):
   pre-pass (reference resolution, cycle rejection), leaf selection exactly as coded, pull-based
   memoised evaluation.  V and F are abstract: F c vs is what c.execute computes from the results vs of
   the commands it references (Section variables, so every theorem holds for every command semantics). *)
From Coq Require Import List Arith Lia Bool PeanoNat.
Import ListNotations.
Set Implicit Arguments.

Definition name := nat.
(* rl: the results a command references, in argument order; tagged true when referenced through a
   ResultParameter directly, false when through a list parameter (flattened, any nesting:
   utils.flatten); execute pulls all of them *)
Record cmd := { nm : name; rl : list (bool * name) }.
Definition refs (c : cmd) : list name := map snd (rl c).
Definition direct (c : cmd) : list name := map snd (filter fst (rl c)).
Definition prog := list cmd.
Definition names (P : prog) := map nm P.

Fixpoint lookup (P : prog) (n : name) : option cmd :=
  match P with [] => None | c :: t => if Nat.eqb (nm c) n then Some c else lookup t n end.

Definition mem (n : name) (l : list name) := existsb (Nat.eqb n) l.

Inductive ev := Enter (n : name) | Exit (n : name).

Inductive outcome (A : Type) :=
| Ok (a : A)
| ErrMissing (n : name)        (* ResultDoesNotExist, raised by the pre-pass *)
| ErrRecursive (n : name)      (* RecursiveModelStructure, raised by the pre-pass; n = reported command *)
| OutOfStack.                  (* interpreter recursion limit; no theorem accepts it as success *)
Arguments Ok {A} a. Arguments ErrMissing {A} n. Arguments ErrRecursive {A} n. Arguments OutOfStack {A}.

(* ---------- the pre-pass of Program.run ---------- *)
(* every argument is cleaned first: a reference to a result name that is no command raises *)
Fixpoint first_missing_in (P : prog) (rs : list name) : option name :=
  match rs with [] => None | r :: t => if mem r (names P) then first_missing_in P t else Some r end.
Fixpoint first_missing (P : prog) (cs : list cmd) : option name :=
  match cs with
  | [] => None
  | c :: t => match first_missing_in P (refs c) with Some r => Some r | None => first_missing P t end
  end.

(* cycle rejection: repeatedly drop the commands none of whose references is still unresolved; if a
   round drops nothing while commands remain, the references form a loop *)
Definition resolved (rem : list cmd) (c : cmd) : bool := negb (existsb (fun r => mem r (names rem)) (refs c)).
Fixpoint peel (fuel : nat) (rem : list cmd) : option (list cmd) :=   (* None: all resolved; Some rem: stuck *)
  match rem with
  | [] => None
  | _ =>
    match fuel with
    | 0 => Some rem
    | S f =>
      match filter (resolved rem) rem with
      | [] => Some rem
      | _ => peel f (filter (fun c => negb (resolved rem c)) rem)
      end
    end
  end.
(* the reported command: from the first unresolved command follow unresolved references until one repeats *)
Fixpoint walk (fuel : nat) (rem : list cmd) (seen : list name) (n : name) : name :=
  match fuel with
  | 0 => n
  | S f =>
    if mem n seen then n
    else match lookup rem n with
         | None => n
         | Some c => match filter (fun r => mem r (names rem)) (refs c) with
                     | [] => n
                     | r :: _ => walk f rem (seen ++ [n]) r
                     end
         end
  end.
Definition find_cycle (P : prog) : option name :=
  match peel (length P) P with
  | None => None
  | Some rem => match rem with [] => None | c :: _ => Some (walk (S (length rem)) rem [] (nm c)) end
  end.

Section Sched.
Variable V : Type.
Variable F : cmd -> list V -> V.

Record st := { memo : list (name * V); trace : list ev }.
Definition init : st := {| memo := []; trace := [] |}.
Fixpoint assoc (m : list (name * V)) (n : name) : option V :=
  match m with [] => None | (k, v) :: t => if Nat.eqb k n then Some v else assoc t n end.
Definition get (s : st) n := assoc (memo s) n.
Definition fin (s : st) n := if get s n then true else false.

Fixpoint pull_list (pl : st -> name -> outcome (st * V)) (s : st) (ns : list name) : outcome (st * list V) :=
  match ns with
  | [] => Ok (s, [])
  | n :: t => match pl s n with
              | Ok (s1, v) => match pull_list pl s1 t with
                              | Ok (s2, vs) => Ok (s2, v :: vs)
                              | ErrMissing m => ErrMissing m | ErrRecursive m => ErrRecursive m
                              | OutOfStack => OutOfStack end
              | ErrMissing m => ErrMissing m | ErrRecursive m => ErrRecursive m | OutOfStack => OutOfStack end
  end.

(* Command.result / Command.run: memo hit, else Enter, pull the referenced results, execute, memoise, Exit *)
Fixpoint pull (fuel : nat) (P : prog) (s : st) (n : name) : outcome (st * V) :=
  match get s n with
  | Some v => Ok (s, v)
  | None =>
    match fuel with
    | 0 => OutOfStack
    | S f =>
      match lookup P n with
      | None => ErrMissing n
      | Some c =>
        let s0 := {| memo := memo s; trace := trace s ++ [Enter n] |} in
        match pull_list (pull f P) s0 (refs c) with
        | Ok (s1, vs) => let v := F c vs in
                         Ok ({| memo := (n, v) :: memo s1; trace := trace s1 ++ [Exit n] |}, v)
        | ErrMissing m => ErrMissing m | ErrRecursive m => ErrRecursive m | OutOfStack => OutOfStack
        end
      end
    end
  end.

(* Program.run: leaves = commands nobody references through a *direct* result parameter (references
   made through lists are keyed by object in `dependents` and never found: such commands run as leaves) *)
Definition is_leaf (P : prog) (c : cmd) := negb (existsb (fun d => mem (nm c) (direct d)) P).
Fixpoint run_leaves (fuel : nat) (P : prog) (s : st) (ls : list cmd) : outcome st :=
  match ls with
  | [] => Ok s
  | c :: t => match pull fuel P s (nm c) with
              | Ok (s1, _) => run_leaves fuel P s1 t
              | ErrMissing m => ErrMissing m | ErrRecursive m => ErrRecursive m | OutOfStack => OutOfStack end
  end.
Definition run_program (fuel : nat) (P : prog) (s : st) : outcome st :=
  match first_missing P P with
  | Some r => ErrMissing r
  | None => match find_cycle P with
            | Some n => ErrRecursive n
            | None => run_leaves fuel P s (filter (is_leaf P) P)
            end
  end.

(* histories of API calls after (or instead of) the first run *)
Inductive op := OpRun | OpResult (n : name).
Definition apply_op (fuel : nat) (P : prog) (s : st) (o : op) : st :=
  match o with
  | OpRun => match run_program fuel P s with Ok s' => s' | _ => s end
  | OpResult n => match pull fuel P s n with Ok (s', _) => s' | _ => s end
  end.

Fixpoint count_ev (e : ev) (l : list ev) : nat :=
  match l with
  | [] => 0
  | x :: t => (match e, x with
               | Enter a, Enter b | Exit a, Exit b => if Nat.eqb a b then 1 else 0
               | _, _ => 0 end) + count_ev e t
  end.
End Sched.
