(* Program.run when an execute() may FAIL (raise): the command that fails memoises nothing, the exception unwinds through every
   command that was waiting for it (none of them memoises anything either) and leaves the results memoised so far in place.
   Fo is the partial command semantics of this run (None = execute raises); the trace is left out (Proofs/SchedResume.v shows
   that the scheduler's behaviour does not depend on it). *)
From Coq Require Import List Arith Bool.
From MP Require Import Model.Sched.
Import ListNotations.

Section SchedFail.
Variable V : Type.
Variable Fo : cmd -> list V -> option V.
Definition memoT := list (name * V).
Inductive fout (A : Type) := FOk (a : A) | FFailed (m : memoT) (n : name) | FOther.
Arguments FOk {A} a. Arguments FFailed {A} m n. Arguments FOther {A}.

Fixpoint pullf_list (pl : memoT -> name -> fout (memoT * V)) (m : memoT) (ns : list name) : fout (memoT * list V) :=
  match ns with
  | [] => FOk (m, [])
  | n :: t => match pl m n with
              | FOk (m1, v) => match pullf_list pl m1 t with
                               | FOk (m2, vs) => FOk (m2, v :: vs)
                               | FFailed m' k => FFailed m' k | FOther => FOther end
              | FFailed m' k => FFailed m' k | FOther => FOther end
  end.
Fixpoint pullf (fuel : nat) (P : prog) (m : memoT) (n : name) : fout (memoT * V) :=
  match assoc m n with
  | Some v => FOk (m, v)
  | None =>
    match fuel with
    | 0 => FOther
    | S f =>
      match lookup P n with
      | None => FOther
      | Some c =>
        match pullf_list (pullf f P) m (refs c) with
        | FOk (m1, vs) => match Fo c vs with
                          | Some v => FOk ((n, v) :: m1, v)
                          | None => FFailed m1 n            (* execute raised: nothing is memoised for n *)
                          end
        | FFailed m' k => FFailed m' k | FOther => FOther
        end
      end
    end
  end.
Fixpoint run_leavesf (fuel : nat) (P : prog) (m : memoT) (ls : list cmd) : fout memoT :=
  match ls with
  | [] => FOk m
  | c :: t => match pullf fuel P m (nm c) with
              | FOk (m1, _) => run_leavesf fuel P m1 t
              | FFailed m' k => FFailed m' k | FOther => FOther end
  end.
Definition run_programf (fuel : nat) (P : prog) (m : memoT) : fout memoT :=
  match first_missing P P with
  | Some _ => FOther
  | None => match find_cycle P with
            | Some _ => FOther
            | None => run_leavesf fuel P m (filter (is_leaf P) P)
            end
  end.
End SchedFail.
Arguments FOk {V A} a. Arguments FFailed {V A} m n. Arguments FOther {V A}.
Arguments pullf_list {V} pl m ns.
Arguments pullf {V} Fo fuel P m n.
Arguments run_leavesf {V} Fo fuel P m ls.
Arguments run_programf {V} Fo fuel P m.
