(* Model of the NetCDF library's EEMSRead / EEMSWrite logic (mpilot/libraries/eems/netcdf/io.py).  The netCDF4 C library
   is an oracle: a variable is what netCDF4 hands over -- cells that are values or already missing (_FillValue), a stored
   element kind and a shape -- and storing then loading a variable returns it unchanged (hypothesis of the round-trip
   theorem, named there). *)
From Coq Require Import String List Bool ZArith QArith Arith Qround.
From MP Require Import Base.Sig Model.Params Model.Csv.
Import ListNotations.
Open Scope string_scope.

Inductive nkind := KFloat64 | KFloatOther | KInt.                   (* stored element kind of a file variable *)
Record nvar := { v_kind : nkind; v_shape : list nat; v_cells : list ocell }.
Inductive ntype := NFloat | NInteger | NPosFloat | NPosInteger | NFuzzy.   (* the DataType parameter; default NFloat *)
Inductive nerr := NNoSuchVariable | NInvalidPositive | NInvalidFuzzy | NUnexpected.
Inductive nres := NOk (shape : list nat) (cells : list ocell) | NErr (e : nerr).

Definition cell_q (c : ocell) : option Q :=
  match c with OFloat (FFin q) => Some q | OInt z => Some (inject_Z z) | _ => None end.
Definition finite_cells (cells : list ocell) : bool :=
  forallb (fun c => match c with OFloat (FFin _) | OInt _ | OMissing => true | _ => false end) cells.
Definition valid_qs (cells : list ocell) : list Q := flat_map (fun c => match cell_q c with Some q => [q] | None => [] end) cells.

(* numpy.rint: round half to even *)
Definition rint (q : Q) : Z :=
  let f := Qfloor q in
  let r := q - inject_Z f in
  match Qcompare r (1#2) with
  | Lt => f | Gt => (f + 1)%Z
  | Eq => if Z.even f then f else (f + 1)%Z
  end.
Definition to_int (stored : nkind) (q : Q) : Z :=
  match stored with KFloat64 => rint q | _ => Z.quot (Qnum q) (Zpos (Qden q)) end.   (* only float64 data are rounded first; otherwise C truncation *)
Definition qlt (a b : Q) : bool := if Qlt_le_dec a b then true else false.
Definition clampq (q : Q) : Q := if Qlt_le_dec 1 q then 1 else if Qlt_le_dec q (-1) then -1 else q.

Definition conv_cell (t : ntype) (stored : nkind) (c : ocell) : ocell :=
  match c with
  | OMissing => OMissing
  | _ => match cell_q c with
         | None => c
         | Some q => match t with
                     | NFloat | NPosFloat => OFloat (FFin q)
                     | NFuzzy => OFloat (FFin (clampq q))
                     | NInteger | NPosInteger => OInt (to_int stored q)
                     end
         end
  end.
Definition is_int_type (t : ntype) : bool := match t with NInteger | NPosInteger => true | _ => false end.
Definition mark_missing (t : ntype) (missing : option Q) (c : ocell) : ocell :=
  match missing, c with
  | Some m, OFloat (FFin q) => if is_int_type t then c else if Qeq_bool q m then OMissing else c
  | Some m, OInt z => if is_int_type t then (if Z.eqb z (Z.quot (Qnum m) (Zpos (Qden m))) then OMissing else c) else c
  | _, _ => c
  end.

Definition read_var (v : option nvar) (t : ntype) (missing : option Q) : nres :=
  match v with
  | None => NErr NNoSuchVariable
  | Some var =>
    let qs := valid_qs (v_cells var) in
    if match t with NPosFloat | NPosInteger => existsb (fun q => qlt q 0) qs | _ => false end then NErr NInvalidPositive
    else if match t with NFuzzy => existsb (fun q => qlt (102#100) q || qlt q (-102#100)) qs | _ => false end
         then NErr NInvalidFuzzy
    else NOk (v_shape var) (map (fun c => mark_missing t missing (conv_cell t (v_kind var) c)) (v_cells var))
  end.

(* ---------- writing: every result is written with the union of the missing cells of all results written together ---------- *)
Definition is_missing (c : ocell) : bool := match c with OMissing => true | _ => false end.
Fixpoint union_mask (cols : list (list ocell)) : list bool :=
  match cols with
  | [] => []
  | [c] => map is_missing c
  | c :: rest => map (fun p : bool * bool => orb (fst p) (snd p)) (combine (map is_missing c) (union_mask rest))
  end.
(* payloads under a result's own missing cells are not observable after the round trip: they are masked in the file *)
Definition write_var (mask : list bool) (cells : list ocell) : list ocell :=
  map (fun p : bool * ocell => if fst p then OMissing else snd p) (combine mask cells).
Definition write_all (cols : list (list ocell)) : list (list ocell) := map (write_var (union_mask cols)) cols.
