(* Cell semantics of the 31 EEMS data commands (mpilot/libraries/eems/basic.py, fuzzy.py) over exact
   rationals.  A cell is [None] when missing (masked) and [Some q] otherwise; what numpy keeps underneath a
   masked cell is not part of the model: every command is an instance of the mask-respecting combinator
   [cw], and the correspondence (which varies the hidden payloads) is what ties the code to that discipline.
   IEEE rounding, overflow and NaN are not modelled (exact arithmetic); sqrt comes in as the oracle [sigma]. *)
From Coq Require Import QArith Qminmax Qabs List Bool ZArith.
Import ListNotations.
Open Scope Q_scope.

Definition cell := option Q.
Inductive dtype := DInt | DFloat.
Record arr := { a_dt : dtype; a_shape : list nat; a_cells : list cell }.

Inductive err :=
| EEmptyInputs | EMixedShapes | EMismatchedWeights | EMixedLengths | EDuplicateRaw | EInvalidDirection
| EInvalidThresholds | EInvalidNumber | EInvalidTruest
| EUnexpected.   (* a raw Python exception inside execute, wrapped into UnexpectedError by Command.run *)
Inductive res (A : Type) := ROk (a : A) | RErr (e : err).
Arguments ROk {A} a. Arguments RErr {A} e.

(* ---------- rational helpers ---------- *)
Definition qsum (l : list Q) : Q := fold_right Qplus 0 l.
Definition qlen (l : list Q) : Q := inject_Z (Z.of_nat (length l)).
Definition qmean (l : list Q) : Q := qsum l / qlen l.
Definition qminl (l : list Q) : option Q := match l with [] => None | x :: t => Some (fold_right Qmin x t) end.
Definition qmaxl (l : list Q) : option Q := match l with [] => None | x :: t => Some (fold_right Qmax x t) end.
(* insure_fuzzy(arr, lo, hi): arr[arr > hi] = hi; then arr[arr < lo] = lo *)
Definition clamp2 (lo hi x : Q) : Q :=
  let y := if Qlt_le_dec hi x then hi else x in if Qlt_le_dec y lo then lo else y.
Definition fz (x : Q) : Q := clamp2 (-1) 1 x.
Fixpoint insert (x : Q) (l : list Q) : list Q :=
  match l with [] => [x] | y :: t => if Qle_bool x y then x :: l else y :: insert x t end.
Definition sortq (l : list Q) : list Q := fold_right insert [] l.      (* ascending *)
Fixpoint memq (x : Q) (l : list Q) : bool := match l with [] => false | y :: t => Qeq_bool x y || memq x t end.
Fixpoint has_dupq (l : list Q) : bool := match l with [] => false | x :: t => memq x t || has_dupq t end.

(* ---------- arrays, columns, the mask-respecting combinator ---------- *)
Definition somes (l : list cell) : list Q := flat_map (fun c => match c with Some q => [q] | None => [] end) l.
Fixpoint all_some (c : list cell) : option (list Q) :=
  match c with
  | [] => Some []
  | None :: _ => None
  | Some q :: t => match all_some t with Some l => Some (q :: l) | None => None end
  end.
Fixpoint zipw {A B C} (f : A -> B -> C) (a : list A) (b : list B) : list C :=
  match a, b with x :: a', y :: b' => f x y :: zipw f a' b' | _, _ => [] end.
(* columns: one cell of every input, for each position *)
Definition cols_of (ins : list (list cell)) : list (list cell) :=
  match ins with
  | [] => []
  | a :: _ => fold_right (fun x acc => zipw cons x acc) (map (fun _ => []) a) ins
  end.
(* result cell: missing when any input cell of the column is missing, or the operation is undefined there *)
Definition cw (f : list Q -> option Q) (cols : list (list cell)) : list cell :=
  map (fun col => match all_some col with Some vs => f vs | None => None end) cols.
Definition cw1 (f : Q -> option Q) (a : list cell) : list cell :=
  map (fun c => match c with Some x => f x | None => None end) a.

Fixpoint shape_eqb (a b : list nat) : bool :=
  match a, b with [], [] => true | x :: a', y :: b' => Nat.eqb x y && shape_eqb a' b' | _, _ => false end.
(* SameArrayShapeMixin.validate_array_shapes *)
Definition validate_shapes (ins : list arr) : option err :=
  match ins with
  | [] => Some EEmptyInputs
  | [_] => None
  | a :: _ => if forallb (fun b => shape_eqb (a_shape b) (a_shape a)) ins then None else Some EMixedShapes
  end.
Definition all_int (ins : list arr) : bool := forallb (fun a => match a_dt a with DInt => true | DFloat => false end) ins.
Definition join_dt (ins : list arr) : dtype := if all_int ins then DInt else DFloat.
Definition first_shape (ins : list arr) : list nat := match ins with a :: _ => a_shape a | [] => [] end.
Definition nary (dt : dtype) (f : list Q -> option Q) (ins : list arr) : res arr :=
  match validate_shapes ins with
  | Some e => RErr e
  | None => ROk {| a_dt := dt; a_shape := first_shape ins; a_cells := cw f (cols_of (map a_cells ins)) |}
  end.
Definition unary (dt : dtype) (f : Q -> option Q) (a : arr) : arr :=
  {| a_dt := dt; a_shape := a_shape a; a_cells := cw1 f (a_cells a) |}.

(* ---------- per-cell definitions ---------- *)
Definition wsum (ws vs : list Q) : Q := qsum (zipw Qmult ws vs).
Definition c_div (vs : list Q) : option Q :=
  match vs with [a; b] => if Qeq_bool b 0 then None else Some (a / b) | _ => None end.
Definition c_sub (vs : list Q) : option Q := match vs with [a; b] => Some (a - b) | _ => None end.
Definition divq (a b : Q) : option Q := if Qeq_bool b 0 then None else Some (a / b).   (* numpy.ma division: masked on a zero divisor *)
(* the linear map through (x1,y1) (x2,y2): result = (x - x1) * (y2 - y1) / (x2 - x1) + y1 *)
Definition lin (x1 y1 x2 y2 x : Q) : option Q :=
  match divq ((x - x1) * (y2 - y1)) (x2 - x1) with Some q => Some (q + y1) | None => None end.

(* piecewise-linear curve through control points sorted by raw value; flat outside *)
(* sorted(zip(raw, normal)): tuples compare lexicographically *)
Definition pt_le (p q : Q * Q) : bool :=
  if Qeq_bool (fst p) (fst q) then Qle_bool (snd p) (snd q) else Qle_bool (fst p) (fst q).
Fixpoint insert_pt (p : Q * Q) (l : list (Q * Q)) : list (Q * Q) :=
  match l with
  | [] => [p]
  | q :: t => if pt_le p q then p :: l else q :: insert_pt p t
  end.
Definition sort_pts (l : list (Q * Q)) : list (Q * Q) := fold_right insert_pt [] l.
Fixpoint interp_seg (prev : Q * Q) (rest : list (Q * Q)) (x : Q) : Q :=
  match rest with
  | [] => snd prev
  | p :: t => if Qle_bool x (fst p)
              then let m := (snd p - snd prev) / (fst p - fst prev) in x * m + (snd prev - m * fst prev)
              else interp_seg p t x
  end.
Definition interp (pts : list (Q * Q)) (x : Q) : option Q :=
  match pts with
  | [] => None
  | p0 :: t => Some (if Qle_bool x (fst p0) then snd p0 else interp_seg p0 t x)
  end.
Definition curve_checks (raws normals : list Q) : option err :=
  if negb (Nat.eqb (length raws) (length normals)) then Some EMixedLengths
  else if has_dupq raws then Some EDuplicateRaw
  else match raws with [] => Some EUnexpected | _ => None end.   (* value_pairs[0]: IndexError *)
Definition curve (raws normals : list Q) (a : arr) : res arr :=
  match curve_checks raws normals with
  | Some e => RErr e
  | None => ROk (unary DFloat (interp (sort_pts (zipw pair raws normals))) a)
  end.
Fixpoint lookup_cat (raws normals : list Q) (d x : Q) : Q :=
  match raws, normals with
  | r :: rs, n :: ns => if Qeq_bool x r then n else lookup_cat rs ns d x
  | _, _ => d
  end.
Definition cat (raws normals : list Q) (d : Q) (a : arr) : res arr :=
  if negb (Nat.eqb (length raws) (length normals)) then RErr EMixedLengths
  else if has_dupq raws then RErr EDuplicateRaw
  else ROk (unary DFloat (fun x => Some (lookup_cat raws normals d x)) a).

(* mean-to-mid control points *)
Fixpoint del_at {A} (i : nat) (l : list A) : list A :=
  match i, l with 0%nat, _ :: t => t | S j, x :: t => x :: del_at j t | _, [] => [] end.
Definition mean_to_mid (ignore_zeros : bool) (normals : list Q) (a : arr) : res arr :=
  let vals := somes (a_cells a) in
  match qminl vals, qmaxl vals with
  | Some lo, Some hi =>
    let used := if ignore_zeros then filter (fun x => negb (Qeq_bool x 0)) vals else vals in
    match used with
    | [] => RErr EUnexpected
    | _ =>
      let mu := qmean used in
      let below := filter (fun x => Qle_bool x mu) used in
      let above := filter (fun x => negb (Qle_bool x mu)) used in
      match above, below with
      | [], _ | _, [] => RErr EUnexpected        (* fewer than two distinct values among the cells used *)
      | _, _ =>
        if negb (Nat.eqb (length normals) 5) then RErr EUnexpected else
        let raws := [lo; qmean below; mu; qmean above; hi] in
        let '(raws1, normals1) :=
            if Qeq_bool (nth 4 raws 0) (nth 3 raws 0) then (del_at 3 raws, del_at 3 normals) else (raws, normals) in
        let '(raws2, normals2) :=
            if Qeq_bool (nth 0 raws1 0) (nth 1 raws1 0) then (del_at 1 raws1, del_at 1 normals1) else (raws1, normals1) in
        curve raws2 normals2 a
      end
    end
  | _, _ => RErr EUnexpected
  end.

Definition opt (d : Q) (o : option Q) : Q := match o with Some x => x | None => d end.
(* NormalizeZScore; sigma = numpy.ma.std of the input (oracle), mu computed *)
Definition zscore (sigma : Q) (t f s e : Q) (a : arr) : arr :=
  let mu := qmean (somes (a_cells a)) in
  let x1 := mu + sigma * t in let x2 := mu + sigma * f in
  unary DFloat (fun x => match lin x1 e x2 s x with Some y => Some (clamp2 s e y) | None => None end) a.
Definition curve_zscore (sigma : Q) (zs normals : list Q) (a : arr) : res arr :=
  if negb (Nat.eqb (length zs) (length normals)) then RErr EMixedLengths
  else match zs with
       | [] => RErr EUnexpected
       | _ => let mu := qmean (somes (a_cells a)) in
              ROk (unary DFloat (interp (sort_pts (zipw pair (map (fun z => mu + z * sigma) zs) normals))) a)
       end.

Inductive direction := DirNone | DirLowToHigh | DirHighToLow | DirBad.
Definition cvt_to_fuzzy (t f : option Q) (d : direction) (a : arr) : res arr :=
  match d with
  | DirBad => RErr EInvalidDirection
  | _ =>
    let vals := somes (a_cells a) in
    match qminl vals, qmaxl vals with
    | Some lo, Some hi =>
      let high_to_low := match d with DirHighToLow => true | _ => false end in
      let fv := opt (if high_to_low then hi else lo) f in
      let tv := opt (if high_to_low then lo else hi) t in
      if Qeq_bool tv fv then RErr EInvalidThresholds
      else ROk (unary DFloat (fun x => match lin tv 1 fv (-1) x with Some y => Some (fz y) | None => None end) a)
    | _, _ => RErr EUnexpected
    end
  end.
Definition cvt_to_binary (thr : Q) (d : direction) (a : arr) : res arr :=
  match d with
  | DirLowToHigh => ROk (unary DFloat (fun x => Some (if Qlt_le_dec x thr then 0 else 1)) a)
  | DirHighToLow => ROk (unary DFloat (fun x => Some (if Qlt_le_dec x thr then 1 else 0)) a)
  | _ => RErr EInvalidDirection
  end.
Definition cvt_from_fuzzy (t f : Q) (a : arr) : res arr :=
  if Qeq_bool t f then RErr EInvalidThresholds
  else ROk (unary DFloat (fun x => lin 1 t (-1) f x) a).

Definition fzres (r : res arr) : res arr :=
  match r with ROk a => ROk (unary DFloat (fun x => Some (fz x)) a) | RErr e => RErr e end.

Definition weighted (ins : list arr) (ws : list (Q * dtype)) (k : res arr) : res arr :=
  if negb (Nat.eqb (length ws) (length ins)) then RErr EMismatchedWeights else k.
Definition ws_int (ws : list (Q * dtype)) : bool := forallb (fun w => match snd w with DInt => true | DFloat => false end) ws.

(* FuzzySelectedUnion per column: sort the stacked layer, slice, mean *)
Definition sel_union (truest : bool) (k : nat) (vs : list Q) : option Q :=
  let s := sortq vs in
  Some (fz (qmean (if truest then skipn (length s - k) s else firstn k s))).
Definition xor_cell (vs : list Q) : option Q :=
  match rev (sortq vs) with
  | t1 :: t2 :: _ =>
      Some (fz (if Qle_bool t1 (-1) then -1 else t1 - (t1 - t2) * (t2 + 1) / (t1 + 1)))
  | _ => None
  end.

(* ---------- the commands ---------- *)
Inductive ecmd :=
| Copy | AMinusB | Sum | WeightedSum (ws : list (Q * dtype)) | Multiply | ADividedByB | Minimum | Maximum | Mean
| WeightedMean (ws : list (Q * dtype))
| Normalize (s e : option Q)
| NormalizeZScore (sigma : Q) (t f s e : option Q)
| NormalizeCat (raws normals : list Q) (d : Q)
| NormalizeCurve (raws normals : list Q)
| NormalizeMeanToMid (ignore_zeros : bool) (normals : list Q)
| NormalizeCurveZScore (sigma : Q) (zs normals : list Q)
| CvtToFuzzy (t f : option Q) (d : direction)
| CvtToFuzzyZScore (sigma : Q) (t f : option Q)
| CvtToFuzzyCat (raws fuzzies : list Q) (d : Q)
| CvtToFuzzyCurve (raws fuzzies : list Q)
| CvtToFuzzyMeanToMid (ignore_zeros : bool) (fuzzies : list Q)
| CvtToFuzzyCurveZScore (sigma : Q) (zs fuzzies : list Q)
| CvtToBinary (thr : Q) (d : direction)
| FuzzyUnion | FuzzyWeightedUnion (ws : list (Q * dtype))
| FuzzySelectedUnion (truest : option bool) (k : Z)
| FuzzyOr | FuzzyAnd | FuzzyXOr | FuzzyNot
| CvtFromFuzzy (t f : Q).

Definition one (ins : list arr) (k : arr -> res arr) : res arr :=
  match ins with [a] => k a | _ => RErr EUnexpected end.

Definition run (c : ecmd) (ins : list arr) : res arr :=
  match c with
  | Copy => one ins (fun a => ROk a)
  | AMinusB => match ins with [_; _] => nary (join_dt ins) c_sub ins | _ => RErr EUnexpected end
  | ADividedByB => match ins with [_; _] => nary DFloat c_div ins | _ => RErr EUnexpected end
  | Sum => nary (join_dt ins) (fun vs => Some (qsum vs)) ins
  | Multiply => nary (join_dt ins) (fun vs => Some (fold_right Qmult 1 vs)) ins
  | Minimum => nary (join_dt ins) qminl ins
  | Maximum => nary (join_dt ins) qmaxl ins
  | Mean => nary DFloat (fun vs => Some (qmean vs)) ins
  | WeightedSum ws =>
      weighted ins ws (nary (if all_int ins && ws_int ws then DInt else DFloat) (fun vs => Some (wsum (map fst ws) vs)) ins)
  | WeightedMean ws =>
      weighted ins ws (nary DFloat (fun vs => divq (wsum (map fst ws) vs) (qsum (map fst ws))) ins)
  | Normalize s e =>
      one ins (fun a =>
        let vals := somes (a_cells a) in
        match qminl vals, qmaxl vals with
        | Some lo, Some hi =>
            let s := opt 0 s in let e := opt 1 e in
            ROk (unary DFloat (fun x => match divq ((x - lo) * (s - e)) (lo - hi) with Some q => Some (q + s) | None => None end) a)
        | _, _ => RErr EUnexpected
        end)
  | NormalizeZScore sigma t f s e => one ins (fun a => ROk (zscore sigma (opt 0 t) (opt 1 f) (opt 0 s) (opt 1 e) a))
  | NormalizeCat raws normals d => one ins (cat raws normals d)
  | NormalizeCurve raws normals => one ins (curve raws normals)
  | NormalizeMeanToMid iz normals => one ins (mean_to_mid iz normals)
  | NormalizeCurveZScore sigma zs normals => one ins (curve_zscore sigma zs normals)
  | CvtToFuzzy t f d => one ins (cvt_to_fuzzy t f d)
  | CvtToFuzzyZScore sigma t f => one ins (fun a => fzres (ROk (zscore sigma (opt 1 t) (opt (-1) f) (-1) 1 a)))
  | CvtToFuzzyCat raws fuzzies d => one ins (fun a => fzres (cat raws fuzzies d a))
  | CvtToFuzzyCurve raws fuzzies => one ins (fun a => fzres (curve raws fuzzies a))
  | CvtToFuzzyMeanToMid iz fuzzies => one ins (fun a => fzres (mean_to_mid iz fuzzies a))
  | CvtToFuzzyCurveZScore sigma zs fuzzies => one ins (fun a => fzres (curve_zscore sigma zs fuzzies a))
  | CvtToBinary thr d => one ins (fun a => fzres (cvt_to_binary thr d a))
  | FuzzyUnion => nary DFloat (fun vs => Some (fz (qmean vs))) ins
  | FuzzyWeightedUnion ws =>
      weighted ins ws (nary DFloat (fun vs => match divq (wsum (map fst ws) vs) (qsum (map fst ws)) with
                                              | Some q => Some (fz q) | None => None end) ins)
  | FuzzySelectedUnion truest k =>
      match validate_shapes ins with
      | Some e => RErr e
      | None =>
        if (Z.of_nat (length ins) <? k)%Z then RErr EInvalidNumber
        else match truest with
             | None => RErr EInvalidTruest
             | Some tr => if (k <? 1)%Z then RErr EUnexpected     (* k <= 0: outside the definition *)
                          else nary DFloat (sel_union tr (Z.to_nat k)) ins
             end
      end
  | FuzzyOr => nary DFloat (fun vs => option_map fz (qmaxl vs)) ins
  | FuzzyAnd => nary DFloat (fun vs => option_map fz (qminl vs)) ins
  | FuzzyXOr => match validate_shapes ins with
                | Some e => RErr e
                | None => match ins with [_] => RErr EUnexpected | _ => nary DFloat xor_cell ins end
                end
  | FuzzyNot => one ins (fun a => ROk (unary DFloat (fun x => Some (fz (- x))) a))
  | CvtFromFuzzy t f => one ins (cvt_from_fuzzy t f)
  end.
