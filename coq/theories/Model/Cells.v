(* Cell semantics of the 31 EEMS data commands (mpilot/libraries/eems/basic.py, fuzzy.py) over exact
   rationals.  A cell is [None] when missing (masked) and [Some q] otherwise; what numpy keeps underneath a
   masked cell is not part of the model (the correspondence, which varies the hidden payloads, is what ties
   the code to that discipline).

   Every command is BY CONSTRUCTION an instance of one mask-respecting combinator:
       run c ins = match pre c ins with Some e => error e
                   | None => { dtype := odt c ins; shape := shape of the first input;
                               cells := cw (colf c ins) (columns of the inputs) }
   where [pre] are the checks of the command in the order the code performs them, [colf c ins] is the
   function applied to the values of one column (it may depend on whole-array statistics of the inputs:
   min, max, mean, ... of the valid cells) and [cw] makes a result cell missing when any cell of its column is
   missing or the operation is undefined there.  Result values and statistics are kept in lowest terms
   ([Qred]) so that equal numbers are equal terms.
   IEEE rounding, overflow and NaN are not modelled (exact arithmetic); sqrt comes in as the oracle [sigma]. *)
From Coq Require Import QArith Qminmax Qabs List Bool ZArith.
Import ListNotations.
Open Scope Q_scope.

Definition cell := option Q.
Inductive dtype := DInt | DFloat.
Record arr := { a_dt : dtype; a_shape : list nat; a_cells : list cell }.

Inductive err :=
| EEmptyInputs | EMixedShapes | EMismatchedWeights | EMixedLengths | EDuplicateRaw | EInvalidDirection
| EInvalidThresholds | EInvalidNumber | EInvalidTruest
| EUnexpected.   (* a raw Python exception inside execute, wrapped into UnexpectedError by Command.run *)
Inductive res (A : Type) := ROk (a : A) | RErr (e : err).
Arguments ROk {A} a. Arguments RErr {A} e.

(* ---------- rational helpers ---------- *)
Definition qsum (l : list Q) : Q := fold_right Qplus 0 l.
Definition qprod (l : list Q) : Q := fold_right Qmult 1 l.
Definition qlen (l : list Q) : Q := inject_Z (Z.of_nat (length l)).
Definition qmean (l : list Q) : Q := qsum l / qlen l.
Fixpoint qminl (l : list Q) : option Q :=
  match l with [] => None | x :: t => match qminl t with None => Some x | Some m => Some (Qmin x m) end end.
Fixpoint qmaxl (l : list Q) : option Q :=
  match l with [] => None | x :: t => match qmaxl t with None => Some x | Some m => Some (Qmax x m) end end.
(* statistics in lowest terms *)
Definition lo_of (l : list Q) : option Q := option_map Qred (qminl l).
Definition hi_of (l : list Q) : option Q := option_map Qred (qmaxl l).
Definition mean_of (l : list Q) : Q := Qred (qmean l).
(* insure_fuzzy(arr, lo, hi): arr[arr > hi] = hi; then arr[arr < lo] = lo *)
Definition clamp2 (lo hi x : Q) : Q :=
  let y := if Qlt_le_dec hi x then hi else x in if Qlt_le_dec y lo then lo else y.
Definition fz (x : Q) : Q := clamp2 (-1) 1 x.
Fixpoint insert (x : Q) (l : list Q) : list Q :=
  match l with [] => [x] | y :: t => if Qle_bool x y then x :: l else y :: insert x t end.
Definition sortq (l : list Q) : list Q := fold_right insert [] l.      (* ascending *)
Fixpoint memq (x : Q) (l : list Q) : bool := match l with [] => false | y :: t => Qeq_bool x y || memq x t end.
Fixpoint has_dupq (l : list Q) : bool := match l with [] => false | x :: t => memq x t || has_dupq t end.

(* ---------- arrays, columns, the mask-respecting combinator ---------- *)
Definition somes (l : list cell) : list Q := flat_map (fun c => match c with Some q => [q] | None => [] end) l.
Fixpoint all_some (c : list cell) : option (list Q) :=
  match c with
  | [] => Some []
  | None :: _ => None
  | Some q :: t => match all_some t with Some l => Some (q :: l) | None => None end
  end.
Fixpoint zipw {A B C} (f : A -> B -> C) (a : list A) (b : list B) : list C :=
  match a, b with x :: a', y :: b' => f x y :: zipw f a' b' | _, _ => [] end.
(* columns: one cell of every input, for each position of the first input *)
Definition ncells (ins : list (list cell)) : nat := match ins with [] => 0%nat | a :: _ => length a end.
Definition col_at (ins : list (list cell)) (i : nat) : list cell := map (fun a => nth i a None) ins.
Definition cols_of (ins : list (list cell)) : list (list cell) := map (col_at ins) (seq 0 (ncells ins)).
(* result cell: missing when any input cell of the column is missing, or the operation is undefined there *)
Definition cw_cell (f : list Q -> option Q) (col : list cell) : cell :=
  match all_some col with Some vs => option_map Qred (f vs) | None => None end.
Definition cw (f : list Q -> option Q) (cols : list (list cell)) : list cell := map (cw_cell f) cols.

Fixpoint shape_eqb (a b : list nat) : bool :=
  match a, b with [], [] => true | x :: a', y :: b' => Nat.eqb x y && shape_eqb a' b' | _, _ => false end.
(* SameArrayShapeMixin.validate_array_shapes *)
Definition validate_shapes (ins : list arr) : option err :=
  match ins with
  | [] => Some EEmptyInputs
  | [_] => None
  | a :: _ => if forallb (fun b => shape_eqb (a_shape b) (a_shape a)) ins then None else Some EMixedShapes
  end.
Definition is_int (d : dtype) : bool := match d with DInt => true | DFloat => false end.
Definition all_int (ins : list arr) : bool := forallb (fun a => is_int (a_dt a)) ins.
Definition join_dt (ins : list arr) : dtype := if all_int ins then DInt else DFloat.
Definition first_shape (ins : list arr) : list nat := match ins with a :: _ => a_shape a | [] => [] end.

(* ---------- per-cell definitions ---------- *)
Definition wsum (ws vs : list Q) : Q := qsum (zipw Qmult ws vs).
Definition divq (a b : Q) : option Q := if Qeq_bool b 0 then None else Some (a / b).   (* numpy.ma division: masked on a zero divisor *)
Definition c_div (vs : list Q) : option Q := match vs with [a; b] => divq a b | _ => None end.
Definition c_sub (vs : list Q) : option Q := match vs with [a; b] => Some (a - b) | _ => None end.
(* the linear map through (x1,y1) (x2,y2): result = (x - x1) * (y2 - y1) / (x2 - x1) + y1 *)
Definition lin (x1 y1 x2 y2 x : Q) : option Q :=
  match divq ((x - x1) * (y2 - y1)) (x2 - x1) with Some q => Some (q + y1) | None => None end.
(* a one-input command applies [f] to the single value of the column *)
Definition u1 (f : Q -> option Q) (vs : list Q) : option Q := match vs with [x] => f x | _ => None end.

(* piecewise-linear curve through control points sorted by raw value; flat outside *)
(* sorted(zip(raw, normal)): tuples compare lexicographically *)
Definition pt_le (p q : Q * Q) : bool :=
  if Qeq_bool (fst p) (fst q) then Qle_bool (snd p) (snd q) else Qle_bool (fst p) (fst q).
Fixpoint insert_pt (p : Q * Q) (l : list (Q * Q)) : list (Q * Q) :=
  match l with
  | [] => [p]
  | q :: t => if pt_le p q then p :: l else q :: insert_pt p t
  end.
Definition sort_pts (l : list (Q * Q)) : list (Q * Q) := fold_right insert_pt [] l.
Fixpoint interp_seg (prev : Q * Q) (rest : list (Q * Q)) (x : Q) : Q :=
  match rest with
  | [] => snd prev
  | p :: t => if Qle_bool x (fst p)
              then let m := (snd p - snd prev) / (fst p - fst prev) in x * m + (snd prev - m * fst prev)
              else interp_seg p t x
  end.
Definition interp (pts : list (Q * Q)) (x : Q) : option Q :=
  match pts with
  | [] => None
  | p0 :: t => Some (if Qle_bool x (fst p0) then snd p0 else interp_seg p0 t x)
  end.
Definition curve_checks (raws normals : list Q) : option err :=
  if negb (Nat.eqb (length raws) (length normals)) then Some EMixedLengths
  else if has_dupq raws then Some EDuplicateRaw
  else match raws with [] => Some EUnexpected | _ => None end.   (* value_pairs[0]: IndexError *)
Definition curve_pts (raws normals : list Q) : list (Q * Q) := sort_pts (zipw pair raws normals).
Definition cat_checks (raws normals : list Q) : option err :=
  if negb (Nat.eqb (length raws) (length normals)) then Some EMixedLengths
  else if has_dupq raws then Some EDuplicateRaw else None.
(* later assignments win: result[data == raw] = normal, in the order of the lists *)
Fixpoint lookup_cat (raws normals : list Q) (d x : Q) : Q :=
  match raws, normals with
  | r :: rs, n :: ns => if Qeq_bool x r then n else lookup_cat rs ns d x
  | _, _ => d
  end.

(* mean-to-mid control points from the statistics of the valid cells: error, or (raw values, normal values) *)
Fixpoint del_at {A} (i : nat) (l : list A) : list A :=
  match i, l with 0%nat, _ :: t => t | S j, x :: t => x :: del_at j t | _, [] => [] end.
Definition mtm_raws (ignore_zeros : bool) (normals vals : list Q) : res (list Q * list Q) :=
  match lo_of vals, hi_of vals with
  | Some lo, Some hi =>
    let used := if ignore_zeros then filter (fun x => negb (Qeq_bool x 0)) vals else vals in
    match used with
    | [] => RErr EUnexpected
    | _ =>
      let mu := mean_of used in
      let below := filter (fun x => Qle_bool x mu) used in
      let above := filter (fun x => negb (Qle_bool x mu)) used in
      match above, below with
      | [], _ | _, [] => RErr EUnexpected        (* fewer than two distinct values among the cells used *)
      | _, _ =>
        if negb (Nat.eqb (length normals) 5) then RErr EUnexpected else
        let raws := [lo; mean_of below; mu; mean_of above; hi] in
        let '(raws1, normals1) :=
            if Qeq_bool (nth 4 raws 0) (nth 3 raws 0) then (del_at 3 raws, del_at 3 normals) else (raws, normals) in
        let '(raws2, normals2) :=
            if Qeq_bool (nth 0 raws1 0) (nth 1 raws1 0) then (del_at 1 raws1, del_at 1 normals1) else (raws1, normals1) in
        ROk (raws2, normals2)
      end
    end
  | _, _ => RErr EUnexpected
  end.
Definition mtm_checks (iz : bool) (normals vals : list Q) : option err :=
  match mtm_raws iz normals vals with RErr e => Some e | ROk (r, n) => curve_checks r n end.
Definition mtm_pts (iz : bool) (normals vals : list Q) : list (Q * Q) :=
  match mtm_raws iz normals vals with RErr _ => [] | ROk (r, n) => curve_pts r n end.

Definition opt (d : Q) (o : option Q) : Q := match o with Some x => x | None => d end.
(* NormalizeZScore; sigma = numpy.ma.std of the input (oracle), mu computed *)
Definition zscore_f (sigma mu t f s e : Q) (x : Q) : option Q :=
  let x1 := mu + sigma * t in let x2 := mu + sigma * f in
  match lin x1 e x2 s x with Some y => Some (clamp2 s e y) | None => None end.
Definition cz_pts (sigma mu : Q) (zs normals : list Q) : list (Q * Q) :=
  sort_pts (zipw pair (map (fun z => mu + z * sigma) zs) normals).

Inductive direction := DirNone | DirLowToHigh | DirHighToLow | DirBad.
Definition ctf_thresholds (t f : option Q) (d : direction) (vals : list Q) : option (Q * Q) :=
  match lo_of vals, hi_of vals with
  | Some lo, Some hi =>
    let high_to_low := match d with DirHighToLow => true | _ => false end in
    Some (opt (if high_to_low then lo else hi) t, opt (if high_to_low then hi else lo) f)
  | _, _ => None
  end.
Definition ofz (o : option Q) : option Q := option_map fz o.

(* FuzzySelectedUnion per column: sort the stacked layer, slice, mean *)
Definition sel_union (truest : bool) (k : nat) (vs : list Q) : option Q :=
  let s := sortq vs in
  Some (fz (qmean (if truest then skipn (length s - k) s else firstn k s))).
Definition xor_cell (vs : list Q) : option Q :=
  match rev (sortq vs) with
  | t1 :: t2 :: _ =>
      Some (fz (if Qle_bool t1 (-1) then -1 else t1 - (t1 - t2) * (t2 + 1) / (t1 + 1)))
  | _ => None
  end.

(* ---------- the commands ---------- *)
Inductive ecmd :=
| Copy | AMinusB | Sum | WeightedSum (ws : list (Q * dtype)) | Multiply | ADividedByB | Minimum | Maximum | Mean
| WeightedMean (ws : list (Q * dtype))
| Normalize (s e : option Q)
| NormalizeZScore (sigma : Q) (t f s e : option Q)
| NormalizeCat (raws normals : list Q) (d : Q)
| NormalizeCurve (raws normals : list Q)
| NormalizeMeanToMid (ignore_zeros : bool) (normals : list Q)
| NormalizeCurveZScore (sigma : Q) (zs normals : list Q)
| CvtToFuzzy (t f : option Q) (d : direction)
| CvtToFuzzyZScore (sigma : Q) (t f : option Q)
| CvtToFuzzyCat (raws fuzzies : list Q) (d : Q)
| CvtToFuzzyCurve (raws fuzzies : list Q)
| CvtToFuzzyMeanToMid (ignore_zeros : bool) (fuzzies : list Q)
| CvtToFuzzyCurveZScore (sigma : Q) (zs fuzzies : list Q)
| CvtToBinary (thr : Q) (d : direction)
| FuzzyUnion | FuzzyWeightedUnion (ws : list (Q * dtype))
| FuzzySelectedUnion (truest : option bool) (k : Z)
| FuzzyOr | FuzzyAnd | FuzzyXOr | FuzzyNot
| CvtFromFuzzy (t f : Q).

Definition ws_int (ws : list (Q * dtype)) : bool := forallb (fun w => is_int (snd w)) ws.
Definition wvals (ws : list (Q * dtype)) : list Q := map fst ws.

(* first failing check *)
Definition orelse (a b : option err) : option err := match a with Some e => Some e | None => b end.
Infix "|>" := orelse (at level 60, right associativity).
Definition single (ins : list arr) : option err := match ins with [_] => None | _ => Some EUnexpected end.
Definition pair_in (ins : list arr) : option err := match ins with [_; _] => None | _ => Some EUnexpected end.
Definition weights_ok (ws : list (Q * dtype)) (ins : list arr) : option err :=
  if negb (Nat.eqb (length ws) (length ins)) then Some EMismatchedWeights else None.
Definition vals_of (ins : list arr) : list Q := match ins with [a] => somes (a_cells a) | _ => [] end.
Definition need_minmax (vals : list Q) : option err :=
  match lo_of vals, hi_of vals with Some _, Some _ => None | _, _ => Some EUnexpected end.
Definition first_dt (ins : list arr) : dtype := match ins with a :: _ => a_dt a | [] => DFloat end.

(* the checks of a command, in the order of the code *)
Definition pre (c : ecmd) (ins : list arr) : option err :=
  let vals := vals_of ins in
  match c with
  | Copy => single ins
  | AMinusB | ADividedByB => pair_in ins |> validate_shapes ins
  | Sum | Multiply | Minimum | Maximum | Mean | FuzzyUnion | FuzzyOr | FuzzyAnd => validate_shapes ins
  | WeightedSum ws | WeightedMean ws | FuzzyWeightedUnion ws => weights_ok ws ins |> validate_shapes ins
  | Normalize _ _ => single ins          (* no valid cell: minimum and maximum are the masked constant, every result cell is missing *)
  | NormalizeZScore _ _ _ _ _ | CvtToFuzzyZScore _ _ _ => single ins
  | NormalizeCat raws normals _ | CvtToFuzzyCat raws normals _ => single ins |> cat_checks raws normals
  | NormalizeCurve raws normals | CvtToFuzzyCurve raws normals => single ins |> curve_checks raws normals
  | NormalizeMeanToMid iz normals | CvtToFuzzyMeanToMid iz normals => single ins |> mtm_checks iz normals vals
  | NormalizeCurveZScore _ zs normals | CvtToFuzzyCurveZScore _ zs normals =>
      single ins |> (if negb (Nat.eqb (length zs) (length normals)) then Some EMixedLengths
                     else match zs with [] => Some EUnexpected | _ => None end)
  | CvtToFuzzy t f d =>
      single ins |> match d with
                    | DirBad => Some EInvalidDirection
                    | _ => match ctf_thresholds t f d vals with
                           | None =>       (* no valid cell: the default thresholds are the masked constant, which equals nothing *)
                               match t, f with Some tv, Some fv => if Qeq_bool tv fv then Some EInvalidThresholds else None | _, _ => None end
                           | Some (tv, fv) => if Qeq_bool tv fv then Some EInvalidThresholds else None
                           end
                    end
  | CvtToBinary _ d => single ins |> match d with DirLowToHigh | DirHighToLow => None | _ => Some EInvalidDirection end
  | FuzzySelectedUnion truest k =>
      validate_shapes ins |> (if (Z.of_nat (length ins) <? k)%Z then Some EInvalidNumber
                              else match truest with
                                   | None => Some EInvalidTruest
                                   | Some _ => if (k <? 1)%Z then Some EUnexpected else None   (* k <= 0: outside the definition *)
                                   end)
  | FuzzyXOr => validate_shapes ins |> match ins with [_] => Some EUnexpected | _ => None end
  | FuzzyNot => single ins
  | CvtFromFuzzy t f => single ins |> (if Qeq_bool t f then Some EInvalidThresholds else None)
  end.

(* element type of the result *)
Definition odt (c : ecmd) (ins : list arr) : dtype :=
  match c with
  | Copy => first_dt ins
  | AMinusB | Sum | Multiply | Minimum | Maximum => join_dt ins
  | WeightedSum ws => if all_int ins && ws_int ws then DInt else DFloat
  | _ => DFloat
  end.

(* what is computed from the values of one column *)
Definition colf (c : ecmd) (ins : list arr) : list Q -> option Q :=
  let vals := vals_of ins in
  let mu := mean_of vals in
  match c with
  | Copy => u1 Some
  | AMinusB => c_sub
  | ADividedByB => c_div
  | Sum => fun vs => Some (qsum vs)
  | Multiply => fun vs => Some (qprod vs)
  | Minimum => qminl
  | Maximum => qmaxl
  | Mean => fun vs => Some (qmean vs)
  | WeightedSum ws => fun vs => Some (wsum (wvals ws) vs)
  | WeightedMean ws => fun vs => divq (wsum (wvals ws) vs) (qsum (wvals ws))
  | Normalize s e =>
      let s := opt 0 s in let e := opt 1 e in
      u1 (fun x => match divq ((x - opt 0 (lo_of vals)) * (s - e)) (opt 0 (lo_of vals) - opt 0 (hi_of vals)) with
                   | Some q => Some (q + s) | None => None end)
  | NormalizeZScore sigma t f s e => u1 (zscore_f sigma mu (opt 0 t) (opt 1 f) (opt 0 s) (opt 1 e))
  | NormalizeCat raws normals d => u1 (fun x => Some (lookup_cat raws normals d x))
  | NormalizeCurve raws normals => u1 (interp (curve_pts raws normals))
  | NormalizeMeanToMid iz normals => u1 (interp (mtm_pts iz normals vals))
  | NormalizeCurveZScore sigma zs normals => u1 (interp (cz_pts sigma mu zs normals))
  | CvtToFuzzy t f d =>
      match ctf_thresholds t f d vals with
      | Some (tv, fv) => u1 (fun x => ofz (lin tv 1 fv (-1) x))
      | None => u1 (fun _ => Some 0)        (* no valid cell at all: never used, every column has a missing cell *)
      end
  | CvtToFuzzyZScore sigma t f => u1 (fun x => ofz (zscore_f sigma mu (opt 1 t) (opt (-1) f) (-1) 1 x))
  | CvtToFuzzyCat raws fuzzies d => u1 (fun x => Some (fz (lookup_cat raws fuzzies d x)))
  | CvtToFuzzyCurve raws fuzzies => u1 (fun x => ofz (interp (curve_pts raws fuzzies) x))
  | CvtToFuzzyMeanToMid iz fuzzies => u1 (fun x => ofz (interp (mtm_pts iz fuzzies vals) x))
  | CvtToFuzzyCurveZScore sigma zs fuzzies => u1 (fun x => ofz (interp (cz_pts sigma mu zs fuzzies) x))
  | CvtToBinary thr d =>
      u1 (fun x => Some (fz (match d with DirHighToLow => if Qlt_le_dec x thr then 1 else 0
                                        | _ => if Qlt_le_dec x thr then 0 else 1 end)))
  | FuzzyUnion => fun vs => Some (fz (qmean vs))
  | FuzzyWeightedUnion ws => fun vs => ofz (divq (wsum (wvals ws) vs) (qsum (wvals ws)))
  | FuzzySelectedUnion truest k =>
      match truest with Some tr => sel_union tr (Z.to_nat k) | None => fun _ => None end
  | FuzzyOr => fun vs => ofz (qmaxl vs)
  | FuzzyAnd => fun vs => ofz (qminl vs)
  | FuzzyXOr => xor_cell
  | FuzzyNot => u1 (fun x => Some (fz (- x)))
  | CvtFromFuzzy t f => u1 (lin 1 t (-1) f)
  end.

Definition run (c : ecmd) (ins : list arr) : res arr :=
  match pre c ins with
  | Some e => RErr e
  | None => ROk {| a_dt := odt c ins; a_shape := first_shape ins;
                   a_cells := cw (colf c ins) (cols_of (map a_cells ins)) |}
  end.

(* the command name as registered by the code (class name) *)
From Coq Require Import String.
Definition cmd_name (c : ecmd) : string :=
  match c with
  | Copy => "Copy" | AMinusB => "AMinusB" | Sum => "Sum" | WeightedSum _ => "WeightedSum" | Multiply => "Multiply"
  | ADividedByB => "ADividedByB" | Minimum => "Minimum" | Maximum => "Maximum" | Mean => "Mean"
  | WeightedMean _ => "WeightedMean" | Normalize _ _ => "Normalize" | NormalizeZScore _ _ _ _ _ => "NormalizeZScore"
  | NormalizeCat _ _ _ => "NormalizeCat" | NormalizeCurve _ _ => "NormalizeCurve"
  | NormalizeMeanToMid _ _ => "NormalizeMeanToMid" | NormalizeCurveZScore _ _ _ => "NormalizeCurveZScore"
  | CvtToFuzzy _ _ _ => "CvtToFuzzy" | CvtToFuzzyZScore _ _ _ => "CvtToFuzzyZScore" | CvtToFuzzyCat _ _ _ => "CvtToFuzzyCat"
  | CvtToFuzzyCurve _ _ => "CvtToFuzzyCurve" | CvtToFuzzyMeanToMid _ _ => "CvtToFuzzyMeanToMid"
  | CvtToFuzzyCurveZScore _ _ _ => "CvtToFuzzyCurveZScore" | CvtToBinary _ _ => "CvtToBinary"
  | FuzzyUnion => "FuzzyUnion" | FuzzyWeightedUnion _ => "FuzzyWeightedUnion" | FuzzySelectedUnion _ _ => "FuzzySelectedUnion"
  | FuzzyOr => "FuzzyOr" | FuzzyAnd => "FuzzyAnd" | FuzzyXOr => "FuzzyXOr" | FuzzyNot => "FuzzyNot"
  | CvtFromFuzzy _ _ => "CvtFromFuzzy"
  end%string.
