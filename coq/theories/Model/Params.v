(* Model of the parameter cleaners (mpilot/params.py): clean(value, program, lineno) for every parameter class.
   Raw values are what the parser or the API can deliver.  Python built-ins enter as data: a string value
   carries what int(s) and float(s) return for it and a float carries its str() text (oracle fields, filled in by the
   harness from the running interpreter and cross-checked for the simple cases); os.path.exists is a predicate of
   the environment.  Which exception classes each cleaner catches and which kind guards it has is read off the
   source on every run (Gen/GenParamFacts.v), so the model follows the code. *)
From Coq Require Import String List Bool ZArith QArith Ascii.
From MP Require Import Base.Sig.
Import ListNotations.
Open Scope string_scope.

Inductive fnum := FFin (q : Q) | FInf | FNInf | FNaN.
Inductive raw :=
| RInt (z : Z)
| RFloat (f : fnum) (text : string)                      (* text = str(value) *)
| RBool (b : bool)
| RStr (s : string) (as_int : option Z) (as_float : option fnum)   (* int(s), float(s) when they succeed *)
| RList (l : list raw)                                   (* list or tuple *)
| RDict (kv : list (string * raw))
| RCmd (n : string)                                      (* a Command object whose result name is n *)
| RType (t : string)                                     (* a Python type object: float, int, float64, uint *)
| RData                                                  (* a numpy array *)
| RNone
| RTuple0.                                               (* the empty tuple (): a sequence that equals nothing but itself, not [] *)

Inductive perr :=
| EParameterNotValid (kind : string) | EPathDoesNotExist | EInvalidRelativePath
| EResultDoesNotExist (n : string) | EResultNotFuzzy (n : string) | EResultIsFuzzy (n : string) | EResultTypeNotValid (n : string)
| EEscape (pyexc : string).                               (* a raw Python exception leaves clean() *)
Inductive cres := COk (v : raw) | CErr (e : perr).

(* the program a value is cleaned against *)
Record cinfo := { ci_fuzzy : bool; ci_output : option string; ci_finished : option raw }.
     (* ci_output: parameter class name of the declared output; ci_finished: the result once the command has run *)
Record env := { wd : option string; path_exists : string -> bool; cmds : list (string * cinfo) }.
Fixpoint find_cmd (l : list (string * cinfo)) (n : string) : option cinfo :=
  match l with [] => None | (k, c) :: t => if String.eqb k n then Some c else find_cmd t n end.

(* what the source says (regenerated): exception classes caught, kind guards present *)
Record pfacts := {
  number_catch_int : list string;        (* except (...) around int(value) *)
  number_catch_float : list string;      (* except (...) around float(value) *)
  datatype_catch : list string;          (* except (...) around the look-up *)
  datatype_membership_guarded : bool;    (* `value in valid_types.values()` inside the try *)
  string_rejects : list string;          (* isinstance guard of StringParameter: python type names rejected *)
  path_requires_text : bool }.           (* isinstance guard of PathParameter *)

Definition lower_ascii (c : ascii) : ascii :=
  let n := nat_of_ascii c in if (Nat.leb 65 n && Nat.leb n 90)%bool then ascii_of_nat (n + 32) else c.
Fixpoint lower (s : string) : string := match s with EmptyString => EmptyString | String c t => String (lower_ascii c) (lower t) end.

Definition pytype (v : raw) : string :=
  match v with RInt _ => "int" | RFloat _ _ => "float" | RBool _ => "bool" | RStr _ _ _ => "str" | RList _ => "list"
  | RDict _ => "dict" | RCmd _ => "Command" | RType _ => "type" | RData => "ndarray" | RNone => "NoneType" | RTuple0 => "tuple" end.
Definition is_number (v : raw) : bool := match v with RInt _ | RFloat _ _ | RBool _ => true | _ => false end.

(* six.text_type(value) for the scalar kinds *)
Definition z_text (z : Z) : string := (* decimal text of an integer *)
  let fix digits (fuel : nat) (n : N) (acc : string) : string :=
      match fuel with O => acc | S f =>
        let d := N.modulo n 10 in let acc' := String (ascii_of_N (48 + d)) acc in
        if N.eqb (N.div n 10) 0 then acc' else digits f (N.div n 10) acc' end in
  match z with Z0 => "0" | Zpos p => digits (S (N.to_nat (N.log2 (Npos p)))) (Npos p) "" | Zneg p => String "-" (digits (S (N.to_nat (N.log2 (Npos p)))) (Npos p) "") end.
Definition text_of (v : raw) : option string :=
  match v with
  | RInt z => Some (z_text z) | RFloat _ t => Some t | RBool true => Some "True" | RBool false => Some "False"
  | RStr s _ _ => Some s | RNone => Some "None" | _ => None   (* containers / objects: not modelled *)
  end.

(* int(value) / float(value): result or the exception class *)
Definition py_int (v : raw) : Z + string :=
  match v with
  | RInt z => inl z | RBool b => inl (if b then 1 else 0)%Z
  | RFloat (FFin q) _ => inl (Qnum q / Zpos (Qden q) + (if (Qnum q <? 0)%Z && negb (Z.eqb (Z.modulo (Qnum q) (Zpos (Qden q))) 0) then 1 else 0))%Z   (* truncation towards zero *)
  | RFloat FNaN _ => inr "ValueError" | RFloat _ _ => inr "OverflowError"
  | RStr _ (Some z) _ => inl z | RStr _ None _ => inr "ValueError"
  | _ => inr "TypeError"
  end.
Definition py_float (v : raw) : fnum + string :=
  match v with
  | RInt z => inl (FFin (inject_Z z)) | RBool b => inl (FFin (if b then 1 else 0)) | RFloat f _ => inl f
  | RStr _ _ (Some f) => inl f | RStr _ _ None => inr "ValueError"
  | _ => inr "TypeError"
  end.

Fixpoint assoc_str {A} (l : list (string * A)) (k : string) : option A :=
  match l with [] => None | (x, v) :: t => if String.eqb x k then Some v else assoc_str t k end.
Fixpoint accepts (tbl : list (string * string * bool)) (a b : string) : bool :=
  match tbl with [] => false | (x, y, r) :: t => if String.eqb x a && String.eqb y b then r else accepts t a b end.
Definition class_of (p : pkind) : string :=
  match p with
  | PAny => "Parameter" | PString => "StringParameter" | PNumber => "NumberParameter" | PBoolean => "BooleanParameter"
  | PPath _ => "PathParameter" | PResult _ _ => "ResultParameter" | PList _ => "ListParameter" | PTuple => "TupleParameter"
  | PData => "DataParameter" | PDataType _ => "DataTypeParameter" | PUnknown c => c
  end.
Definition starts_with_slash (s : string) : bool := match s with String "/" _ => true | _ => false end.
Fixpoint ends_with_slash (s : string) : bool :=
  match s with EmptyString => false | String c EmptyString => Ascii.eqb c "/" | String _ t => ends_with_slash t end.
Definition path_join (a b : string) : string := if ends_with_slash a || String.eqb a "" then a ++ b else a ++ "/" ++ b.

Section Clean.
Variable F : pfacts.
Variable acc_tbl : list (string * string * bool).
Variable E : env.

Definition clean_number (v : raw) : cres :=
  if is_number v then COk v else
  match py_int v with
  | inl z => COk (RInt z)
  | inr ex => if mem_str ex (number_catch_int F) then
                match py_float v with
                | inl f => COk (RFloat f "")
                | inr ex2 => if mem_str ex2 (number_catch_float F) then CErr (EParameterNotValid "Number") else CErr (EEscape ex2)
                end
              else CErr (EEscape ex)
  end.
Definition clean_boolean (v : raw) : cres :=
  match v with
  | RBool b => COk (RBool b)
  | RInt z => COk (RBool (negb (Z.eqb z 0)))
  | RStr s i _ => if String.eqb (lower s) "true" then COk (RBool true) else if String.eqb (lower s) "false" then COk (RBool false)
                  else match i with Some z => COk (RBool (negb (Z.eqb z 0))) | None => CErr (EParameterNotValid "Boolean") end
  | _ => CErr (EParameterNotValid "Boolean")
  end.
Definition clean_string (v : raw) : cres :=
  if mem_str (pytype v) (string_rejects F) then CErr (EParameterNotValid "String")
  else match text_of v with Some t => COk (RStr t None None) | None => COk (RStr "<object>" None None) end.
Definition clean_path (must_exist : bool) (v : raw) : cres :=
  match v with
  | RStr s i f =>
      let r := if starts_with_slash s then inl s
               else match wd E with None => inr EInvalidRelativePath | Some d => inl (path_join d s) end in
      match r with
      | inr e => CErr e
      | inl p => if must_exist && negb (path_exists E p) then CErr EPathDoesNotExist
                 else COk (if starts_with_slash s then RStr s i f else RStr p None None)
      end
  | _ => if path_requires_text F then CErr (EParameterNotValid "Path") else CErr (EEscape "TypeError")
  end.
Definition hashable (v : raw) : bool := match v with RList _ | RDict _ | RData => false | _ => true end.
Definition clean_datatype (keys : list (string * string)) (v : raw) : cres :=
  let miss := CErr (EParameterNotValid "Data Type") in
  match v with
  | RType t => if mem_str t (map snd keys) then COk v else miss
  | RStr s _ _ => match assoc_str keys s with Some t => COk (RType t) | None => miss end
  | _ => if hashable v then miss
         else if mem_str "TypeError" (datatype_catch F) && (datatype_membership_guarded F || negb (match v with RData => true | _ => false end))
              then miss else CErr (EEscape "TypeError")
  end.
Definition clean_tuple (v : raw) : cres :=
  match v with
  | RList [] => COk (RDict [])
  | RDict kv => COk (RDict (map (fun p => (fst p, match text_of (snd p) with Some t => RStr t None None | None => RStr "<object>" None None end)) kv))
  | _ => CErr (EParameterNotValid "Tuple")
  end.
Definition clean_data (v : raw) : cres := match v with RData => COk RData | _ => CErr (EParameterNotValid "Data Array") end.

Fixpoint clean_list (f : raw -> cres) (l : list raw) : list raw + perr :=
  match l with
  | [] => inl []
  | x :: t => match f x with CErr e => inr e | COk v => match clean_list f t with inl vs => inl (v :: vs) | inr e => inr e end end
  end.

(* output_type.clean(value.result) of a finished command: only its error matters *)
Fixpoint clean (p : pkind) (v : raw) {struct p} : cres :=
  match p with
  | PAny => COk v
  | PString => clean_string v
  | PNumber => clean_number v
  | PBoolean => clean_boolean v
  | PPath me => clean_path me v
  | PTuple => clean_tuple v
  | PData => clean_data v
  | PDataType keys => clean_datatype keys v
  | PList item => match v with
                  | RList l => match clean_list (clean item) l with inl vs => COk (RList vs) | inr e => CErr e end
                  | RTuple0 => COk (RList [])
                  | _ => CErr (EParameterNotValid "List")
                  end
  | PResult out fz =>
      let resolved := match v with
                      | RStr s _ _ => match find_cmd (cmds E) s with Some _ => inl s | None => inr (EResultDoesNotExist s) end
                      | RCmd n => inl n
                      | _ => inr (EParameterNotValid "Result") end in
      match resolved with
      | inr e => CErr e
      | inl n =>
        match find_cmd (cmds E) n with
        | None => CErr (EParameterNotValid "Result")        (* a Command object that is not part of the program: not modelled *)
        | Some c =>
          if match fz with Some true => negb (ci_fuzzy c) | _ => false end then CErr (EResultNotFuzzy n)
          else if match fz with Some false => ci_fuzzy c | _ => false end then CErr (EResultIsFuzzy n)
          else match out with
               | None => COk (RCmd n)
               | Some o =>
                 match ci_finished c with
                 | Some r => match clean o r with CErr e => CErr e | COk _ => COk (RCmd n) end
                 | None => match ci_output c with
                           | Some oc => if accepts acc_tbl (class_of o) oc then COk (RCmd n) else CErr (EResultTypeNotValid n)
                           | None => COk (RCmd n)
                           end
                 end
               end
        end
      end
  | PUnknown _ => CErr (EEscape "unsupported parameter class")
  end.
End Clean.
