(* The Parser OBJECT (mpilot/parser/parser.py, class Parser): what one object keeps between two calls of parse() -- the
   lexer's running line counter (PLY's input() resets the position, not the line), the EEMS 2.0 flag set by the action of
   `command : ID arguments`, the list of pending action errors -- and the three assignments at the top of parse() that reset
   them.  Which of the three resets the code performs is a regenerated fact (Gen/GenFacts.v: parser_resets), so the model is
   parameterised by them.  The state after a parse is given for successful parses only (what an interrupted parse leaves
   behind is not modelled: every theorem below quantifies over ALL prior states instead). *)
From Coq Require Import NArith List Bool.
From MP Require Import Model.Lexer Gen.GenGrammar Model.Parser.
Import ListNotations.
Open Scope N_scope.

Record pobj := { po_lineno : N; po_v2 : bool; po_pending : bool }.
Record resets := { rs_lineno : bool; rs_v2 : bool; rs_errors : bool }.
Definition fresh : pobj := {| po_lineno := 1; po_v2 := false; po_pending := false |}.        (* Parser.__init__ *)
Definition all_resets : resets := {| rs_lineno := true; rs_v2 := true; rs_errors := true |}.

(* the line counter once the whole text has been tokenised *)
Fixpoint end_line (fuel : nat) (line : N) (s : text) : N :=
  match fuel with
  | O => line
  | S f =>
    match snd (lex1 s) with
    | LEnd | LErr => line
    | LSkip a rest => end_line f (line + (if match a with c :: _ => is_nl c | [] => false end then breaks a else 0)) rest
    | LTok k a rest => end_line f (match k with KSTRING => line + breaks a | _ => line end) rest
    end
  end.

Definition parse_obj (R : resets) (float_str : text -> option text) (o : pobj) (s : text) : presult * option pobj :=
  let l0 := if rs_lineno R then 1 else po_lineno o in
  let v0 := if rs_v2 R then false else po_v2 o in
  let e0 := if rs_errors R then false else po_pending o in
  match lex (S (length s)) l0 0 s with
  | LexError _ _ => (PSyntaxError, None)
  | LexOk toks =>
    match lr toks with
    | None => (PSyntaxError, None)
    | Some t =>
      match eval float_str t with
      | SOk (SProg p) =>
          (* the flag is only ever set, never cleared, by the actions; a pending error makes parse() raise after yacc returns *)
          let p' := {| pp_cmds := pp_cmds p; pp_version := if v0 then 2 else pp_version p |} in
          (if e0 then PSyntaxError else POk p',
           Some {| po_lineno := end_line (S (length s)) l0 s; po_v2 := v0 || (pp_version p =? 2); po_pending := e0 |})
      | SSyntax => (PSyntaxError, None)
      | _ => (PUnsupported, None)
      end
    end
  end.
