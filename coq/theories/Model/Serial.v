(* Model of the value texts Program.to_string writes (mpilot/program.py): quoted strings with the escapes the lexer
   decodes, integers as decimal digits.  (Floats are written with repr(), an oracle.) *)
From Coq Require Import NArith ZArith List Bool.
From MP Require Import Model.Lexer Model.Parser.
Import ListNotations.
Open Scope N_scope.

Definition esc (c : ch) : text :=
  if c =? 92 then [92; 92] else if c =? 34 then [92; 34] else if c =? 10 then [92; 110]
  else if c =? 13 then [92; 114] else if c =? 9 then [92; 116] else [c].
Definition quote_body (s : text) : text := flat_map esc s.
Definition quote (s : text) : text := 34 :: quote_body s ++ [34].
Definition int_text (z : Z) : text := str_of_Z z.

(* ---- the whole of Program.to_string ----
   A value of a program as Python sees it: a string, an integer, a float (repr() is an oracle), a boolean, a Command
   object, anything else (str() is an oracle), a list or tuple at any nesting.  serialize_value dispatches in this order:
   list -> Command (written as its result name) -> under a Result parameter: str(value) -> string (quoted) -> float
   (repr, repaired to contain a dot when it has an exponent) -> str(value).  An argument is a value, or a dictionary
   of metadata whose keys and values are quoted. *)
Inductive sval := SVStr (s : text) | SVInt (z : Z) | SVFloat (repr : text) | SVBool (b : bool) | SVCmd (result_name : text)
                | SVOther (str : text) | SVList (l : list sval).
Inductive sarg := SAVal (under_result_param : bool) (v : sval) | SADict (kv : list (text * text)).
Record scmd := { sc_result : text; sc_name : text; sc_args : list (text * sarg) }.

Fixpoint join (sep : text) (l : list text) : text :=
  match l with [] => [] | x :: t => match t with [] => x | _ => x ++ sep ++ join sep t end end.
Definition has_char (c : ch) (s : text) : bool := existsb (N.eqb c) s.
(* text.replace("e", ".0e") *)
Definition fix_exp (s : text) : text := flat_map (fun c => if c =? 101 then [46; 48; 101] else [c]) s.
Definition float_text (repr : text) : text := if has_char 101 repr && negb (has_char 46 repr) then fix_exp repr else repr.
Definition bool_text (b : bool) : text := if b then [84; 114; 117; 101] else [70; 97; 108; 115; 101].
Definition py_str (v : sval) : text :=          (* str(value) for the scalar kinds *)
  match v with SVStr s => s | SVInt z => int_text z | SVFloat r => r | SVBool b => bool_text b | SVCmd n => n | SVOther t => t | SVList _ => [] end.
Fixpoint ser_value (isres : bool) (v : sval) : text :=
  match v with
  | SVList l => 91 :: join [44; 32] (map (ser_value isres) l) ++ [93]
  | SVCmd n => n
  | _ => if isres then py_str v else
         match v with SVStr s => quote s | SVFloat r => float_text r | _ => py_str v end
  end.
Definition spaces (n : nat) : text := repeat 32 n.
Definition ser_arg (a : sarg) : text :=
  match a with
  | SAVal isres v => ser_value isres v
  | SADict kv => [91; 10] ++ join [44; 10] (map (fun p => spaces 8 ++ quote (fst p) ++ [58; 32] ++ quote (snd p)) kv) ++ [10] ++ spaces 4 ++ [93]
  end.
Definition ser_cmd (c : scmd) : text :=
  sc_result c ++ [32; 61; 32] ++ sc_name c ++ [40] ++
  ([10] ++ spaces 4 ++ join ([44; 10] ++ spaces 4) (map (fun p => fst p ++ [32; 61; 32] ++ ser_arg (snd p)) (sc_args c)) ++ [10]) ++ [41].
Definition ser_program (p : list scmd) : text := join [10] (map ser_cmd p).
