(* Model of loading and validating a program: Program.from_source/add_command (unknown command, duplicate result,
   missing and undeclared parameters) and the validation pre-pass of Program.run (every declared argument of every
   command is cleaned, in file order, before anything executes).  Signatures come from Gen/GenSigs.v. *)
From Coq Require Import String List Bool ZArith QArith.
From MP Require Import Base.Sig Model.Params.
Import ListNotations.
Open Scope string_scope.

Record arg := { g_name : string; g_value : raw; g_line : nat }.
Record node := { n_result : string; n_cmd : string; n_args : list arg; n_line : nat }.

Inductive lerr :=
| LCommandDoesNotExist (cmd : string) (line : nat)
| LDuplicateResult (res : string) (line : nat)
| LMissingParameters (cmd : string) (missing : list string) (line : nat)
| LNoSuchParameter (cmd : string) (param : string) (line : nat)
| LParam (e : perr) (line : nat).               (* raised by a cleaner; carries the line of the argument *)

Definition given (n : node) : list string := map g_name (n_args n).
Definition required (s : sig) : list string := map p_name (filter p_required (s_inputs s)).
Definition declared (s : sig) : list string := map p_name (s_inputs s).

(* add_command: duplicate result, then missing parameters, then undeclared ones in argument order *)
Definition first_undeclared (s : sig) (n : node) : option arg :=
  if s_extra s then None else find (fun a => negb (mem_str (g_name a) (declared s))) (n_args n).
Definition static_error (sigs : list sig) (seen : list string) (n : node) : option lerr :=
  match find_sig sigs (n_cmd n) with
  | None => Some (LCommandDoesNotExist (n_cmd n) (n_line n))
  | Some s =>
    if mem_str (n_result n) seen then Some (LDuplicateResult (n_result n) (n_line n))
    else match filter (fun r => negb (mem_str r (given n))) (required s) with
         | (_ :: _) as miss => Some (LMissingParameters (n_cmd n) miss (n_line n))
         | [] => match first_undeclared s n with
                 | Some a => Some (LNoSuchParameter (n_cmd n) (g_name a) (g_line a))
                 | None => None
                 end
         end
  end.
Fixpoint load (sigs : list sig) (seen : list string) (nodes : list node) : option lerr :=
  match nodes with
  | [] => None
  | n :: t => match static_error sigs seen n with Some e => Some e | None => load sigs (n_result n :: seen) t end
  end.

(* the program as the cleaners see it: every command loaded, none finished *)
Definition cinfo_of (sigs : list sig) (n : node) : string * cinfo :=
  (n_result n, match find_sig sigs (n_cmd n) with
               | Some s => {| ci_fuzzy := s_fuzzy s; ci_output := option_map class_of (s_output s); ci_finished := None |}
               | None => {| ci_fuzzy := false; ci_output := None; ci_finished := None |} end).
Definition env_of_nodes (sigs : list sig) (wdir : option string) (ex : string -> bool) (nodes : list node) : env :=
  {| wd := wdir; path_exists := ex; cmds := map (cinfo_of sigs) nodes |}.

Section Prepass.
Variable F : pfacts.
Variable acc : list (string * string * bool).
Variable sigs : list sig.
Variable E : env.

Definition arg_error (s : sig) (a : arg) : option lerr :=
  match find_param (s_inputs s) (g_name a) with
  | None => None                                   (* extra inputs are not cleaned *)
  | Some p => match clean F acc E (p_kind p) (g_value a) with COk _ => None | CErr e => Some (LParam e (g_line a)) end
  end.
Fixpoint first_some {A B} (f : A -> option B) (l : list A) : option B :=
  match l with [] => None | x :: t => match f x with Some e => Some e | None => first_some f t end end.
Definition node_error (n : node) : option lerr :=
  match find_sig sigs (n_cmd n) with Some s => first_some (arg_error s) (n_args n) | None => None end.
Definition prepass (nodes : list node) : option lerr := first_some node_error nodes.
End Prepass.

Definition load_and_prepass (F : pfacts) (acc : list (string * string * bool)) (sigs : list sig)
           (wdir : option string) (ex : string -> bool) (nodes : list node) : option lerr :=
  match load sigs [] nodes with
  | Some e => Some e
  | None => prepass F acc sigs (env_of_nodes sigs wdir ex nodes) nodes
  end.

(* ---------- the specification of "well-formed", independent of the order of the checks ---------- *)
Section Spec.
Variable acc : list (string * string * bool).
Variable E : env.
Definition scalar_like (v : raw) : bool := match v with RList _ | RDict _ | RTuple0 => false | _ => true end.
Definition resolves (v : raw) : option string :=
  match v with RStr s _ _ => if find_cmd (cmds E) s then Some s else None | RCmd n => if find_cmd (cmds E) n then Some n else None | _ => None end.
Fixpoint kind_ok (p : pkind) (v : raw) {struct p} : bool :=
  match p with
  | PAny => true
  | PString => scalar_like v
  | PNumber => match v with RInt _ | RFloat _ _ | RBool _ => true | RStr _ i f => (if i then true else false) || (if f then true else false) | _ => false end
  | PBoolean => match v with RBool _ | RInt _ => true
                | RStr s i _ => String.eqb (lower s) "true" || String.eqb (lower s) "false" || (if i then true else false) | _ => false end
  | PPath me => match v with
                | RStr s _ _ => if starts_with_slash s then negb me || path_exists E s
                                else match wd E with Some d => negb me || path_exists E (path_join d s) | None => false end
                | _ => false end
  | PDataType keys => match v with RType t => mem_str t (map snd keys) | RStr s _ _ => if assoc_str keys s then true else false | _ => false end
  | PList item => match v with RList l => forallb (kind_ok item) l | RTuple0 => true | _ => false end
  | PTuple => match v with RDict _ | RList [] => true | _ => false end
  | PData => match v with RData => true | _ => false end
  | PResult out fz =>
      match resolves v with
      | None => false
      | Some n => match find_cmd (cmds E) n with
                  | None => false
                  | Some c =>
                    match fz with Some b => Bool.eqb b (ci_fuzzy c) | None => true end &&
                    match out with
                    | None => true
                    | Some o => match ci_finished c with
                                | Some r => kind_ok o r
                                | None => match ci_output c with Some oc => accepts acc (class_of o) oc | None => true end
                                end
                    end
                  end
      end
  | PUnknown _ => false
  end.
End Spec.

Fixpoint nodupb (l : list string) : bool := match l with [] => true | x :: t => negb (mem_str x t) && nodupb t end.
Definition node_wf (acc : list (string * string * bool)) (sigs : list sig) (E : env) (n : node) : bool :=
  match find_sig sigs (n_cmd n) with
  | None => false                                                               (* the command exists *)
  | Some s =>
      forallb (fun r => mem_str r (given n)) (required s)                        (* every required parameter is present *)
      && (s_extra s || forallb (fun a => mem_str (g_name a) (declared s)) (n_args n))   (* no undeclared parameter *)
      && forallb (fun a => match find_param (s_inputs s) (g_name a) with           (* every argument has the declared kind; *)
                           | Some p => kind_ok acc E (p_kind p) (g_value a)        (* referenced results exist with the declared *)
                           | None => true end) (n_args n)                         (* output kind and fuzziness *)
  end.
Definition wf (acc : list (string * string * bool)) (sigs : list sig) (wdir : option string) (ex : string -> bool) (nodes : list node) : bool :=
  nodupb (map n_result nodes) && forallb (node_wf acc sigs (env_of_nodes sigs wdir ex nodes)) nodes.
