(* Code-independent statement of the EEMS 2.0 -> MPilot mapping of property C16:
   "renamed commands, the new field name or else the input field name as result name,
    output-file arguments dropped". *)
From Coq Require Import String List Bool.
From MP Require Import Base.Sig Model.Eems2.
Import ListNotations.
Open Scope string_scope.

Section Spec.
Variable table : list (string * string).

Definition spec_result (n : node) : option val :=
  match n_result n with
  | Some r => Some r
  | None => match find_argument (n_args n) "NewFieldName" with
            | Some v => Some v
            | None => find_argument (n_args n) "InFieldName"
            end
  end.
Definition spec_cmd (n : node) : string :=
  match assoc_str table (n_cmd n) with Some c => c | None => n_cmd n end.
Definition keep_arg (a : string * val) : bool :=
  negb (String.eqb (fst a) "NewFieldName") && negb (String.eqb (fst a) "OutFileName").
Definition translate_node (n : node) : node :=
  {| n_result := spec_result n; n_cmd := spec_cmd n; n_args := filter keep_arg (n_args n); n_line := n_line n |}.
Definition translate_v2 (P : list node) : list node := map translate_node P.

(* well-formed EEMS 2.0 node: names that are present are non-empty *)
Definition named_ok (o : option val) : bool := match o with Some v => truthy v | None => true end.
Definition wf_v2 (n : node) : bool :=
  named_ok (n_result n) && named_ok (find_argument (n_args n) "NewFieldName").
End Spec.
