(* Ownership / effect model of an execute() body (C09).  A body is a small imperative program over array
   objects: bind a variable to a new object / an alias / "one of these or new", mutate the object a variable
   denotes in place, sequence, branch, loop.  The IR of every execute() body is regenerated from the source AST
   on every run (drivers/gen_effects.py -> Gen/GenEffects.v); Python only maps syntax to these tags.
   Objects have an observable part (shape, element type, missing cells, non-missing values) and a hidden part
   (payload under the mask, flags).  An in-place write may change both; the clamp insure_fuzzy(x, -1, 1) changes
   only the hidden part when the observable part is already within [-1, 1]. *)
From Coq Require Import List Arith Bool Lia PeanoNat String.
Import ListNotations.

Definition loc := nat. Definition var := nat. Definition inp := nat.
(* RAny ys is: one of the objects denoted by the variables ys, or (any element of) one of the inputs is, or a new object *)
Inductive rhs := RFresh | RAlias (y : var) | RAny (ys : list var) (is : list inp).
Inductive mkind := KArb | KClamp.            (* arbitrary in-place write | insure_fuzzy(_, -1, 1) *)
Inductive stmt :=
| SSkip | SBind (x : var) (r : rhs) | SMut (x : var) (k : mkind) | SSeq (a b : stmt) | SIf (a b : stmt) | SLoop (a : stmt)
| SUnknown (what : string).                  (* a construct the translator does not recognise: never accepted *)

Definition upd {A} (f : nat -> option A) (k : nat) (v : A) : nat -> option A := fun j => if Nat.eqb j k then Some v else f j.

(* ---- the static check: for each variable, the set of inputs it may denote ([] = certainly a new object) ---- *)
Definition aenv := list (var * list inp).
Fixpoint aget (g : aenv) (x : var) : option (list inp) :=
  match g with [] => None | (y, s) :: t => if Nat.eqb y x then Some s else aget t x end.
Definition aset (g : aenv) (x : var) (s : list inp) : aenv := (x, s) :: g.
Definition mayset (g : aenv) (ys : list var) : option (list inp) :=
  fold_right (fun y acc => match aget g y, acc with Some s, Some a => Some (s ++ a) | _, _ => None end) (Some []) ys.
Definition subset (a b : list inp) := forallb (fun i => existsb (Nat.eqb i) b) a.
Definition ale (g1 g : aenv) : bool :=       (* every constraint of g is implied by g1 *)
  forallb (fun x => match aget g1 x, aget g x with Some a, Some b => subset a b | _, _ => false end) (map fst g).
Definition join (g1 g2 : aenv) : aenv :=
  flat_map (fun x => match aget g1 x, aget g2 x with Some a, Some b => [(x, a ++ b)] | _, _ => [] end) (map fst g1).

Section Check.
Variable fz : inp -> bool.                   (* input declared is_fuzzy=True *)
Fixpoint check (st : stmt) (g : aenv) : option aenv :=
  match st with
  | SSkip => Some g
  | SBind x RFresh => Some (aset g x [])
  | SBind x (RAlias y) => match aget g y with Some s => Some (aset g x s) | None => None end
  | SBind x (RAny ys is) => match mayset g ys with Some s => Some (aset g x (s ++ is)) | None => None end
  | SMut x KArb => match aget g x with Some [] => Some g | _ => None end
  | SMut x KClamp => match aget g x with Some s => if forallb fz s then Some g else None | None => None end
  | SSeq a b => match check a g with Some g1 => check b g1 | None => None end
  | SIf a b => match check a g, check b g with Some g1, Some g2 => Some (join g1 g2) | _, _ => None end
  | SLoop a => match check a g with Some g1 => if ale g1 g then Some g else None | None => None end   (* g is a loop invariant *)
  | SUnknown _ => None
  end.
End Check.

(* ---- nondeterministic big-step semantics ---- *)
Section Sem.
Variables Ob Hd : Type.                       (* observable / hidden part of an array object *)
Variable inrange : Ob -> Prop.               (* "all non-missing values in [-1,1]" *)
Record obj := { ob : Ob; hid : Hd }.
Definition store := loc -> option obj.
Definition env := var -> option loc.
Variable inloc : inp -> loc -> Prop.         (* the objects an input (a result, or any element of a list of results) denotes *)

Inductive eval_rhs (s : store) (e : env) : rhs -> store -> loc -> Prop :=
| ev_fresh l o : s l = None -> eval_rhs s e RFresh (upd s l o) l
| ev_alias y l : e y = Some l -> eval_rhs s e (RAlias y) s l
| ev_any_var ys is y l : In y ys -> e y = Some l -> eval_rhs s e (RAny ys is) s l
| ev_any_inp ys is i l : In i is -> inloc i l -> eval_rhs s e (RAny ys is) s l
| ev_any_new ys is l o : s l = None -> eval_rhs s e (RAny ys is) (upd s l o) l.

Inductive exec : stmt -> store * env -> store * env -> Prop :=
| ex_skip c : exec SSkip c c
| ex_bind x r s e s' l : eval_rhs s e r s' l -> exec (SBind x r) (s, e) (s', upd e x l)
| ex_mut_arb x s e l o o' : e x = Some l -> s l = Some o -> exec (SMut x KArb) (s, e) (upd s l o', e)
| ex_mut_clamp_in x s e l o h' : e x = Some l -> s l = Some o -> inrange (ob o) ->
      exec (SMut x KClamp) (s, e) (upd s l {| ob := ob o; hid := h' |}, e)      (* only the payload under the mask changes *)
| ex_mut_clamp_out x s e l o o' : e x = Some l -> s l = Some o -> ~ inrange (ob o) ->
      exec (SMut x KClamp) (s, e) (upd s l o', e)
| ex_seq a b c1 c2 c3 : exec a c1 c2 -> exec b c2 c3 -> exec (SSeq a b) c1 c3
| ex_if_l a b c c' : exec a c c' -> exec (SIf a b) c c'
| ex_if_r a b c c' : exec b c c' -> exec (SIf a b) c c'
| ex_loop_0 a c : exec (SLoop a) c c
| ex_loop_S a c1 c2 c3 : exec a c1 c2 -> exec (SLoop a) c2 c3 -> exec (SLoop a) c1 c3.
End Sem.
