(* Model of the process-global command registry (CommandMeta._commands), of importing libraries and of
   the command lookup built by Program.__init__.  Class identity is (module, name): the metaclass
   registers a class only if no class with the same module and command name is registered yet. *)
From Coq Require Import String List Bool Arith.
Import ListNotations.
Open Scope string_scope.

Definition entry := (string * string)%type.     (* defining module, command name *)
Definition entry_eqb (a b : entry) : bool := String.eqb (fst a) (fst b) && String.eqb (snd a) (snd b).
Definition mem_entry (e : entry) (l : list entry) : bool := existsb (entry_eqb e) l.
Definition insert (reg : list entry) (e : entry) : list entry := if mem_entry e reg then reg else reg ++ [e].

(* how Program.__init__ selects the registered commands of the requested libraries; the constructor
   used is read off the source by the translator (Gen/GenFacts.v) *)
Inductive mkind := MatchPrefix | MatchModuleOrSub | MatchUnknown.
Definition lib_match (k : mkind) (lib m : string) : bool :=
  match k with
  | MatchPrefix => String.prefix lib m                                     (* module.startswith(lib) *)
  | MatchModuleOrSub => String.eqb m lib || String.prefix (lib ++ ".") m   (* module == lib or under lib. *)
  | MatchUnknown => false
  end.
Definition selected (k : mkind) (libs : list string) (e : entry) : bool :=
  existsb (fun lib => lib_match k lib (fst e)) libs.

Section World.
Variable U : list entry.       (* every command class that exists in importable source files *)

(* importing the requested libraries executes every module that is, or lies under, one of them (Python's
   import system: always module-or-submodule), plus whatever those modules import themselves (extra) *)
Definition import_libs (libs : list string) (extra : list entry) (reg : list entry) : list entry :=
  fold_left insert (filter (selected MatchModuleOrSub libs) U ++ extra) reg.

Inductive event :=
| EDefine (e : entry)                                  (* a class statement executed somewhere *)
| EConstruct (libs : list string) (extra : list entry). (* Program(libraries=libs) *)

Definition step (reg : list entry) (ev : event) : list entry :=
  match ev with
  | EDefine e => insert reg e
  | EConstruct libs extra => import_libs libs extra reg
  end.
Definition run (h : list event) : list entry := fold_left step h [].

Definition count_name (n : string) (l : list entry) : nat := length (filter (fun e => String.eqb (snd e) n) l).
Definition has_dup (l : list entry) : bool := existsb (fun e => Nat.ltb 1 (count_name (snd e) l)) l.
(* dict built from the list: a later entry would overwrite an earlier one *)
Definition lookup (l : list entry) (n : string) : option string :=
  option_map fst (find (fun e => String.eqb (snd e) n) (rev l)).

(* Program(libraries=libs) in a process whose registry is reg: None = the duplicate-commands error *)
Definition construct (k : mkind) (reg : list entry) (libs : list string) (extra : list entry) : option (list entry) :=
  let lib := filter (selected k libs) (import_libs libs extra reg) in
  if has_dup lib then None else Some lib.

(* the history-free answer: a function of the requested libraries (and the source files) alone *)
Definition spec (libs : list string) : option (list entry) :=
  let lib := filter (selected MatchModuleOrSub libs) U in
  if has_dup lib then None else Some lib.
End World.

(* comparison used by the correspondence: same outcome, same name -> module map *)
Definition incl_b (a b : list entry) : bool := forallb (fun e => mem_entry e b) a.
Definition same_lib (a b : option (list entry)) : bool :=
  match a, b with None, None => true | Some x, Some y => incl_b x y && incl_b y x | _, _ => false end.
