(* Model of mpilot.utils.convert_eems2_commands and of the version test in Program.from_source.
   The constants (command table, fallback argument names, dropped argument names) are NOT typed in
   here: they come from Gen/GenEems2.v, regenerated from /repo on every run. *)
From Coq Require Import String List Bool ZArith QArith.
From MP Require Import Base.Sig.
Import ListNotations.
Open Scope string_scope.

(* values as the parser delivers them (ExpressionNode.value) *)
Inductive val :=
| VText (s : string)
| VInt (z : Z)
| VFloat (q : Q)
| VList (l : list val)
| VDict (l : list (string * val)).

(* Python truthiness *)
Definition truthy (v : val) : bool :=
  match v with
  | VText s => negb (String.eqb s "")
  | VInt z => negb (Z.eqb z 0)
  | VFloat q => negb (Qeq_bool q 0)
  | VList l => match l with [] => false | _ => true end
  | VDict l => match l with [] => false | _ => true end
  end.
Definition otruthy (o : option val) : bool := match o with Some v => truthy v | None => false end.
(* Python `a or b` on possibly-None values *)
Definition py_or (a b : option val) : option val := if otruthy a then a else b.

Record node := { n_result : option val; n_cmd : string; n_args : list (string * val); n_line : nat }.

(* find_argument: first argument with that name, None when absent *)
Fixpoint find_argument (args : list (string * val)) (name : string) : option val :=
  match args with
  | [] => None
  | (k, v) :: t => if String.eqb k name then Some v else find_argument t name
  end.

Fixpoint assoc_str (tbl : list (string * string)) (k : string) : option string :=
  match tbl with [] => None | (a, b) :: t => if String.eqb a k then Some b else assoc_str t k end.

Section Convert.
Variable table : list (string * string).     (* EEMS_COMMANDS *)
Variable fallbacks : list string.            (* ["NewFieldName"; "InFieldName"] *)
Variable dropped : list string.              (* ["NewFieldName"; "OutFileName"] *)

(* node.result_name or find_argument(node, f1) or find_argument(node, f2) ... *)
Fixpoint or_chain (first : option val) (args : list (string * val)) (fs : list string) : option val :=
  match fs with
  | [] => first
  | f :: t => if otruthy first then first else or_chain (find_argument args f) args t
  end.

Definition convert_node (n : node) : node :=
  {| n_result := or_chain (n_result n) (n_args n) fallbacks;
     n_cmd := match assoc_str table (n_cmd n) with Some c => c | None => n_cmd n end;
     n_args := filter (fun a => negb (mem_str (fst a) dropped)) (n_args n);
     n_line := n_line n |}.

Definition convert (P : list node) : list node := map convert_node P.

(* Program.from_source: the conversion is applied to ALL nodes as soon as the parser saw one
   EEMS-2 style command (no result name) or any node uses an EEMS 2.0 command name *)
Definition is_v2 (parser_flag : bool) (P : list node) : bool :=
  parser_flag || existsb (fun n => match assoc_str table (n_cmd n) with Some _ => true | None => false end) P.
Definition load_nodes (parser_flag : bool) (P : list node) : list node :=
  if is_v2 parser_flag P then convert P else P.
End Convert.

(* ---------- structural equality used by the correspondence ---------- *)
Fixpoint val_eqb (a b : val) {struct a} : bool :=
  match a, b with
  | VText x, VText y => String.eqb x y
  | VInt x, VInt y => Z.eqb x y
  | VFloat x, VFloat y => Qeq_bool x y
  | VList x, VList y =>
      (fix go (x y : list val) : bool :=
         match x, y with [], [] => true | a :: x', b :: y' => val_eqb a b && go x' y' | _, _ => false end) x y
  | VDict x, VDict y =>
      (fix go (x y : list (string * val)) : bool :=
         match x, y with [], [] => true
         | (k, a) :: x', (k', b) :: y' => String.eqb k k' && val_eqb a b && go x' y' | _, _ => false end) x y
  | _, _ => false
  end.
Definition oval_eqb (a b : option val) := match a, b with None, None => true | Some x, Some y => val_eqb x y | _, _ => false end.
Fixpoint args_eqb (a b : list (string * val)) : bool :=
  match a, b with [], [] => true | (k, x) :: a', (k', y) :: b' => String.eqb k k' && val_eqb x y && args_eqb a' b' | _, _ => false end.
Definition node_eqb (a b : node) : bool :=
  oval_eqb (n_result a) (n_result b) && String.eqb (n_cmd a) (n_cmd b) && args_eqb (n_args a) (n_args b) && Nat.eqb (n_line a) (n_line b).
Fixpoint nodes_eqb (a b : list node) : bool :=
  match a, b with [], [] => true | x :: a', y :: b' => node_eqb x y && nodes_eqb a' b' | _, _ => false end.
