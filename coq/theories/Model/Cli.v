(* The command-line tool's error context (mpilot/cli/mpilot.py, main): how the command file becomes `lines` and `source`, and
   which lines are printed around an error that carries a line number.
     lines  = [line.strip("\n\r") for line in f.readlines()]      (text mode: CRLF and CR arrive as LF)
     source = "\n".join(lines)                                     (what Program.from_source parses)
     idx = lineno - 1; start = max(idx - 3, 0); end = min(idx + 3, len(lines))
     lines[start:idx] indented, "--> " + lines[idx], lines[idx+1:end] indented                                  *)
From Coq Require Import NArith List Bool Arith.
From MP Require Import Model.Lexer.
Import ListNotations.
Open Scope N_scope.

(* universal-newline translation of the file's characters *)
Fixpoint translate (s : text) : text :=
  match s with
  | [] => []
  | c :: t => if c =? 13 then 10 :: match t with d :: t' => if d =? 10 then translate t' else translate t | [] => [] end
              else c :: translate t
  end.
(* readlines() + strip: cut at line feeds; a final line feed does not open another line (cur: the current line, reversed) *)
Fixpoint split_lf (cur : text) (s : text) : list text :=
  match s with
  | [] => match cur with [] => [] | _ => [rev cur] end
  | c :: t => if c =? 10 then rev cur :: split_lf [] t else split_lf (c :: cur) t
  end.
Definition lines_of_file (s : text) : list text := split_lf [] (translate s).
Fixpoint join_lf (ls : list text) : text := match ls with [] => [] | [l] => l | l :: t => l ++ 10 :: join_lf t end.
Definition source_of_file (s : text) : text := join_lf (lines_of_file s).

(* the context printed for an error on line `lineno` (1-based): lines before, the marked line, lines after;
   None stands for the IndexError of lines[idx] when the line does not exist *)
Definition context (lines : list text) (lineno : nat) : option (list text * text * list text) :=
  let idx := (lineno - 1)%nat in
  let start := (idx - 3)%nat in
  let stop := Nat.min (idx + 3) (length lines) in
  match nth_error lines idx with
  | None => None
  | Some l => Some (firstn (idx - start) (skipn start lines), l, firstn (stop - (idx + 1)) (skipn (idx + 1) lines))
  end.

(* the text written to stderr for that context *)
Definition indent (l : text) : text := 32 :: 32 :: 32 :: 32 :: l.
Definition render (c : list text * text * list text) : text :=
  let '(b, m, a) := c in join_lf (map indent b) ++ 10 :: 45 :: 45 :: 62 :: 32 :: m ++ 10 :: join_lf (map indent a) ++ [10].
