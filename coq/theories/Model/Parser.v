(* Model of the parser: (i) a generic LR driver that replays PLY's loop over the tables PLY itself built for the
   grammar of the snapshot (Gen/GenGrammar.v) and returns the concrete parse tree; (ii) the semantic actions p_* of
   mpilot/parser/parser.py as a structural function on that tree (values, line numbers = line of the first token of the
   k-th symbol, as p.lineno(k) with tracking).  Python's float() and str(float) enter as an oracle for FLOAT lexemes. *)
From Coq Require Import NArith ZArith List Bool Lia.
From MP Require Import Model.Lexer Gen.GenGrammar.
Import ListNotations.

Definition term_of (k : tkind) : term :=
  match k with
  | KID => T_ID | KFLOAT => T_FLOAT | KINT => T_INT | KSTRING => T_STRING | KPLAIN => T_PLAIN_STRING | KLBRACK => T_LBRACK
  | KLPAREN => T_LPAREN | KRBRACK => T_RBRACK | KRPAREN => T_RPAREN | KCOLON => T_COLON | KCOMMA => T_COMMA | KEQUAL => T_EQUAL
  end.

Inductive tree := Leaf (t : token) | Br (f : pfun) (kids : list tree).
Definition stack := list (nat * tree).

(* one iteration of PLY's loop; the lookahead is None at the end of the input ($end) *)
Inductive stepres := SCont (st : stack) (consumed : bool) | SAccept (t : tree) | SError.
Definition reduce (st : stack) (p : nat) : option stack :=
  match production p with
  | Some (lhs, n, fn) =>
      let kids := rev (map snd (firstn n st)) in
      let st' := skipn n st in
      if Nat.ltb (length st) n then None else
      match st' with
      | (s0, _) :: _ => match goto s0 lhs with Some g => Some ((g, Br fn kids) :: st') | None => None end
      | [] => None
      end
  | None => None
  end.
Definition step (st : stack) (look : option token) : stepres :=
  match st with
  | (s, v) :: _ =>
    match defaulted s with
    | Some p => match reduce st p with Some st' => SCont st' false | None => SError end
    | None =>
      match action s (match look with Some t => term_of (t_kind t) | None => T_Dend end) with
      | Some (Shift s') => match look with Some t => SCont ((s', Leaf t) :: st) true | None => SError end
      | Some (Reduce p) => match reduce st p with Some st' => SCont st' false | None => SError end
      | Some Accept => match st with [_; _] => SAccept v | _ => SError end     (* the stack holds exactly the start marker and the program *)
      | None => SError
      end
    end
  | [] => SError
  end.
Fixpoint run (fuel : nat) (st : stack) (toks : list token) : option tree :=
  match fuel with
  | O => None
  | S f => match step st (hd_error toks) with
           | SCont st' true => run f st' (tl toks)
           | SCont st' false => run f st' toks
           | SAccept t => match toks with [] => Some t | _ => None end
           | SError => None
           end
  end.
Definition dummy_tree : tree := Br F_p_program [].
(* every reduction is followed, after finitely many steps, by a shift or the end: the fuel below is ample (no theorem
   accepts exhaustion as success: it is the error outcome) *)
Definition lr (toks : list token) : option tree := run (S (64 * (4 + length toks))) [(0%nat, dummy_tree)] toks.

(* ---------- semantic actions ---------- *)
Open Scope N_scope.
Inductive pval := PInt (z : Z) | PFloat (lexeme : text) | PStr (s : text) | PList (l : list pexpr) | PDict (kv : list (text * pexpr))
with pexpr := PE (v : pval) (line : N).
Record parg := { pa_name : text; pa_value : pexpr; pa_line : N }.
Record pcmd := { pc_result : option text; pc_cmd : text; pc_args : list parg; pc_line : N }.
Record pprog := { pp_cmds : list pcmd; pp_version : N }.

Inductive sem :=
| SText (s : text) | SNum (v : pval) | SExpr (e : pexpr) | SElems (l : list pexpr) | SDict (kv : list (text * pexpr))
| SPair (k : text) (e : pexpr) | SArg (a : parg) | SArgs (l : list parg) | SCmd (c : pcmd) (v2 : bool) | SCmds (l : list pcmd) (v2 : bool)
| SProg (p : pprog) | STok (t : token).
Inductive sres := SOk (s : sem) | SSyntax | SUnsupported.      (* SSyntax: the action rejects (SyntaxError); SUnsupported: outside the model *)

Fixpoint first_line (t : tree) : N :=
  match t with Leaf tk => t_line tk | Br _ kids => match kids with k :: _ => first_line k | [] => 0 end end.

(* int(lexeme) for [+-]?digits *)
Fixpoint digits_val (s : text) (acc : Z) : Z :=
  match s with [] => acc | c :: t => digits_val t (acc * 10 + Z.of_N (c - 48))%Z end.
Definition int_of_lexeme (s : text) : Z :=
  match s with
  | c :: t => if c =? 45 then (- digits_val t 0)%Z else if c =? 43 then digits_val t 0 else digits_val s 0
  | [] => 0%Z
  end.
(* str(int) *)
Fixpoint pos_digits (fuel : nat) (n : N) (acc : text) : text :=
  match fuel with O => acc | S f => let acc' := (48 + n mod 10) :: acc in if n / 10 =? 0 then acc' else pos_digits f (n / 10) acc' end.
Definition str_of_Z (z : Z) : text :=
  match z with Z0 => [48] | Zpos p => pos_digits (S (N.to_nat (N.log2 (Npos p)))) (Npos p) [] | Zneg p => 45 :: pos_digits (S (N.to_nat (N.log2 (Npos p)))) (Npos p) [] end.

(* unicode_escape decoding of the body of a quoted string, after the latin-1/backslashreplace encoding of the source *)
Definition hexval (c : ch) : option N :=
  if (48 <=? c) && (c <=? 57) then Some (c - 48) else if (97 <=? c) && (c <=? 102) then Some (c - 87)
  else if (65 <=? c) && (c <=? 70) then Some (c - 55) else None.
Fixpoint hexn (n : nat) (s : text) (acc : N) : option (N * text) :=
  match n with O => Some (acc, s) | S k => match s with c :: t => match hexval c with Some v => hexn k t (acc * 16 + v) | None => None end | [] => None end end.
Definition is_oct (c : ch) := (48 <=? c) && (c <=? 55).
Inductive dres := DOk (s : text) | DErr | DUnsupported.
Fixpoint decode (fuel : nat) (s : text) : dres :=
  match fuel with O => DErr | S f =>
  match s with
  | [] => DOk []
  | c0 :: rest =>
    if negb (c0 =? 92) then match decode f rest with DOk y => DOk (c0 :: y) | e => e end else
      match rest with
      | [] => DErr
      | c :: t =>
        let cont (x : list ch) (r : text) := match decode f r with DOk y => DOk (x ++ y) | e => e end in
        if c =? 10 then cont [] t                                   (* backslash-newline is dropped *)
        else if c =? 92 then cont [92] t else if c =? 39 then cont [39] t else if c =? 34 then cont [34] t
        else if c =? 97 then cont [7] t else if c =? 98 then cont [8] t else if c =? 102 then cont [12] t
        else if c =? 110 then cont [10] t else if c =? 114 then cont [13] t else if c =? 116 then cont [9] t
        else if c =? 118 then cont [11] t
        else if is_oct c then
          match t with
          | d :: t1 => if is_oct d then
                         match t1 with
                         | e :: t2 => if is_oct e then cont [(c - 48) * 64 + (d - 48) * 8 + (e - 48)] t2 else cont [(c - 48) * 8 + (d - 48)] t1
                         | [] => cont [(c - 48) * 8 + (d - 48)] t1
                         end
                       else cont [c - 48] t
          | [] => cont [c - 48] t
          end
        else if c =? 120 then match hexn 2 t 0 with Some (v, r) => cont [v] r | None => DErr end
        else if c =? 117 then match hexn 4 t 0 with Some (v, r) => cont [v] r | None => DErr end
        else if c =? 85 then match hexn 8 t 0 with Some (v, r) => if v <=? 1114111 then cont [v] r else DErr | None => DErr end
        else if c =? 78 then DUnsupported                           (* \N{name} *)
        else cont [92; c] t                                          (* unknown escape: kept *)
      end
  end end.
Definition string_value (lexeme : text) : dres :=          (* lexeme includes the two delimiters *)
  match lexeme with
  | _ :: body => decode (S (length body)) (removelast body)
  | [] => DErr
  end.

Fixpoint dict_set (kv : list (text * pexpr)) (k : text) (e : pexpr) : list (text * pexpr) :=
  match kv with
  | [] => [(k, e)]
  | (k', e') :: t => if (if list_eq_dec N.eq_dec k k' then true else false) then (k', e) :: t else (k', e') :: dict_set t k e
  end.

Section Sem.
Variable float_str : text -> option text.     (* oracle: str(float(lexeme)) *)

Definition leaf_text (t : tree) : option token := match t with Leaf tk => Some tk | _ => None end.
Definition bind (r : sres) (k : sem -> sres) : sres := match r with SOk s => k s | e => e end.

Fixpoint eval (t : tree) : sres :=
  match t with
  | Leaf tk => SOk (STok tk)
  | Br f kids =>
    let line1 := match kids with k :: _ => first_line k | [] => 0 end in
    match f, kids with
    | F_p_program, [c] => bind (eval c) (fun s => match s with SCmds l v2 => SOk (SProg {| pp_cmds := l; pp_version := if v2 then 2 else 3 |}) | _ => SUnsupported end)
    | F_p_commands, [c; cs] =>
        bind (eval c) (fun s1 => bind (eval cs) (fun s2 => match s1, s2 with SCmd x a, SCmds l b => SOk (SCmds (x :: l) (a || b)) | _, _ => SUnsupported end))
    | F_p_commands_command, [c] => bind (eval c) (fun s => match s with SCmd x a => SOk (SCmds [x] a) | _ => SUnsupported end)
    | F_p_command, [Leaf r; _; Leaf c; args] =>
        bind (eval args) (fun s => match s with SArgs l => SOk (SCmd {| pc_result := Some (t_lexeme r); pc_cmd := t_lexeme c; pc_args := l; pc_line := t_line r |} false) | _ => SUnsupported end)
    | F_p_eems2_command, [Leaf c; args] =>
        bind (eval args) (fun s => match s with SArgs l => SOk (SCmd {| pc_result := None; pc_cmd := t_lexeme c; pc_args := l; pc_line := t_line c |} true) | _ => SUnsupported end)
    | F_p_arguments, [_; al; _] => eval al
    | F_p_argument_empty, [_; _] => SOk (SArgs [])
    | F_p_argument_list, [a; _; al] =>
        bind (eval a) (fun s1 => bind (eval al) (fun s2 => match s1, s2 with SArg x, SArgs l => SOk (SArgs (x :: l)) | _, _ => SUnsupported end))
    | F_p_argument_list_argument, a :: _ => bind (eval a) (fun s => match s with SArg x => SOk (SArgs [x]) | _ => SUnsupported end)
    | F_p_argument, [Leaf n; _; e] =>
        bind (eval e) (fun s => match s with SExpr x => SOk (SArg {| pa_name := t_lexeme n; pa_value := x; pa_line := t_line n |}) | _ => SUnsupported end)
    | F_p_expression, [k] =>
        match k with
        | Leaf tk => match t_kind tk with
                     | KSTRING => match string_value (t_lexeme tk) with DOk s => SOk (SExpr (PE (PStr s) (t_line tk))) | DErr => SSyntax | DUnsupported => SUnsupported end
                     | _ => SUnsupported end
        | _ => bind (eval k) (fun s => match s with
                                       | SText x => SOk (SExpr (PE (PStr x) line1))
                                       | SNum v => SOk (SExpr (PE v line1))
                                       | SElems l => SOk (SExpr (PE (PList l) line1))
                                       | SDict kv => SOk (SExpr (PE (PDict kv) line1))
                                       | _ => SUnsupported end)
        end
    | F_p_plain_string, [Leaf tk] => SOk (SText (t_lexeme tk))
    | F_p_plain_string_with_number, [Leaf tk; rest] =>
        bind (eval rest) (fun s => match s with
          | SText r => match t_kind tk with
                       | KINT => SOk (SText (str_of_Z (int_of_lexeme (t_lexeme tk)) ++ r))
                       | KFLOAT => match float_str (t_lexeme tk) with Some x => SOk (SText (x ++ r)) | None => SUnsupported end
                       | _ => SOk (SText (t_lexeme tk ++ r))
                       end
          | _ => SUnsupported end)
    | F_p_permissive_plain_string, [k] => eval k
    | F_p_permissive_plain_stirng_with_colon, [a; _; b] =>
        bind (eval a) (fun s1 => bind (eval b) (fun s2 => match s1, s2 with SText x, SText y => SOk (SText (x ++ 58 :: y)) | _, _ => SUnsupported end))
    | F_p_number, [Leaf tk] => match t_kind tk with
                               | KINT => SOk (SNum (PInt (int_of_lexeme (t_lexeme tk))))
                               | KFLOAT => SOk (SNum (PFloat (t_lexeme tk)))
                               | _ => SUnsupported end
    | F_p_list, [_; els; _] => eval els
    | F_p_list_empty, [_; _] => SOk (SElems [])
    | F_p_elements, [e; _; els] =>
        bind (eval e) (fun s1 => bind (eval els) (fun s2 => match s1, s2 with
          | SExpr x, SElems l => SOk (SElems (x :: l))
          | SExpr _, SDict _ => SSyntax                    (* list elements and tuple pairs mixed *)
          | _, _ => SUnsupported end))
    | F_p_elements_element, e :: _ => bind (eval e) (fun s => match s with SExpr x => SOk (SElems [x]) | _ => SUnsupported end)
    | F_p_elements_tuple_pairs, [tp] => eval tp
    | F_p_element_expression, [e] => eval e
    | F_p_tuple_pairs, [p; _; ps] =>
        bind (eval p) (fun s1 => bind (eval ps) (fun s2 => match s1, s2 with SPair k e, SDict kv => SOk (SDict (dict_set kv k e)) | _, _ => SUnsupported end))
    | F_p_tuple_pairs_pair, p :: _ => bind (eval p) (fun s => match s with SPair k e => SOk (SDict [(k, e)]) | _ => SUnsupported end)
    | F_p_tuple_pair, [k; _; v] =>
        let key := match k with
                   | Leaf tk => match string_value (t_lexeme tk) with DOk s => SOk (SText s) | DErr => SSyntax | DUnsupported => SUnsupported end
                   | _ => eval k end in
        bind key (fun sk => bind (eval v) (fun sv => match sk, sv with
          | SText ks, SText x => SOk (SPair ks (PE (PStr x) line1))
          | SText ks, SNum n => SOk (SPair ks (PE n line1))
          | _, _ => SUnsupported end))
    | F_p_tuple_value, [k] =>
        match k with
        | Leaf tk => match string_value (t_lexeme tk) with DOk s => SOk (SText s) | DErr => SSyntax | DUnsupported => SUnsupported end
        | _ => eval k
        end
    | F_p_boolean, [Leaf tk] => SOk (SText (t_lexeme tk))
    | _, _ => SUnsupported
    end
  end.
End Sem.

Inductive presult := POk (p : pprog) | PSyntaxError | PUnsupported.
Definition parse (float_str : text -> option text) (s : text) : presult :=
  match lex_all s with
  | LexError _ _ => PSyntaxError
  | LexOk toks =>
    match lr toks with
    | None => PSyntaxError
    | Some t => match eval float_str t with
                | SOk (SProg p) => POk p
                | SSyntax => PSyntaxError
                | _ => PUnsupported
                end
    end
  end.
