(* Model of the CSV library's EEMSRead / EEMSWrite (mpilot/libraries/eems/csv/io.py).  Python's csv module and the
   float <-> text conversions are oracles: the model works on rows of cells as csv.reader delivers them, each cell
   carrying its text and what float(text) returns (None when it raises ValueError); written cells are str(value) texts
   supplied per value. *)
From Coq Require Import String List Bool ZArith QArith Arith.
From MP Require Import Base.Sig Model.Params.
Import ListNotations.
Open Scope string_scope.

Record ccell := { c_text : string; c_float : option fnum }.
Definition crow := list ccell.
Inductive rdtype := TFloat | TInt.
Inductive ocell := OMissing | OFloat (f : fnum) | OInt (z : Z).
Inductive cerr :=
| CEmptyDataFile                 (* no header row *)
| CNoHeader                      (* InvalidDataFile: the header is not in the file *)
| CBadValue (line : nat)         (* InvalidDataFile: non-numeric cell, with the file line *)
| CShortRow.                     (* a row shorter than the column index: IndexError, wrapped into UnexpectedError *)
Inductive rres := ROk (cells : list ocell) | RErr (e : cerr).

Fixpoint index_of_text (t : string) (l : list ccell) (k : nat) : option nat :=
  match l with [] => None | c :: r => if String.eqb (c_text c) t then Some k else index_of_text t r (S k) end.

(* the numeric values of the column, in row order; blank lines (empty rows) are skipped but counted for line numbers *)
Fixpoint column (idx : nat) (rows : list crow) (i : nat) : list fnum + cerr :=
  match rows with
  | [] => inl []
  | [] :: rest => column idx rest (S i)
  | r :: rest => match nth_error r idx with
                 | None => inr CShortRow
                 | Some c => match c_float c with
                             | None => inr (CBadValue (i + 2))
                             | Some f => match column idx rest (S i) with inl vs => inl (f :: vs) | inr e => inr e end
                             end
                 end
  end.

(* C-style truncation of a finite float to an integer (numpy.array(values, dtype=int)) *)
Definition trunc (q : Q) : Z := Z.quot (Qnum q) (Zpos (Qden q)).
Definition feq (a b : fnum) : bool :=     (* IEEE ==: -0.0 == 0.0, nan != nan *)
  match a, b with FFin x, FFin y => Qeq_bool x y | FInf, FInf | FNInf, FNInf => true | _, _ => false end.
Definition convert (t : rdtype) (missing : option fnum) (v : fnum) : option ocell :=   (* None: conversion undefined (inf/nan to int) *)
  match t with
  | TFloat => Some (match missing with Some m => if feq v m then OMissing else OFloat v | None => OFloat v end)
  | TInt => match v with
            | FFin q => let z := trunc q in
                        Some (match missing with
                              | Some (FFin m) => if Z.eqb z (trunc m) then OMissing else OInt z
                              | _ => OInt z end)
            | _ => None
            end
  end.
Fixpoint convert_all (t : rdtype) (missing : option fnum) (vs : list fnum) : option (list ocell) :=
  match vs with
  | [] => Some []
  | v :: r => match convert t missing v, convert_all t missing r with Some c, Some cs => Some (c :: cs) | _, _ => None end
  end.

Definition read (rows : list crow) (field : string) (missing : option fnum) (t : rdtype) : option rres :=   (* None: undefined conversion *)
  match rows with
  | [] => Some (RErr CEmptyDataFile)
  | hdr :: rest =>
    match index_of_text field hdr 0 with
    | None => Some (RErr CNoHeader)
    | Some idx => match column idx rest 0 with
                  | inr e => Some (RErr e)
                  | inl vs => option_map ROk (convert_all t missing vs)
                  end
    end
  end.

(* ---------- writing ---------- *)
(* a value to be written, with the text str() gives for it; a missing cell is written as numpy's masked constant "--" *)
Record wval := { w_cell : ocell; w_text : string }.
Definition cell_text (w : wval) : string := match w_cell w with OMissing => "--" | _ => w_text w end.
Fixpoint transpose_cols (n : nat) (cols : list (list wval)) : list (list string) :=
  match n with
  | O => []
  | S k => transpose_cols k cols ++ [map (fun c => match nth_error c k with Some w => cell_text w | None => "" end) cols]
  end.
(* header of the result names in the listed order, then one row per cell *)
Definition write (names : list string) (cols : list (list wval)) : list (list string) :=
  names :: transpose_cols (match cols with c :: _ => List.length c | [] => 0 end) cols.
