(* helpers used by generated case files: indices of the cases on which a boolean check fails *)
From Coq Require Import List Bool.
Import ListNotations.

Fixpoint failing_from {A} (chk : A -> bool) (n : nat) (l : list A) : list nat :=
  match l with
  | [] => []
  | x :: t => (if chk x then [] else [n]) ++ failing_from chk (S n) t
  end.
Definition failing {A} (chk : A -> bool) (l : list A) : list nat := failing_from chk 0 l.
