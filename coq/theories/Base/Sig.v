(* Types of the tables that the translator (drivers/introspect.py) regenerates from /repo on every run. *)
From Coq Require Import String List Bool.
Import ListNotations.
Open Scope string_scope.

(* declared kind of a parameter (mpilot/params.py classes, exact class match; anything else is PUnknown) *)
Inductive pkind :=
| PAny                                   (* params.Parameter itself: clean is the identity *)
| PString | PNumber | PBoolean
| PPath (must_exist : bool)
| PResult (out : option pkind) (fz : option bool)
| PList (item : pkind)
| PTuple | PData
| PDataType (keys : list (string * string))   (* name -> python type name *)
| PUnknown (cls : string).

Record param := { p_name : string; p_required : bool; p_kind : pkind }.

Record sig := {
  s_name : string;          (* command name used in command files *)
  s_module : string;
  s_class : string;
  s_fuzzy : bool;           (* class attribute is_fuzzy (absent = false) *)
  s_extra : bool;           (* allow_extra_inputs *)
  s_inputs : list param;    (* including the Metadata tuple injected by the metaclass *)
  s_output : option pkind;
  s_exec : string;          (* class in the MRO whose execute runs *)
  s_mro : list string }.

Fixpoint find_sig (l : list sig) (n : string) : option sig :=
  match l with [] => None | s :: t => if String.eqb (s_name s) n then Some s else find_sig t n end.

Definition sig_names (l : list sig) : list string := map s_name l.

Fixpoint mem_str (x : string) (l : list string) : bool :=
  match l with [] => false | y :: t => if String.eqb x y then true else mem_str x t end.

Lemma mem_str_In x l : mem_str x l = true <-> In x l.
Proof.
  induction l as [|y t IH]; simpl.
  - split; [discriminate | tauto].
  - destruct (String.eqb x y) eqn:E.
    + apply String.eqb_eq in E. subst. tauto.
    + apply String.eqb_neq in E. rewrite IH. split; [tauto|]. intros [H|H]; [congruence | exact H].
Qed.

Fixpoint find_param (l : list param) (n : string) : option param :=
  match l with [] => None | p :: t => if String.eqb (p_name p) n then Some p else find_param t n end.
