(* C15: what the serialiser writes for a string / an integer is read back as that string / integer by the lexer and the
   decoder, for every string (quotes, backslashes, delimiters, line breaks, any code point) and every integer. *)
From Coq Require Import NArith ZArith List Bool Lia.
From MP Require Import Model.Lexer Model.Parser Model.Serial.
Import ListNotations.
Open Scope N_scope.
Ltac Zify.zify_post_hook ::= Z.to_euclidean_division_equations.

Lemma esc_cases c : (c = 92 /\ esc c = [92; 92]) \/ (c = 34 /\ esc c = [92; 34]) \/ (c = 10 /\ esc c = [92; 110]) \/
  (c = 13 /\ esc c = [92; 114]) \/ (c = 9 /\ esc c = [92; 116]) \/ (c <> 92 /\ c <> 34 /\ esc c = [c]).
Proof. unfold esc. destruct (c =? 92) eqn:A; [apply N.eqb_eq in A; auto|]. destruct (c =? 34) eqn:B; [apply N.eqb_eq in B; auto|].
  destruct (c =? 10) eqn:C; [apply N.eqb_eq in C; auto 6|]. destruct (c =? 13) eqn:D; [apply N.eqb_eq in D; auto 7|].
  destruct (c =? 9) eqn:E; [apply N.eqb_eq in E; auto 8|]. apply N.eqb_neq in A, B. auto 10. Qed.

(* the lexer takes exactly the quoted lexeme, whatever follows *)
Lemma scan_body_quote s rest : scan_str_body 34 (quote_body s ++ 34 :: rest) = Some (quote_body s ++ [34], rest).
Proof. induction s as [|c t IH]; [simpl; reflexivity|]. unfold quote_body in *. cbn [flat_map]. rewrite <- !app_assoc.
  destruct (esc_cases c) as [[-> ->]|[[-> ->]|[[-> ->]|[[-> ->]|[[-> ->]|(N1 & N2 & ->)]]]]]; cbn [app scan_str_body];
  try (simpl (_ =? _); rewrite IH; reflexivity).
  apply N.eqb_neq in N1, N2. rewrite N2, N1, IH. reflexivity. Qed.
Theorem lexer_takes_quoted s rest : scan_string (quote s ++ rest) = Some (quote s, rest).
Proof. unfold quote, scan_string. cbn [app]. simpl (34 =? 34). cbn [orb]. rewrite <- app_assoc. cbn [app]. rewrite scan_body_quote. reflexivity. Qed.

(* decoding the escapes gives the string back *)
Lemma decode_quote_body s : forall fuel, (length (quote_body s) < fuel)%nat -> decode fuel (quote_body s) = DOk s.
Proof. induction s as [|c t IH]; intros fuel L.
  - destruct fuel; [simpl in L; lia | reflexivity].
  - unfold quote_body in *. cbn [flat_map] in *. rewrite app_length in L.
    destruct (esc_cases c) as [[-> E]|[[-> E]|[[-> E]|[[-> E]|[[-> E]|(N1 & N2 & E)]]]]]; rewrite E in *; simpl length in L;
    (destruct fuel as [|f]; [lia|]); cbn [app decode]; simpl (_ =? _); cbn [orb andb];
    try (rewrite (IH f ltac:(lia)); reflexivity).
    apply N.eqb_neq in N1. rewrite N1. cbn [negb]. rewrite (IH f ltac:(lia)). reflexivity. Qed.
Lemma removelast_snoc {A} (l : list A) x : removelast (l ++ [x]) = l.
Proof. apply removelast_last. Qed.
Theorem string_roundtrip s : string_value (quote s) = DOk s.
Proof. unfold string_value, quote. rewrite removelast_snoc. apply decode_quote_body. rewrite app_length. simpl. lia. Qed.

(* ---------- integers ---------- *)
Lemma digits_val_app a b acc : digits_val (a ++ b) acc = digits_val b (digits_val a acc).
Proof. revert acc. induction a as [|c t IH]; intros acc; simpl; [reflexivity | apply IH]. Qed.
Lemma pos_digits_acc f : forall n acc, pos_digits f n acc = pos_digits f n [] ++ acc.
Proof. induction f as [|f IH]; intros n acc; cbn [pos_digits]; cbv zeta; [reflexivity|].
  destruct (n / 10 =? 0); [reflexivity|]. rewrite (IH (n / 10) ((48 + n mod 10) :: acc)). symmetry. rewrite (IH (n / 10) (_ :: nil)), <- app_assoc. reflexivity. Qed.
Lemma pos_digits_val f : forall n, n < 10 ^ N.of_nat f -> digits_val (pos_digits f n []) 0 = Z.of_N n.
Proof. induction f as [|f IH]; intros n H.
  - simpl in H. assert (n = 0) by lia. subst. reflexivity.
  - cbn [pos_digits]. assert (M : n mod 10 < 10) by (apply N.mod_lt; lia).
    assert (D : n = 10 * (n / 10) + n mod 10) by (apply N.div_mod'; lia).
    destruct (n / 10 =? 0) eqn:E.
    + apply N.eqb_eq in E. cbn [digits_val]. rewrite E in D. rewrite (N.add_comm 48), N.add_sub. lia.
    + rewrite pos_digits_acc, digits_val_app. rewrite IH.
      * cbn [digits_val]. rewrite (N.add_comm 48), N.add_sub. lia.
      * rewrite Nat2N.inj_succ, N.pow_succ_r' in H. apply N.div_lt_upper_bound; lia. Qed.
Lemma pos_digits_head f n : (0 < f)%nat -> exists d r, pos_digits f n [] = d :: r /\ 48 <= d <= 57.
Proof. destruct f as [|f]; [lia|]. intros _. cbn [pos_digits]. assert (M : n mod 10 < 10) by (apply N.mod_lt; lia).
  destruct (n / 10 =? 0).
  { exists (48 + n mod 10), []. split; [reflexivity | lia]. }
  generalize (n / 10) as m. intros m. revert m n M. induction f as [|f IH]; intros m n M.
  - simpl. exists (48 + n mod 10), []. split; [reflexivity | lia].
  - cbn [pos_digits]. assert (M' : m mod 10 < 10) by (apply N.mod_lt; lia). destruct (m / 10 =? 0).
    + exists (48 + m mod 10), [48 + n mod 10]. split; [reflexivity | lia].
    + destruct (IH (m / 10) m M') as (d & r & E & R).
      assert (X : pos_digits f (m / 10) [48 + m mod 10; 48 + n mod 10] = pos_digits f (m / 10) [48 + m mod 10] ++ [48 + n mod 10]).
      { rewrite (pos_digits_acc f (m / 10) (_ :: _ :: nil)), (pos_digits_acc f (m / 10) (_ :: nil)), <- app_assoc. reflexivity. }
      exists d, (r ++ [48 + n mod 10]). split; [| exact R].
      etransitivity; [exact X|]. f_equal. change (pos_digits f (m / 10) [48 + m mod 10] ++ [48 + n mod 10] = (d :: r) ++ [48 + n mod 10]). f_equal. exact E. Qed.
Lemma pos_bound p : N.pos p < 10 ^ N.of_nat (S (N.to_nat (N.log2 (N.pos p)))).
Proof. rewrite Nat2N.inj_succ, N2Nat.id. pose proof (N.log2_spec (N.pos p) ltac:(lia)) as [_ H].
  eapply N.lt_le_trans; [exact H|]. apply N.pow_le_mono_l. lia. Qed.

Theorem int_roundtrip z : int_of_lexeme (int_text z) = z.
Proof. unfold int_text, str_of_Z. destruct z as [|p|p].
  - reflexivity.
  - destruct (pos_digits_head (S (N.to_nat (N.log2 (N.pos p)))) (N.pos p) ltac:(lia)) as (d & r & E & R).
    unfold int_of_lexeme. rewrite E. assert (d =? 45 = false) by (apply N.eqb_neq; lia). assert (d =? 43 = false) by (apply N.eqb_neq; lia).
    rewrite H, H0, <- E. rewrite pos_digits_val by apply pos_bound. reflexivity.
  - unfold int_of_lexeme. simpl (45 =? 45). cbn iota. rewrite pos_digits_val by apply pos_bound. reflexivity.
Qed.
(* the INT rule of the lexer takes the whole text of an integer when no digit and no dot follows *)
Definition all_digits (s : text) := forallb is_digit s = true.
Lemma pos_digits_all f : forall n acc, all_digits acc -> all_digits (pos_digits f n acc).
Proof. induction f as [|f IH]; intros n acc A; cbn [pos_digits]; cbv zeta; [exact A|].
  assert (M : n mod 10 < 10) by (apply N.mod_lt; lia).
  assert (A' : all_digits ((48 + n mod 10) :: acc)).
  { unfold all_digits in *. cbn [forallb]. rewrite A. unfold is_digit. replace (48 <=? 48 + n mod 10) with true by (symmetry; apply N.leb_le; lia).
    replace (48 + n mod 10 <=? 57) with true by (symmetry; apply N.leb_le; lia). reflexivity. }
  destruct (n / 10 =? 0); [exact A' | apply IH; exact A']. Qed.
Definition stops_int (rest : text) := match rest with [] => true | c :: _ => negb (is_digit c) && negb (c =? 46) end.
Lemma span_digits ds rest : all_digits ds -> stops_int rest = true -> span is_digit (ds ++ rest) = (ds, rest).
Proof. unfold all_digits. induction ds as [|c t IH]; intros A S.
  - cbn [app]. destruct rest as [|c r]; [reflexivity|]. cbn [span]. unfold stops_int in S. apply andb_true_iff in S as [S _].
    apply negb_true_iff in S. rewrite S. reflexivity.
  - cbn [forallb] in A. apply andb_true_iff in A as [A1 A2]. cbn [app span]. rewrite A1, (IH A2 S). reflexivity. Qed.
Lemma starts_dot_stop rest : stops_int rest = true -> starts_dot rest = None.
Proof. destruct rest as [|c r]; [reflexivity|]. unfold stops_int, starts_dot. intros S. apply andb_true_iff in S as [_ S].
  apply negb_true_iff in S. rewrite S. reflexivity. Qed.
Lemma digit_facts d : 48 <= d <= 57 -> is_digit d = true /\ is_alpha_ d = false /\ is_sign d = false /\ is_ign d = false.
Proof. intros R. unfold is_digit, is_alpha_, is_sign, is_ign.
  repeat match goal with |- context [?a <=? ?b] => destruct (N.leb_spec a b) | |- context [?a =? ?b] => destruct (N.eqb_spec a b) end;
  try lia; cbn; auto. Qed.
Lemma scan_digits d r rest : 48 <= d <= 57 -> all_digits (d :: r) -> stops_int rest = true ->
  lex1 ((d :: r) ++ rest) = ([], LTok KINT (d :: r) rest).
Proof. intros R A S. destruct (digit_facts d R) as (D1 & D2 & D3 & D4).
  unfold lex1. cbn [app span]. rewrite D4. unfold scan_id. rewrite D2.
  unfold scan_float, scan_int, opt_sign. rewrite D3. unfold digits1.
  pose proof (span_digits (d :: r) rest A S) as X. cbn [app] in X. unfold ch, text in *. rewrite X, (starts_dot_stop rest S). reflexivity. Qed.
Theorem lexer_takes_int z rest : stops_int rest = true -> lex1 (int_text z ++ rest) = ([], LTok KINT (int_text z) rest).
Proof. intros St. unfold int_text, str_of_Z. destruct z as [|p|p].
  - apply scan_digits; [lia | reflexivity | exact St].
  - destruct (pos_digits_head (S (N.to_nat (N.log2 (N.pos p)))) (N.pos p) ltac:(lia)) as (d & r & E & R).
    pose proof (pos_digits_all (S (N.to_nat (N.log2 (N.pos p)))) (N.pos p) [] eq_refl) as A. rewrite E in *.
    apply scan_digits; assumption.
  - destruct (pos_digits_head (S (N.to_nat (N.log2 (N.pos p)))) (N.pos p) ltac:(lia)) as (d & r & E & R).
    pose proof (pos_digits_all (S (N.to_nat (N.log2 (N.pos p)))) (N.pos p) [] eq_refl) as A. rewrite E in *.
    destruct (digit_facts d R) as (D1 & D2 & D3 & D4).
    unfold lex1. cbn [app span]. change (is_ign 45) with false. cbv iota. unfold scan_id. change (is_alpha_ 45) with false. cbv iota.
    unfold scan_float, scan_int, opt_sign. change (is_sign 45) with true. cbv iota. unfold digits1.
    pose proof (span_digits (d :: r) rest A St) as X. cbn [app] in X. unfold ch, text in *. rewrite X, (starts_dot_stop rest St). reflexivity. Qed.
(* and the master regex as a whole yields the STRING token for a quoted string, whatever follows *)
Theorem lex1_takes_quoted s rest : lex1 (quote s ++ rest) = ([], LTok KSTRING (quote s) rest).
Proof. pose proof (lexer_takes_quoted s rest) as Q. unfold lex1. unfold quote in *. cbn [app span] in *.
  change (is_ign 34) with false. cbv iota. unfold scan_id. change (is_alpha_ 34) with false. cbv iota.
  unfold scan_float, scan_int, opt_sign. change (is_sign 34) with false. cbv iota. unfold digits1. cbn [span].
  change (is_digit 34) with false. cbv iota. unfold starts_dot. simpl (34 =? 46). cbv iota.
  unfold ch, text in *. rewrite Q. reflexivity. Qed.
