(* Proofs about the scheduler model: the fuelled DFS with memo executes every command once and the memo
   satisfies the graph's equations (pull_ok); leaf closure; cycle rejection by peeling. *)
From Coq Require Import List Arith Lia Bool PeanoNat Permutation.
From MP Require Import Model.Sched.
Import ListNotations.
Set Implicit Arguments.

Section SchedProofs.
Variable V : Type.
Variable F : cmd -> list V -> V.
Notation st := (st V).
Notation get := (@get V).
Notation fin := (@fin V).
Notation pull := (pull F).
Notation pull_list := (@pull_list V).

Record wf_dag (P : prog) (rank : name -> nat) : Prop := {
  wf_nodup : NoDup (names P);
  wf_refs  : forall c d, In c P -> In d (refs c) -> In d (names P);
  wf_rank  : forall c d, In c P -> In d (refs c) -> rank d < rank (nm c) }.

Definition extends (s s' : st) := forall m w, get s m = Some w -> get s' m = Some w.

Lemma count_ev_app e l1 l2 : count_ev e (l1 ++ l2) = count_ev e l1 + count_ev e l2.
Proof. induction l1 as [|x l1 IH]; simpl; [reflexivity|]. rewrite IH. lia. Qed.

Lemma lookup_In P n c : lookup P n = Some c -> In c P /\ nm c = n.
Proof. induction P as [|x P IH]; simpl; [discriminate|]. destruct (Nat.eqb (nm x) n) eqn:E.
  - intros H; inversion H; subst. apply Nat.eqb_eq in E. auto.
  - intros H. destruct (IH H). auto. Qed.

Lemma in_names_lookup P n : In n (names P) -> exists c, lookup P n = Some c.
Proof. induction P as [|x P IH]; simpl; [tauto|]. intros [H|H].
  - subst. rewrite Nat.eqb_refl. eauto.
  - destruct (Nat.eqb (nm x) n); eauto. Qed.

Lemma Forall2_impl' (A B:Type) (R R':A->B->Prop) l l' : (forall a b, R a b -> R' a b) -> Forall2 R l l' -> Forall2 R' l l'.
Proof. intros H F2. induction F2; constructor; auto. Qed.


Lemma mem_In n l : mem n l = true <-> In n l.
Proof. unfold mem. rewrite existsb_exists. split.
  - intros [x [H E]]. apply Nat.eqb_eq in E. subst; auto.
  - intros H. exists n. split; auto. apply Nat.eqb_refl. Qed.

Record InvG (P:prog) (stk:list name) (s:st) : Prop := {
  g_cons : forall n v c, get s n = Some v -> lookup P n = Some c ->
           exists vs, Forall2 (fun d w => get s d = Some w) (refs c) vs /\ v = F c vs;
  g_known : forall n v, get s n = Some v -> In n (names P);
  g_enter : forall n, count_ev (Enter n) (trace s) = if fin s n || mem n stk then 1 else 0;
  g_exit  : forall n, count_ev (Exit n) (trace s) = if fin s n then 1 else 0;
  g_stk   : forall n, In n stk -> get s n = None }.

Variable rank : name -> nat.

Definition pull_spec (P:prog) (pl : st -> name -> outcome (st*V)) (bound:nat) : Prop :=
  forall n s stk, InvG P stk s -> In n (names P) -> rank n < bound ->
    (forall m, In m stk -> rank n < rank m) ->
    exists s' v, pl s n = Ok (s', v) /\ InvG P stk s' /\ get s' n = Some v /\ extends s s' /\
                 (forall m, fin s' m = true -> fin s m = true \/ rank m <= rank n).

Lemma pull_list_ok P pl bound : pull_spec P pl bound ->
  forall ns s stk b, InvG P stk s -> b <= bound ->
    (forall d, In d ns -> In d (names P) /\ rank d < b /\ forall m, In m stk -> rank d < rank m) ->
    exists s' vs, pull_list pl s ns = Ok (s', vs) /\ InvG P stk s' /\
                  Forall2 (fun d w => get s' d = Some w) ns vs /\ extends s s' /\
                  (forall m, fin s' m = true -> fin s m = true \/ rank m < b).
Proof.
  intros Hpl ns. induction ns as [|n t IH]; intros s stk b HI Hb Hns; simpl.
  - exists s, []. split; [reflexivity|]. split; [exact HI|]. split; [constructor|]. split; [intros m w H; exact H|]. intros m H; left; exact H.
  - destruct (Hns n (or_introl eq_refl)) as [Hin [Hr Hstk]].
    destruct (Hpl n s stk HI Hin ltac:(lia) Hstk) as [s1 [v [E1 [HI1 [G1 [X1 Fr1]]]]]].
    rewrite E1.
    destruct (IH s1 stk b HI1 Hb) as [s2 [vs [E2 [HI2 [F2 [X2 Fr2]]]]]].
    { intros d Hd. apply Hns. right; exact Hd. }
    rewrite E2. exists s2, (v::vs). split; [reflexivity|]. split; [exact HI2|]. split.
    + constructor; auto.
    + split. * intros m w Hm. apply X2, X1, Hm.
      * intros m Hm. destruct (Fr2 m Hm) as [H|H]; [|auto]. destruct (Fr1 m H) as [H'|H']; [auto|right; lia].
Qed.

Lemma fin_get_none s n : get s n = None -> fin s n = false.
Proof. unfold fin. intros ->. reflexivity. Qed.
Lemma fin_get_some s n v : get s n = Some v -> fin s n = true.
Proof. unfold fin. intros ->. reflexivity. Qed.

Theorem pull_ok P : wf_dag P rank -> forall fuel, pull_spec P (pull fuel P) fuel.
Proof.
  intros W fuel. induction fuel as [|f IH]; intros n s stk HI Hin Hr Hstk; [lia|].
  simpl. destruct (get s n) as [v|] eqn:G.
  - exists s, v. repeat split; auto; try apply HI. unfold extends; auto.
  - destruct (in_names_lookup P n Hin) as [c L]. rewrite L.
    destruct (lookup_In _ _ L) as [HcP Hnm].
    set (s0 := {| memo := memo s; trace := trace s ++ [Enter n] |}).
    assert (Hnot : ~ In n stk). { intros H. specialize (Hstk n H). lia. }
    assert (Hfin0 : forall m, fin s0 m = fin s m) by reflexivity.
    assert (HI0 : InvG P (n::stk) s0).
    { constructor.
      - intros m w c' Hm Lm. exact (g_cons HI _ Hm Lm).
      - intros m w Hm. exact (g_known HI _ Hm).
      - intros m. unfold s0 at 1; cbn [trace]. rewrite count_ev_app, (g_enter HI m), Hfin0. cbn [count_ev mem existsb].
        destruct (Nat.eqb m n) eqn:E.
        + apply Nat.eqb_eq in E; subst m. rewrite (fin_get_none _ _ G).
          destruct (mem n stk) eqn:M; [apply mem_In in M; contradiction|]. unfold mem in M. rewrite M. reflexivity.
        + fold (mem m stk). cbn. destruct (fin s m || mem m stk); lia.
      - intros m. unfold s0 at 1; cbn [trace]. rewrite count_ev_app, (g_exit HI m), Hfin0. cbn. lia.
      - intros m [H|H]; [subst; exact G| apply (g_stk HI _ H)]. }
    destruct (@pull_list_ok P (pull f P) f IH (refs c) s0 (n::stk) (rank n) HI0 ltac:(lia))
      as [s1 [vs [E1 [HI1 [F1 [X1 Fr1]]]]]].
    { intros d Hd. split; [eapply wf_refs; eauto|]. split.
      - rewrite <- Hnm. eapply wf_rank; eauto.
      - intros m [H|H]; [subst m; rewrite <- Hnm; eapply wf_rank; eauto|].
        specialize (Hstk m H). assert (rank d < rank n) by (rewrite <- Hnm; eapply wf_rank; eauto). lia. }
    rewrite E1.
    set (v := F c vs). set (s2 := {| memo := (n, v) :: memo s1; trace := trace s1 ++ [Exit n] |}).
    assert (G1n : get s1 n = None) by (apply (g_stk HI1); left; reflexivity).
    assert (Hget2 : forall m, m <> n -> get s2 m = get s1 m).
    { intros m Hm. unfold s2, get; simpl. destruct (Nat.eqb n m) eqn:E; [apply Nat.eqb_eq in E; congruence|reflexivity]. }
    assert (Hget2n : get s2 n = Some v). { unfold s2, get; simpl. rewrite Nat.eqb_refl. reflexivity. }
    assert (X12 : extends s1 s2).
    { intros m w Hm. destruct (Nat.eq_dec m n) as [->|Hne]; [congruence|]. rewrite Hget2; auto. }
    exists s2, v. split; [reflexivity|]. split; [|split; [exact Hget2n|split]].
    + constructor.
      * intros m w c' Hm Lm. destruct (Nat.eq_dec m n) as [->|Hne].
        -- rewrite L in Lm. inversion Lm; subst c'. rewrite Hget2n in Hm. inversion Hm; subst w.
           exists vs. split; [|reflexivity]. eapply Forall2_impl'; [|exact F1]. intros d w Hd. apply X12, Hd.
        -- rewrite Hget2 in Hm by exact Hne. destruct (g_cons HI1 _ Hm Lm) as [ws [Fw Ew]].
           exists ws. split; [|exact Ew]. eapply Forall2_impl'; [|exact Fw]. intros d w' Hd. apply X12, Hd.
      * intros m w Hm. destruct (Nat.eq_dec m n) as [->|Hne]; [exact Hin|]. rewrite Hget2 in Hm by exact Hne. eapply (g_known HI1); eauto.
      * intros m. unfold s2 at 1; simpl. rewrite count_ev_app; simpl. rewrite (g_enter HI1 m).
        destruct (Nat.eq_dec m n) as [->|Hne].
        -- rewrite (fin_get_some _ _ Hget2n). simpl. rewrite Nat.eqb_refl. rewrite orb_true_r. lia.
        -- unfold fin. rewrite Hget2 by exact Hne. cbn [mem existsb]. destruct (Nat.eqb m n) eqn:E; [apply Nat.eqb_eq in E; congruence|]. cbn. fold (mem m stk). destruct ((if get s1 m then true else false) || mem m stk); lia.
      * intros m. unfold s2 at 1; simpl. rewrite count_ev_app; simpl. rewrite (g_exit HI1 m).
        destruct (Nat.eq_dec m n) as [->|Hne].
        -- rewrite (fin_get_some _ _ Hget2n), (fin_get_none _ _ G1n), Nat.eqb_refl. reflexivity.
        -- unfold fin. rewrite Hget2 by exact Hne. destruct (Nat.eqb m n) eqn:E; [apply Nat.eqb_eq in E; congruence|]. destruct (get s1 m); cbn; lia.
      * intros m Hm. destruct (Nat.eq_dec m n) as [->|Hne]; [contradiction|]. rewrite Hget2 by exact Hne. apply (g_stk HI1). right; exact Hm.
    + intros m w Hm. apply X12, X1. exact Hm.
    + intros m Hm. destruct (Nat.eq_dec m n) as [->|Hne]; [right; lia|].
      unfold fin in Hm. rewrite Hget2 in Hm by exact Hne. destruct (Fr1 m Hm) as [H|H]; [left; exact H|right; lia].
Qed.


(* ---------- from single pulls to Program.run ---------- *)
Lemma InvG_init P : InvG P [] (init V).
Proof. constructor; simpl; try discriminate; try reflexivity; try tauto. Qed.

Lemma direct_refs c n : In n (direct c) -> In n (refs c).
Proof. unfold direct, refs. rewrite !in_map_iff. intros [x [E H]]. apply filter_In in H. exists x. tauto. Qed.

Lemma extends_refl (s : st) : extends s s. Proof. intros m w H; exact H. Qed.
Lemma extends_trans (a b c : st) : extends a b -> extends b c -> extends a c.
Proof. intros H1 H2 m w H. apply H2, H1, H. Qed.
Lemma extends_fin (s s' : st) n : extends s s' -> fin s n = true -> fin s' n = true.
Proof. unfold Sched.fin. intros X H. destruct (get s n) as [v|] eqn:E; [|discriminate]. rewrite (X _ _ E). reflexivity. Qed.

Lemma run_leaves_ok P fuel : wf_dag P rank -> (forall n, In n (names P) -> rank n < fuel) ->
  forall ls s, InvG P [] s -> (forall c, In c ls -> In c P) ->
  exists s', run_leaves F fuel P s ls = Ok s' /\ InvG P [] s' /\ extends s s' /\
             (forall c, In c ls -> fin s' (nm c) = true).
Proof.
  intros W B ls. induction ls as [|c ls IH]; intros s HI Hls; simpl.
  - exists s. split; [reflexivity|]. split; [exact HI|]. split; [apply extends_refl|]. intros c Hc0; simpl in Hc0; tauto.
  - assert (Hc : In (nm c) (names P)) by (apply in_map, Hls; left; reflexivity).
    pose proof (@pull_ok P W fuel) as PS. unfold pull_spec in PS.
    destruct (PS (nm c) s [] HI Hc (B _ Hc)) as [s1 [v [E1 [HI1 [G1 [X1 _]]]]]].
    { intros m Hm0; simpl in Hm0; tauto. }
    rewrite E1. destruct (IH s1 HI1) as [s2 [E2 [HI2 [X2 Fin2]]]].
    { intros c' Hc'. apply Hls. right; exact Hc'. }
    exists s2. rewrite E2. split; [reflexivity|]. split; [exact HI2|]. split.
    + eapply extends_trans; eauto.
    + intros c' [<-|Hc']; [|apply Fin2; exact Hc'].
      eapply extends_fin; [exact X2|]. unfold Sched.fin. rewrite G1. reflexivity.
Qed.

Lemma lookup_NoDup P c : NoDup (names P) -> In c P -> lookup P (nm c) = Some c.
Proof. induction P as [|x P IH]; simpl; [tauto|]. intros ND [->|H].
  - rewrite Nat.eqb_refl. reflexivity.
  - inversion ND; subst. destruct (Nat.eqb (nm x) (nm c)) eqn:E; [|apply IH; assumption].
    apply Nat.eqb_eq in E. exfalso. apply H2. rewrite E. apply in_map. exact H. Qed.

Lemma rank_bound (l : list name) : exists B, forall n, In n l -> rank n < B.
Proof. induction l as [|x l [B HB]]; [exists 0; intros n Hn0; simpl in Hn0; tauto|].
  exists (S (max B (rank x))). intros n [<-|H]; [lia | specialize (HB n H); lia]. Qed.

Lemma not_leaf P c : is_leaf P c = false -> exists d, In d P /\ In (nm c) (direct d).
Proof. unfold is_leaf. rewrite negb_false_iff, existsb_exists. intros [d [Hd M]]. exists d. split; auto. apply mem_In. exact M. Qed.

(* closure: once the leaves are finished everything is, because a finished command's references are finished *)
Lemma closure P s : wf_dag P rank -> InvG P [] s ->
  (forall c, In c P -> is_leaf P c = true -> fin s (nm c) = true) ->
  forall n, In n (names P) -> fin s n = true.
Proof.
  intros W HI HL. destruct (rank_bound (names P)) as [B HB].
  assert (G : forall k n, In n (names P) -> B <= rank n + k -> fin s n = true).
  { induction k as [|k IH]; intros n Hn Hk; [specialize (HB n Hn); lia|].
    apply in_map_iff in Hn. destruct Hn as [c [<- Hc]].
    destruct (is_leaf P c) eqn:L; [apply HL; assumption|].
    destruct (not_leaf _ _ L) as [d [Hd Hdir]]. apply direct_refs in Hdir.
    pose proof (wf_rank W _ _ Hd Hdir) as Hr.
    assert (Fd : fin s (nm d) = true) by (apply IH; [apply in_map; exact Hd | lia]).
    unfold Sched.fin in Fd. destruct (get s (nm d)) as [v|] eqn:G; [|discriminate].
    destruct (g_cons HI _ G (@lookup_NoDup P d (wf_nodup W) Hd)) as [vs [F2 _]].
    clear - F2 Hdir. unfold Sched.fin. induction F2 as [|r w rs ws Hrw _ IH2]; [destruct Hdir|].
    destruct Hdir as [->|Hdir]; [rewrite Hrw; reflexivity | apply IH2; exact Hdir]. }
  intros n Hn. apply (G B n Hn). lia.
Qed.

Theorem run_all P fuel s0 : wf_dag P rank -> (forall n, In n (names P) -> rank n < fuel) -> InvG P [] s0 ->
  exists s, run_leaves F fuel P s0 (filter (is_leaf P) P) = Ok s /\ InvG P [] s /\ extends s0 s /\
            forall n, In n (names P) -> fin s n = true.
Proof.
  intros W B HI0. destruct (run_leaves_ok W B (filter (is_leaf P) P) HI0) as [s [E [HI [X FL]]]].
  { intros c Hc. apply filter_In in Hc. tauto. }
  exists s. split; [exact E|]. split; [exact HI|]. split; [exact X|]. apply (closure W HI).
  intros c Hc L. apply FL. apply filter_In. auto.
Qed.

(* memo hits: pulling a finished command changes nothing *)
Lemma pull_finished fuel P (s : st) n : fin s n = true -> exists v, pull fuel P s n = Ok (s, v).
Proof. unfold Sched.fin. destruct fuel; simpl; destruct (get s n) as [v|]; try discriminate; eauto. Qed.

Lemma run_leaves_finished fuel P (s : st) ls : (forall c, In c ls -> fin s (nm c) = true) -> run_leaves F fuel P s ls = Ok s.
Proof. induction ls as [|c ls IH]; intros H; simpl; [reflexivity|].
  destruct (pull_finished fuel P s (nm c) (H c (or_introl eq_refl))) as [v E]. rewrite E. apply IH. intros c' Hc'. apply H. right; exact Hc'. Qed.
End SchedProofs.

(* ================= cycle rejection by peeling (pure graph facts) ================= *)
Unset Implicit Arguments.
Section Peel.

Lemma NoDup_names_inj (l : list cmd) a b : NoDup (names l) -> In a l -> In b l -> nm a = nm b -> a = b.
Proof. induction l as [|x l IH]; simpl; [tauto|]. intros ND Ha Hb E. inversion ND; subst.
  destruct Ha as [->|Ha], Hb as [->|Hb]; auto.
  - exfalso. apply H1. rewrite E. apply in_map. exact Hb.
  - exfalso. apply H1. rewrite <- E. apply in_map. exact Ha. Qed.

Lemma NoDup_names_filter f (l : list cmd) : NoDup (names l) -> NoDup (names (filter f l)).
Proof. induction l as [|x l IH]; simpl; [auto|]. intros ND. inversion ND; subst. destruct (f x); simpl; [|auto].
  constructor; [|auto]. intros H. apply H1. unfold names in *. apply in_map_iff in H. destruct H as [y [E Hy]].
  apply filter_In in Hy. rewrite <- E. apply in_map. tauto. Qed.

Lemma resolved_true rem c d : resolved rem c = true -> In d (refs c) -> ~ In d (names rem).
Proof. unfold resolved. rewrite negb_true_iff. intros H Hd Hin.
  assert (E : existsb (fun r => mem r (names rem)) (refs c) = true).
  { apply existsb_exists. exists d. split; auto. apply mem_In. exact Hin. } congruence. Qed.
Lemma resolved_false rem c : resolved rem c = false -> exists d, In d (refs c) /\ In d (names rem).
Proof. unfold resolved. rewrite negb_false_iff, existsb_exists. intros [d [Hd M]]. exists d. split; auto. apply mem_In. exact M. Qed.

Fixpoint round_of (fuel : nat) (rem : list cmd) (n : name) : nat :=
  match fuel with
  | 0 => 0
  | S f => if mem n (names (filter (resolved rem) rem)) then 0
           else S (round_of f (filter (fun c => negb (resolved rem c)) rem) n)
  end.

Lemma round_le fuel : forall rem n, round_of fuel rem n <= fuel.
Proof. induction fuel as [|f IH]; intros rem n; simpl; [lia|]. destruct (mem n _); [lia|]. specialize (IH (filter (fun c => negb (resolved rem c)) rem) n). lia. Qed.

Lemma peel_Some_nonempty fuel : forall rem r, peel fuel rem = Some r -> r <> [].
Proof. induction fuel as [|f IH]; intros rem r; destruct rem as [|c rem]; cbn [peel]; try discriminate.
  - intros H; inversion H; discriminate.
  - destruct (filter (resolved (c :: rem)) (c :: rem)) eqn:E; [intros H; inversion H; discriminate|]. apply IH. Qed.

Lemma round_lt fuel : forall rem, NoDup (names rem) -> peel fuel rem = None ->
  forall c d, In c rem -> In d (refs c) -> In d (names rem) -> round_of fuel rem d < round_of fuel rem (nm c).
Proof.
  induction fuel as [|f IH]; intros rem ND Hp c d Hc Hd Hdn.
  - destruct rem; [destruct Hc | discriminate Hp].
  - destruct rem as [|c0 r0] eqn:Erem; [destruct Hc|]. rewrite <- Erem in *. clear c0 r0 Erem.
    assert (Hp' : peel f (filter (fun c => negb (resolved rem c)) rem) = None).
    { destruct rem as [|c0 r0]; [destruct Hc|]. cbn [peel] in Hp.
      destruct (filter (resolved (c0 :: r0)) (c0 :: r0)); [discriminate | exact Hp]. }
    set (ready := filter (resolved rem) rem) in *. set (rem' := filter (fun c => negb (resolved rem c)) rem) in *.
    destruct (resolved rem c) eqn:Rc; [exfalso; exact (resolved_true _ _ _ Rc Hd Hdn)|].
    assert (Hc' : In c rem') by (apply filter_In; rewrite Rc; auto).
    assert (Hnc : mem (nm c) (names ready) = false).
    { destruct (mem (nm c) (names ready)) eqn:M; [|reflexivity]. apply mem_In in M. apply in_map_iff in M.
      destruct M as [c' [E Hc2]]. apply filter_In in Hc2. destruct Hc2 as [Hc2 R2].
      rewrite (NoDup_names_inj rem c' c ND Hc2 Hc E) in R2. congruence. }
    cbn [round_of]. fold ready. fold rem'. rewrite Hnc.
    destruct (mem d (names ready)) eqn:Md; [lia|].
    apply -> Nat.succ_lt_mono. apply IH; auto.
    + apply NoDup_names_filter, ND.
    + apply in_map_iff in Hdn. destruct Hdn as [cd [E Hcd]]. subst d. apply in_map. apply filter_In. split; auto.
      destruct (resolved rem cd) eqn:R; [|reflexivity]. exfalso.
      assert (In (nm cd) (names ready)) by (apply in_map, filter_In; auto). apply mem_In in H. congruence.
Qed.

Lemma first_missing_in_None P rs : first_missing_in P rs = None -> forall d, In d rs -> In d (names P).
Proof. induction rs as [|r rs IH]; simpl; [tauto|]. destruct (mem r (names P)) eqn:M; [|discriminate].
  intros H d [<-|Hd]; [apply mem_In; exact M | apply IH; assumption]. Qed.
Lemma first_missing_None P cs : first_missing P cs = None -> forall c d, In c cs -> In d (refs c) -> In d (names P).
Proof. induction cs as [|x cs IH]; simpl; [tauto|]. destruct (first_missing_in P (refs x)) eqn:E; [discriminate|].
  intros H c d [<-|Hc] Hd; [eapply first_missing_in_None; eauto | eapply IH; eauto]. Qed.

(* a program that passes the pre-pass has a rank function: the round in which each command is resolved *)
Theorem prepass_rank P : NoDup (names P) -> first_missing P P = None -> peel (length P) P = None ->
  wf_dag P (round_of (length P) P) /\ forall n, round_of (length P) P n <= length P.
Proof.
  intros ND FM Hp. split; [|intros n; apply round_le]. constructor; auto.
  - apply first_missing_None; exact FM.
  - intros c d Hc Hd. apply round_lt; auto. eapply first_missing_None; eauto.
Qed.

(* ... and conversely every acyclic program passes: the check rejects nothing it should accept *)
Lemma exists_min_rank (rank : name -> nat) (l : list cmd) : l <> [] ->
  exists c, In c l /\ forall c', In c' l -> rank (nm c) <= rank (nm c').
Proof. induction l as [|x l IH]; [congruence|]. intros _. destruct l as [|y l].
  - exists x. split; [left; reflexivity|]. intros c' [<-|[]]. lia.
  - destruct IH as [c [Hc Hmin]]; [discriminate|].
    destruct (le_lt_dec (rank (nm x)) (rank (nm c))) as [L|L].
    + exists x. split; [left; reflexivity|]. intros c' [<-|H]; [lia | specialize (Hmin c' H); lia].
    + exists c. split; [right; exact Hc|]. intros c' [<-|H]; [lia | apply Hmin; exact H]. Qed.

Lemma filter_length_le' {A} (f : A -> bool) l : length (filter f l) <= length l.
Proof. induction l as [|y l IH]; simpl; [lia|]. destruct (f y); simpl; lia. Qed.
Lemma filter_length_lt {A} (f : A -> bool) l x : In x l -> f x = false -> length (filter f l) < length l.
Proof. induction l as [|y l IH]; simpl; [tauto|]. intros [->|H] Fx.
  - rewrite Fx. pose proof (filter_length_le' f l). lia.
  - specialize (IH H Fx). destruct (f y); simpl; lia. Qed.

Theorem peel_complete P rank : wf_dag P rank ->
  forall fuel rem, length rem <= fuel -> (forall c, In c rem -> In c P) -> peel fuel rem = None.
Proof.
  intros W. induction fuel as [|f IH]; intros rem Hl Hsub.
  - destruct rem; [reflexivity | simpl in Hl; lia].
  - destruct rem as [|c0 r0] eqn:Erem; [reflexivity|]. rewrite <- Erem in *.
    assert (Hne : rem <> []) by (rewrite Erem; discriminate).
    destruct (exists_min_rank rank rem Hne) as [c [Hc Hmin]].
    assert (Rc : resolved rem c = true).
    { destruct (resolved rem c) eqn:R; [reflexivity|]. destruct (resolved_false _ _ R) as [d [Hd Hdn]].
      apply in_map_iff in Hdn. destruct Hdn as [c' [E Hc']]. subst d.
      pose proof (wf_rank W _ _ (Hsub c Hc) Hd). specialize (Hmin c' Hc'). lia. }
    assert (Hready : filter (resolved rem) rem <> []).
    { intros E. assert (In c (filter (resolved rem) rem)) by (apply filter_In; auto). rewrite E in H. destruct H. }
    assert (Hp : peel (S f) rem = peel f (filter (fun c => negb (resolved rem c)) rem)).
    { rewrite Erem. cbn [peel]. rewrite <- Erem. destruct (filter (resolved rem) rem); [congruence | reflexivity]. }
    rewrite Hp. apply IH.
    + assert (length (filter (fun c => negb (resolved rem c)) rem) < length rem).
      { apply filter_length_lt with (x := c); auto. rewrite Rc. reflexivity. } lia.
    + intros c' H. apply filter_In in H. apply Hsub. tauto.
Qed.

(* cycles *)
Definition edge (P : prog) (a b : name) : Prop := exists c, In c P /\ nm c = a /\ In b (refs c).
Fixpoint chain (P : prog) (a : name) (l : list name) (b : name) : Prop :=
  match l with [] => edge P a b | x :: t => edge P a x /\ chain P x t b end.
Definition has_cycle (P : prog) : Prop := exists n l, chain P n l n.

Lemma chain_succ P : forall l a b, chain P a l b -> forall m, In m (a :: l) -> exists m', In m' (l ++ [b]) /\ edge P m m'.
Proof. induction l as [|x l IH]; intros a b H m Hm; simpl in *.
  - destruct Hm as [<-|[]]. exists b. auto.
  - destruct H as [E H]. destruct Hm as [<-|Hm]; [exists x; auto|].
    destruct (IH x b H m Hm) as [m' [Hm' E']]. exists m'. auto. Qed.

Lemma peel_stuck (S : list name) : S <> [] -> forall fuel rem,
  (forall m, In m S -> exists c, In c rem /\ nm c = m /\ exists d, In d (refs c) /\ In d S) ->
  exists r, peel fuel rem = Some r.
Proof.
  intros HS. induction fuel as [|f IH]; intros rem H.
  - destruct rem as [|c0 r0]; [|simpl; eauto]. destruct S as [|m S]; [congruence|].
    destruct (H m (or_introl eq_refl)) as [c [[] _]].
  - destruct rem as [|c0 r0] eqn:Erem.
    { destruct S as [|m S]; [congruence|]. destruct (H m (or_introl eq_refl)) as [c [[] _]]. }
    rewrite <- Erem in *. assert (Hp : peel (Datatypes.S f) rem = match filter (resolved rem) rem with [] => Some rem | _ => peel f (filter (fun c => negb (resolved rem c)) rem) end).
    { rewrite Erem. reflexivity. }
    rewrite Hp. destruct (filter (resolved rem) rem) as [|rdy0 rdy]; [eauto|]. apply IH.
    intros m Hm. destruct (H m Hm) as [c [Hc [E [d [Hd HdS]]]]]. exists c. split; [|eauto].
    apply filter_In. split; auto. destruct (resolved rem c) eqn:R; [|reflexivity]. exfalso.
    destruct (H d HdS) as [cd [Hcd [Ed _]]]. apply (resolved_true _ _ _ R Hd). rewrite <- Ed. apply in_map. exact Hcd.
Qed.

Theorem cycle_rejected P : has_cycle P -> exists n, find_cycle P = Some n.
Proof.
  intros [n [l C]]. unfold find_cycle.
  destruct (@peel_stuck (n :: l) ltac:(discriminate) (length P) P) as [r Hr].
  { intros m Hm. destruct (chain_succ _ _ _ _ C m Hm) as [m' [Hm' [c [Hc [E Hd]]]]]. exists c. repeat split; auto.
    exists m'. split; auto. apply in_app_iff in Hm'. destruct Hm' as [H|[<-|[]]]; [right; exact H | left; reflexivity]. }
  rewrite Hr. pose proof (peel_Some_nonempty _ _ _ Hr). destruct r; [congruence | eauto].
Qed.
End Peel.
