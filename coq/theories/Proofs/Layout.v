(* Layout irrelevance at the level of the lexer: blanks, tabs, line breaks (LF, CR, CRLF, blank lines) and comments may be put
   between the tokens of a text without changing the tokens; with the round trip of C15 this gives: every such layout of a
   serialised program parses to that program. *)
From Coq Require Import NArith ZArith List Bool Lia.
From MP Require Import Model.Lexer Gen.GenGrammar Model.Parser Model.Serial Proofs.LexProofs Proofs.SerialProofs.
From MP Require Import Proofs.LrComplete Proofs.LexSerial.
Import ListNotations.
Close Scope string_scope.
Open Scope N_scope.

(* ---- what may stand between two tokens ---- *)
Definition not_lf (d : ch) : bool := negb (d =? 10).
Inductive isgap : text -> Prop :=
| gap_nil : isgap []
| gap_blank c g : is_ign c = true -> isgap g -> isgap (c :: g)
| gap_nl c g : is_nl c = true -> isgap g -> isgap (c :: g)
| gap_comment body g : forallb not_lf body = true -> isgap g -> isgap (35 :: body ++ 10 :: g).

Lemma nl_cases c : is_nl c = true -> c = 10 \/ c = 13.
Proof. unfold is_nl. destruct (N.eqb_spec c 10); [auto|]. destruct (N.eqb_spec c 13); [auto|discriminate]. Qed.
(* a line-break character starts a run of line breaks, which is skipped as a whole *)
Lemma lex1_nl c s : is_nl c = true -> lex1 (c :: s) = ([], LSkip (c :: fst (span is_nl s)) (snd (span is_nl s))).
Proof. intros H. destruct (nl_cases c H) as [-> | ->]; unfold lex1; cbn [span is_ign N.eqb Pos.eqb orb];
  unfold scan_id, scan_float, scan_int, scan_string, opt_sign, digits1, starts_dot;
  cbn [is_alpha_ is_sign is_digit span N.eqb N.leb Pos.eqb Pos.compare Pos.compare_cont N.compare andb orb];
  [change (is_nl 10) with true | change (is_nl 13) with true]; cbv iota; destruct (span is_nl s); reflexivity. Qed.
Lemma lexes_nlc c s l : is_nl c = true -> lexes s l -> lexes (c :: s) l.
Proof. intros H Hl. pose proof (lex1_nl c s H) as E. destruct s as [|d s'].
  - cbn [span fst snd] in E. eapply lexes_skip; [exact E | exact Hl].
  - destruct (is_nl d) eqn:D.
    + (* the run goes on into s: s itself begins by skipping the same run *)
      pose proof (lex1_nl d s' D) as E2. inversion Hl as [s0 ign H1|s0 ign k a rest l0 H1 H2|s0 ign a rest l0 H1 H2]; subst; rewrite E2 in H1; inversion H1; subst.
      cbn [span] in E. rewrite D in E. destruct (span is_nl s') as [x y]. cbn [fst snd] in *. eapply lexes_skip; [exact E | exact H2].
    + cbn [span] in E. rewrite D in E. cbn [fst snd] in E. eapply lexes_skip; [exact E | exact Hl].
Qed.
Lemma lex1_comment body rest : forallb not_lf body = true -> head_fails not_lf rest -> lex1 (35 :: body ++ rest) = ([], LSkip (35 :: body) rest).
Proof. intros Hb Hr. unfold lex1. cbn [span is_ign N.eqb Pos.eqb orb].
  unfold scan_id, scan_float, scan_int, scan_string, opt_sign, digits1, starts_dot, scan_plain.
  cbn [is_alpha_ is_sign is_digit is_nl is_plainc is_delim existsb span N.eqb N.leb Pos.eqb Pos.compare Pos.compare_cont N.compare andb orb negb].
  change (span (fun d : ch => negb (d =? 10)) (35 :: body ++ rest)) with (span not_lf (35 :: body ++ rest)).
  cbn [span not_lf N.eqb Pos.eqb negb]. fold not_lf. rewrite (span_all not_lf body rest Hb Hr). reflexivity. Qed.
Lemma lexes_isgap g : isgap g -> forall s l, lexes s l -> lexes (g ++ s) l.
Proof. induction 1 as [|c g Hc Hg IH|c g Hc Hg IH|body g Hb Hg IH]; intros s l Hl; cbn [app].
  - exact Hl.
  - apply (lexes_ign [c]); [cbn; rewrite Hc; reflexivity | apply IH; exact Hl].
  - apply lexes_nlc; [exact Hc | apply IH; exact Hl].
  - rewrite <- app_assoc. cbn [app]. eapply lexes_skip; [apply lex1_comment; [exact Hb | reflexivity]|].
    apply lexes_nlc; [reflexivity | apply IH; exact Hl].
Qed.
(* a comment may also end the text *)
Lemma lexes_final_comment body : forallb not_lf body = true -> lexes (35 :: body) [].
Proof. intros Hb. rewrite <- (app_nil_r body). eapply lexes_skip; [apply lex1_comment; [exact Hb | exact I]|]. eapply lexes_end. reflexivity. Qed.

(* ---- tokens that are taken whole when followed by suitable text ---- *)
Definition good_follow (x : kl) (rest : text) : Prop :=
  match fst x with KID => head_fails is_idc rest | KINT => stops_int rest = true | KFLOAT => fstop rest
  | KPLAIN => head_fails is_plainc rest          (* a PLAIN_STRING runs on to the next delimiter: blanks included *)
  | _ => True end.
Definition delimited (x : kl) : Prop := forall rest, good_follow x rest -> lex1 (snd x ++ rest) = ([], LTok (fst x) (snd x) rest).
Lemma delim_string s : delimited (KSTRING, quote s). Proof. intros rest _. apply lex1_takes_quoted. Qed.
Lemma delim_int z : delimited (KINT, int_text z). Proof. intros rest H. apply lexer_takes_int. exact H. Qed.
Lemma delim_float t : float_shape t = true -> delimited (KFLOAT, t). Proof. intros F rest H. apply lex1_float; assumption. Qed.
Lemma delim_ident a : is_ident a = true -> delimited (KID, a). Proof. intros F rest H. apply lex1_ident; assumption. Qed.
Lemma delim_punct c k : In (c, k) [(91, KLBRACK); (40, KLPAREN); (93, KRBRACK); (41, KRPAREN); (58, KCOLON); (44, KCOMMA); (61, KEQUAL)] -> delimited (k, [c]).
Proof. intros H rest _. apply lex1_punct. exact H. Qed.

(* a text laid out as: gap, token, gap, token, ..., final gap *)
Fixpoint lay (l : list (text * kl)) (final : text) : text :=
  match l with [] => final | gx :: t => fst gx ++ snd (snd gx) ++ lay t final end.
Fixpoint lay_ok (l : list (text * kl)) (final : text) : Prop :=
  match l with [] => True | gx :: t => good_follow (snd gx) (lay t final) /\ lay_ok t final end.
Theorem lexes_lay final : lexes final [] -> forall l, Forall (fun gx => isgap (fst gx) /\ delimited (snd gx)) l -> lay_ok l final ->
  lexes (lay l final) (map snd l).
Proof. intros Hf. induction l as [|[g x] t IH]; intros HF Hok; [exact Hf|]. inversion HF as [|? ? [Hg Hd] HF']; subst. destruct Hok as [Hx Hok].
  cbn [lay map fst snd] in *. apply lexes_isgap; [exact Hg|]. destruct x as [k a]. eapply lexes_tok; [apply (Hd _ Hx) | apply IH; assumption]. Qed.

(* after a non-empty gap every token is delimited *)
Lemma gap_head g : isgap g -> g <> [] -> exists c g', g = c :: g' /\ (is_ign c = true \/ is_nl c = true \/ c = 35).
Proof. intros H N. destruct H as [|c g Hc Hg|c g Hc Hg|body g Hb Hg]; [congruence | | |].
  - exists c, g. auto.
  - exists c, g. auto.
  - exists 35, (body ++ 10 :: g). auto. Qed.
Lemma good_follow_gap x g rest : fst x <> KPLAIN -> isgap g -> g <> [] -> good_follow x (g ++ rest).
Proof. intros NP H N. destruct (gap_head g H N) as (c & g' & -> & Hc). unfold good_follow. cbn [app].
  assert (A : is_idc c = false /\ is_digit c = false /\ (c =? 46) = false /\ fcont c = false).
  { destruct Hc as [Hc|[Hc|Hc]].
    - unfold is_ign in Hc. apply orb_true_iff in Hc as [Hc|Hc]; apply N.eqb_eq in Hc; subst; repeat split; reflexivity.
    - destruct (nl_cases c Hc) as [-> | ->]; repeat split; reflexivity.
    - subst. repeat split; reflexivity. }
  destruct A as (A1 & A2 & A3 & A4). destruct (fst x) eqn:K; try exact I.
  - cbn [head_fails]. exact A1.
  - cbn [head_fails fstop]. exact A4.
  - cbn [stops_int]. rewrite A2, A3. reflexivity.
  - congruence.
Qed.

(* ---- every token of a well-formed serialised program is delimited ---- *)
Ltac punct := cbn [In]; tauto.
Lemma tk_join_delim ls : Forall (Forall delimited) ls -> Forall delimited (tk_join ls).
Proof. induction ls as [|x t IH]; intros H; [constructor|]. inversion H as [|? ? Hx Ht]; subst. destruct t as [|y t'].
  - exact Hx.
  - rewrite tk_join_cons2. apply Forall_app. split; [exact Hx|]. constructor; [apply delim_punct; punct | apply IH; exact Ht]. Qed.
Lemma value_delim isres v : wfv isres v = true -> Forall delimited (tk_value isres v).
Proof. induction v as [s|z|r|b|n|t|l IH] using sval_ind'; cbn [wfv tk_value]; intros W.
  - destruct isres; (constructor; [|constructor]); [apply delim_ident; exact W | apply delim_string].
  - constructor; [apply delim_int | constructor].
  - apply andb_true_iff in W as [_ W]. constructor; [apply delim_float; exact W | constructor].
  - constructor; [apply delim_ident, bool_ident | constructor].
  - constructor; [apply delim_ident; exact W | constructor].
  - constructor; [apply delim_ident; exact W | constructor].
  - constructor; [apply delim_punct; punct|]. apply Forall_app. split; [|constructor; [apply delim_punct; punct | constructor]].
    apply tk_join_delim. rewrite Forall_map. rewrite forallb_forall in W. rewrite Forall_forall in *. intros x Hx. apply IH; [exact Hx | apply W; exact Hx]. Qed.
Lemma pair_delim p : Forall delimited (tk_pair p).
Proof. unfold tk_pair. constructor; [apply delim_string|]. constructor; [apply delim_punct; punct|]. constructor; [apply delim_string | constructor]. Qed.
Lemma arg_delim x : wfa x = true -> Forall delimited (tk_arg x).
Proof. unfold wfa, tk_arg. intros W. apply andb_true_iff in W as [W1 W2]. constructor; [apply delim_ident; exact W1|]. constructor; [apply delim_punct; punct|].
  destruct (snd x) as [isres v|kv]; [apply value_delim; exact W2|].
  constructor; [apply delim_punct; punct|]. apply Forall_app. split; [|constructor; [apply delim_punct; punct | constructor]].
  apply tk_join_delim. rewrite Forall_map. rewrite Forall_forall. intros p _. apply pair_delim. Qed.
Lemma cmd_delim c : wfc c = true -> Forall delimited (tk_cmd c).
Proof. unfold wfc, tk_cmd. intros W. apply andb_true_iff in W as [W W3]. apply andb_true_iff in W as [W1 W2].
  constructor; [apply delim_ident; exact W1|]. constructor; [apply delim_punct; punct|]. constructor; [apply delim_ident; exact W2|]. constructor; [apply delim_punct; punct|].
  apply Forall_app. split; [|constructor; [apply delim_punct; punct | constructor]].
  apply tk_join_delim. rewrite Forall_map. rewrite forallb_forall in W3. rewrite Forall_forall. intros x Hx. apply arg_delim, W3, Hx. Qed.
Lemma program_delim p : forallb wfc p = true -> Forall delimited (tk_program p).
Proof. induction p as [|c p IH]; intros W; [constructor|]. cbn [forallb] in W. apply andb_true_iff in W as [W1 W2].
  cbn [tk_program flat_map]. apply Forall_app. split; [apply cmd_delim; exact W1 | apply IH; exact W2]. Qed.

(* ---- parsing any text that lexes to the tokens of a program ---- *)
Theorem parse_of_lexes fs p s : p <> [] -> lexes s (tk_program p) ->
  exists pp, parse fs s = POk pp /\ pp_version pp = 3 /\ Forall2 cmd_matches p (pp_cmds pp).
Proof. intros Hp Hl.
  destruct (lexes_lex _ _ Hl (S (length s)) 1 0%nat (Nat.lt_succ_diag_r _)) as (toks & E & M).
  set (d := {| t_kind := KID; t_lexeme := []; t_line := 0; t_pos := 0%nat |}).
  pose proof (deco_self d toks 0%nat) as D. rewrite M in D.
  destruct (lr_complete (fun j => t_line (nth (j - 0) toks d)) (fun j => t_pos (nth (j - 0) toks d)) fs p Hp) as (T & pp & A & B & C & F).
  rewrite D in A. exists pp. split; [|split; assumption]. unfold parse, lex_all. rewrite E, A, B. reflexivity.
Qed.

(* LAYOUT IRRELEVANCE for serialised programs: put any gaps -- blanks, tabs, line breaks of any kind, blank lines, comments --
   before, between and after the tokens of a well-formed program (where a gap is empty the two tokens must not run
   together: lay_ok); the text parses to the same program *)
Theorem layout_irrelevant fs p gaps final : p <> [] -> forallb wfc p = true -> length gaps = length (tk_program p) ->
  Forall isgap gaps -> lexes final [] -> lay_ok (combine gaps (tk_program p)) final ->
  exists pp, parse fs (lay (combine gaps (tk_program p)) final) = POk pp /\ pp_version pp = 3 /\ Forall2 cmd_matches p (pp_cmds pp).
Proof. intros Hp W Hlen Hg Hf Hok. apply parse_of_lexes; [exact Hp|].
  assert (M : map snd (combine gaps (tk_program p)) = tk_program p).
  { clear - Hlen. revert gaps Hlen. induction (tk_program p) as [|x t IH]; intros [|g gs] H; try discriminate; [reflexivity|]. cbn. f_equal. apply IH. cbn in H. lia. }
  rewrite <- M at 2. apply lexes_lay; [exact Hf | | exact Hok].
  pose proof (program_delim p W) as Hd. clear - Hlen Hg Hd. revert gaps Hlen Hg. induction Hd as [|x t Hx Ht IH]; intros [|g gs] Hlen Hg; try discriminate; [constructor|].
  inversion Hg; subst. cbn [combine]. constructor; [split; assumption|]. apply IH; [cbn in Hlen; lia | assumption]. Qed.


(* convenient sufficient condition: every gap but the first is non-empty *)
Lemma good_follow_nil x : good_follow x [].
Proof. unfold good_follow. destruct (fst x); exact I || reflexivity. Qed.
Lemma lay_ok_gaps : forall l final, Forall (fun gx : text * kl => isgap (fst gx) /\ fst (snd gx) <> KPLAIN) l -> isgap final ->
  (forall gx, In gx (tl l) -> fst gx <> []) -> lay_ok l final.
Proof. induction l as [|[g x] t IH]; intros final HF Hfin Hne; [exact I|]. inversion HF as [|? ? [Hg Hx] HF']; subst. cbn [lay_ok snd tl fst] in *. split.
  - destruct t as [|[g' x'] t'].
    + cbn [lay]. destruct final as [|c f]; [apply good_follow_nil|]. rewrite <- (app_nil_r (c :: f)). apply good_follow_gap; [exact Hx | exact Hfin | discriminate].
    + cbn [lay fst snd]. inversion HF' as [|? ? [Hg' _] _]; subst. apply good_follow_gap; [exact Hx | exact Hg' | apply (Hne (g', x')); left; reflexivity].
  - apply IH; [exact HF' | exact Hfin |]. intros gx Hin. apply Hne. destruct t; [destruct Hin | right; exact Hin]. Qed.
Lemma lexes_final_gap final : isgap final -> lexes final [].
Proof. intros H. rewrite <- (app_nil_r final). apply lexes_isgap; [exact H|]. eapply lexes_end. reflexivity. Qed.

(* ---- boolean checkers for the hypotheses (used for examples and for checking generated renderings) ---- *)
Fixpoint gapb (incomment : bool) (g : text) : bool :=
  match g with
  | [] => negb incomment
  | c :: t => if incomment then (if c =? 10 then gapb false t else gapb true t)
              else if is_ign c || is_nl c then gapb false t else if c =? 35 then gapb true t else false
  end.
Lemma gapb_sound_n n : forall g, (length g <= n)%nat ->
  (gapb false g = true -> isgap g) /\
  (gapb true g = true -> exists body g', g = body ++ 10 :: g' /\ forallb not_lf body = true /\ isgap g').
Proof. induction n as [|n IH]; intros g Hl.
  - destruct g; [|cbn in Hl; lia]. split; [intros _; constructor | discriminate].
  - destruct g as [|c t]; [split; [intros _; constructor | discriminate]|]. cbn [length] in Hl. destruct (IH t ltac:(lia)) as [I1 I2]. split; cbn [gapb].
    + destruct (is_ign c) eqn:A; cbn [orb].
      * intros H. apply gap_blank; [exact A | apply I1; exact H].
      * destruct (is_nl c) eqn:B.
        -- intros H. apply gap_nl; [exact B | apply I1; exact H].
        -- destruct (N.eqb_spec c 35) as [->|]; [|discriminate]. intros H. destruct (I2 H) as (body & g' & -> & Hb & Hg). apply gap_comment; assumption.
    + destruct (N.eqb_spec c 10) as [->|Hc].
      * intros H. exists [], t. repeat split. apply I1; exact H.
      * intros H. destruct (I2 H) as (body & g' & -> & Hb & Hg). exists (c :: body), g'. repeat split; [|exact Hg].
        cbn [forallb]. rewrite Hb. unfold not_lf. apply N.eqb_neq in Hc. rewrite Hc. reflexivity.
Qed.
Lemma gapb_sound g : gapb false g = true -> isgap g.
Proof. apply (gapb_sound_n (length g) g (le_n _)). Qed.
(* the end of the text: a gap, possibly ending in a comment without line break *)
Fixpoint finalb (incomment : bool) (g : text) : bool :=
  match g with
  | [] => true
  | c :: t => if incomment then (if c =? 10 then finalb false t else finalb true t)
              else if is_ign c || is_nl c then finalb false t else if c =? 35 then finalb true t else false
  end.
Lemma finalb_sound_n n : forall g, (length g <= n)%nat ->
  (finalb false g = true -> lexes g []) /\
  (finalb true g = true -> (forallb not_lf g = true) \/ exists body g', g = body ++ 10 :: g' /\ forallb not_lf body = true /\ lexes g' []).
Proof. induction n as [|n IH]; intros g Hl.
  - destruct g; [|cbn in Hl; lia]. split; [intros _; eapply lexes_end; reflexivity | intros _; left; reflexivity].
  - destruct g as [|c t]; [split; [intros _; eapply lexes_end; reflexivity | intros _; left; reflexivity]|]. cbn [length] in Hl. destruct (IH t ltac:(lia)) as [I1 I2]. split; cbn [finalb].
    + destruct (is_ign c) eqn:A; cbn [orb].
      * intros H. apply (lexes_ign [c]); [cbn; rewrite A; reflexivity | apply I1; exact H].
      * destruct (is_nl c) eqn:B.
        -- intros H. apply lexes_nlc; [exact B | apply I1; exact H].
        -- destruct (N.eqb_spec c 35) as [->|]; [|discriminate]. intros H. destruct (I2 H) as [Hb|(body & g' & -> & Hb & Hg)].
           ++ apply lexes_final_comment; exact Hb.
           ++ eapply lexes_skip; [apply lex1_comment; [exact Hb | reflexivity]|]. apply lexes_nlc; [reflexivity | exact Hg].
    + destruct (N.eqb_spec c 10) as [->|Hc].
      * intros H. right. exists [], t. repeat split. apply I1; exact H.
      * intros H. apply N.eqb_neq in Hc. destruct (I2 H) as [Hb|(body & g' & -> & Hb & Hg)].
        -- left. cbn [forallb]. rewrite Hb. unfold not_lf. rewrite Hc. reflexivity.
        -- right. exists (c :: body), g'. repeat split; [|exact Hg]. cbn [forallb]. rewrite Hb. unfold not_lf. rewrite Hc. reflexivity.
Qed.
Lemma finalb_sound g : finalb false g = true -> lexes g [].
Proof. apply (finalb_sound_n (length g) g (le_n _)). Qed.
Definition head_failsb (p : ch -> bool) (b : text) : bool := match b with [] => true | c :: _ => negb (p c) end.
Definition good_followb (x : kl) (rest : text) : bool :=
  match fst x with KID => head_failsb is_idc rest | KINT => stops_int rest | KFLOAT => head_failsb fcont rest | KPLAIN => head_failsb is_plainc rest | _ => true end.
Fixpoint lay_okb (l : list (text * kl)) (final : text) : bool :=
  match l with [] => true | gx :: t => good_followb (snd gx) (lay t final) && lay_okb t final end.
Lemma head_failsb_sound p b : head_failsb p b = true -> head_fails p b.
Proof. destruct b as [|c b]; [intros _; exact I|]. cbn. intros H. apply negb_true_iff in H. exact H. Qed.
Lemma lay_okb_sound : forall l final, lay_okb l final = true -> lay_ok l final.
Proof. induction l as [|[g x] t IH]; intros final H; [exact I|]. cbn [lay_okb lay_ok snd] in *. apply andb_true_iff in H as [H1 H2]. split; [|apply IH; exact H2].
  unfold good_followb, good_follow in *. destruct (fst x); try exact I; [apply head_failsb_sound; exact H1 | apply head_failsb_sound; exact H1 | exact H1 | apply head_failsb_sound; exact H1]. Qed.
