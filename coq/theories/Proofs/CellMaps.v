(* C07 / C08: what the arithmetic commands and the conversions compute. *)
From Coq Require Import QArith Qminmax Qabs List Bool ZArith Lia Lqa Permutation Sorting.Sorted.
From MP Require Import Model.Cells Proofs.CellProofs Proofs.CellPerm Proofs.CellAlgebra.
Import ListNotations.
Open Scope Q_scope.

(* ---------- C07: element types and errors ---------- *)
Definition arith (c : ecmd) : bool :=
  match c with
  | Copy | AMinusB | Sum | WeightedSum _ | Multiply | ADividedByB | Minimum | Maximum | Mean | WeightedMean _ => true
  | _ => false
  end.
(* integer result exactly when every input is integer (and, for WeightedSum, every weight is); division and the means are always floating *)
Theorem arith_dtype c ins : arith c = true ->
  odt c ins = match c with
              | Copy => first_dt ins
              | AMinusB | Sum | Multiply | Minimum | Maximum => if all_int ins then DInt else DFloat
              | WeightedSum ws => if all_int ins && ws_int ws then DInt else DFloat
              | _ => DFloat
              end.
Proof. destruct c; intros H; try discriminate H; reflexivity. Qed.

(* the specific errors, in the order the code checks them *)
Theorem arith_errors c ins : arith c = true ->
  pre c ins =
  match c with
  | Copy => match ins with [_] => None | _ => Some EUnexpected end
  | AMinusB | ADividedByB =>
      match ins with [a; b] => if shape_eqb (a_shape b) (a_shape a) then None else Some EMixedShapes | _ => Some EUnexpected end
  | WeightedSum ws | WeightedMean ws =>
      if negb (Nat.eqb (length ws) (length ins)) then Some EMismatchedWeights else validate_shapes ins
  | _ => validate_shapes ins
  end.
Proof. destruct c; intros H; try discriminate H; unfold pre; try reflexivity.
  - destruct ins as [|a [|b [|c t]]]; try reflexivity. simpl. rewrite shape_eqb_refl. simpl. rewrite andb_true_r. reflexivity.
  - unfold weights_ok. destruct (negb _); reflexivity.
  - destruct ins as [|a [|b [|c t]]]; try reflexivity. simpl. rewrite shape_eqb_refl. simpl. rewrite andb_true_r. reflexivity.
  - unfold weights_ok. destruct (negb _); reflexivity.
Qed.
Theorem empty_inputs_error : validate_shapes [] = Some EEmptyInputs. Proof. reflexivity. Qed.
Theorem mixed_shapes_error ins : ins <> [] -> ~ same_shapes ins -> validate_shapes ins = Some EMixedShapes.
Proof. intros N S. destruct (validate_cases ins) as [A|[[A A']|[A A']]]; auto.
  - apply validate_spec in A. tauto.
  - congruence. Qed.

(* what each arithmetic command computes from the values of one column *)
Theorem arith_defs ins :
  (forall x, colf Copy ins [x] = Some x) /\
  (forall a b, colf AMinusB ins [a; b] = Some (a - b)) /\
  (forall a b, colf ADividedByB ins [a; b] = if Qeq_bool b 0 then None else Some (a / b)) /\
  (forall vs, colf Sum ins vs = Some (qsum vs)) /\
  (forall vs, colf Multiply ins vs = Some (qprod vs)) /\
  (forall vs, colf Mean ins vs = Some (qsum vs / qlen vs)) /\
  (forall ws vs, colf (WeightedSum ws) ins vs = Some (wsum (wvals ws) vs)) /\
  (forall ws vs, colf (WeightedMean ws) ins vs =
                 if Qeq_bool (qsum (wvals ws)) 0 then None else Some (wsum (wvals ws) vs / qsum (wvals ws))).
Proof. repeat split; reflexivity. Qed.
Theorem arith_minmax ins vs m :
  (colf Minimum ins vs = Some m -> is_min m vs) /\ (colf Maximum ins vs = Some m -> is_max m vs).
Proof. split; intros H; [apply qminl_is_min | apply qmaxl_is_max]; exact H. Qed.

(* division by zero: never an error -- the checks of ADividedByB do not look at values *)
Theorem division_never_fails_on_values a b a' b' :
  a_shape a = a_shape a' -> a_shape b = a_shape b' -> pre ADividedByB [a; b] = pre ADividedByB [a'; b'].
Proof. intros E1 E2. unfold pre. simpl. rewrite E1, E2. reflexivity. Qed.

(* ---------- C08: the linear map ---------- *)
Lemma lin_value x1 y1 x2 y2 x : ~ x2 - x1 == 0 -> lin x1 y1 x2 y2 x = Some ((x - x1) * (y2 - y1) / (x2 - x1) + y1).
Proof. intros H. unfold lin, divq. destruct (Qeq_bool (x2 - x1) 0) eqn:E; [apply Qeq_bool_eq in E; tauto | reflexivity]. Qed.
Definition lin_f (x1 y1 x2 y2 x : Q) : Q := (x - x1) * (y2 - y1) / (x2 - x1) + y1.
Lemma lin_at_x1 x1 y1 x2 y2 : ~ x2 - x1 == 0 -> lin_f x1 y1 x2 y2 x1 == y1.
Proof. intros H. unfold lin_f. field. exact H. Qed.
Lemma lin_at_x2 x1 y1 x2 y2 : ~ x2 - x1 == 0 -> lin_f x1 y1 x2 y2 x2 == y2.
Proof. intros H. unfold lin_f. field. exact H. Qed.
Lemma lin_affine x1 y1 x2 y2 x y l : ~ x2 - x1 == 0 ->
  lin_f x1 y1 x2 y2 (l * x + (1 - l) * y) == l * lin_f x1 y1 x2 y2 x + (1 - l) * lin_f x1 y1 x2 y2 y.
Proof. intros H. unfold lin_f. field. exact H. Qed.
Lemma lin_inverse x1 y1 x2 y2 x : ~ x2 - x1 == 0 -> ~ y2 - y1 == 0 ->
  lin_f y1 x1 y2 x2 (lin_f x1 y1 x2 y2 x) == x.
Proof. intros H1 H2. unfold lin_f. field. split; assumption. Qed.
Lemma lin_mono x1 y1 x2 y2 x y : 0 < (y2 - y1) / (x2 - x1) -> x <= y -> lin_f x1 y1 x2 y2 x <= lin_f x1 y1 x2 y2 y.
Proof. intros K H. unfold lin_f. set (k := (y2 - y1) / (x2 - x1)) in *.
  assert (E : forall z, (z - x1) * (y2 - y1) / (x2 - x1) == (z - x1) * k). { intros z. unfold k. unfold Qdiv. ring. }
  rewrite !E. assert ((x - x1) * k <= (y - x1) * k). { apply Qmult_le_compat_r; lra. } lra. Qed.

(* CvtToFuzzy: the true threshold goes to +1, the false threshold to -1, linearly in between, clamped outside *)
Theorem cvt_to_fuzzy_map t f d ins tv fv x : ctf_thresholds t f d (vals_of ins) = Some (tv, fv) -> ~ tv == fv ->
  colf (CvtToFuzzy t f d) ins [x] = Some (fz (lin_f tv 1 fv (-1) x)).
Proof. intros H N. unfold colf. rewrite H. cbn [u1]. rewrite lin_value by lra. reflexivity. Qed.
Theorem cvt_to_fuzzy_endpoints tv fv : ~ tv == fv -> fz (lin_f tv 1 fv (-1) tv) == 1 /\ fz (lin_f tv 1 fv (-1) fv) == -1.
Proof. intros N. split.
  - rewrite (fz_proper _ 1) by (apply lin_at_x1; lra). apply Qeq_refl.
  - rewrite (fz_proper _ (-1)) by (apply lin_at_x2; lra). apply Qeq_refl. Qed.
(* default thresholds: data minimum and maximum according to direction *)
Theorem cvt_to_fuzzy_defaults t f d vals lo hi : lo_of vals = Some lo -> hi_of vals = Some hi ->
  ctf_thresholds t f d vals =
  Some (match t with Some v => v | None => match d with DirHighToLow => lo | _ => hi end end,
        match f with Some v => v | None => match d with DirHighToLow => hi | _ => lo end end).
Proof. intros A B. unfold ctf_thresholds. rewrite A, B. destruct t, f, d; reflexivity. Qed.
(* CvtFromFuzzy is the inverse between the thresholds *)
Theorem cvt_from_fuzzy_map t f ins x : colf (CvtFromFuzzy t f) ins [x] = Some (lin_f 1 t (-1) f x).
Proof. unfold colf. cbn [u1]. rewrite lin_value; [reflexivity|]. unfold Qeq. simpl. lia. Qed.
Theorem cvt_from_to_inverse tv fv x : ~ tv == fv -> -1 <= lin_f tv 1 fv (-1) x <= 1 ->
  lin_f 1 tv (-1) fv (fz (lin_f tv 1 fv (-1) x)) == x.
Proof. intros N R. rewrite fz_id by exact R. apply lin_inverse; [lra|]. unfold Qeq. simpl. lia. Qed.
(* order: LowToHigh thresholds (fv < tv) preserve the order of cells, HighToLow reverse it *)
Theorem cvt_to_fuzzy_monotone tv fv x y : fv < tv -> x <= y -> fz (lin_f tv 1 fv (-1) x) <= fz (lin_f tv 1 fv (-1) y).
Proof. intros L H. apply fz_mono, lin_mono; [|exact H].
  assert (E : (-1 - 1) / (fv - tv) == 2 / (tv - fv)) by (field; lra). rewrite E. apply Qlt_shift_div_l; lra. Qed.

(* each CvtToFuzzy variant is its Normalize counterpart followed by the clamp to [-1, 1] *)
Theorem variants_are_clamped_normalize ins vs :
  (forall s t f, colf (CvtToFuzzyZScore s t f) ins vs
                 = ofz (colf (NormalizeZScore s (Some (opt 1 t)) (Some (opt (-1) f)) (Some (-1)) (Some 1)) ins vs)) /\
  (forall r n d, colf (CvtToFuzzyCat r n d) ins vs = ofz (colf (NormalizeCat r n d) ins vs)) /\
  (forall r n, colf (CvtToFuzzyCurve r n) ins vs = ofz (colf (NormalizeCurve r n) ins vs)) /\
  (forall iz n, colf (CvtToFuzzyMeanToMid iz n) ins vs = ofz (colf (NormalizeMeanToMid iz n) ins vs)) /\
  (forall s z n, colf (CvtToFuzzyCurveZScore s z n) ins vs = ofz (colf (NormalizeCurveZScore s z n) ins vs)).
Proof. repeat split; intros; unfold colf; destruct vs as [|x0 [|y0 t0]]; reflexivity. Qed.
Theorem variants_same_checks ins :
  (forall s t f, pre (CvtToFuzzyZScore s t f) ins = pre (NormalizeZScore s t f None None) ins) /\
  (forall r n d, pre (CvtToFuzzyCat r n d) ins = pre (NormalizeCat r n d) ins) /\
  (forall r n, pre (CvtToFuzzyCurve r n) ins = pre (NormalizeCurve r n) ins) /\
  (forall iz n, pre (CvtToFuzzyMeanToMid iz n) ins = pre (NormalizeMeanToMid iz n) ins) /\
  (forall s z n, pre (CvtToFuzzyCurveZScore s z n) ins = pre (NormalizeCurveZScore s z n) ins).
Proof. repeat split; reflexivity. Qed.

(* CvtToBinary: the threshold test *)
Theorem cvt_to_binary_map thr ins x :
  colf (CvtToBinary thr DirLowToHigh) ins [x] = Some (if Qlt_le_dec x thr then 0 else 1) /\
  colf (CvtToBinary thr DirHighToLow) ins [x] = Some (if Qlt_le_dec x thr then 1 else 0).
Proof. unfold colf; cbn [u1]. split; destruct (Qlt_le_dec x thr); reflexivity. Qed.

(* category lookup *)
Lemma memq_false x l : memq x l = false -> forall y, In y l -> ~ x == y.
Proof. induction l as [|z t IH]; simpl; intros H y []; subst.
  - apply orb_false_iff in H. destruct H as [H _]. apply Qeq_bool_neq. exact H.
  - apply orb_false_iff in H. destruct H as [_ H]. apply IH; assumption. Qed.
Theorem cat_lookup_hit raws normals d i r v x : nth_error raws i = Some r -> nth_error normals i = Some v ->
  has_dupq raws = false -> x == r -> lookup_cat raws normals d x = v.
Proof. revert normals i. induction raws as [|r0 rs IH]; intros normals i A B D E; [destruct i; discriminate|].
  destruct normals as [|n0 ns]; [destruct i; discriminate|]. simpl in D. apply orb_false_iff in D. destruct D as [D1 D2].
  destruct i as [|i]; simpl in *.
  - inversion A; inversion B; subst. apply Qeq_bool_iff in E. rewrite E. reflexivity.
  - destruct (Qeq_bool x r0) eqn:X.
    + exfalso. apply Qeq_bool_eq in X. apply nth_error_In in A. apply (memq_false _ _ D1 r A). rewrite <- X. exact E.
    + eapply IH; eauto. Qed.
Theorem cat_lookup_miss raws normals d x : (forall r, In r raws -> ~ x == r) -> lookup_cat raws normals d x = d.
Proof. revert normals. induction raws as [|r0 rs IH]; intros normals H; [reflexivity|]. destruct normals as [|n0 ns]; [reflexivity|].
  simpl. destruct (Qeq_bool x r0) eqn:X; [apply Qeq_bool_eq in X; exfalso; apply (H r0); [left; reflexivity | exact X]|].
  apply IH. intros r Hr. apply H. right. exact Hr. Qed.

(* piecewise-linear curve over control points in ascending order of raw value *)
Theorem curve_below p0 t x : x <= fst p0 -> interp (p0 :: t) x = Some (snd p0).
Proof. intros H. simpl. apply Qle_bool_iff in H. rewrite H. reflexivity. Qed.
Lemma last_indep {A} (a : A) l d d' : last (a :: l) d = last (a :: l) d'.
Proof. revert a. induction l as [|b t IH]; intros a; [reflexivity|]. change (last (b :: t) d = last (b :: t) d'). apply IH. Qed.
Lemma interp_seg_above prev rest x : Forall (fun p => fst p < x) rest -> interp_seg prev rest x = snd (last rest prev).
Proof. revert prev. induction rest as [|p t IH]; intros prev H; [reflexivity|]. inversion H; subst. simpl interp_seg.
  destruct (Qle_bool x (fst p)) eqn:E; [apply Qle_bool_iff in E; lra|]. rewrite IH by assumption.
  destruct t as [|p1 t1]; [reflexivity|]. change (last (p :: p1 :: t1) prev) with (last (p1 :: t1) prev). f_equal. apply last_indep. Qed.
Theorem curve_above p0 t x : Forall (fun p => fst p < x) (p0 :: t) -> interp (p0 :: t) x = Some (snd (last t p0)).
Proof. intros H. inversion H; subst. simpl. destruct (Qle_bool x (fst p0)) eqn:E; [apply Qle_bool_iff in E; lra|].
  rewrite interp_seg_above by assumption. reflexivity. Qed.
(* on the segment between two neighbouring control points: the straight line through them *)
Lemma interp_seg_between prev pre_ p q rest x :
  Forall (fun r => fst r < x) pre_ -> fst p < x -> x <= fst q ->
  interp_seg prev (pre_ ++ p :: q :: rest) x =
    let m := (snd q - snd p) / (fst q - fst p) in x * m + (snd p - m * fst p).
Proof. revert prev. induction pre_ as [|r t IH]; intros prev H A B.
  - simpl. destruct (Qle_bool x (fst p)) eqn:E; [apply Qle_bool_iff in E; lra|]. apply Qle_bool_iff in B. rewrite B. reflexivity.
  - inversion H; subst. simpl app. simpl interp_seg. destruct (Qle_bool x (fst r)) eqn:E; [apply Qle_bool_iff in E; lra|]. apply IH; assumption. Qed.
Theorem curve_between p0 pre_ p q rest x :
  fst p0 < x -> Forall (fun r => fst r < x) pre_ -> fst p < x -> x <= fst q ->
  interp (p0 :: pre_ ++ p :: q :: rest) x = Some (x * ((snd q - snd p) / (fst q - fst p)) + (snd p - (snd q - snd p) / (fst q - fst p) * fst p)).
Proof. intros A0 H A B. simpl. destruct (Qle_bool x (fst p0)) eqn:E; [apply Qle_bool_iff in E; lra|].
  rewrite interp_seg_between by assumption. reflexivity. Qed.
(* the control points used are the given pairs, sorted by raw value *)
Lemma insert_pt_perm p l : Permutation (insert_pt p l) (p :: l).
Proof. induction l as [|q t IH]; simpl; [apply Permutation_refl|]. destruct (pt_le p q); [apply Permutation_refl|].
  eapply Permutation_trans; [apply perm_skip; exact IH | apply perm_swap]. Qed.
Theorem curve_pts_perm raws normals : Permutation (curve_pts raws normals) (zipw pair raws normals).
Proof. unfold curve_pts, sort_pts. induction (zipw pair raws normals) as [|p l IH]; simpl; [constructor|].
  eapply Permutation_trans; [apply insert_pt_perm | apply perm_skip; exact IH]. Qed.
Definition fst_le (p q : Q * Q) : Prop := fst p <= fst q.
Lemma pt_le_fst p q : pt_le p q = true -> fst_le p q.
Proof. unfold pt_le, fst_le. destruct (Qeq_bool (fst p) (fst q)) eqn:E; intros H.
  - apply Qeq_bool_eq in E. rewrite E. apply Qle_refl.
  - apply Qle_bool_iff. exact H. Qed.
Lemma pt_le_false p q : pt_le p q = false -> fst_le q p.
Proof. unfold pt_le, fst_le. destruct (Qeq_bool (fst p) (fst q)) eqn:E; intros H.
  - apply Qeq_bool_eq in E. rewrite E. apply Qle_refl.
  - apply Qle_bool_false in H. lra. Qed.
Lemma insert_pt_sorted p l : Sorted fst_le l -> Sorted fst_le (insert_pt p l).
Proof. induction 1 as [|q t Hs IH Hd]; simpl; [repeat constructor|]. destruct (pt_le p q) eqn:E.
  - repeat constructor; auto. apply pt_le_fst. exact E.
  - constructor; [exact IH|]. destruct t as [|z t']; simpl; [repeat constructor; apply pt_le_false; exact E|].
    destruct (pt_le p z); constructor; [apply pt_le_false; exact E | inversion Hd; auto]. Qed.
Theorem curve_pts_sorted raws normals : Sorted fst_le (curve_pts raws normals).
Proof. unfold curve_pts, sort_pts. induction (zipw pair raws normals); simpl; [constructor | apply insert_pt_sorted; assumption]. Qed.
