(* What the operators compute (C06, C07, C08): characterisations of the column functions and their algebra. *)
From Coq Require Import QArith Qminmax Qabs List Bool ZArith Lia Lqa Permutation Sorting.Sorted.
From MP Require Import Model.Cells Proofs.CellProofs Proofs.CellPerm.
Import ListNotations.
Open Scope Q_scope.

(* ---------- maximum / minimum ---------- *)
Definition is_max (m : Q) (vs : list Q) : Prop := (exists x, In x vs /\ x == m) /\ forall x, In x vs -> x <= m.
Definition is_min (m : Q) (vs : list Q) : Prop := (exists x, In x vs /\ x == m) /\ forall x, In x vs -> m <= x.
Lemma qmaxl_is_max vs m : qmaxl vs = Some m -> is_max m vs.
Proof. revert m. induction vs as [|v vs IH]; simpl; intros m H; [discriminate|].
  destruct (qmaxl vs) as [m'|] eqn:E.
  - inversion H; subst. destruct (IH m' eq_refl) as [[x [Hx Ex]] Hle]. split.
    + destruct (Q.max_spec v m') as [[A B]|[A B]].
      * exists x. split; [right; exact Hx | rewrite B; exact Ex].
      * exists v. split; [left; reflexivity | rewrite B; reflexivity].
    + intros y [<-|Hy]; [apply Q.le_max_l | eapply Qle_trans; [apply Hle; exact Hy | apply Q.le_max_r]].
  - inversion H; subst. destruct vs; [|simpl in E; destruct (qmaxl vs); discriminate]. split.
    + exists m. split; [left; reflexivity | reflexivity].
    + intros y [<-|[]]. apply Qle_refl. Qed.
Lemma qminl_is_min vs m : qminl vs = Some m -> is_min m vs.
Proof. revert m. induction vs as [|v vs IH]; simpl; intros m H; [discriminate|].
  destruct (qminl vs) as [m'|] eqn:E.
  - inversion H; subst. destruct (IH m' eq_refl) as [[x [Hx Ex]] Hle]. split.
    + destruct (Q.min_spec v m') as [[A B]|[A B]].
      * exists v. split; [left; reflexivity | rewrite B; reflexivity].
      * exists x. split; [right; exact Hx | rewrite B; exact Ex].
    + intros y [<-|Hy]; [apply Q.le_min_l | eapply Qle_trans; [apply Q.le_min_r | apply Hle; exact Hy]].
  - inversion H; subst. destruct vs; [|simpl in E; destruct (qminl vs); discriminate]. split.
    + exists m. split; [left; reflexivity | reflexivity].
    + intros y [<-|[]]. apply Qle_refl. Qed.

(* ---------- sorting ---------- *)
Lemma insert_perm x l : Permutation (insert x l) (x :: l).
Proof. induction l as [|y t IH]; simpl; [apply Permutation_refl|]. destruct (Qle_bool x y); [apply Permutation_refl|].
  eapply Permutation_trans; [apply perm_skip; exact IH | apply perm_swap]. Qed.
Lemma sortq_perm l : Permutation (sortq l) l.
Proof. induction l as [|x t IH]; simpl; [constructor|]. eapply Permutation_trans; [apply insert_perm | apply perm_skip; exact IH]. Qed.
Lemma insert_sorted x l : Sorted Qle l -> Sorted Qle (insert x l).
Proof. induction 1 as [|y t Hs IH Hd]; simpl; [repeat constructor|].
  destruct (Qle_bool x y) eqn:E.
  - apply Qle_bool_iff in E. repeat constructor; auto.
  - assert (y <= x). { destruct (Qlt_le_dec x y) as [A|A]; [|exact A]. exfalso. apply Qlt_le_weak, Qle_bool_iff in A. congruence. }
    constructor; [exact IH|]. destruct t as [|z t']; simpl; [repeat constructor; auto|].
    destruct (Qle_bool x z); constructor; auto. inversion Hd; auto. Qed.
Lemma sortq_sorted l : Sorted Qle (sortq l).
Proof. induction l; simpl; [constructor | apply insert_sorted; assumption]. Qed.

(* ---------- properness over Qeq ---------- *)
Lemma qsum_eq l l' : Forall2 Qeq l l' -> qsum l == qsum l'.
Proof. induction 1; simpl; [reflexivity|]. rewrite H, IHForall2. reflexivity. Qed.
Lemma F2_length {A B} (R : A -> B -> Prop) l l' : Forall2 R l l' -> length l = length l'.
Proof. induction 1; simpl; congruence. Qed.
Lemma qmean_eq l l' : Forall2 Qeq l l' -> qmean l == qmean l'.
Proof. intros H. unfold qmean, qlen. rewrite (qsum_eq _ _ H), (F2_length _ _ _ H). reflexivity. Qed.
Lemma Forall2_Qeq_refl l : Forall2 Qeq l l.
Proof. induction l; constructor; auto. reflexivity. Qed.
Lemma Forall2_Qeq_trans a b c : Forall2 Qeq a b -> Forall2 Qeq b c -> Forall2 Qeq a c.
Proof. intros H. revert c. induction H; intros c0 H2; inversion H2; subst; constructor; eauto. etransitivity; eauto. Qed.
Lemma Qle_bool_proper a b c d : a == c -> b == d -> Qle_bool a b = Qle_bool c d.
Proof. intros E1 E2. destruct (Qle_bool a b) eqn:A, (Qle_bool c d) eqn:B; auto.
  - apply Qle_bool_iff in A. rewrite E1, E2 in A. apply Qle_bool_iff in A. congruence.
  - apply Qle_bool_iff in B. rewrite <- E1, <- E2 in B. apply Qle_bool_iff in B. congruence. Qed.
Lemma insert_eq x x' l l' : x == x' -> Forall2 Qeq l l' -> Forall2 Qeq (insert x l) (insert x' l').
Proof. intros Ex H. induction H as [|y y' t t' Ey Ht IH]; simpl; [repeat constructor; auto|].
  rewrite (Qle_bool_proper x y x' y' Ex Ey). destruct (Qle_bool x' y'); repeat constructor; auto. Qed.
Lemma Qle_bool_false a b : Qle_bool a b = false -> b < a.
Proof. intros H. destruct (Qlt_le_dec b a) as [A|A]; [exact A|]. apply Qle_bool_iff in A. congruence. Qed.
Lemma insert_insert x y l : Forall2 Qeq (insert x (insert y l)) (insert y (insert x l)).
Proof. induction l as [|z t IH]; simpl.
  - destruct (Qle_bool x y) eqn:A, (Qle_bool y x) eqn:B; try apply Forall2_Qeq_refl.
    + apply Qle_bool_iff in A, B. assert (x == y) by (apply Qle_antisym; auto). repeat constructor; auto. symmetry; auto.
    + apply Qle_bool_false in A, B. lra.
  - destruct (Qle_bool y z) eqn:Yz, (Qle_bool x z) eqn:Xz; simpl;
    destruct (Qle_bool x y) eqn:A, (Qle_bool y x) eqn:B; simpl; rewrite ?Yz, ?Xz; simpl; try apply Forall2_Qeq_refl;
    try (apply Qle_bool_iff in A); try (apply Qle_bool_iff in B); try (apply Qle_bool_iff in Yz); try (apply Qle_bool_iff in Xz);
    try (apply Qle_bool_false in A); try (apply Qle_bool_false in B); try (apply Qle_bool_false in Yz); try (apply Qle_bool_false in Xz);
    try lra.
    + assert (x == y) by (apply Qle_antisym; auto). constructor; [auto|]. constructor; [symmetry; auto|]. apply Forall2_Qeq_refl.
    + constructor; [reflexivity | exact IH].
    + constructor; [reflexivity | exact IH].
    + constructor; [reflexivity | exact IH].
Qed.
Lemma sortq_perm_eq l l' : Permutation l l' -> Forall2 Qeq (sortq l) (sortq l').
Proof. induction 1; simpl.
  - constructor.
  - apply insert_eq; [reflexivity | assumption].
  - apply insert_insert.
  - eapply Forall2_Qeq_trans; eauto. Qed.

(* ---------- order invariance of the commutative commands ---------- *)
Definition commutative (c : ecmd) : bool :=
  match c with
  | Sum | Multiply | Minimum | Maximum | Mean | FuzzyUnion | FuzzyOr | FuzzyAnd | FuzzyXOr | FuzzySelectedUnion _ _ => true
  | _ => false
  end.

Lemma qprod_perm l l' : Permutation l l' -> qprod l == qprod l'.
Proof. induction 1; simpl; try reflexivity.
  - rewrite IHPermutation. reflexivity.
  - ring.
  - etransitivity; eauto. Qed.
Lemma ofz_oeq a b : oeq a b -> oeq (ofz a) (ofz b).
Proof. destruct a, b; simpl; auto. apply fz_proper. Qed.
Lemma firstn_F2 {A} (R : A -> A -> Prop) n l l' : Forall2 R l l' -> Forall2 R (firstn n l) (firstn n l').
Proof. intros H. revert n. induction H; intros [|n]; simpl; constructor; auto. Qed.
Lemma skipn_F2 {A} (R : A -> A -> Prop) n l l' : Forall2 R l l' -> Forall2 R (skipn n l) (skipn n l').
Proof. intros H. revert n. induction H; intros [|n]; simpl; auto. Qed.
Lemma app_F2 {A} (R : A -> A -> Prop) a a' b b' : Forall2 R a a' -> Forall2 R b b' -> Forall2 R (a ++ b) (a' ++ b').
Proof. induction 1; simpl; auto. Qed.
Lemma rev_F2 {A} (R : A -> A -> Prop) l l' : Forall2 R l l' -> Forall2 R (rev l) (rev l').
Proof. induction 1; simpl; [constructor|]. apply app_F2; auto. Qed.

Lemma xor_formula_proper t1 t2 u1 u2 : t1 == u1 -> t2 == u2 ->
  (if Qle_bool t1 (-1) then -1 else t1 - (t1 - t2) * (t2 + 1) / (t1 + 1)) ==
  (if Qle_bool u1 (-1) then -1 else u1 - (u1 - u2) * (u2 + 1) / (u1 + 1)).
Proof. intros E1 E2. rewrite (Qle_bool_proper t1 (-1) u1 (-1) E1 (Qeq_refl _)). destruct (Qle_bool u1 (-1)); [reflexivity|].
  rewrite E1, E2. reflexivity. Qed.

Theorem colf_order_invariant c ins ins' vs vs' :
  commutative c = true -> Permutation vs vs' -> oeq (colf c ins vs) (colf c ins' vs').
Proof.
  destruct c; intros Hc; try discriminate Hc; clear Hc; intros H; unfold colf; simpl.
  - apply qsum_perm; exact H.
  - apply qprod_perm; exact H.
  - apply qminl_perm; exact H.
  - apply qmaxl_perm; exact H.
  - apply qmean_perm; exact H.
  - apply fz_proper, qmean_perm; exact H.
  - (* selected union *) destruct truest as [tr|]; [|exact I]. unfold sel_union. simpl. apply fz_proper, qmean_eq.
    pose proof (sortq_perm_eq _ _ H) as S. rewrite (F2_length _ _ _ S). destruct tr; [apply skipn_F2 | apply firstn_F2]; exact S.
  - apply ofz_oeq, qmaxl_perm; exact H.
  - apply ofz_oeq, qminl_perm; exact H.
  - (* xor *) unfold xor_cell. pose proof (rev_F2 _ _ _ (sortq_perm_eq _ _ H)) as S.
    inversion S as [|t1 u1 r r' E1 S1]; subst; [exact I|]. inversion S1 as [|t2 u2 r2 r2' E2 S2]; subst; [exact I|].
    simpl. apply fz_proper, xor_formula_proper; assumption.
Qed.

(* the same at the level of whole runs: permuting the list of inputs changes neither the outcome (error or not),
   nor element type, shape or any cell *)
Lemma shape_eqb_eq a b : shape_eqb a b = true <-> a = b.
Proof. revert b. induction a as [|x a IH]; destruct b as [|y b]; simpl; split; intros H; try discriminate; auto.
  - apply andb_true_iff in H. destruct H as [H1 H2]. apply Nat.eqb_eq in H1. apply IH in H2. congruence.
  - inversion H; subst. rewrite Nat.eqb_refl. simpl. apply IH. reflexivity. Qed.
Definition same_shapes (ins : list arr) : Prop := forall a b, In a ins -> In b ins -> a_shape a = a_shape b.
Lemma validate_spec ins : validate_shapes ins = None <-> ins <> [] /\ same_shapes ins.
Proof. destruct ins as [|a [|b t]]; simpl.
  - split; [discriminate | intros [H _]; congruence].
  - split; [|reflexivity]. intros _. split; [discriminate|]. intros x y [<-|[]] [<-|[]]. reflexivity.
  - rewrite shape_eqb_refl. simpl. destruct (shape_eqb (a_shape b) (a_shape a) && forallb _ t) eqn:E.
    + split; [|reflexivity]. intros _. split; [discriminate|]. apply andb_true_iff in E. destruct E as [E1 E2].
      apply shape_eqb_eq in E1. rewrite forallb_forall in E2.
      assert (A : forall x, In x (a :: b :: t) -> a_shape x = a_shape a).
      { intros x [<-|[<-|Hx]]; auto. apply shape_eqb_eq, E2, Hx. }
      intros x y Hx Hy. rewrite (A x Hx), (A y Hy). reflexivity.
    + split; [discriminate|]. intros [_ S]. exfalso. rewrite <- not_true_iff_false in E. apply E. apply andb_true_iff. split.
      * apply shape_eqb_eq, S; simpl; auto.
      * apply forallb_forall. intros x Hx. apply shape_eqb_eq, S; simpl; auto. Qed.
Lemma validate_cases ins : validate_shapes ins = None \/ validate_shapes ins = Some EEmptyInputs /\ ins = [] \/
  validate_shapes ins = Some EMixedShapes /\ ins <> [].
Proof. destruct ins as [|a [|b t]]; simpl; auto. destruct (_ && _); [auto | right; right; split; [reflexivity|discriminate]]. Qed.
Lemma validate_perm ins ins' : Permutation ins ins' -> validate_shapes ins = validate_shapes ins'.
Proof. intros P.
  assert (E : validate_shapes ins = None <-> validate_shapes ins' = None).
  { rewrite !validate_spec. split; intros [N S]; split.
    - intros ->. apply N. apply Permutation_nil. apply Permutation_sym. exact P.
    - intros x y Hx Hy. apply S; eapply Permutation_in; try eassumption; apply Permutation_sym; exact P.
    - intros ->. apply N. apply Permutation_nil. exact P.
    - intros x y Hx Hy. apply S; eapply Permutation_in; eassumption. }
  destruct (validate_cases ins) as [A|[[A A']|[A A']]], (validate_cases ins') as [B|[[B B']|[B B']]]; try congruence.
  - apply E in A. congruence.
  - apply E in A. congruence.
  - apply E in B. congruence.
  - subst. apply Permutation_nil in P. congruence.
  - apply E in B. congruence.
  - subst. apply Permutation_sym, Permutation_nil in P. congruence.
Qed.

Lemma all_int_perm ins ins' : Permutation ins ins' -> all_int ins = all_int ins'.
Proof. unfold all_int. induction 1; simpl; auto.
  - rewrite IHPermutation. reflexivity.
  - rewrite !andb_assoc, (andb_comm (is_int (a_dt y))). reflexivity.
  - congruence. Qed.
Lemma all_some_perm col col' : Permutation col col' ->
  match all_some col, all_some col' with
  | Some vs, Some vs' => Permutation vs vs'
  | None, None => True
  | _, _ => False
  end.
Proof. induction 1; simpl.
  - constructor.
  - destruct x; [|exact I]. destruct (all_some l), (all_some l'); auto.
  - destruct x, y; simpl; try exact I; destruct (all_some l); auto. apply perm_swap.
  - destruct (all_some l), (all_some l'), (all_some l''); try tauto. eapply Permutation_trans; eauto. Qed.

Definition res_same (a b : res arr) : Prop :=
  match a, b with
  | ROk x, ROk y => a_dt x = a_dt y /\ a_shape x = a_shape y /\ a_cells x = a_cells y
  | RErr e, RErr f => e = f
  | _, _ => False
  end.

Theorem run_order_invariant c ins ins' n :
  commutative c = true -> Permutation ins ins' -> Forall (fun a => length (a_cells a) = n) ins ->
  res_same (run c ins) (run c ins').
Proof.
  intros Hc P Hn.
  assert (PRE : pre c ins = pre c ins').
  { destruct c; try discriminate Hc; unfold pre; rewrite (validate_perm _ _ P); try reflexivity.
    - rewrite (Permutation_length P). reflexivity.
    - f_equal. pose proof (Permutation_length P) as L. destruct ins as [|a [|b t]], ins' as [|a' [|b' t']]; simpl in L; try discriminate; reflexivity. }
  unfold run. rewrite <- PRE. destruct (pre c ins) eqn:Epre; simpl; [reflexivity|].
  assert (V : validate_shapes ins = None).
  { destruct c; try discriminate Hc; unfold pre in Epre; try exact Epre; apply orelse_none in Epre; tauto. }
  apply validate_spec in V. destruct V as [Nne SS].
  assert (Hn' : Forall (fun a => length (a_cells a) = n) ins'). { eapply Permutation_Forall; eauto. }
  split; [|split].
  - destruct c; try discriminate Hc; simpl; unfold join_dt; rewrite ?(all_int_perm _ _ P); reflexivity.
  - destruct ins as [|a t]; [congruence|]. destruct ins' as [|a' t']; [apply Permutation_sym, Permutation_nil in P; discriminate|].
    simpl. apply SS; [left; reflexivity|]. eapply Permutation_in; [apply Permutation_sym; exact P | left; reflexivity].
  - assert (NC : ncells (map a_cells ins) = ncells (map a_cells ins')).
    { destruct ins as [|a t]; [congruence|]. destruct ins' as [|a' t']; [apply Permutation_sym, Permutation_nil in P; discriminate|].
      simpl. inversion Hn; inversion Hn'; subst. congruence. }
    unfold cw, cols_of. rewrite <- NC, !map_map. apply map_ext. intros i.
    assert (PC : Permutation (col_at (map a_cells ins) i) (col_at (map a_cells ins') i)).
    { unfold col_at. apply Permutation_map, Permutation_map. exact P. }
    unfold cw_cell. pose proof (all_some_perm _ _ PC) as A.
    destruct (all_some (col_at (map a_cells ins) i)) as [vs|], (all_some (col_at (map a_cells ins') i)) as [vs'|]; try tauto.
    apply oeq_red. apply colf_order_invariant; assumption.
Qed.

(* ---------- And <= Union <= Or ---------- *)
Lemma clamp2_mono lo hi x y : x <= y -> clamp2 lo hi x <= clamp2 lo hi y.
Proof. intros H. unfold clamp2.
  destruct (Qlt_le_dec hi x), (Qlt_le_dec hi y); try lra;
  repeat match goal with |- context [Qlt_le_dec ?a ?b] => destruct (Qlt_le_dec a b) end; lra. Qed.
Lemma fz_mono x y : x <= y -> fz x <= fz y.
Proof. apply clamp2_mono. Qed.
Lemma qlen_pos l : l <> [] -> 0 < qlen l.
Proof. destruct l; [congruence|]. intros _. unfold qlen. simpl length. rewrite Nat2Z.inj_succ. unfold Qlt. simpl. lia. Qed.
Lemma qlen_cons x l : qlen (x :: l) == 1 + qlen l.
Proof. unfold qlen. simpl length. rewrite Nat2Z.inj_succ, <- Z.add_1_l, inject_Z_plus. reflexivity. Qed.
Lemma sum_lower m l : (forall x, In x l -> m <= x) -> m * qlen l <= qsum l.
Proof. induction l as [|x t IH]; intros H.
  - change (qlen []) with 0. simpl. lra.
  - rewrite qlen_cons. simpl. assert (m <= x) by (apply H; left; reflexivity).
    assert (m * qlen t <= qsum t) by (apply IH; intros; apply H; right; assumption). lra. Qed.
Lemma sum_upper m l : (forall x, In x l -> x <= m) -> qsum l <= m * qlen l.
Proof. induction l as [|x t IH]; intros H.
  - change (qlen []) with 0. simpl. lra.
  - rewrite qlen_cons. simpl. assert (x <= m) by (apply H; left; reflexivity).
    assert (qsum t <= m * qlen t) by (apply IH; intros; apply H; right; assumption). lra. Qed.
Lemma mean_between vs mn mx : qminl vs = Some mn -> qmaxl vs = Some mx -> mn <= qmean vs <= mx.
Proof. intros A B. assert (N : vs <> []) by (intros ->; discriminate).
  apply qminl_is_min in A. apply qmaxl_is_max in B. destruct A as [_ A], B as [_ B]. pose proof (qlen_pos vs N) as L.
  unfold qmean. split.
  - apply Qle_shift_div_l; [exact L | apply sum_lower; exact A].
  - apply Qle_shift_div_r; [exact L | apply sum_upper; exact B]. Qed.

(* for every column of (any number of) fuzzy values: And <= Union <= Or *)
Theorem and_union_or ins vs a u o :
  colf FuzzyAnd ins vs = Some a -> colf FuzzyUnion ins vs = Some u -> colf FuzzyOr ins vs = Some o -> a <= u <= o.
Proof. unfold colf; simpl. intros A U O. destruct (qminl vs) as [mn|] eqn:E1; [|discriminate]. destruct (qmaxl vs) as [mx|] eqn:E2; [|discriminate].
  simpl in *. inversion A; inversion U; inversion O; subst. destruct (mean_between vs mn mx E1 E2). split; apply fz_mono; assumption. Qed.

(* ---------- Not ---------- *)
Theorem not_involution ins x y z : -1 <= x <= 1 ->
  colf FuzzyNot ins [x] = Some y -> colf FuzzyNot ins [y] = Some z -> z == x.
Proof. unfold colf; simpl. intros R A B. inversion A; subst. inversion B; subst.
  rewrite (fz_id (- x)) by lra. rewrite (fz_proper (- - x) x) by ring. rewrite fz_id by lra. reflexivity. Qed.
Lemma opp_max a b : - Qmax a b == Qmin (- a) (- b).
Proof. destruct (Q.max_spec a b) as [[A B]|[A B]], (Q.min_spec (- a) (- b)) as [[C D]|[C D]]; rewrite B, D; lra. Qed.
Lemma opp_qmaxl vs : oeq (option_map Qopp (qmaxl vs)) (qminl (map Qopp vs)).
Proof. induction vs as [|v vs IH]; simpl; [exact I|]. destruct (qmaxl vs) as [m|], (qminl (map Qopp vs)) as [m'|]; simpl in *; try tauto.
  - rewrite opp_max, IH. reflexivity.
  - reflexivity. Qed.
(* Not exchanges Or with And (De Morgan), for fuzzy values *)
Theorem not_or_is_and_not ins vs o n a :
  Forall (fun x => -1 <= x <= 1) vs ->
  colf FuzzyOr ins vs = Some o -> colf FuzzyNot ins [o] = Some n ->
  colf FuzzyAnd ins (map (fun x => fz (- x)) vs) = Some a -> n == a.
Proof. unfold colf; simpl. intros R O N A.
  assert (M : map (fun x => fz (- x)) vs = map Qopp vs).
  { apply map_ext_in. intros x Hx. rewrite Forall_forall in R. apply fz_id. specialize (R x Hx). lra. }
  rewrite M in A. pose proof (opp_qmaxl vs) as D.
  destruct (qmaxl vs) as [mx|] eqn:E; [|discriminate]. destruct (qminl (map Qopp vs)) as [mn|]; [|discriminate]. simpl in *.
  inversion O; inversion N; inversion A; subst.
  assert (X : -1 <= mx <= 1).
  { apply qmaxl_is_max in E. destruct E as [[x [Hx Ex]] _]. rewrite Forall_forall in R. specialize (R x Hx). lra. }
  rewrite (fz_id mx) by exact X. apply fz_proper. exact D. Qed.

(* ---------- selected union with k = all ---------- *)
Lemma firstn_len {A} (l : list A) : firstn (length l) l = l. Proof. apply firstn_all. Qed.
Theorem selected_all_is_union ins tr vs :
  oeq (colf (FuzzySelectedUnion (Some tr) (Z.of_nat (length vs))) ins vs) (colf FuzzyUnion ins vs).
Proof. unfold colf; simpl. unfold sel_union. rewrite Nat2Z.id. simpl. apply fz_proper.
  rewrite sortq_length. destruct tr.
  - rewrite Nat.sub_diag. simpl. apply qmean_perm, sortq_perm.
  - rewrite <- (sortq_length vs), firstn_all. apply qmean_perm, sortq_perm. Qed.

(* ---------- selected union with k = 1 ---------- *)
Lemma is_max_unique m m' vs : is_max m vs -> is_max m' vs -> m == m'.
Proof. intros [[x [Hx Ex]] A] [[y [Hy Ey]] B]. apply Qle_antisym.
  - rewrite <- Ex. apply B. exact Hx.
  - rewrite <- Ey. apply A. exact Hy. Qed.
Lemma is_min_unique m m' vs : is_min m vs -> is_min m' vs -> m == m'.
Proof. intros [[x [Hx Ex]] A] [[y [Hy Ey]] B]. apply Qle_antisym.
  - rewrite <- Ey. apply A. exact Hy.
  - rewrite <- Ex. apply B. exact Hx. Qed.
Lemma is_max_perm m l l' : Permutation l l' -> is_max m l -> is_max m l'.
Proof. intros P [[x [Hx Ex]] A]. split.
  - exists x. split; [eapply Permutation_in; eauto | exact Ex].
  - intros y Hy. apply A. eapply Permutation_in; [apply Permutation_sym; exact P | exact Hy]. Qed.
Lemma is_min_perm m l l' : Permutation l l' -> is_min m l -> is_min m l'.
Proof. intros P [[x [Hx Ex]] A]. split.
  - exists x. split; [eapply Permutation_in; eauto | exact Ex].
  - intros y Hy. apply A. eapply Permutation_in; [apply Permutation_sym; exact P | exact Hy]. Qed.
Lemma sorted_strong s : Sorted Qle s -> StronglySorted Qle s.
Proof. apply Sorted_StronglySorted. intros x y z. apply Qle_trans. Qed.
Lemma sorted_hd_min x t : StronglySorted Qle (x :: t) -> is_min x (x :: t).
Proof. intros H. inversion H; subst. split.
  - exists x. split; [left; reflexivity | reflexivity].
  - intros y [<-|Hy]; [apply Qle_refl|]. rewrite Forall_forall in H3. apply H3. exact Hy. Qed.
Lemma sorted_last_max s : StronglySorted Qle s -> s <> [] -> is_max (last s 0) s.
Proof. induction 1 as [|x t Hs IH Hf]; [congruence|]. intros _. destruct t as [|y t'].
  - simpl. split; [exists x; split; [left; reflexivity | reflexivity]|]. intros z [<-|[]]. apply Qle_refl.
  - assert (N : y :: t' <> []) by discriminate. specialize (IH N). destruct IH as [[w [Hw Ew]] A].
    change (last (x :: y :: t') 0) with (last (y :: t') 0). split.
    + exists w. split; [right; exact Hw | exact Ew].
    + intros z [<-|Hz]; [|apply A; exact Hz]. rewrite Forall_forall in Hf. rewrite <- Ew. apply Hf. exact Hw. Qed.
Lemma skipn_last {A} (d : A) (s : list A) : s <> [] -> skipn (length s - 1) s = [last s d].
Proof. induction s as [|x t IH]; [congruence|]. intros _. destruct t as [|y t']; [reflexivity|].
  simpl length. replace (S (S (length t')) - 1)%nat with (S (length (y :: t') - 1)) by (simpl; lia).
  change (skipn (S (length (y :: t') - 1)) (x :: y :: t')) with (skipn (length (y :: t') - 1) (y :: t')).
  rewrite IH by discriminate. reflexivity. Qed.
Lemma qmean_single z : qmean [z] == z.
Proof. unfold qmean, qsum, qlen. simpl. field. Qed.

Theorem selected_truest1_is_or ins vs : vs <> [] ->
  oeq (colf (FuzzySelectedUnion (Some true) 1) ins vs) (colf FuzzyOr ins vs).
Proof. intros N. unfold colf; simpl. unfold sel_union.
  assert (Ns : sortq vs <> []). { intros E. apply N. apply Permutation_nil. rewrite <- E. apply sortq_perm. }
  change (Pos.to_nat 1) with 1%nat. rewrite (skipn_last 0 _ Ns).
  destruct (qmaxl vs) as [mx|] eqn:E; [|exfalso; revert E; apply qmaxl_some; exact N]. simpl.
  apply fz_proper. rewrite qmean_single. eapply is_max_unique.
  - eapply is_max_perm; [apply sortq_perm|]. apply sorted_last_max; [apply sorted_strong, sortq_sorted | exact Ns].
  - apply qmaxl_is_max. exact E. Qed.
Theorem selected_falsest1_is_and ins vs : vs <> [] ->
  oeq (colf (FuzzySelectedUnion (Some false) 1) ins vs) (colf FuzzyAnd ins vs).
Proof. intros N. unfold colf; simpl. unfold sel_union.
  assert (Ns : sortq vs <> []). { intros E. apply N. apply Permutation_nil. rewrite <- E. apply sortq_perm. }
  change (Pos.to_nat 1) with 1%nat.
  destruct (qminl vs) as [mn|] eqn:E; [|exfalso; revert E; apply qminl_some; exact N]. simpl.
  pose proof (sortq_sorted vs) as S. pose proof (sortq_perm vs) as P.
  destruct (sortq vs) as [|x t]; [congruence|]. simpl firstn. apply fz_proper. rewrite qmean_single. eapply is_min_unique.
  - eapply is_min_perm; [exact P|]. apply sorted_hd_min, sorted_strong, S.
  - apply qminl_is_min. exact E. Qed.
