(* The lexer on the text the serialiser writes: ser_program p is split into exactly the tokens tk_program p. *)
From Coq Require Import NArith ZArith List Bool Lia.
From MP Require Import Model.Lexer Gen.GenGrammar Model.Parser Model.Serial Proofs.LexProofs Proofs.SerialProofs.
From MP Require Import Proofs.LrComplete.
Import ListNotations.
Open Scope N_scope.

Definition klof (t : token) : kl := (t_kind t, t_lexeme t).
(* s is split by the master regex into the tokens l (kinds and lexemes), skipping blanks, line breaks and comments *)
Inductive lexes : text -> list kl -> Prop :=
| lexes_end s ign : lex1 s = (ign, LEnd) -> lexes s []
| lexes_tok s ign k a rest l : lex1 s = (ign, LTok k a rest) -> lexes rest l -> lexes s ((k, a) :: l)
| lexes_skip s ign a rest l : lex1 s = (ign, LSkip a rest) -> lexes rest l -> lexes s l.

Lemma lexes_lex s l : lexes s l -> forall f line pos, (length s < f)%nat ->
  exists toks, lex f line pos s = LexOk toks /\ map klof toks = l.
Proof. induction 1 as [s ign H|s ign k a rest l H Hl IH|s ign a rest l H Hl IH]; intros f line pos Hf; (destruct f as [|f]; [lia|]); cbn [lex]; rewrite H.
  - exists []. split; reflexivity.
  - apply lex1_split in H. destruct H as [_ [-> Na]].
    destruct (IH f (match k with KSTRING => line + breaks a | _ => line end) (pos + length ign + length a)%nat) as (toks & E & M).
    { rewrite !app_length in Hf. destruct a; [congruence|]. cbn [length] in Hf. lia. }
    rewrite E. eexists. split; [reflexivity|]. cbn [map klof t_kind t_lexeme]. rewrite M. reflexivity.
  - apply lex1_split in H. destruct H as [_ [-> Na]].
    apply IH. rewrite !app_length in Hf. destruct a; [congruence|]. cbn [length] in Hf. lia.
Qed.

(* any token list is its kinds and lexemes decorated with its own lines and positions *)
Lemma deco_ext L P L' P' : forall l k, (forall j, (k <= j)%nat -> L j = L' j /\ P j = P' j) -> LrComplete.deco L P k l = LrComplete.deco L' P' k l.
Proof. induction l as [|x l IH]; intros k H; [reflexivity|]. cbn [LrComplete.deco]. f_equal.
  - unfold LrComplete.mk. destruct (H k (le_n k)) as [-> ->]. reflexivity.
  - apply IH. intros j Hj. apply H. lia.
Qed.
Lemma deco_self d : forall toks i, LrComplete.deco (fun j => t_line (nth (j - i) toks d)) (fun j => t_pos (nth (j - i) toks d)) i (map klof toks) = toks.
Proof. induction toks as [|t toks IH]; intros i; [reflexivity|]. cbn [map LrComplete.deco]. f_equal.
  - unfold LrComplete.mk, klof. cbn [fst snd]. rewrite Nat.sub_diag. destruct t; reflexivity.
  - etransitivity; [|apply (IH (S i))]. apply deco_ext. intros j Hj. replace (j - i)%nat with (S (j - S i)) by lia. split; reflexivity.
Qed.

(* ---- blanks and line breaks between tokens ---- *)
Definition head_fails (p : ch -> bool) (b : text) : Prop := match b with [] => True | c :: _ => p c = false end.
Lemma span_app p : forall a b x y, span p a = (x, y) -> (y = [] -> head_fails p b) -> span p (a ++ b) = (x, y ++ b).
Proof. induction a as [|c a IH]; intros b x y H Hy.
  - cbn in H. inversion H; subst. cbn [app]. specialize (Hy eq_refl). destruct b as [|d b]; [reflexivity|]. cbn in *. rewrite Hy. reflexivity.
  - cbn [span app] in *. destruct (p c).
    + destruct (span p a) as [x' y'] eqn:E. inversion H; subst. rewrite (IH b x' y eq_refl Hy). reflexivity.
    + inversion H; subst. reflexivity.
Qed.
Lemma span_all p a b : forallb p a = true -> head_fails p b -> span p (a ++ b) = (a, b).
Proof. intros Ha Hb. induction a as [|c a IH]; cbn [app].
  - destruct b as [|d b]; [reflexivity|]. cbn in *. rewrite Hb. reflexivity.
  - cbn [forallb] in Ha. apply andb_true_iff in Ha as [A1 A2]. cbn [span]. rewrite A1, (IH A2). reflexivity.
Qed.
Lemma span_ign_prefix g s : forallb is_ign g = true -> span is_ign (g ++ s) = (g ++ fst (span is_ign s), snd (span is_ign s)).
Proof. intros Hg. induction g as [|c g IH]; cbn [app]; [destruct (span is_ign s); reflexivity|].
  cbn [forallb] in Hg. apply andb_true_iff in Hg as [A1 A2]. cbn [span]. rewrite A1, (IH A2). reflexivity. Qed.
Lemma lex1_ign_prefix g s : forallb is_ign g = true -> lex1 (g ++ s) = (g ++ fst (lex1 s), snd (lex1 s)).
Proof. intros Hg. unfold lex1. rewrite (span_ign_prefix g s Hg). destruct (span is_ign s) as [a b]. reflexivity. Qed.
Lemma lexes_ign g s l : forallb is_ign g = true -> lexes s l -> lexes (g ++ s) l.
Proof. intros Hg H. pose proof (lex1_ign_prefix g s Hg) as E. inversion H as [s0 ign H1|s0 ign k a rest l0 H1 H2|s0 ign a rest l0 H1 H2]; subst; rewrite H1 in E; cbn [fst snd] in E.
  - eapply lexes_end; exact E.
  - eapply lexes_tok; [exact E | exact H2].
  - eapply lexes_skip; [exact E | exact H2].
Qed.
Lemma lexes_nl s l : head_fails is_nl s -> lexes s l -> lexes (10 :: s) l.
Proof. intros Hs H. eapply (lexes_skip _ [] [10] s); [|exact H]. unfold lex1. cbn [span is_ign N.eqb Pos.eqb orb].
  unfold scan_id, scan_float, scan_int, scan_string, opt_sign, digits1, starts_dot. cbn [is_alpha_ is_sign is_digit span N.eqb N.leb Pos.eqb Pos.compare Pos.compare_cont N.compare andb orb].
  change (is_nl 10) with true. cbv iota. destruct s as [|c s]; [reflexivity|]. cbn in Hs. cbn [span]. rewrite Hs. reflexivity. Qed.

(* ---- single tokens ---- *)
Lemma lex1_punct c k rest : In (c, k) [(91, KLBRACK); (40, KLPAREN); (93, KRBRACK); (41, KRPAREN); (58, KCOLON); (44, KCOMMA); (61, KEQUAL)] ->
  lex1 (c :: rest) = ([], LTok k [c] rest).
Proof. intros H. cbn [In] in H. repeat (destruct H as [H|H]; [inversion H; subst; reflexivity|]). destruct H. Qed.
Lemma lexes_punct c k rest l : In (c, k) [(91, KLBRACK); (40, KLPAREN); (93, KRBRACK); (41, KRPAREN); (58, KCOLON); (44, KCOMMA); (61, KEQUAL)] ->
  lexes rest l -> lexes (c :: rest) ((k, [c]) :: l).
Proof. intros H Hl. eapply lexes_tok; [apply lex1_punct; exact H | exact Hl]. Qed.

Definition is_ident (s : text) : bool := match s with c :: cs => is_alpha_ c && forallb is_idc cs | [] => false end.
Lemma alpha_not_ign c : is_alpha_ c = true -> is_ign c = false.
Proof. unfold is_alpha_, is_ign. intros H.
  repeat match goal with |- context [?a =? ?b] => destruct (N.eqb_spec a b); [subst; cbn in H; try discriminate|] end; reflexivity. Qed.
Lemma lex1_ident a rest : is_ident a = true -> head_fails is_idc rest -> lex1 (a ++ rest) = ([], LTok KID a rest).
Proof. destruct a as [|c cs]; [discriminate|]. cbn [is_ident]. intros H Hr. apply andb_true_iff in H as [A1 A2].
  unfold lex1. cbn [app span]. rewrite (alpha_not_ign c A1). unfold scan_id. rewrite A1, (span_all is_idc cs rest A2 Hr). reflexivity. Qed.
Lemma lexes_ident a rest l : is_ident a = true -> head_fails is_idc rest -> lexes rest l -> lexes (a ++ rest) ((KID, a) :: l).
Proof. intros H Hr Hl. eapply lexes_tok; [apply lex1_ident; assumption | exact Hl]. Qed.
Lemma lexes_string s rest l : lexes rest l -> lexes (quote s ++ rest) ((KSTRING, quote s) :: l).
Proof. intros Hl. eapply lexes_tok; [apply lex1_takes_quoted | exact Hl]. Qed.
Lemma lexes_int z rest l : stops_int rest = true -> lexes rest l -> lexes (int_text z ++ rest) ((KINT, int_text z) :: l).
Proof. intros Hs Hl. eapply lexes_tok; [apply lexer_takes_int; exact Hs | exact Hl]. Qed.

(* ---- FLOAT lexemes: appending text that starts with a delimiter changes nothing ---- *)
Definition fcont (c : ch) : bool := is_digit c || (c =? 46) || (c =? 101) || (c =? 69) || is_sign c.
Definition fstop (b : text) : Prop := head_fails fcont b.
Lemma fstop_digit b : fstop b -> head_fails is_digit b.
Proof. destruct b as [|c b]; [trivial|]. unfold fstop, fcont. cbn. intros H. repeat (apply orb_false_iff in H as [H ?]). exact H. Qed.
Lemma fstop_parts c b : fstop (c :: b) -> is_digit c = false /\ (c =? 46) = false /\ (c =? 101) = false /\ (c =? 69) = false /\ is_sign c = false.
Proof. unfold fstop, fcont. cbn. intros H. repeat (apply orb_false_iff in H as [H ?]). auto. Qed.
Lemma digits1_app s d r b : digits1 s = Some (d, r) -> fstop b -> digits1 (s ++ b) = Some (d, r ++ b).
Proof. unfold digits1. destruct (span is_digit s) as [x y] eqn:E. intros H Hb. rewrite (span_app is_digit s b x y E (fun _ => fstop_digit b Hb)).
  destruct x; [discriminate|]. inversion H; subst. reflexivity. Qed.
Lemma digits1_none_app s b : digits1 s = None -> fstop b -> digits1 (s ++ b) = None.
Proof. unfold digits1. destruct (span is_digit s) as [x y] eqn:E. intros H Hb. rewrite (span_app is_digit s b x y E (fun _ => fstop_digit b Hb)).
  destruct x; [reflexivity | discriminate]. Qed.
Lemma starts_dot_app s r b : starts_dot s = Some r -> starts_dot (s ++ b) = Some (r ++ b).
Proof. destruct s as [|c s]; [discriminate|]. cbn [starts_dot app]. destruct (c =? 46); [|discriminate]. intros H; inversion H; reflexivity. Qed.
Lemma starts_dot_none_app s b : starts_dot s = None -> fstop b -> starts_dot (s ++ b) = None.
Proof. destruct s as [|c s]; cbn [app].
  - intros _ Hb. destruct b as [|d b]; [reflexivity|]. apply fstop_parts in Hb as (_ & H & _). cbn [starts_dot]. rewrite H. reflexivity.
  - cbn [starts_dot]. destruct (c =? 46); [discriminate | reflexivity]. Qed.
Lemma opt_sign_app s b : s <> [] -> opt_sign (s ++ b) = (fst (opt_sign s), snd (opt_sign s) ++ b).
Proof. destruct s as [|c s]; [congruence|]. intros _. cbn [app opt_sign]. destruct (is_sign c); reflexivity. Qed.
Lemma opt_sign_nil_app b : fstop b -> opt_sign b = ([], b).
Proof. destruct b as [|c b]; [reflexivity|]. intros H. apply fstop_parts in H as (_ & _ & _ & _ & H). cbn [opt_sign]. rewrite H. reflexivity. Qed.
Lemma scan_exp_app s e r b : scan_exp s = (e, r) -> fstop b -> scan_exp (s ++ b) = (e, r ++ b).
Proof. intros H Hb. destruct s as [|c t].
  - cbn in H. inversion H; subst. cbn [app]. destruct b as [|d b]; [reflexivity|]. pose proof (fstop_parts _ _ Hb) as (_ & _ & H1 & H2 & _).
    cbn [scan_exp]. rewrite H1, H2. reflexivity.
  - cbn [app scan_exp] in *. destruct ((c =? 101) || (c =? 69)); [|inversion H; reflexivity].
    destruct t as [|c2 t'].
    + cbn [app]. rewrite (opt_sign_nil_app b Hb). cbn [opt_sign digits1 span] in H. inversion H; subst.
      pose proof (digits1_none_app [] b eq_refl Hb) as Dn. cbn [app] in Dn. rewrite Dn. reflexivity.
    + rewrite (opt_sign_app (c2 :: t') b ltac:(discriminate)). destruct (opt_sign (c2 :: t')) as [sg t1]. cbn [fst snd].
      destruct (digits1 t1) as [[d r0]|] eqn:D.
      * rewrite (digits1_app t1 d r0 b D Hb). inversion H; subst. reflexivity.
      * rewrite (digits1_none_app t1 b D Hb). inversion H; subst. reflexivity.
Qed.
Lemma scan_float_app s a r b : scan_float s = Some (a, r) -> fstop b -> scan_float (s ++ b) = Some (a, r ++ b).
Proof. intros H Hb. destruct s as [|c0 s0]; [discriminate|]. set (s := c0 :: s0) in *. unfold scan_float in *.
  rewrite (opt_sign_app s b ltac:(discriminate)). destruct (opt_sign s) as [sg s1]. cbn [fst snd].
  destruct (digits1 s1) as [[d rest]|] eqn:D.
  - rewrite (digits1_app s1 d rest b D Hb). destruct (starts_dot rest) as [r1|] eqn:S; [|discriminate].
    rewrite (starts_dot_app rest r1 b S). destruct (span is_digit r1) as [f r'] eqn:F.
    rewrite (span_app is_digit r1 b f r' F (fun _ => fstop_digit b Hb)).
    destruct (scan_exp r') as [e r''] eqn:E. rewrite (scan_exp_app r' e r'' b E Hb). inversion H; subst. reflexivity.
  - rewrite (digits1_none_app s1 b D Hb). destruct (starts_dot s1) as [r1|] eqn:S; [|discriminate].
    rewrite (starts_dot_app s1 r1 b S). destruct (digits1 r1) as [[f r']|] eqn:F; [|discriminate].
    rewrite (digits1_app r1 f r' b F Hb). destruct (scan_exp r') as [e r''] eqn:E. rewrite (scan_exp_app r' e r'' b E Hb). inversion H; subst. reflexivity.
Qed.
Definition float_shape (t : text) : bool := match scan_float t with Some (_, []) => true | _ => false end.
Lemma scan_float_head c t a r : scan_float (c :: t) = Some (a, r) -> is_sign c = true \/ is_digit c = true \/ c = 46.
Proof. unfold scan_float, opt_sign. destruct (is_sign c) eqn:S; [auto|]. unfold digits1. cbn [span]. destruct (is_digit c) eqn:D; [auto|].
  cbn [starts_dot]. destruct (c =? 46) eqn:E; [apply N.eqb_eq in E; auto | discriminate]. Qed.
Lemma float_head_facts c : is_sign c = true \/ is_digit c = true \/ c = 46 -> is_ign c = false /\ is_alpha_ c = false.
Proof. unfold is_sign, is_digit, is_ign, is_alpha_. intros H.
  repeat match goal with
         | |- context [?a =? ?b] => destruct (N.eqb_spec a b)
         | |- context [?a <=? ?b] => destruct (N.leb_spec a b)
         end; cbn in *; try (split; reflexivity); exfalso;
  repeat match goal with
         | H : context [?a =? ?b] |- _ => destruct (N.eqb_spec a b)
         | H : context [?a <=? ?b] |- _ => destruct (N.leb_spec a b)
         end; cbn in *; try lia; destruct H as [H|[H|H]]; try discriminate; lia. Qed.
Lemma lex1_float t rest : float_shape t = true -> fstop rest -> lex1 (t ++ rest) = ([], LTok KFLOAT t rest).
Proof. unfold float_shape. destruct (scan_float t) as [[a r]|] eqn:E; [|discriminate]. destruct r; [|discriminate]. intros _ Hb.
  pose proof (scan_float_split _ _ _ E) as Ht. rewrite app_nil_r in Ht. subst a.
  pose proof (scan_float_app t t [] rest E Hb) as A. cbn [app] in A.
  destruct t as [|c t']; [discriminate|]. destruct (float_head_facts c (scan_float_head c t' _ _ E)) as [F1 F2].
  unfold lex1. cbn [app span]. rewrite F1. unfold scan_id. rewrite F2. cbn [app] in A. rewrite A. reflexivity. Qed.
Lemma lexes_float t rest l : float_shape t = true -> fstop rest -> lexes rest l -> lexes (t ++ rest) ((KFLOAT, t) :: l).
Proof. intros H Hr Hl. eapply lexes_tok; [apply lex1_float; assumption | exact Hl]. Qed.

(* ---- the structure of the serialised text ---- *)
Definition vstop (rest : text) : Prop := match rest with c :: _ => c = 44 \/ c = 93 \/ c = 10 | [] => False end.
Lemma vstop_idc r : vstop r -> head_fails is_idc r.
Proof. destruct r as [|c r]; [contradiction|]. intros [->|[->| ->]]; reflexivity. Qed.
Lemma vstop_int r : vstop r -> stops_int r = true.
Proof. destruct r as [|c r]; [contradiction|]. intros [->|[->| ->]]; reflexivity. Qed.
Lemma vstop_float r : vstop r -> fstop r.
Proof. destruct r as [|c r]; [contradiction|]. intros [->|[->| ->]]; reflexivity. Qed.

Fixpoint wfv (isres : bool) (v : sval) : bool :=
  match v with
  | SVStr s => if isres then is_ident s else true
  | SVInt _ => true
  | SVFloat r => negb isres && float_shape (float_text r)
  | SVBool _ => true
  | SVCmd n => is_ident n
  | SVOther t => is_ident t
  | SVList l => forallb (wfv isres) l
  end.
Lemma join_cons2 sep (x y : text) t : join sep (x :: y :: t) = x ++ sep ++ join sep (y :: t).
Proof. reflexivity. Qed.
Lemma tk_join_cons2 (x y : list kl) t : tk_join (x :: y :: t) = x ++ comma :: tk_join (y :: t).
Proof. reflexivity. Qed.
Ltac punct := cbn [In]; tauto.

Definition value_lexes (isres : bool) (v : sval) : Prop := wfv isres v = true -> forall rest l, vstop rest -> lexes rest l ->
  lexes (ser_value isres v ++ rest) (tk_value isres v ++ l).
Lemma items_lexes isres : forall l, Forall (value_lexes isres) l -> forallb (wfv isres) l = true -> forall rest l0,
  lexes (93 :: rest) l0 -> lexes (join [44; 32] (map (ser_value isres) l) ++ 93 :: rest) (tk_join (map (tk_value isres) l) ++ l0).
Proof. induction l as [|v l IH]; intros HF Hw rest l0 H0; [exact H0|]. inversion HF as [|? ? Hv HF']; subst.
  cbn [forallb] in Hw. apply andb_true_iff in Hw as [W1 W2]. destruct l as [|v2 l'].
  - cbn [map join tk_join]. apply Hv; [exact W1 | cbn; auto | exact H0].
  - cbn [map]. rewrite join_cons2, tk_join_cons2. rewrite <- !app_assoc. cbn [app].
    apply Hv; [exact W1 | cbn; auto |]. apply lexes_punct; [punct|]. apply (lexes_ign [32]); [reflexivity|].
    apply (IH HF' W2 rest l0 H0).
Qed.
Lemma bool_ident b : is_ident (bool_text b) = true. Proof. destruct b; reflexivity. Qed.
Theorem value_lexes_all isres v : value_lexes isres v.
Proof. induction v as [s|z|r|b|n|t|l IH] using sval_ind'; intros W rest l0 Hs H0; cbn [wfv] in W.
  - destruct isres; cbn [ser_value py_str tk_value app].
    + apply lexes_ident; [exact W | apply vstop_idc; exact Hs | exact H0].
    + apply lexes_string; exact H0.
  - replace (ser_value isres (SVInt z)) with (int_text z) by (destruct isres; reflexivity). apply lexes_int; [apply vstop_int; exact Hs | exact H0].
  - apply andb_true_iff in W as [W1 W2]. destruct isres; [discriminate|]. cbn [ser_value tk_value app].
    apply lexes_float; [exact W2 | apply vstop_float; exact Hs | exact H0].
  - replace (ser_value isres (SVBool b)) with (bool_text b) by (destruct isres; reflexivity).
    apply lexes_ident; [apply bool_ident | apply vstop_idc; exact Hs | exact H0].
  - cbn [ser_value tk_value app]. apply lexes_ident; [exact W | apply vstop_idc; exact Hs | exact H0].
  - replace (ser_value isres (SVOther t)) with t by (destruct isres; reflexivity).
    apply lexes_ident; [exact W | apply vstop_idc; exact Hs | exact H0].
  - cbn [ser_value tk_value]. cbn [app]. apply lexes_punct; [punct|]. rewrite <- !app_assoc. cbn [app].
    apply items_lexes; [exact IH | exact W |]. apply lexes_punct; [punct | exact H0].
Qed.

Lemma lexes_nl2 s l : head_fails is_nl s -> lexes s l -> lexes (10 :: 10 :: s) l.
Proof. intros Hs H. eapply (lexes_skip _ [] [10; 10] s); [|exact H]. unfold lex1. cbn [span is_ign N.eqb Pos.eqb orb].
  unfold scan_id, scan_float, scan_int, scan_string, opt_sign, digits1, starts_dot. cbn [is_alpha_ is_sign is_digit span N.eqb N.leb Pos.eqb Pos.compare Pos.compare_cont N.compare andb orb].
  change (is_nl 10) with true. cbv iota. destruct s as [|c s]; [reflexivity|]. cbn in Hs. cbn [span]. rewrite Hs. reflexivity. Qed.
Lemma spaces_ign n : forallb is_ign (spaces n) = true.
Proof. induction n; [reflexivity | cbn; exact IHn]. Qed.
Lemma spaces_head n r : head_fails is_nl (spaces (S n) ++ r). Proof. reflexivity. Qed.

(* metadata dictionaries *)
Definition pair_text (p : text * text) : text := spaces 8 ++ quote (fst p) ++ [58; 32] ++ quote (snd p).
Lemma pair_lexes p rest l : lexes rest l -> lexes (pair_text p ++ rest) (tk_pair p ++ l).
Proof. intros H. unfold pair_text, tk_pair. rewrite <- !app_assoc. cbn [app].
  apply lexes_ign; [apply spaces_ign|]. apply lexes_string. apply lexes_punct; [punct|]. apply (lexes_ign [32]); [reflexivity|]. apply lexes_string. exact H. Qed.
Lemma pair_head p r : head_fails is_nl (pair_text p ++ r). Proof. reflexivity. Qed.
Lemma pairs_lexes : forall kv, kv <> [] -> forall rest l0, lexes rest l0 -> head_fails is_nl rest ->
  lexes (join [44; 10] (map pair_text kv) ++ 10 :: rest) (tk_join (map tk_pair kv) ++ l0).
Proof. induction kv as [|p kv IH]; [congruence|]. intros _ rest l0 H0 Hh. destruct kv as [|p2 kv'].
  - cbn [map join tk_join]. apply pair_lexes. apply lexes_nl; assumption.
  - cbn [map]. rewrite join_cons2, tk_join_cons2. rewrite <- !app_assoc. cbn [app].
    apply pair_lexes. apply lexes_punct; [punct|]. apply lexes_nl.
    + cbn [map]. destruct kv'; cbn [map]; [apply pair_head | rewrite join_cons2, <- app_assoc; apply pair_head].
    + apply (IH ltac:(discriminate) rest l0 H0 Hh).
Qed.

(* arguments *)
Definition wfa (x : text * sarg) : bool :=
  is_ident (fst x) && match snd x with SAVal isres v => wfv isres v | SADict _ => true end.
Definition arg_text (x : text * sarg) : text := fst x ++ [32; 61; 32] ++ ser_arg (snd x).
Lemma ser_arg_dict kv : ser_arg (SADict kv) = [91; 10] ++ join [44; 10] (map pair_text kv) ++ [10] ++ spaces 4 ++ [93].
Proof. reflexivity. Qed.
Lemma arg_lexes x rest l : wfa x = true -> vstop rest -> lexes rest l -> lexes (arg_text x ++ rest) (tk_arg x ++ l).
Proof. unfold wfa. intros W Hs H. apply andb_true_iff in W as [W1 W2]. unfold arg_text, tk_arg. rewrite <- !app_assoc. cbn [app].
  apply lexes_ident; [exact W1 | reflexivity|]. apply (lexes_ign [32]); [reflexivity|]. apply lexes_punct; [punct|]. apply (lexes_ign [32]); [reflexivity|].
  destruct (snd x) as [isres v|kv].
  - cbn [ser_arg]. apply value_lexes_all; assumption.
  - rewrite ser_arg_dict. rewrite <- !app_assoc. cbn [app]. apply lexes_punct; [punct|]. destruct kv as [|p kv'].
    + cbn [map join tk_join app]. apply lexes_nl2; [reflexivity|]. apply lexes_ign; [apply spaces_ign|]. apply lexes_punct; [punct | exact H].
    + apply lexes_nl; [cbn [map]; destruct kv'; cbn [map]; [apply pair_head | rewrite join_cons2, <- app_assoc; apply pair_head]|].
      rewrite <- !app_assoc. cbn [app]. apply pairs_lexes; [discriminate | | reflexivity].
      apply lexes_ign; [apply spaces_ign|]. apply lexes_punct; [punct | exact H].
Qed.
Lemma arg_head x r : is_ident (fst x) = true -> head_fails is_nl (arg_text x ++ r).
Proof. unfold arg_text. destruct (fst x) as [|c cs]; [discriminate|]. cbn [is_ident app head_fails]. intros H. apply andb_true_iff in H as [H _].
  unfold is_alpha_, is_nl in *. repeat match goal with |- context [?a =? ?b] => destruct (N.eqb_spec a b); [subst; cbn in H; try discriminate|] end; reflexivity. Qed.
Definition asep : text := [44; 10] ++ spaces 4.
Lemma args_lexes : forall l, l <> [] -> forallb wfa l = true -> forall rest l0, lexes (10 :: rest) l0 ->
  lexes (join asep (map arg_text l) ++ 10 :: rest) (tk_join (map tk_arg l) ++ l0).
Proof. induction l as [|x l IH]; [congruence|]. intros _ W rest l0 H0. cbn [forallb] in W. apply andb_true_iff in W as [W1 W2]. destruct l as [|x2 l'].
  - cbn [map join tk_join]. apply arg_lexes; [exact W1 | cbn; auto | exact H0].
  - cbn [map]. rewrite join_cons2, tk_join_cons2. rewrite <- !app_assoc. unfold asep at 1. cbn [app].
    apply arg_lexes; [exact W1 | cbn; auto |]. apply lexes_punct; [punct|]. apply lexes_nl; [reflexivity|]. apply lexes_ign; [apply spaces_ign|].
    apply (IH ltac:(discriminate) W2 rest l0 H0).
Qed.

(* commands and programs *)
Definition wfc (c : scmd) : bool := is_ident (sc_result c) && is_ident (sc_name c) && forallb wfa (sc_args c).
Lemma ser_cmd_eq c : ser_cmd c = sc_result c ++ [32; 61; 32] ++ sc_name c ++ [40] ++ ([10] ++ spaces 4 ++ join asep (map arg_text (sc_args c)) ++ [10]) ++ [41].
Proof. reflexivity. Qed.
Lemma cmd_lexes c rest l : wfc c = true -> lexes rest l -> lexes (ser_cmd c ++ rest) (tk_cmd c ++ l).
Proof. unfold wfc. intros W H. apply andb_true_iff in W as [W W3]. apply andb_true_iff in W as [W1 W2].
  rewrite ser_cmd_eq. unfold tk_cmd. rewrite <- !app_assoc. cbn [app].
  apply lexes_ident; [exact W1 | reflexivity|]. apply (lexes_ign [32]); [reflexivity|]. apply lexes_punct; [punct|]. apply (lexes_ign [32]); [reflexivity|].
  apply lexes_ident; [exact W2 | reflexivity|]. apply lexes_punct; [punct|]. apply lexes_nl; [reflexivity|]. apply lexes_ign; [apply spaces_ign|].
  destruct (sc_args c) as [|x l'] eqn:EA.
  - cbn [map join tk_join app]. apply lexes_nl; [reflexivity|]. apply lexes_punct; [punct | exact H].
  - rewrite <- !app_assoc. cbn [app]. apply args_lexes; [discriminate | exact W3 |]. apply lexes_nl; [reflexivity|]. apply lexes_punct; [punct | exact H].
Qed.
Lemma cmd_head c r : is_ident (sc_result c) = true -> head_fails is_nl (ser_cmd c ++ r).
Proof. rewrite ser_cmd_eq. destruct (sc_result c) as [|ch cs]; [discriminate|]. cbn [is_ident app head_fails]. intros H. apply andb_true_iff in H as [H _].
  unfold is_alpha_, is_nl in *. repeat match goal with |- context [?a =? ?b] => destruct (N.eqb_spec a b); [subst; cbn in H; try discriminate|] end; reflexivity. Qed.
Lemma prog_lexes : forall p, forallb wfc p = true -> lexes (ser_program p) (tk_program p).
Proof. unfold ser_program. induction p as [|c p IH]; intros W.
  - eapply lexes_end. reflexivity.
  - cbn [forallb] in W. apply andb_true_iff in W as [W1 W2]. destruct p as [|c2 p'].
    + cbn [map join tk_program flat_map]. rewrite <- (app_nil_r (ser_cmd c)). apply cmd_lexes; [exact W1|]. eapply lexes_end. reflexivity.
    + cbn [map]. rewrite join_cons2. change (tk_program (c :: c2 :: p')) with (tk_cmd c ++ tk_program (c2 :: p')). cbn [app].
      apply cmd_lexes; [exact W1|]. apply lexes_nl; [|apply IH; exact W2].
      cbn [forallb] in W2. apply andb_true_iff in W2 as [W2 _]. unfold wfc in W2. apply andb_true_iff in W2 as [W2 _]. apply andb_true_iff in W2 as [W2 _].
      cbn [map]. destruct p'; cbn [map join]; [rewrite <- (app_nil_r (ser_cmd c2)) | idtac]; apply cmd_head; exact W2.
Qed.

(* ---- the whole round trip: serialiser, lexer, LR driver over the regenerated tables, semantic actions ---- *)
Theorem serialise_parse fs p : p <> [] -> forallb wfc p = true ->
  exists pp, parse fs (ser_program p) = POk pp /\ pp_version pp = 3 /\ Forall2 cmd_matches p (pp_cmds pp).
Proof. intros Hp W. pose proof (prog_lexes p W) as Hl.
  destruct (lexes_lex _ _ Hl (S (length (ser_program p))) 1 0%nat (Nat.lt_succ_diag_r _)) as (toks & E & M).
  set (d := {| t_kind := KID; t_lexeme := []; t_line := 0; t_pos := 0%nat |}).
  pose proof (deco_self d toks 0%nat) as D. rewrite M in D.
  destruct (lr_complete (fun j => t_line (nth (j - 0) toks d)) (fun j => t_pos (nth (j - 0) toks d)) fs p Hp) as (T & pp & A & B & C & F).
  rewrite D in A. exists pp. split; [|split; assumption]. unfold parse, lex_all. rewrite E, A, B. reflexivity.
Qed.
