(* The LR driver over the regenerated tables and the semantic actions on SURFACE programs: every way of writing a program
   with quoted strings (either quote character, any escapes), integers and decimals in any spelling the token rules
   accept, unquoted identifiers, lists with or without a trailing comma at any nesting, dictionaries, argument lists
   with or without a trailing comma.  (C10: what is delivered does not depend on these choices.) *)
From Coq Require Import NArith ZArith List Bool Lia.
From MP Require Import Model.Lexer Gen.GenGrammar Model.Parser Model.Serial Proofs.SerialProofs.
From MP Require Import Proofs.LrComplete.
Import ListNotations.
Close Scope N_scope.

Inductive xleaf := XS (lx : text) | XI (lx : text) | XF (lx : text) | XW (lx : text).     (* STRING, INT, FLOAT, ID lexemes *)
Definition lk (a : xleaf) : kl := match a with XS l => (KSTRING, l) | XI l => (KINT, l) | XF l => (KFLOAT, l) | XW l => (KID, l) end.
(* a word of unquoted text: an INT / FLOAT / ID / PLAIN_STRING lexeme; a FLOAT word carries the text str(float(lexeme)) it is re-printed as *)
Inductive xword := WI (lx : text) | WF (lx printed : text) | WW (lx : text) | WP (lx : text).
Definition wk (w : xword) : kl := match w with WI l => (KINT, l) | WF l _ => (KFLOAT, l) | WW l => (KID, l) | WP l => (KPLAIN, l) end.
Inductive xkey := KQ (lx : text) | KW (ws : list xword).          (* a quoted key (STRING lexeme) / an unquoted key *)
(* the value of a pair: one token, unquoted text, or unquoted text with colons (k: C:\data\in.csv) *)
Inductive xpv := PVLeaf (a : xleaf) | PVWords (ws : list xword) | PVColon (first : list xword) (more : list (list xword)).
Definition xpair := (xkey * xpv)%type.
(* XWords: unquoted text of several tokens; XDict: a dictionary [k: v, ...] (as an argument's value or as an element of a list, at any depth) *)
Inductive xval := XLeaf (a : xleaf) | XList (l : list xval) (trail : bool) | XWords (ws : list xword)
                | XDict (first : xpair) (more : list xpair) (trail : bool).
Inductive xarg := XAVal (v : xval) | XADict (first : xpair) (more : list xpair) (trail : bool)
                 | XAColon (first : list xword) (more : list (list xword)).      (* unquoted text with colons: C:\data\in.csv, 12:30 *)
Record xcmd := { xc_result : option text; xc_name : text; xc_args : list (text * xarg); xc_trail : bool }.   (* no result name: the EEMS 2.0 form *)

(* tokens *)
Definition tkj (trail : bool) (ls : list (list kl)) : list kl :=
  tk_join ls ++ (match ls with [] => [] | _ => if trail then [comma] else [] end).
Definition tk_key (k : xkey) : list kl := match k with KQ lx => [(KSTRING, lx)] | KW ws => map wk ws end.
Definition tk_colon (p : list xword) (ps : list (list xword)) : list kl := map wk p ++ flat_map (fun q => colon :: map wk q) ps.
Definition tk_pv (v : xpv) : list kl := match v with PVLeaf a => [lk a] | PVWords ws => map wk ws | PVColon p ps => tk_colon p ps end.
Definition tkx_pair (p : xpair) : list kl := tk_key (fst p) ++ colon :: tk_pv (snd p).
Fixpoint tkx_value (v : xval) : list kl :=
  match v with
  | XLeaf a => [lk a]
  | XList l tr => lbt :: tkj tr (map tkx_value l) ++ [rbt]
  | XWords ws => map wk ws
  | XDict p ps tr => lbt :: tkj tr (map tkx_pair (p :: ps)) ++ [rbt]
  end.
Definition tkx_arg (a : text * xarg) : list kl :=
  (KID, fst a) :: eqt ::
  match snd a with
  | XAVal v => tkx_value v
  | XADict p ps tr => lbt :: tkj tr (map tkx_pair (p :: ps)) ++ [rbt]
  | XAColon p ps => tk_colon p ps
  end.
Definition lpt : kl := (KLPAREN, [40%N]).
Definition rpt : kl := (KRPAREN, [41%N]).
Definition tkx_head (c : xcmd) : list kl :=
  match xc_result c with Some r => [(KID, r); eqt; (KID, xc_name c); lpt] | None => [(KID, xc_name c); lpt] end.
Definition tkx_cmd (c : xcmd) : list kl := tkx_head c ++ tkj (xc_trail c) (map tkx_arg (xc_args c)) ++ [rpt].
Definition is2 (c : xcmd) : bool := match xc_result c with None => true | Some _ => false end.
Definition xversion (p : list xcmd) : N := if existsb is2 p then 2%N else 3%N.
Definition tkx_program (p : list xcmd) : list kl := flat_map tkx_cmd p.

(* what is denoted (lines erased): a quoted string denotes its decoded content *)
Definition sden (lx : text) : option text := match string_value lx with DOk s => Some s | _ => None end.
Definition lden (a : xleaf) : pval :=
  match a with
  | XS lx => PStr (match sden lx with Some s => s | None => [] end)
  | XI lx => PInt (int_of_lexeme lx) | XF lx => PFloat lx | XW lx => PStr lx
  end.
(* unquoted text denotes the concatenation of its words, numerals re-printed (the blanks between the words are lost) *)
Definition wpiece (w : xword) : text := match w with WI lx => str_of_Z (int_of_lexeme lx) | WF _ pr => pr | WW lx => lx | WP lx => lx end.
Fixpoint wtext (ws : list xword) : text := match ws with [] => [] | w :: t => wpiece w ++ wtext t end.
Definition kden (k : xkey) : text := match k with KQ lx => match sden lx with Some t => t | None => [] end | KW ws => wtext ws end.
Definition ctext_of (p : list xword) (ps : list (list xword)) : text := wtext p ++ flat_map (fun q => 58%N :: wtext q) ps.
Definition pvden (v : xpv) : pval := match v with PVLeaf a => lden a | PVWords ws => PStr (wtext ws) | PVColon p ps => PStr (ctext_of p ps) end.
Definition pden (p : xpair) : text * pexpr := (kden (fst p), PE (pvden (snd p)) 0%N).
Fixpoint xdexp (kv : list xpair) : list (text * pexpr) :=
  match kv with
  | [] => []
  | p :: t => match t with [] => [pden p] | _ => dict_set (xdexp t) (fst (pden p)) (snd (pden p)) end
  end.
Fixpoint xden (v : xval) : pval :=
  match v with XLeaf a => lden a | XList l _ => PList (map (fun x => PE (xden x) 0%N) l) | XWords ws => PStr (wtext ws)
             | XDict p ps _ => PDict (xdexp (p :: ps)) end.
Definition leaf_ok (a : xleaf) : bool := match a with XS lx => match sden lx with Some _ => true | None => false end | _ => true end.
(* well-formed unquoted text: at least one word, the last one an identifier or a PLAIN_STRING (what the plain_string
   productions require); float words carry what the oracle prints for them *)
Definition last_word_ok (ws : list xword) : bool := match last ws (WI []) with WW _ | WP _ => true | _ => false end.
Definition word_fs_ok (fs : text -> option text) (w : xword) : bool :=
  match w with WF lx pr => match fs lx with Some x => if list_eq_dec N.eq_dec x pr then true else false | None => false end | _ => true end.
Definition words_valid (fs : text -> option text) (ws : list xword) : bool := last_word_ok ws && forallb (word_fs_ok fs) ws.
Definition key_ok (fs : text -> option text) (k : xkey) : bool :=
  match k with KQ lx => match sden lx with Some _ => true | None => false end | KW ws => words_valid fs ws end.
Definition colon_ok (fs : text -> option text) (p : list xword) (ps : list (list xword)) : bool :=
  words_valid fs p && forallb (words_valid fs) ps && match ps with [] => false | _ => true end.
Definition pv_ok (fs : text -> option text) (v : xpv) : bool :=
  match v with PVLeaf a => leaf_ok a | PVWords ws => words_valid fs ws | PVColon p ps => colon_ok fs p ps end.
Definition pair_ok (fs : text -> option text) (p : xpair) : bool := key_ok fs (fst p) && pv_ok fs (snd p).
Fixpoint xval_ok (fs : text -> option text) (v : xval) : bool :=
  match v with XLeaf a => leaf_ok a | XList l _ => forallb (xval_ok fs) l | XWords ws => last_word_ok ws && forallb (word_fs_ok fs) ws
             | XDict p ps _ => forallb (pair_ok fs) (p :: ps) end.

Lemma xval_ind' (Pr : xval -> Prop) : (forall a, Pr (XLeaf a)) -> (forall l tr, Forall Pr l -> Pr (XList l tr)) -> (forall ws, Pr (XWords ws)) ->
  (forall p ps tr, Pr (XDict p ps tr)) -> forall v, Pr v.
Proof. intros H1 H2 H3 H4. fix F 1. intros [a|l tr|ws|p ps tr]; [apply H1| |apply H3|apply H4]. apply H2. induction l as [|x l IH]; [constructor | constructor; [apply F | exact IH]]. Qed.

Section LR.
Variable L : nat -> N.
Variable P : nat -> nat.
Variable fs : text -> option text.
Notation deco := (deco L P).
Notation mk := (mk L P).
Notation xval_ok := (xval_ok fs).
Notation words_valid := (words_valid fs).
Notation key_ok := (key_ok fs).
Notation pv_ok := (pv_ok fs).
Notation colon_ok := (colon_ok fs).
Notation pair_ok := (pair_ok fs).
Ltac lr := cbn [run step defaulted hd_error tl LrComplete.mk fst snd t_kind term_of action reduce production firstn skipn length map rev app
                Nat.ltb Nat.leb goto Nat.add LrComplete.deco tkx_value tk_join tkj ge gl gp ga gc sh gt S_res S_eq S_name S_lp S_an S_val S_lb S_el S_ec S_arg S_ac S_cmd S_tp S_pc Nat.eqb lk].
Ltac ev := cbn [eval bind first_line leaf_text LrComplete.mk t_kind t_lexeme t_line fst snd lk].
Ltac ctx_cases H := destruct H as [[-> [H|H]]|[[->| ->] [H|H]]].

Definition xvalue_spec (v : xval) : Prop := xval_ok v = true -> forall s i T0 st la rest, vctx s la ->
  exists n T e, (n + 4 <= 10 * length (tkx_value v))%nat /\
    reaches ((s, T0) :: st) (deco i (tkx_value v) ++ la :: rest) ((ge s, T) :: (s, T0) :: st) (la :: rest) n /\
    eval fs T = SOk (SExpr e) /\ erase_e e = PE (xden v) 0%N.

Lemma xleaf_ok a : xvalue_spec (XLeaf a).
Proof. intros W s0 i T0 st la rest H. destruct a as [lx|lx|lx|lx]; cbn [xval_ok leaf_ok] in W.
  - unfold sden in W. destruct (string_value lx) as [s| |] eqn:E; try discriminate. exists 2%nat. ctx_cases H;
    (eexists; eexists; split; [cbn; lia | split; [intros f; repeat (progress (lr; rewrite ?H)); reflexivity | split; [ev; rewrite E; reflexivity | cbn [erase_e erase_v xden lden]; unfold sden; rewrite E; reflexivity]]]).
  - exists 3%nat. ctx_cases H;
    (eexists; eexists; split; [cbn; lia | split; [intros f; repeat (progress (lr; rewrite ?H)); reflexivity | split; [ev; reflexivity | reflexivity]]]).
  - exists 3%nat. ctx_cases H;
    (eexists; eexists; split; [cbn; lia | split; [intros f; repeat (progress (lr; rewrite ?H)); reflexivity | split; [ev; reflexivity | reflexivity]]]).
  - exists 4%nat. ctx_cases H;
    (eexists; eexists; split; [cbn; lia | split; [intros f; repeat (progress (lr; rewrite ?H)); reflexivity | split; [ev; reflexivity | reflexivity]]]).
Qed.

(* the elements of a non-empty list, with or without a trailing comma, followed by `]` *)
Lemma xelems_ok : forall l tr, l <> [] -> Forall xvalue_spec l -> forallb xval_ok l = true ->
  forall s i T0 st rb rest, s = S_lb \/ s = S_ec -> t_kind rb = KRBRACK ->
  exists n T es, (n <= 10 * length (tkj tr (map tkx_value l)))%nat /\
    reaches ((s, T0) :: st) (deco i (tkj tr (map tkx_value l)) ++ rb :: rest) ((gl s, T) :: (s, T0) :: st) (rb :: rest) n /\
    eval fs T = SOk (SElems es) /\ map erase_e es = map (fun x => PE (xden x) 0%N) l.
Proof. induction l as [|v l IH]; [congruence|]. intros tr _ HF W s i T0 st rb rest Hs Hrb. inversion HF as [|? ? Hv HF']; subst.
  cbn [forallb] in W. apply andb_true_iff in W as [W1 W2]. destruct l as [|v2 l'].
  - unfold tkj. cbn [map tk_join]. destruct tr.
    + (* trailing comma *)
      rewrite deco_app. cbn [LrComplete.deco]. rewrite <- app_assoc. cbn [app]. set (c := mk (length (tkx_value v) + i) comma).
      destruct (Hv W1 s i T0 st c (rb :: rest)) as (n & T & e & Hn & Hr & He & Hp); [right; split; [exact Hs | left; reflexivity]|].
      exists (n + 3)%nat, (Br F_p_elements_element [Br F_p_element_expression [T]; Leaf c]), [e]. split; [rewrite app_length; cbn [length]; lia|]. split; [|split].
      * eapply reaches_trans; [exact Hr|]. intros f. unfold c, comma. destruct Hs as [-> | ->]; cbn [ge Nat.eqb]; repeat (progress (lr; rewrite ?Hrb)); reflexivity.
      * ev. rewrite He. reflexivity.
      * cbn [map]. rewrite Hp. reflexivity.
    + rewrite app_nil_r.
      destruct (Hv W1 s i T0 st rb rest) as (n & T & e & Hn & Hr & He & Hp); [right; split; [exact Hs | right; exact Hrb]|].
      exists (n + 2)%nat, (Br F_p_elements_element [Br F_p_element_expression [T]]), [e]. split; [lia|]. split; [|split].
      * eapply reaches_trans; [exact Hr|]. intros f. destruct Hs as [-> | ->]; cbn [ge Nat.eqb]; repeat (progress (lr; rewrite ?Hrb)); reflexivity.
      * ev. rewrite He. reflexivity.
      * cbn [map]. rewrite Hp. reflexivity.
  - assert (E : tkj tr (map tkx_value (v :: v2 :: l')) = tkx_value v ++ comma :: tkj tr (map tkx_value (v2 :: l'))).
    { unfold tkj. cbn [map tk_join]. rewrite <- app_assoc. reflexivity. }
    rewrite E. set (tj := tkj tr (map tkx_value (v2 :: l'))) in *.
    rewrite deco_app. cbn [LrComplete.deco]. rewrite <- app_assoc. cbn [app].
    set (c := mk (length (tkx_value v) + i) comma).
    destruct (Hv W1 s i T0 st c (deco (S (length (tkx_value v) + i)) tj ++ rb :: rest)) as (n & T & e & Hn & Hr & He & Hp); [right; split; [exact Hs | left; reflexivity]|].
    destruct (IH tr ltac:(discriminate) HF' W2 S_ec (S (length (tkx_value v) + i)) (Leaf c)
                 ((S_el, Br F_p_element_expression [T]) :: (s, T0) :: st) rb rest (or_intror eq_refl) Hrb)
      as (n2 & T2 & es & Hn2 & Hr2 & He2 & Hp2).
    exists (n + 2 + n2 + 1)%nat, (Br F_p_elements [Br F_p_element_expression [T]; Leaf c; T2]), (e :: es). split; [|split; [|split]].
    + rewrite app_length. cbn [length]. fold tj in Hn2. lia.
    + eapply reaches_trans; [eapply reaches_trans; [eapply reaches_trans; [exact Hr|] | exact Hr2]|].
      * intros f. destruct Hs as [-> | ->]; cbn [ge Nat.eqb]; unfold c, comma; repeat (progress lr); reflexivity.
      * intros f. destruct Hs as [-> | ->]; cbn [gl Nat.eqb]; repeat (progress lr); reflexivity.
    + ev. rewrite He, He2. reflexivity.
    + cbn [map]. rewrite Hp, Hp2. reflexivity.
Qed.

Lemma xlist_ok l tr : Forall xvalue_spec l -> xvalue_spec (XList l tr).
Proof. intros HF W s i T0 st la rest H. cbn [xval_ok] in W. destruct l as [|v l'].
  - exists 4%nat. unfold tkx_value, tkj, lbt, rbt. cbn [map tk_join app]. ctx_cases H;
    (eexists; eexists; split; [cbn; lia | split; [intros f; repeat (progress (lr; rewrite ?H)); reflexivity | split; [ev; reflexivity | reflexivity]]]).
  - set (l := v :: l') in *. set (tj := tkj tr (map tkx_value l)).
    change (tkx_value (XList l tr)) with (lbt :: tj ++ [rbt]).
    cbn [LrComplete.deco]. rewrite deco_app. cbn [LrComplete.deco app]. rewrite <- app_assoc. cbn [app].
    set (rb := mk (length tj + S i) rbt). set (lb := mk i lbt).
    destruct (xelems_ok l tr ltac:(discriminate) HF W S_lb (S i) (Leaf lb) ((s, T0) :: st) rb (la :: rest) (or_introl eq_refl) eq_refl)
      as (n & T & es & Hn & Hr & He & Hp).
    exists (1 + n + 3)%nat, (Br F_p_expression [Br F_p_list [Leaf lb; T; Leaf rb]]), (PE (PList es) (L i)). split; [|split; [|split]].
    + cbn [length]. rewrite app_length. cbn [length]. fold tj in Hn. lia.
    + eapply reaches_trans; [eapply reaches_trans; [|exact Hr]|].
      * intros f. unfold lb, lbt. ctx_cases H; repeat (progress lr); reflexivity.
      * intros f. unfold rb, rbt. ctx_cases H; cbn [gl Nat.eqb]; repeat (progress (lr; rewrite ?H)); reflexivity.
    + ev. rewrite He. reflexivity.
    + cbn [erase_e erase_v xden]. rewrite Hp. reflexivity.
Qed.

(* ---- unquoted text of several tokens: word word ... word, the last one an identifier or a PLAIN_STRING ---- *)
Definition W_id : nat := sh S_val T_ID.              (* after an identifier word *)
Definition W_pl : nat := sh S_val T_PLAIN_STRING.    (* after a PLAIN_STRING word *)
Definition W_int0 : nat := sh S_val T_INT.           (* after a leading integer *)
Definition W_fl0 : nat := sh S_val T_FLOAT.          (* after a leading decimal *)
Definition W_int : nat := sh W_id T_INT.             (* after an integer inside the text *)
Definition W_fl : nat := sh W_id T_FLOAT.            (* after a decimal inside the text *)
Definition S_kq : nat := sh S_lb T_STRING.           (* after a quoted key *)
Definition S_tv : nat := sh S_kq T_COLON.            (* where the value of a pair with a quoted key starts *)
Definition S_kw : nat := gt S_lb N_plain_string.     (* after an unquoted key *)
Definition S_tv2 : nat := sh S_kw T_COLON.           (* where the value of a pair with an unquoted key starts *)
Definition S_pp : nat := gt S_val N_permissive_plain_string.   (* after unquoted text that is an argument's value *)
Definition S_co : nat := sh S_pp T_COLON.            (* after `text :` *)
Definition inner (s : nat) : Prop := s = W_id \/ s = W_pl \/ s = W_int0 \/ s = W_fl0 \/ s = W_int \/ s = W_fl.
Definition la4 (la : token) : Prop := t_kind la = KCOMMA \/ t_kind la = KRPAREN \/ t_kind la = KRBRACK \/ t_kind la = KCOLON.
(* where unquoted text may start, and what may follow it there *)
Definition wfollow (s : nat) (la : token) : Prop :=
  (s = S_val /\ (t_kind la = KCOMMA \/ t_kind la = KRPAREN)) \/
  ((s = S_lb \/ s = S_ec) /\ (t_kind la = KCOMMA \/ t_kind la = KRBRACK)) \/
  ((s = S_lb \/ s = S_pc) /\ t_kind la = KCOLON) \/
  ((s = S_tv \/ s = S_tv2) /\ (t_kind la = KCOMMA \/ t_kind la = KRBRACK)) \/
  ((s = S_val \/ s = S_co \/ s = S_tv \/ s = S_tv2) /\ t_kind la = KCOLON) \/
  (s = S_co /\ (t_kind la = KCOMMA \/ t_kind la = KRPAREN \/ t_kind la = KRBRACK)) \/
  (inner s /\ la4 la).
Definition wterm (w : xword) : term := match w with WI _ => T_INT | WF _ _ => T_FLOAT | WW _ => T_ID | WP _ => T_PLAIN_STRING end.
Ltac lrw := cbn [run step defaulted hd_error tl LrComplete.mk fst snd t_kind term_of action reduce production firstn skipn length map rev app
                 Nat.ltb Nat.leb goto Nat.add LrComplete.deco tkx_value tk_join tkj ge gl gp ga gc sh gt S_res S_eq S_name S_lp S_an S_val S_lb S_el S_ec S_arg S_ac S_cmd S_tp S_pc
                 W_id W_pl W_int0 W_fl0 W_int W_fl S_kq S_tv S_kw S_tv2 S_pp S_co wk wterm Nat.eqb lk].
Ltac evw := cbn [eval bind first_line leaf_text LrComplete.mk t_kind t_lexeme t_line fst snd lk wk].
Ltac in_cases Hi := destruct Hi as [->|[->|[->|[->|[->| ->]]]]].
Ltac wf_cases H := destruct H as [[-> [H|H]]|[[[->| ->] [H|H]]|[[[->| ->] H]|[[[->| ->] [H|H]]|[[[->|[->|[->| ->]]] H]|[[-> [H|[H|H]]]|[Hi [H|[H|[H|H]]]]]]]]]]; [| | | | | | | | | | | | | | | | | | | in_cases Hi | in_cases Hi | in_cases Hi | in_cases Hi].
Lemma wfollow_la s la : wfollow s la -> la4 la.
Proof. unfold wfollow, la4. tauto. Qed.
Lemma wfollow_inner s w la : wfollow s la -> inner (sh s (wterm w)).
Proof. intros H. unfold inner. wf_cases H; destruct w; cbn; tauto. Qed.
Lemma words_ok : forall ws, last_word_ok ws = true -> forallb (word_fs_ok fs) ws = true ->
  forall s i T0 st la rest, wfollow s la ->
  exists n T, (n <= 3 * length ws)%nat /\
    reaches ((s, T0) :: st) (deco i (map wk ws) ++ la :: rest) ((gt s N_plain_string, T) :: (s, T0) :: st) (la :: rest) n /\
    eval fs T = SOk (SText (wtext ws)).
Proof. induction ws as [|w ws IH]; [discriminate|]. intros Hl Hf s i T0 st la rest Hw. cbn [forallb] in Hf. apply andb_true_iff in Hf as [F1 F2].
  destruct ws as [|w2 ws'].
  - (* the last word *)
    unfold last_word_ok in Hl. cbn [last] in Hl. destruct w as [lx|lx pr|lx|lx]; try discriminate; cbn [map LrComplete.deco app wtext wpiece]; rewrite app_nil_r.
    + exists 2%nat. eexists. split; [cbn; lia|]. split.
      { intros f. wf_cases Hw; repeat (progress (lrw; rewrite ?Hw)); reflexivity. }
      evw. reflexivity.
    + exists 2%nat. eexists. split; [cbn; lia|]. split.
      { intros f. wf_cases Hw; repeat (progress (lrw; rewrite ?Hw)); reflexivity. }
      evw. reflexivity.
  - (* a word followed by more words *)
    assert (Hl' : last_word_ok (w2 :: ws') = true) by (unfold last_word_ok in *; cbn [last] in *; exact Hl).
    cbn [map LrComplete.deco app]. set (tw := mk i (wk w)).
    assert (WS : wfollow (sh s (wterm w)) la) by (do 6 right; split; [eapply wfollow_inner; exact Hw | eapply wfollow_la; exact Hw]).
    destruct (IH Hl' F2 (sh s (wterm w)) (S i) (Leaf tw) ((s, T0) :: st) la rest WS) as (n & T & Hn & Hr & He).
    exists (1 + n + 1)%nat, (Br F_p_plain_string_with_number [Leaf tw; T]). split; [cbn [length] in *; lia|]. split.
    + eapply reaches_trans; [eapply reaches_trans; [|exact Hr]|].
      * intros f. unfold tw. wf_cases Hw; destruct w; repeat (progress lrw); reflexivity.
      * intros f. unfold tw. wf_cases Hw; destruct w; repeat (progress (lrw; rewrite ?Hw)); reflexivity.
    + unfold tw. destruct w as [lx|lx pr|lx|lx]; evw; rewrite He; cbn [wk fst snd t_kind LrComplete.mk wtext wpiece]; try reflexivity.
      cbn [word_fs_ok] in F1. destruct (fs lx) as [x|]; [|discriminate]. destruct (list_eq_dec N.eq_dec x pr) as [->|]; [reflexivity | discriminate].
Qed.
Lemma xwords_ok ws : xvalue_spec (XWords ws).
Proof. intros W s i T0 st la rest H. cbn [Surface.xval_ok] in W. apply andb_true_iff in W as [W1 W2].
  assert (Hw : wfollow s la) by (unfold wfollow; destruct H as [[-> A]|[B A]]; tauto).
  destruct (words_ok ws W1 W2 s i T0 st la rest Hw) as (n & T & Hn & Hr & He).
  exists (n + 2)%nat, (Br F_p_expression [Br F_p_permissive_plain_string [T]]), (PE (PStr (wtext ws)) (first_line T)). split; [|split; [|split]].
  - cbn [tkx_value]. rewrite map_length. destruct ws; [discriminate|]. cbn [length] in *. lia.
  - cbn [tkx_value]. eapply reaches_trans; [exact Hr|]. intros f.
    destruct H as [[-> [A|A]]|[[->| ->] [A|A]]]; repeat (progress (lrw; rewrite ?A)); reflexivity.
  - evw. rewrite He. reflexivity.
  - reflexivity.
Qed.
(* text : text : ... -- the colons are kept; left to right, the accumulated text sits in goto(b, permissive_plain_string), where b
   is the state in which the value started: an argument's value (S_val) or the value of a pair (S_tv / S_tv2) *)
Definition isbr (t : tree) : Prop := match t with Br _ _ => True | Leaf _ => False end.
Definition cstart (b : nat) : Prop := b = S_val \/ b = S_tv \/ b = S_tv2.
Definition ctfollow (b : nat) (la : token) : Prop :=
  (b = S_val /\ actx la) \/ ((b = S_tv \/ b = S_tv2) /\ (t_kind la = KCOMMA \/ t_kind la = KRBRACK)).
Ltac cf_cases H := destruct H as [[-> [H|H]]|[[->| ->] [H|H]]].
Lemma colon_tail : forall ps, forallb words_valid ps = true -> forall b acc Tacc i T0 st la rest, ctfollow b la ->
  eval fs Tacc = SOk (SText acc) -> isbr Tacc ->
  exists n T, (n <= 6 * length (flat_map (fun q => colon :: map wk q) ps))%nat /\
    reaches ((gt b N_permissive_plain_string, Tacc) :: (b, T0) :: st) (deco i (flat_map (fun q => colon :: map wk q) ps) ++ la :: rest)
            ((gt b N_permissive_plain_string, T) :: (b, T0) :: st) (la :: rest) n /\
    eval fs T = SOk (SText (acc ++ flat_map (fun q => 58%N :: wtext q) ps)) /\ isbr T.
Proof. induction ps as [|q ps IH]; intros W b acc Tacc i T0 st la rest Hla He Hb.
  - exists 0%nat, Tacc. cbn [flat_map length LrComplete.deco app]. rewrite app_nil_r. split; [lia|]. split; [intros f; reflexivity | split; [exact He | exact Hb]].
  - cbn [forallb] in W. apply andb_true_iff in W as [W1 W2]. unfold Surface.words_valid in W1. apply andb_true_iff in W1 as [V1 V2].
    cbn [flat_map]. rewrite deco_app. cbn [LrComplete.deco length]. rewrite <- app_assoc. cbn [app]. rewrite map_length.
    set (c := mk i colon). set (tl_ := flat_map (fun q0 => colon :: map wk q0) ps).
    (* what follows this part: a colon (more parts) or the end of the value *)
    assert (Hnext : exists la' rest', deco (S (length q) + i) tl_ ++ la :: rest = la' :: rest' /\
                      (t_kind la' = KCOLON \/ t_kind la' = KCOMMA \/ t_kind la' = KRPAREN \/ t_kind la' = KRBRACK)).
    { unfold tl_. destruct ps as [|q2 ps']; cbn [flat_map app LrComplete.deco];
      [exists la, rest; split; [reflexivity | unfold ctfollow, actx in Hla; tauto] | eexists; eexists; split; [reflexivity | left; reflexivity]]. }
    destruct Hnext as (la' & rest' & En & Hk). rewrite En.
    assert (Hw : wfollow S_co la') by (unfold wfollow; destruct Hk as [K|[K|[K|K]]]; tauto).
    destruct (words_ok q V1 V2 S_co (S i) (Leaf c) ((gt b N_permissive_plain_string, Tacc) :: (b, T0) :: st) la' rest' Hw) as (n & Tq & Hn & Hr & Heq).
    set (Tn := Br F_p_permissive_plain_stirng_with_colon [Tacc; Leaf c; Br F_p_permissive_plain_string [Tq]]).
    assert (Hen : eval fs Tn = SOk (SText (acc ++ 58%N :: wtext q))) by (unfold Tn; evw; rewrite He, Heq; reflexivity).
    destruct (IH W2 b (acc ++ 58%N :: wtext q) Tn (S (length q) + i)%nat T0 st la rest Hla Hen I) as (n2 & T2 & Hn2 & Hr2 & He2 & Hb2).
    fold tl_ in Hr2. rewrite En in Hr2.
    exists (1 + n + 2 + n2)%nat, T2. split; [|split; [|split]]; [| | |exact Hb2].
    + cbn [length]. rewrite app_length, map_length. fold tl_ in Hn2. destruct q; [discriminate|]. cbn [length] in *. lia.
    + eapply reaches_trans; [eapply reaches_trans; [eapply reaches_trans; [|exact Hr]|] | exact Hr2].
      * intros f. unfold c, colon. cf_cases Hla; repeat (progress lrw); reflexivity.
      * intros f. cf_cases Hla; destruct Hk as [K|[K|[K|K]]]; repeat (progress (lrw; rewrite ?K)); reflexivity.
    + rewrite He2. rewrite <- app_assoc. reflexivity.
Qed.
(* unquoted text with colons started in b: first part, then the tail *)
Lemma colon_text_ok p ps : colon_ok p ps = true -> forall b i T0 st la rest, ctfollow b la ->
  exists n T, (n + 2 <= 6 * length (tk_colon p ps))%nat /\
    reaches ((b, T0) :: st) (deco i (tk_colon p ps) ++ la :: rest) ((gt b N_permissive_plain_string, T) :: (b, T0) :: st) (la :: rest) n /\
    eval fs T = SOk (SText (ctext_of p ps)) /\ isbr T.
Proof. intros W b i T0 st la rest H. unfold Surface.colon_ok in W. apply andb_true_iff in W as [W W3]. apply andb_true_iff in W as [W1 W2].
  unfold Surface.words_valid in W1. apply andb_true_iff in W1 as [V1 V2].
  destruct ps as [|q ps']; [discriminate|]. clear W3. set (ps := q :: ps') in *. unfold tk_colon.
  rewrite deco_app. rewrite <- app_assoc. rewrite map_length.
  set (tl_ := flat_map (fun q0 => colon :: map wk q0) ps).
  assert (En : exists la' rest', deco (length p + i) tl_ ++ la :: rest = la' :: rest' /\ t_kind la' = KCOLON).
  { unfold tl_, ps. cbn [flat_map app LrComplete.deco]. eexists; eexists; split; reflexivity. }
  destruct En as (la' & rest' & En & Hk). rewrite En.
  assert (Hw : wfollow b la') by (unfold wfollow; unfold ctfollow in H; tauto).
  destruct (words_ok p V1 V2 b i T0 st la' rest' Hw) as (n & Tp & Hn & Hr & Hep).
  set (T1 := Br F_p_permissive_plain_string [Tp]).
  assert (He1 : eval fs T1 = SOk (SText (wtext p))) by (unfold T1; evw; rewrite Hep; reflexivity).
  destruct (colon_tail ps W2 b (wtext p) T1 (length p + i)%nat T0 st la rest H He1 I) as (n2 & T2 & Hn2 & Hr2 & He2 & Hb2).
  fold tl_ in Hr2. rewrite En in Hr2.
  exists (n + 1 + n2)%nat, T2. split; [|split; [|split]]; [| |exact He2|exact Hb2].
  - rewrite app_length, map_length. fold tl_ in Hn2. destruct p; [discriminate|]. unfold tl_, ps in *. cbn [length flat_map app] in *. lia.
  - eapply reaches_trans; [eapply reaches_trans; [exact Hr|]| exact Hr2].
    intros f. cf_cases H; repeat (progress (lrw; rewrite ?Hk)); reflexivity.
Qed.
(* ---- dictionaries: key: value pairs; a key is a quoted string or unquoted text, a value one token or unquoted text ---- *)
(* the value of a pair, started in S_tv / S_tv2, followed by `,` or `]` *)
Definition pvsem (v : xpv) : sem :=
  match v with
  | PVLeaf (XS lx) => SText (match sden lx with Some t => t | None => [] end)
  | PVLeaf (XI lx) => SNum (PInt (int_of_lexeme lx)) | PVLeaf (XF lx) => SNum (PFloat lx) | PVLeaf (XW lx) => SText lx
  | PVWords ws => SText (wtext ws)
  | PVColon p ps => SText (ctext_of p ps)
  end.
Lemma xpv_ok v : pv_ok v = true -> forall b i T0 st la rest, b = S_tv \/ b = S_tv2 -> t_kind la = KCOMMA \/ t_kind la = KRBRACK ->
  exists n T, (n <= 6 * length (tk_pv v))%nat /\
    reaches ((b, T0) :: st) (deco i (tk_pv v) ++ la :: rest) ((gt b N_tuple_value, T) :: (b, T0) :: st) (la :: rest) n /\
    eval fs T = SOk (pvsem v).
Proof. intros W b i T0 st la rest Hb H. destruct v as [a|ws|p ps]; cbn [Surface.pv_ok tk_pv] in *.
  - destruct a as [lx|lx|lx|lx]; cbn [leaf_ok] in W; cbn [LrComplete.deco app lk].
    + unfold sden in W. destruct (string_value lx) as [sv| |] eqn:EV; try discriminate. exists 2%nat. eexists. split; [cbn; lia|]. split.
      { intros f. destruct Hb as [-> | ->]; destruct H as [H|H]; repeat (progress (lrw; rewrite ?H)); reflexivity. }
      evw. rewrite EV. cbn [pvsem]. unfold sden. rewrite EV. reflexivity.
    + exists 3%nat. eexists. split; [cbn; lia|]. split.
      { intros f. destruct Hb as [-> | ->]; destruct H as [H|H]; repeat (progress (lrw; rewrite ?H)); reflexivity. }
      evw. reflexivity.
    + exists 3%nat. eexists. split; [cbn; lia|]. split.
      { intros f. destruct Hb as [-> | ->]; destruct H as [H|H]; repeat (progress (lrw; rewrite ?H)); reflexivity. }
      evw. reflexivity.
    + exists 4%nat. eexists. split; [cbn; lia|]. split.
      { intros f. destruct Hb as [-> | ->]; destruct H as [H|H]; repeat (progress (lrw; rewrite ?H)); reflexivity. }
      evw. reflexivity.
  - unfold words_valid in W. apply andb_true_iff in W as [W1 W2].
    assert (Hw : wfollow b la) by (unfold wfollow; tauto).
    destruct (words_ok ws W1 W2 b i T0 st la rest Hw) as (n & T & Hn & Hr & He).
    exists (n + 2)%nat, (Br F_p_tuple_value [Br F_p_permissive_plain_string [T]]). split; [|split].
    + rewrite map_length. destruct ws; [discriminate|]. cbn [length] in *. lia.
    + eapply reaches_trans; [exact Hr|]. intros f. destruct Hb as [-> | ->]; destruct H as [H|H]; repeat (progress (lrw; rewrite ?H)); reflexivity.
    + evw. rewrite He. reflexivity.
  - assert (Hc : ctfollow b la) by (unfold ctfollow; tauto).
    destruct (colon_text_ok p ps W b i T0 st la rest Hc) as (n & T & Hn & Hr & He & Hbr).
    exists (n + 1)%nat, (Br F_p_tuple_value [T]). split; [lia|]. split.
    + eapply reaches_trans; [exact Hr|]. intros f. destruct Hb as [-> | ->]; destruct H as [H|H]; repeat (progress (lrw; rewrite ?H)); reflexivity.
    + evw. destruct T as [|f2 l2]; [destruct Hbr|]. rewrite He. reflexivity.
Qed.
Lemma pvsem_pair v ks l : exists e, (match pvsem v with SText x => SOk (SPair ks (PE (PStr x) l)) | SNum n => SOk (SPair ks (PE n l)) | _ => SUnsupported end) = SOk (SPair ks e)
  /\ erase_e e = PE (pvden v) 0%N.
Proof. destruct v as [[lx|lx|lx|lx]|ws|p ps]; cbn [pvsem pvden lden]; eexists; split; reflexivity. Qed.
Lemma eval_pair_nonleaf f kids c T : eval fs (Br F_p_tuple_pair [Br f kids; c; T]) =
  bind (eval fs (Br f kids)) (fun sk => bind (eval fs T) (fun sv => match sk, sv with
    | SText ks, SText x => SOk (SPair ks (PE (PStr x) (first_line (Br f kids))))
    | SText ks, SNum n => SOk (SPair ks (PE n (first_line (Br f kids))))
    | _, _ => SUnsupported end)).
Proof. reflexivity. Qed.
Lemma xpair_ok p : pair_ok p = true -> forall s i T0 st la rest, s = S_lb \/ s = S_pc -> t_kind la = KCOMMA \/ t_kind la = KRBRACK ->
  exists n T e, (n + 4 <= 10 * length (tkx_pair p))%nat /\
    reaches ((s, T0) :: st) (deco i (tkx_pair p) ++ la :: rest) ((S_tp, T) :: (s, T0) :: st) (la :: rest) n /\
    eval fs T = SOk (SPair (fst (pden p)) e) /\ erase_e e = snd (pden p).
Proof. unfold pair_ok, pden, tkx_pair. destruct p as [key val]. cbn [fst snd]. intros W s i T0 st la rest Hs H. apply andb_true_iff in W as [WK WV].
  destruct key as [lx|ws]; cbn [key_ok tk_key kden] in *.
  - (* "key": value *)
    unfold sden in WK |- *. destruct (string_value lx) as [ks| |] eqn:EK; try discriminate.
    cbn [app LrComplete.deco]. set (k := mk i (KSTRING, lx)). set (c := mk (S i) colon).
    destruct (xpv_ok val WV S_tv (S (S i)) (Leaf c) ((sh s T_STRING, Leaf k) :: (s, T0) :: st) la rest (or_introl eq_refl) H) as (n & T & Hn & Hr & He).
    destruct (pvsem_pair val ks (L i)) as (e & E1 & E2).
    exists (2 + n + 1)%nat, (Br F_p_tuple_pair [Leaf k; Leaf c; T]), e. split; [cbn [length]; destruct (tk_pv val); cbn [length] in *; lia|]. split; [|split].
    + eapply reaches_trans; [eapply reaches_trans; [|exact Hr]|].
      * intros f. unfold k, c, colon. destruct Hs as [-> | ->]; repeat (progress lrw); reflexivity.
      * intros f. destruct Hs as [-> | ->]; destruct H as [H|H]; repeat (progress (lrw; rewrite ?H)); reflexivity.
    + unfold k. evw. rewrite EK. evw. rewrite He. exact E1.
    + exact E2.
  - (* key: value, the key unquoted *)
    unfold words_valid in WK. apply andb_true_iff in WK as [W1 W2].
    rewrite deco_app. rewrite <- app_assoc. cbn [app LrComplete.deco]. rewrite map_length.
    set (c := mk (length ws + i) colon).
    assert (Hw : wfollow s (mk (length ws + i) colon)) by (unfold wfollow; right; right; left; split; [exact Hs | reflexivity]).
    destruct (words_ok ws W1 W2 s i T0 st c (deco (S (length ws + i)) (tk_pv val) ++ la :: rest) Hw) as (nk & Tk & Hnk & Hrk & Hek).
    destruct (xpv_ok val WV S_tv2 (S (length ws + i)) (Leaf c) ((gt s N_plain_string, Tk) :: (s, T0) :: st) la rest (or_intror eq_refl) H) as (n & T & Hn & Hr & He).
    destruct (pvsem_pair val (wtext ws) (first_line Tk)) as (e & E1 & E2).
    exists (nk + 1 + n + 1)%nat, (Br F_p_tuple_pair [Tk; Leaf c; T]), e. split; [|split; [|split]].
    + rewrite app_length, map_length. cbn [length]. destruct ws; [discriminate|]. cbn [length] in *. lia.
    + eapply reaches_trans; [eapply reaches_trans; [eapply reaches_trans; [exact Hrk|] | exact Hr]|].
      * intros f. unfold c, colon. destruct Hs as [-> | ->]; repeat (progress lrw); reflexivity.
      * intros f. destruct Hs as [-> | ->]; destruct H as [H|H]; repeat (progress (lrw; rewrite ?H)); reflexivity.
    + destruct Tk as [tk|f kids]; [exfalso; cbn [eval] in Hek; discriminate|].
      rewrite eval_pair_nonleaf, Hek, He. cbn [bind]. exact E1.
    + exact E2.
Qed.
Lemma xpairs_ok : forall kv tr, kv <> [] -> forallb pair_ok kv = true ->
  forall s i T0 st rb rest, s = S_lb \/ s = S_pc -> t_kind rb = KRBRACK ->
  exists n T d, (n <= 10 * length (tkj tr (map tkx_pair kv)))%nat /\
    reaches ((s, T0) :: st) (deco i (tkj tr (map tkx_pair kv)) ++ rb :: rest) ((gp s, T) :: (s, T0) :: st) (rb :: rest) n /\
    eval fs T = SOk (SDict d) /\ map er d = xdexp kv.
Proof. induction kv as [|p kv IH]; [congruence|]. intros tr _ W s i T0 st rb rest Hs Hrb. cbn [forallb] in W. apply andb_true_iff in W as [W1 W2]. destruct kv as [|p2 kv'].
  - unfold tkj. cbn [map tk_join]. destruct tr.
    + rewrite deco_app. cbn [LrComplete.deco]. rewrite <- app_assoc. cbn [app]. set (c := mk (length (tkx_pair p) + i) comma).
      destruct (xpair_ok p W1 s i T0 st c (rb :: rest) Hs (or_introl eq_refl)) as (n & T & e & Hn & Hr & He & Hp).
      exists (n + 2)%nat, (Br F_p_tuple_pairs_pair [T; Leaf c]), [(fst (pden p), e)]. split; [rewrite app_length; cbn [length]; lia|]. split; [|split].
      * eapply reaches_trans; [exact Hr|]. intros f. unfold c, comma. destruct Hs as [-> | ->]; cbn [gp Nat.eqb]; repeat (progress (lr; rewrite ?Hrb)); reflexivity.
      * ev. rewrite He. reflexivity.
      * unfold er. cbn [map fst snd xdexp]. rewrite Hp. destruct (pden p); reflexivity.
    + rewrite app_nil_r.
      destruct (xpair_ok p W1 s i T0 st rb rest Hs (or_intror Hrb)) as (n & T & e & Hn & Hr & He & Hp).
      exists (n + 1)%nat, (Br F_p_tuple_pairs_pair [T]), [(fst (pden p), e)]. split; [|split; [|split]].
      * lia.
      * eapply reaches_trans; [exact Hr|]. intros f. destruct Hs as [-> | ->]; cbn [gp Nat.eqb]; repeat (progress (lr; rewrite ?Hrb)); reflexivity.
      * ev. rewrite He. reflexivity.
      * unfold er. cbn [map fst snd xdexp]. rewrite Hp. destruct (pden p); reflexivity.
  - assert (E : tkj tr (map tkx_pair (p :: p2 :: kv')) = tkx_pair p ++ comma :: tkj tr (map tkx_pair (p2 :: kv'))).
    { unfold tkj. cbn [map tk_join]. rewrite <- app_assoc. reflexivity. }
    rewrite E. set (tj := tkj tr (map tkx_pair (p2 :: kv'))) in *.
    rewrite deco_app. cbn [LrComplete.deco]. rewrite <- app_assoc. cbn [app].
    set (c := mk (length (tkx_pair p) + i) comma).
    destruct (xpair_ok p W1 s i T0 st c (deco (S (length (tkx_pair p) + i)) tj ++ rb :: rest) Hs (or_introl eq_refl)) as (n & T & e & Hn & Hr & He & Hp).
    destruct (IH tr ltac:(discriminate) W2 S_pc (S (length (tkx_pair p) + i)) (Leaf c) ((S_tp, T) :: (s, T0) :: st) rb rest (or_intror eq_refl) Hrb)
      as (n2 & T2 & d & Hn2 & Hr2 & He2 & Hp2).
    exists (n + 1 + n2 + 1)%nat, (Br F_p_tuple_pairs [T; Leaf c; T2]), (dict_set d (fst (pden p)) e). split; [|split; [|split]].
    + rewrite app_length. cbn [length]. fold tj in Hn2. lia.
    + eapply reaches_trans; [eapply reaches_trans; [eapply reaches_trans; [exact Hr|] | exact Hr2]|].
      * intros f. unfold c, comma. repeat (progress lr). reflexivity.
      * intros f. destruct Hs as [-> | ->]; cbn [gp Nat.eqb]; repeat (progress lr); reflexivity.
    + ev. rewrite He, He2. reflexivity.
    + rewrite er_dict_set, Hp2, Hp. reflexivity.
Qed.

(* a dictionary as a value, in any value context *)
Lemma xdict_ok p ps tr : xvalue_spec (XDict p ps tr).
Proof. intros W s i T0 st la rest H. cbn [Surface.xval_ok] in W. set (kv := p :: ps) in *. set (tj := tkj tr (map tkx_pair kv)).
  change (tkx_value (XDict p ps tr)) with (lbt :: tj ++ [rbt]).
  cbn [LrComplete.deco]. rewrite deco_app. cbn [LrComplete.deco app]. rewrite <- app_assoc. cbn [app].
  set (rb := mk (length tj + S i) rbt). set (lb := mk i lbt).
  destruct (xpairs_ok kv tr ltac:(discriminate) W S_lb (S i) (Leaf lb) ((s, T0) :: st) rb (la :: rest) (or_introl eq_refl) eq_refl)
    as (n & T & d & Hn & Hr & He & Hp).
  exists (1 + n + 4)%nat, (Br F_p_expression [Br F_p_list [Leaf lb; Br F_p_elements_tuple_pairs [T]; Leaf rb]]), (PE (PDict d) (L i)).
  split; [|split; [|split]].
  - cbn [length]. rewrite app_length. cbn [length]. fold tj in Hn. lia.
  - eapply reaches_trans; [eapply reaches_trans; [|exact Hr]|].
    + intros f. unfold lb, lbt. ctx_cases H; repeat (progress lr); reflexivity.
    + intros f. unfold rb, rbt. ctx_cases H; cbn [gl gp Nat.eqb]; repeat (progress (lr; rewrite ?H)); reflexivity.
  - ev. rewrite He. reflexivity.
  - cbn [erase_e erase_v xden]. fold er. rewrite Hp. reflexivity.
Qed.
Theorem xvalue_ok v : xvalue_spec v.
Proof. induction v as [a|l tr IH|ws|p ps tr] using xval_ind'; [apply xleaf_ok | apply xlist_ok, IH | apply xwords_ok | apply xdict_ok]. Qed.

(* ---- arguments ---- *)
Definition xarg_ok (a : xarg) : bool :=
  match a with
  | XAVal v => xval_ok v | XADict p ps _ => forallb pair_ok (p :: ps)
  | XAColon p ps => colon_ok p ps
  end.
Definition xaexp (a : xarg) : pval :=
  match a with XAVal v => xden v | XADict p ps _ => PDict (xdexp (p :: ps)) | XAColon p ps => PStr (ctext_of p ps) end.
Definition xarg_matches (x : text * xarg) (a : parg) : Prop := pa_name a = fst x /\ erase_e (pa_value a) = PE (xaexp (snd x)) 0%N.
Lemma xargval_ok (a : xarg) : xarg_ok a = true -> forall i T0 st la rest, actx la ->
  exists n T e, (n + 4 <= 10 * length (tl (tl (tkx_arg (nil, a)))))%nat /\
    reaches ((S_val, T0) :: st) (deco i (tl (tl (tkx_arg (nil, a)))) ++ la :: rest) (((ge S_val), T) :: (S_val, T0) :: st) (la :: rest) n /\
    eval fs T = SOk (SExpr e) /\ erase_e e = PE (xaexp a) 0%N.
Proof. intros W i T0 st la rest H. destruct a as [v|p ps tr|p ps]; cbn [tkx_arg tl snd xarg_ok] in *.
  - destruct (xvalue_ok v W S_val i T0 st la rest) as (n & T & e & A & B & C & D); [left; split; [reflexivity | exact H]|].
    exists n, T, e. auto.
  - set (kv := p :: ps) in *. set (tj := tkj tr (map tkx_pair kv)).
    cbn [LrComplete.deco]. rewrite deco_app. cbn [LrComplete.deco app]. rewrite <- app_assoc. cbn [app].
    set (rb := mk (length tj + S i) rbt). set (lb := mk i lbt).
    destruct (xpairs_ok kv tr ltac:(discriminate) W S_lb (S i) (Leaf lb) ((S_val, T0) :: st) rb (la :: rest) (or_introl eq_refl) eq_refl)
      as (n & T & d & Hn & Hr & He & Hp).
    exists (1 + n + 4)%nat, (Br F_p_expression [Br F_p_list [Leaf lb; Br F_p_elements_tuple_pairs [T]; Leaf rb]]), (PE (PDict d) (L i)).
    split; [|split; [|split]].
    + cbn [length]. rewrite app_length. cbn [length]. fold tj in Hn. lia.
    + eapply reaches_trans; [eapply reaches_trans; [|exact Hr]|].
      * intros f. unfold lb, lbt. repeat (progress lr). reflexivity.
      * intros f. unfold rb, rbt. cbn [gp Nat.eqb]. destruct H as [H|H]; repeat (progress (lr; rewrite ?H)); reflexivity.
    + ev. rewrite He. reflexivity.
    + cbn [erase_e erase_v xaexp]. fold er. rewrite Hp. reflexivity.
  - destruct (colon_text_ok p ps W S_val i T0 st la rest (or_introl (conj eq_refl H))) as (n & T2 & Hn & Hr & He2 & Hb2).
    exists (n + 1)%nat, (Br F_p_expression [T2]), (PE (PStr (ctext_of p ps)) (first_line T2)).
    split; [|split; [|split]].
    + fold (tk_colon p ps). lia.
    + eapply reaches_trans; [exact Hr|]. intros f. destruct H as [A|A]; repeat (progress (lrw; rewrite ?A)); reflexivity.
    + evw. destruct T2 as [|f2 l2]; [destruct Hb2|]. rewrite He2. reflexivity.
    + reflexivity.
Qed.
Lemma tkx_arg_split x : tkx_arg x = (KID, fst x) :: eqt :: tl (tl (tkx_arg (nil, snd x))).
Proof. destruct x as [nm a]. reflexivity. Qed.
Lemma xarg_ok_ x : xarg_ok (snd x) = true -> forall s i T0 st la rest, s = S_lp \/ s = S_ac -> actx la ->
  exists n T a, (n + 4 <= 10 * length (tkx_arg x))%nat /\
    reaches ((s, T0) :: st) (deco i (tkx_arg x) ++ la :: rest) ((S_arg, T) :: (s, T0) :: st) (la :: rest) n /\
    eval fs T = SOk (SArg a) /\ xarg_matches x a.
Proof. intros W s i T0 st la rest Hs H. rewrite tkx_arg_split. cbn [LrComplete.deco app].
  set (nm := mk i (KID, fst x)). set (eqk := mk (S i) eqt).
  destruct (xargval_ok (snd x) W (S (S i)) (Leaf eqk) ((S_an, Leaf nm) :: (s, T0) :: st) la rest H) as (n & T & e & Hn & Hr & He & Hp).
  exists (2 + n + 1)%nat, (Br F_p_argument [Leaf nm; Leaf eqk; T]), {| pa_name := fst x; pa_value := e; pa_line := L i |}.
  split; [|split; [|split]].
  - cbn [length]. lia.
  - eapply reaches_trans; [eapply reaches_trans; [|exact Hr]|].
    + intros f. unfold nm, eqk, eqt. destruct Hs as [-> | ->]; repeat (progress lr); reflexivity.
    + intros f. destruct Hs as [-> | ->]; destruct H as [H|H]; repeat (progress (lr; rewrite ?H)); reflexivity.
  - unfold nm. ev. rewrite He. reflexivity.
  - split; [reflexivity | exact Hp].
Qed.
Lemma xargs_ok : forall l tr, l <> [] -> forallb (fun x => xarg_ok (snd x)) l = true -> forall s i T0 st rp rest, s = S_lp \/ s = S_ac -> t_kind rp = KRPAREN ->
  exists n T al, (n <= 10 * length (tkj tr (map tkx_arg l)))%nat /\
    reaches ((s, T0) :: st) (deco i (tkj tr (map tkx_arg l)) ++ rp :: rest) ((ga s, T) :: (s, T0) :: st) (rp :: rest) n /\
    eval fs T = SOk (SArgs al) /\ Forall2 xarg_matches l al.
Proof. induction l as [|x l IH]; [congruence|]. intros tr _ W s i T0 st rp rest Hs Hrp. cbn [forallb] in W. apply andb_true_iff in W as [W1 W2]. destruct l as [|x2 l'].
  - unfold tkj. cbn [map tk_join]. destruct tr.
    + rewrite deco_app. cbn [LrComplete.deco]. rewrite <- app_assoc. cbn [app]. set (c := mk (length (tkx_arg x) + i) comma).
      destruct (xarg_ok_ x W1 s i T0 st c (rp :: rest) Hs (or_introl eq_refl)) as (n & T & a & Hn & Hr & He & Hm).
      exists (n + 2)%nat, (Br F_p_argument_list_argument [T; Leaf c]), [a]. split; [rewrite app_length; cbn [length]; lia|]. split; [|split].
      * eapply reaches_trans; [exact Hr|]. intros f. unfold c, comma. destruct Hs as [-> | ->]; cbn [ga Nat.eqb]; repeat (progress (lr; rewrite ?Hrp)); reflexivity.
      * ev. rewrite He. reflexivity.
      * constructor; [exact Hm | constructor].
    + rewrite app_nil_r.
      destruct (xarg_ok_ x W1 s i T0 st rp rest Hs (or_intror Hrp)) as (n & T & a & Hn & Hr & He & Hm).
      exists (n + 1)%nat, (Br F_p_argument_list_argument [T]), [a]. split; [lia|]. split; [|split].
      * eapply reaches_trans; [exact Hr|]. intros f. destruct Hs as [-> | ->]; cbn [ga Nat.eqb]; repeat (progress (lr; rewrite ?Hrp)); reflexivity.
      * ev. rewrite He. reflexivity.
      * constructor; [exact Hm | constructor].
  - assert (E : tkj tr (map tkx_arg (x :: x2 :: l')) = tkx_arg x ++ comma :: tkj tr (map tkx_arg (x2 :: l'))).
    { unfold tkj. cbn [map tk_join]. rewrite <- app_assoc. reflexivity. }
    rewrite E. set (tj := tkj tr (map tkx_arg (x2 :: l'))) in *.
    rewrite deco_app. cbn [LrComplete.deco]. rewrite <- app_assoc. cbn [app].
    set (c := mk (length (tkx_arg x) + i) comma).
    destruct (xarg_ok_ x W1 s i T0 st c (deco (S (length (tkx_arg x) + i)) tj ++ rp :: rest) Hs (or_introl eq_refl)) as (n & T & a & Hn & Hr & He & Hm).
    destruct (IH tr ltac:(discriminate) W2 S_ac (S (length (tkx_arg x) + i)) (Leaf c) ((S_arg, T) :: (s, T0) :: st) rp rest (or_intror eq_refl) Hrp)
      as (n2 & T2 & al & Hn2 & Hr2 & He2 & Hm2).
    exists (n + 1 + n2 + 1)%nat, (Br F_p_argument_list [T; Leaf c; T2]), (a :: al). split; [|split; [|split]].
    + rewrite app_length. cbn [length]. fold tj in Hn2. lia.
    + eapply reaches_trans; [eapply reaches_trans; [eapply reaches_trans; [exact Hr|] | exact Hr2]|].
      * intros f. unfold c, comma. repeat (progress lr). reflexivity.
      * intros f. destruct Hs as [-> | ->]; cbn [ga Nat.eqb]; repeat (progress lr); reflexivity.
    + ev. rewrite He, He2. reflexivity.
    + constructor; assumption.
Qed.

(* ---- commands and programs ---- *)
Definition xcmd_ok (c : xcmd) : bool := forallb (fun x => xarg_ok (snd x)) (xc_args c).
Definition xcmd_matches (c : xcmd) (x : pcmd) : Prop :=
  pc_result x = xc_result c /\ pc_cmd x = xc_name c /\ Forall2 xarg_matches (xc_args c) (pc_args x).
Lemma xcommand_ok c : xcmd_ok c = true -> forall s i T0 st rest, s = 0%nat \/ s = S_cmd -> cfollow rest ->
  exists n T x, (n + 4 <= 10 * length (tkx_cmd c))%nat /\
    reaches ((s, T0) :: st) (deco i (tkx_cmd c) ++ rest) ((S_cmd, T) :: (s, T0) :: st) rest n /\
    eval fs T = SOk (SCmd x (is2 c)) /\ xcmd_matches c x.
Proof. intros W s i T0 st rest Hs Hf. unfold tkx_cmd, tkx_head, xcmd_ok, is2, xcmd_matches in *. destruct (xc_result c) as [res|].
  - (* Result = Command(...) *)
    cbn [LrComplete.deco app].
    set (r := mk i (KID, res)). set (e := mk (S i) eqt). set (nm := mk (S (S i)) (KID, xc_name c)). set (lp := mk (S (S (S i))) lpt).
    destruct (xc_args c) as [|x l'] eqn:EA.
    + unfold tkj. cbn [map tk_join app LrComplete.deco]. set (rp := mk (S (S (S (S i)))) rpt).
      exists 7%nat, (Br F_p_command [Leaf r; Leaf e; Leaf nm; Br F_p_argument_empty [Leaf lp; Leaf rp]]),
        {| pc_result := Some res; pc_cmd := xc_name c; pc_args := []; pc_line := L i |}.
      split; [cbn; lia|]. split; [|split].
      * intros f. unfold r, e, nm, lp, rp, eqt, lpt, rpt.
        destruct Hs as [-> | ->]; (destruct Hf as [-> | (la & r' & -> & Hla)]; repeat (progress (lr; rewrite ?Hla)); reflexivity).
      * reflexivity.
      * cbn [pc_result pc_cmd pc_args]. repeat split. constructor.
    + set (l := x :: l') in *. set (tj := tkj (xc_trail c) (map tkx_arg l)).
      rewrite deco_app. cbn [LrComplete.deco]. rewrite <- app_assoc. cbn [app].
      set (rp := mk (length tj + S (S (S (S i)))) rpt).
      destruct (xargs_ok l (xc_trail c) ltac:(discriminate) W S_lp (S (S (S (S i)))) (Leaf lp) ((S_name, Leaf nm) :: (S_eq, Leaf e) :: (S_res, Leaf r) :: (s, T0) :: st)
                  rp rest (or_introl eq_refl) eq_refl) as (n & T & al & Hn & Hr & He & Hm).
      exists (4 + n + 3)%nat, (Br F_p_command [Leaf r; Leaf e; Leaf nm; Br F_p_arguments [Leaf lp; T; Leaf rp]]),
        {| pc_result := Some res; pc_cmd := xc_name c; pc_args := al; pc_line := L i |}.
      split; [|split; [|split]].
      * cbn [length]. rewrite app_length. cbn [length]. fold tj in Hn. lia.
      * eapply reaches_trans; [eapply reaches_trans; [|exact Hr]|].
        -- intros f. unfold r, e, nm, lp, eqt, lpt. destruct Hs as [-> | ->]; repeat (progress lr); reflexivity.
        -- intros f. unfold rp, rpt. cbn [ga Nat.eqb].
           destruct Hs as [-> | ->]; (destruct Hf as [-> | (la & r' & -> & Hla)]; repeat (progress (lr; rewrite ?Hla)); reflexivity).
      * unfold r, nm. ev. rewrite He. reflexivity.
      * cbn [pc_result pc_cmd pc_args]. repeat split. exact Hm.
  - (* COMMAND(...): the EEMS 2.0 form *)
    cbn [LrComplete.deco app].
    set (nm := mk i (KID, xc_name c)). set (lp := mk (S i) lpt).
    destruct (xc_args c) as [|x l'] eqn:EA.
    + unfold tkj. cbn [map tk_join app LrComplete.deco]. set (rp := mk (S (S i)) rpt).
      exists 5%nat, (Br F_p_eems2_command [Leaf nm; Br F_p_argument_empty [Leaf lp; Leaf rp]]),
        {| pc_result := None; pc_cmd := xc_name c; pc_args := []; pc_line := L i |}.
      split; [cbn; lia|]. split; [|split].
      * intros f. unfold nm, lp, rp, lpt, rpt.
        destruct Hs as [-> | ->]; (destruct Hf as [-> | (la & r' & -> & Hla)]; repeat (progress (lr; rewrite ?Hla)); reflexivity).
      * reflexivity.
      * cbn [pc_result pc_cmd pc_args]. repeat split. constructor.
    + set (l := x :: l') in *. set (tj := tkj (xc_trail c) (map tkx_arg l)).
      rewrite deco_app. cbn [LrComplete.deco]. rewrite <- app_assoc. cbn [app].
      set (rp := mk (length tj + S (S i)) rpt).
      destruct (xargs_ok l (xc_trail c) ltac:(discriminate) W S_lp (S (S i)) (Leaf lp) ((S_res, Leaf nm) :: (s, T0) :: st)
                  rp rest (or_introl eq_refl) eq_refl) as (n & T & al & Hn & Hr & He & Hm).
      exists (2 + n + 3)%nat, (Br F_p_eems2_command [Leaf nm; Br F_p_arguments [Leaf lp; T; Leaf rp]]),
        {| pc_result := None; pc_cmd := xc_name c; pc_args := al; pc_line := L i |}.
      split; [|split; [|split]].
      * cbn [length]. rewrite app_length. cbn [length]. fold tj in Hn. lia.
      * eapply reaches_trans; [eapply reaches_trans; [|exact Hr]|].
        -- intros f. unfold nm, lp, lpt. destruct Hs as [-> | ->]; repeat (progress lr); reflexivity.
        -- intros f. unfold rp, rpt. cbn [ga Nat.eqb].
           destruct Hs as [-> | ->]; (destruct Hf as [-> | (la & r' & -> & Hla)]; repeat (progress (lr; rewrite ?Hla)); reflexivity).
      * unfold nm. ev. rewrite He. reflexivity.
      * cbn [pc_result pc_cmd pc_args]. repeat split. exact Hm.
Qed.
Lemma prog_head k c2 p' : exists la r, deco k (tkx_program (c2 :: p')) = la :: r /\ t_kind la = KID.
Proof. unfold tkx_program. cbn [flat_map]. unfold tkx_cmd, tkx_head. destruct (xc_result c2); cbn [app LrComplete.deco]; eexists; eexists; split; reflexivity. Qed.
Lemma xcommands_ok : forall p, p <> [] -> forallb xcmd_ok p = true -> forall s i T0 st, s = 0%nat \/ s = S_cmd ->
  exists n T cs, (n <= 10 * length (tkx_program p))%nat /\
    reaches ((s, T0) :: st) (deco i (tkx_program p)) ((gc s, T) :: (s, T0) :: st) [] n /\
    eval fs T = SOk (SCmds cs (existsb is2 p)) /\ Forall2 xcmd_matches p cs.
Proof. induction p as [|c p IH]; [congruence|]. intros _ W s i T0 st Hs. cbn [forallb] in W. apply andb_true_iff in W as [W1 W2]. destruct p as [|c2 p'].
  - cbn [tkx_program flat_map]. rewrite app_nil_r.
    destruct (xcommand_ok c W1 s i T0 st [] Hs (or_introl eq_refl)) as (n & T & x & Hn & Hr & He & Hm). rewrite app_nil_r in Hr.
    exists (n + 1)%nat, (Br F_p_commands_command [T]), [x]. split; [lia|]. split; [|split].
    + eapply reaches_trans; [exact Hr|]. intros f. destruct Hs as [-> | ->]; cbn [gc Nat.eqb]; repeat (progress lr); reflexivity.
    + ev. rewrite He. cbn [existsb]. rewrite orb_false_r. reflexivity.
    + constructor; [exact Hm | constructor].
  - change (tkx_program (c :: c2 :: p')) with (tkx_cmd c ++ tkx_program (c2 :: p')). rewrite deco_app.
    destruct (xcommand_ok c W1 s i T0 st (deco (length (tkx_cmd c) + i) (tkx_program (c2 :: p'))) Hs) as (n & T & x & Hn & Hr & He & Hm).
    { right. apply prog_head. }
    destruct (IH ltac:(discriminate) W2 S_cmd (length (tkx_cmd c) + i)%nat T ((s, T0) :: st) (or_intror eq_refl)) as (n2 & T2 & cs & Hn2 & Hr2 & He2 & Hm2).
    exists (n + n2 + 1)%nat, (Br F_p_commands [T; T2]), (x :: cs). split; [|split; [|split]].
    + rewrite app_length. lia.
    + eapply reaches_trans; [eapply reaches_trans; [exact Hr | exact Hr2]|].
      intros f. destruct Hs as [-> | ->]; cbn [gc Nat.eqb]; repeat (progress lr); reflexivity.
    + ev. rewrite He, He2. reflexivity.
    + constructor; assumption.
Qed.
Theorem xlr_complete p : p <> [] -> forallb xcmd_ok p = true ->
  exists T pp, lr (deco 0 (tkx_program p)) = Some T /\ eval fs T = SOk (SProg pp) /\ pp_version pp = xversion p /\ Forall2 xcmd_matches p (pp_cmds pp).
Proof. intros Hp W. destruct (xcommands_ok p Hp W 0%nat 0%nat dummy_tree [] (or_introl eq_refl)) as (n & T & cs & Hn & Hr & He & Hm).
  exists (Br F_p_program [T]), {| pp_cmds := cs; pp_version := xversion p |}. split; [|split; [|split]].
  - unfold lr. rewrite deco_length.
    replace (S (64 * (4 + length (tkx_program p)))) with (n + (2 + (S (64 * (4 + length (tkx_program p))) - n - 2)))%nat by lia.
    rewrite Hr. cbn [gc Nat.eqb]. repeat (progress lr). reflexivity.
  - ev. rewrite He. unfold xversion. destruct (existsb is2 p); reflexivity.
  - reflexivity.
  - exact Hm.
Qed.
End LR.
