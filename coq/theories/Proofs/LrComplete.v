(* Completeness of the LR driver over the regenerated PLY tables on the token streams the serialiser produces, and the
   value the semantic actions compute from the resulting tree (C15, whole-program round trip at the token level). *)
From Coq Require Import NArith ZArith List Bool Lia.
From MP Require Import Model.Lexer Gen.GenGrammar Model.Parser Model.Serial Proofs.SerialProofs.
Import ListNotations.
Close Scope N_scope.

(* ---- tokens of a serialised program: kinds and lexemes ---- *)
Definition kl := (tkind * text)%type.
Definition comma : kl := (KCOMMA, [44%N]).
Fixpoint tk_join (l : list (list kl)) : list kl :=
  match l with [] => [] | x :: t => match t with [] => x | _ => x ++ comma :: tk_join t end end.
Fixpoint tk_value (isres : bool) (v : sval) : list kl :=
  match v with
  | SVList l => (KLBRACK, [91%N]) :: tk_join (map (tk_value isres) l) ++ [(KRBRACK, [93%N])]
  | SVCmd n => [(KID, n)]
  | SVStr s => if isres then [(KID, s)] else [(KSTRING, quote s)]
  | SVInt z => [(KINT, int_text z)]
  | SVFloat r => [(KFLOAT, float_text r)]
  | SVBool b => [(KID, bool_text b)]
  | SVOther t => [(KID, t)]
  end.
Definition tk_pair (p : text * text) : list kl := [(KSTRING, quote (fst p)); (KCOLON, [58%N]); (KSTRING, quote (snd p))].
Definition tk_arg (a : text * sarg) : list kl :=
  (KID, fst a) :: (KEQUAL, [61%N]) ::
  match snd a with
  | SAVal isres v => tk_value isres v
  | SADict kv => (KLBRACK, [91%N]) :: tk_join (map tk_pair kv) ++ [(KRBRACK, [93%N])]
  end.
Definition tk_cmd (c : scmd) : list kl :=
  (KID, sc_result c) :: (KEQUAL, [61%N]) :: (KID, sc_name c) :: (KLPAREN, [40%N]) :: tk_join (map tk_arg (sc_args c)) ++ [(KRPAREN, [41%N])].
Definition tk_program (p : list scmd) : list kl := flat_map tk_cmd p.

(* tokens with arbitrary lines and positions *)
Section Deco.
Variable L : nat -> N.
Variable P : nat -> nat.
Definition mk (i : nat) (x : kl) : token := {| t_kind := fst x; t_lexeme := snd x; t_line := L i; t_pos := P i |}.
Fixpoint deco (i : nat) (l : list kl) : list token := match l with [] => [] | x :: t => mk i x :: deco (S i) t end.
Lemma deco_app i a b : deco i (a ++ b) = deco i a ++ deco (length a + i) b.
Proof. revert i. induction a as [|x a IH]; intros i; [reflexivity|]. cbn [app deco length]. rewrite IH. f_equal. f_equal. f_equal. lia. Qed.
End Deco.

(* ---- expected values, lines erased ---- *)
Fixpoint pv (v : sval) : pval :=
  match v with
  | SVStr s => PStr s | SVInt z => PInt z | SVFloat r => PFloat (float_text r) | SVBool b => PStr (bool_text b)
  | SVCmd n => PStr n | SVOther t => PStr t
  | SVList l => PList (map (fun x => PE (pv x) 0%N) l)
  end.
Fixpoint erase_v (v : pval) : pval :=
  match v with
  | PList l => PList (map erase_e l)
  | PDict kv => PDict (map (fun p => (fst p, erase_e (snd p))) kv)
  | x => x
  end
with erase_e (e : pexpr) : pexpr := match e with PE v _ => PE (erase_v v) 0%N end.

Lemma sval_ind' (Pr : sval -> Prop) :
  (forall s, Pr (SVStr s)) -> (forall z, Pr (SVInt z)) -> (forall r, Pr (SVFloat r)) -> (forall b, Pr (SVBool b)) ->
  (forall n, Pr (SVCmd n)) -> (forall t, Pr (SVOther t)) -> (forall l, Forall Pr l -> Pr (SVList l)) -> forall v, Pr v.
Proof. intros H1 H2 H3 H4 H5 H6 H7. fix F 1. intros [s|z|r|b|n|t|l]; [apply H1|apply H2|apply H3|apply H4|apply H5|apply H6|]. apply H7.
  induction l as [|x l IH]; [constructor | constructor; [apply F | exact IH]]. Qed.

Definition reaches (st : stack) (toks : list token) (st' : stack) (toks' : list token) (n : nat) : Prop :=
  forall f, run (n + f) st toks = run f st' toks'.
Lemma reaches_trans a ta b tb c tc n m : reaches a ta b tb n -> reaches b tb c tc m -> reaches a ta c tc (n + m).
Proof. intros H1 H2 f. replace (n + m + f)%nat with (n + (m + f))%nat by lia. rewrite H1. apply H2. Qed.


(* ---- the states of the automaton that matter, named by how they are reached (not by their numbers: a renumbering of PLY's
   tables -- e.g. grammar rules defined in another order -- leaves every statement and proof below unchanged) ---- *)
Definition sh (s : nat) (t : term) : nat := match action s t with Some (Shift s') => s' | _ => 0%nat end.
Definition gt (s : nat) (n : nonterm) : nat := match goto s n with Some g => g | None => 0%nat end.
Definition S_res : nat := sh 0 T_ID.              (* after a result name *)
Definition S_eq : nat := sh S_res T_EQUAL.
Definition S_name : nat := sh S_eq T_ID.          (* after the command name *)
Definition S_lp : nat := sh S_name T_LPAREN.      (* after the opening parenthesis *)
Definition S_an : nat := sh S_lp T_ID.            (* after an argument name *)
Definition S_val : nat := sh S_an T_EQUAL.        (* where the value of an argument starts *)
Definition S_lb : nat := sh S_val T_LBRACK.       (* after an opening bracket *)
Definition S_el : nat := gt S_lb N_element.       (* after a list element *)
Definition S_ec : nat := sh S_el T_COMMA.         (* after `element ,` *)
Definition S_arg : nat := gt S_lp N_argument.     (* after an argument *)
Definition S_ac : nat := sh S_arg T_COMMA.        (* after `argument ,` *)
Definition S_cmd : nat := gt 0 N_command.         (* after a command *)
Definition S_tp : nat := gt S_lb N_tuple_pair.    (* after a key: value pair *)
Definition S_pc : nat := sh S_tp T_COMMA.         (* after `pair ,` *)
Definition ge (s : nat) : nat := gt s N_expression.
Definition gl (s : nat) : nat := gt s N_elements.
Definition gp (s : nat) : nat := gt s N_tuple_pairs.
Definition ga (s : nat) : nat := gt s N_argument_list.
Definition gc (s : nat) : nat := gt s N_commands.

Section LR.
Variable L : nat -> N.
Variable P : nat -> nat.
Variable fs : text -> option text.
Notation deco := (deco L P).
Notation mk := (mk L P).

Ltac lr := cbn [run step defaulted hd_error tl LrComplete.mk fst snd t_kind term_of action reduce production firstn skipn length map rev app
                Nat.ltb Nat.leb goto Nat.add LrComplete.deco tk_value tk_join ge gl gp ga gc sh gt S_res S_eq S_name S_lp S_an S_val S_lb S_el S_ec S_arg S_ac S_cmd S_tp S_pc Nat.eqb].
Ltac ev := cbn [eval bind first_line leaf_text LrComplete.mk t_kind t_lexeme t_line fst snd].

(* a value starts in state 17 (after `name =`), 29 (after `[`) or 50 (after `element ,`); what may follow it there *)
Definition vctx (s : nat) (la : token) : Prop :=
  (s = S_val /\ (t_kind la = KCOMMA \/ t_kind la = KRPAREN)) \/ ((s = S_lb \/ s = S_ec) /\ (t_kind la = KCOMMA \/ t_kind la = KRBRACK)).
Definition value_spec (isres : bool) (v : sval) : Prop := forall s i T0 st la rest, vctx s la ->
  exists n T e, (n + 4 <= 10 * length (tk_value isres v))%nat /\
    reaches ((s, T0) :: st) (deco i (tk_value isres v) ++ la :: rest) ((ge s, T) :: (s, T0) :: st) (la :: rest) n /\
    eval fs T = SOk (SExpr e) /\ erase_e e = PE (pv v) 0%N.

Ltac ctx_cases H := destruct H as [[-> [H|H]]|[[->| ->] [H|H]]].
Lemma string_ok isres s : isres = false -> value_spec isres (SVStr s).
Proof. intros -> s0 i T0 st la rest H. exists 2%nat. ctx_cases H;
  (eexists; eexists; split; [cbn; lia | split; [intros f; lr; rewrite H; lr; reflexivity | split; [ev; rewrite string_roundtrip; reflexivity | reflexivity]]]). Qed.
Ltac leaf n tac := intros s0 i T0 st la rest H; exists n; ctx_cases H;
  (eexists; eexists; split; [cbn; lia | split; [intros f; repeat (progress (lr; rewrite ?H)); reflexivity | split; [ev; tac; reflexivity | reflexivity]]]).
Lemma int_ok isres z : value_spec isres (SVInt z).
Proof. leaf 3%nat ltac:(rewrite int_roundtrip). Qed.
Lemma float_ok isres r : value_spec isres (SVFloat r).
Proof. leaf 3%nat idtac. Qed.
Lemma idstr_ok s : value_spec true (SVStr s).
Proof. leaf 4%nat idtac. Qed.
Lemma bool_ok isres b : value_spec isres (SVBool b).
Proof. leaf 4%nat idtac. Qed.
Lemma cmd_ok isres n : value_spec isres (SVCmd n).
Proof. leaf 4%nat idtac. Qed.
Lemma other_ok isres t : value_spec isres (SVOther t).
Proof. leaf 4%nat idtac. Qed.

(* elements of a non-empty list, started in state 29 (after `[`) or 50 (after `element ,`), followed by `]` *)
Lemma elems_ok isres : forall l, l <> [] -> Forall (value_spec isres) l ->
  forall s i T0 st rb rest, s = S_lb \/ s = S_ec -> t_kind rb = KRBRACK ->
  exists n T es, (n <= 10 * length (tk_join (map (tk_value isres) l)))%nat /\
    reaches ((s, T0) :: st) (deco i (tk_join (map (tk_value isres) l)) ++ rb :: rest) ((gl s, T) :: (s, T0) :: st) (rb :: rest) n /\
    eval fs T = SOk (SElems es) /\ map erase_e es = map (fun x => PE (pv x) 0%N) l.
Proof. induction l as [|v l IH]; [congruence|]. intros _ HF s i T0 st rb rest Hs Hrb. inversion HF as [|? ? Hv HF']; subst.
  destruct l as [|v2 l'].
  - cbn [map tk_join].
    destruct (Hv s i T0 st rb rest) as (n & T & e & Hn & Hr & He & Hp); [right; split; [exact Hs | right; exact Hrb]|].
    exists (n + 2)%nat, (Br F_p_elements_element [Br F_p_element_expression [T]]), [e]. split; [lia|]. split; [|split].
    + eapply reaches_trans; [exact Hr|]. intros f. destruct Hs as [-> | ->]; cbn [ge Nat.eqb]; repeat (progress (lr; rewrite ?Hrb)); reflexivity.
    + ev. rewrite He. reflexivity.
    + cbn [map]. rewrite Hp. reflexivity.
  - change (tk_join (map (tk_value isres) (v :: v2 :: l'))) with (tk_value isres v ++ comma :: tk_join (map (tk_value isres) (v2 :: l'))).
    rewrite deco_app. cbn [LrComplete.deco]. rewrite <- app_assoc. cbn [app].
    set (c := mk (length (tk_value isres v) + i) comma).
    destruct (Hv s i T0 st c (deco (S (length (tk_value isres v) + i)) (tk_join (map (tk_value isres) (v2 :: l'))) ++ rb :: rest))
      as (n & T & e & Hn & Hr & He & Hp); [right; split; [exact Hs | left; reflexivity]|].
    destruct (IH ltac:(discriminate) HF' S_ec (S (length (tk_value isres v) + i)) (Leaf c)
                 ((S_el, Br F_p_element_expression [T]) :: (s, T0) :: st) rb rest (or_intror eq_refl) Hrb)
      as (n2 & T2 & es & Hn2 & Hr2 & He2 & Hp2).
    exists (n + 2 + n2 + 1)%nat, (Br F_p_elements [Br F_p_element_expression [T]; Leaf c; T2]), (e :: es). split; [|split; [|split]].
    + rewrite app_length. cbn [length]. lia.
    + eapply reaches_trans; [eapply reaches_trans; [eapply reaches_trans; [exact Hr|] | exact Hr2]|].
      * intros f. destruct Hs as [-> | ->]; cbn [ge Nat.eqb]; unfold c; repeat (progress lr); reflexivity.
      * intros f. destruct Hs as [-> | ->]; cbn [gl Nat.eqb]; repeat (progress lr); reflexivity.
    + ev. rewrite He, He2. reflexivity.
    + cbn [map]. rewrite Hp, Hp2. reflexivity.
Qed.

Definition lbt : kl := (KLBRACK, [91%N]).
Definition rbt : kl := (KRBRACK, [93%N]).
Lemma list_ok isres l : Forall (value_spec isres) l -> value_spec isres (SVList l).
Proof. intros HF s i T0 st la rest H. destruct l as [|v l'].
  - exists 4%nat. ctx_cases H;
    (eexists; eexists; split; [cbn; lia | split; [intros f; repeat (progress (lr; rewrite ?H)); reflexivity | split; [ev; reflexivity | reflexivity]]]).
  - set (l := v :: l') in *. set (tj := tk_join (map (tk_value isres) l)).
    change (tk_value isres (SVList l)) with (lbt :: tj ++ [rbt]).
    cbn [LrComplete.deco]. rewrite deco_app. cbn [LrComplete.deco app]. rewrite <- app_assoc. cbn [app].
    set (rb := mk (length tj + S i) rbt). set (lb := mk i lbt).
    destruct (elems_ok isres l ltac:(discriminate) HF S_lb (S i) (Leaf lb) ((s, T0) :: st) rb (la :: rest) (or_introl eq_refl) eq_refl)
      as (n & T & es & Hn & Hr & He & Hp).
    exists (1 + n + 3)%nat, (Br F_p_expression [Br F_p_list [Leaf lb; T; Leaf rb]]), (PE (PList es) (L i)). split; [|split; [|split]].
    + cbn [length]. rewrite app_length. cbn [length]. fold tj in Hn. lia.
    + eapply reaches_trans; [eapply reaches_trans; [|exact Hr]|].
      * intros f. unfold lb, lbt. ctx_cases H; repeat (progress lr); reflexivity.
      * intros f. unfold rb, rbt. ctx_cases H; cbn [gl Nat.eqb]; repeat (progress (lr; rewrite ?H)); reflexivity.
    + ev. rewrite He. reflexivity.
    + cbn [erase_e erase_v pv]. rewrite Hp. reflexivity.
Qed.

Theorem value_ok isres v : value_spec isres v.
Proof. induction v as [s|z|r|b|n|t|l IH] using sval_ind'.
  - destruct isres; [apply idstr_ok | apply string_ok; reflexivity].
  - apply int_ok. - apply float_ok. - apply bool_ok. - apply cmd_ok. - apply other_ok. - apply list_ok, IH.
Qed.

(* ---- metadata dictionaries ---- *)
Definition er (p : text * pexpr) : text * pexpr := (fst p, erase_e (snd p)).
Fixpoint dexp (kv : list (text * text)) : list (text * pexpr) :=
  match kv with
  | [] => []
  | p :: t => match t with [] => [(fst p, PE (PStr (snd p)) 0%N)] | _ => dict_set (dexp t) (fst p) (PE (PStr (snd p)) 0%N) end
  end.
Lemma er_dict_set d k e : map er (dict_set d k e) = dict_set (map er d) k (erase_e e).
Proof. induction d as [|[k' e'] d IH]; [reflexivity|]. cbn [dict_set map er fst snd]. destruct (list_eq_dec N.eq_dec k k'); cbn [map er fst snd]; [reflexivity | rewrite IH; reflexivity]. Qed.
Definition colon : kl := (KCOLON, [58%N]).
Lemma pairs_ok : forall kv, kv <> [] ->
  forall s i T0 st rb rest, s = S_lb \/ s = S_pc -> t_kind rb = KRBRACK ->
  exists n T d, (n <= 10 * length (tk_join (map tk_pair kv)))%nat /\
    reaches ((s, T0) :: st) (deco i (tk_join (map tk_pair kv)) ++ rb :: rest) ((gp s, T) :: (s, T0) :: st) (rb :: rest) n /\
    eval fs T = SOk (SDict d) /\ map er d = dexp kv.
Proof. induction kv as [|p kv IH]; [congruence|]. intros _ s i T0 st rb rest Hs Hrb. destruct kv as [|p2 kv'].
  - cbn [map tk_join]. unfold tk_pair.
    exists 6%nat. eexists. eexists. split; [cbn; lia|]. split; [|split].
    + intros f. destruct Hs as [-> | ->]; cbn [gp Nat.eqb]; repeat (progress (lr; rewrite ?Hrb)); reflexivity.
    + ev. rewrite !string_roundtrip. ev. reflexivity.
    + reflexivity.
  - change (tk_join (map tk_pair (p :: p2 :: kv'))) with (tk_pair p ++ comma :: tk_join (map tk_pair (p2 :: kv'))).
    set (tj := tk_join (map tk_pair (p2 :: kv'))) in *. unfold tk_pair.
    rewrite deco_app. cbn [LrComplete.deco length]. rewrite <- app_assoc. cbn [app].
    set (c := mk (3 + i) comma).
    set (k1 := mk i (KSTRING, quote (fst p))). set (c1 := mk (S i) (KCOLON, [58%N])). set (v1 := mk (S (S i)) (KSTRING, quote (snd p))).
    set (Tp := Br F_p_tuple_pair [Leaf k1; Leaf c1; Br F_p_tuple_value [Leaf v1]]).
    destruct (IH ltac:(discriminate) S_pc (S (3 + i)) (Leaf c) ((S_tp, Tp) :: (s, T0) :: st) rb rest (or_intror eq_refl) Hrb)
      as (n2 & T2 & d & Hn2 & Hr2 & He2 & Hp2).
    exists (6 + n2 + 1)%nat, (Br F_p_tuple_pairs [Tp; Leaf c; T2]), (dict_set d (fst p) (PE (PStr (snd p)) (L i))). split; [|split; [|split]].
    + cbn [app length]. lia.
    + eapply reaches_trans; [eapply reaches_trans; [|exact Hr2]|].
      * intros f. unfold c, k1, c1, v1, Tp, comma. destruct Hs as [-> | ->]; repeat (progress lr); reflexivity.
      * intros f. destruct Hs as [-> | ->]; cbn [gp Nat.eqb]; repeat (progress lr); reflexivity.
    + unfold Tp, k1, v1. ev. rewrite !string_roundtrip. ev. rewrite He2. reflexivity.
    + rewrite er_dict_set, Hp2. reflexivity.
Qed.

(* ---- arguments ---- *)
Definition aexp (a : sarg) : pval :=
  match a with SAVal _ v => pv v | SADict kv => match kv with [] => PList [] | _ => PDict (dexp kv) end end.
Definition actx (la : token) : Prop := t_kind la = KCOMMA \/ t_kind la = KRPAREN.
Lemma argval_ok (a : sarg) : forall i T0 st la rest, actx la ->
  exists n T e, (n + 4 <= 10 * length (tl (tl (tk_arg (nil, a)))))%nat /\
    reaches ((S_val, T0) :: st) (deco i (tl (tl (tk_arg (nil, a)))) ++ la :: rest) (((ge S_val), T) :: (S_val, T0) :: st) (la :: rest) n /\
    eval fs T = SOk (SExpr e) /\ erase_e e = PE (aexp a) 0%N.
Proof. intros i T0 st la rest H. destruct a as [isres v|kv]; cbn [tk_arg tl snd].
  - destruct (value_ok isres v S_val i T0 st la rest) as (n & T & e & A & B & C & D); [left; split; [reflexivity | exact H]|].
    exists n, T, e. auto.
  - destruct kv as [|p kv'].
    + exists 4%nat. destruct H as [H|H];
      (eexists; eexists; split; [cbn; lia | split; [intros f; repeat (progress (lr; rewrite ?H)); reflexivity | split; [ev; reflexivity | reflexivity]]]).
    + set (kv := p :: kv') in *. set (tj := tk_join (map tk_pair kv)).
      cbn [LrComplete.deco]. rewrite deco_app. cbn [LrComplete.deco app]. rewrite <- app_assoc. cbn [app].
      set (rb := mk (length tj + S i) (KRBRACK, [93%N])). set (lb := mk i (KLBRACK, [91%N])).
      destruct (pairs_ok kv ltac:(discriminate) S_lb (S i) (Leaf lb) ((S_val, T0) :: st) rb (la :: rest) (or_introl eq_refl) eq_refl)
        as (n & T & d & Hn & Hr & He & Hp).
      exists (1 + n + 4)%nat, (Br F_p_expression [Br F_p_list [Leaf lb; Br F_p_elements_tuple_pairs [T]; Leaf rb]]), (PE (PDict d) (L i)).
      split; [|split; [|split]].
      * cbn [length]. rewrite app_length. cbn [length]. fold tj in Hn. lia.
      * eapply reaches_trans; [eapply reaches_trans; [|exact Hr]|].
        -- intros f. unfold lb. repeat (progress lr). reflexivity.
        -- intros f. unfold rb. cbn [gp Nat.eqb]. destruct H as [H|H]; repeat (progress (lr; rewrite ?H)); reflexivity.
      * ev. rewrite He. reflexivity.
      * cbn [erase_e erase_v aexp]. unfold kv in *. fold er. rewrite Hp. reflexivity.
Qed.

Definition eqt : kl := (KEQUAL, [61%N]).
Definition arg_matches (x : text * sarg) (a : parg) : Prop := pa_name a = fst x /\ erase_e (pa_value a) = PE (aexp (snd x)) 0%N.
Lemma tk_arg_split x : tk_arg x = (KID, fst x) :: eqt :: tl (tl (tk_arg (nil, snd x))).
Proof. destruct x as [nm a]. reflexivity. Qed.
(* one argument, started in state 8 (after the opening parenthesis) or 16 (after `argument ,`) *)
Lemma arg_ok x : forall s i T0 st la rest, s = S_lp \/ s = S_ac -> actx la ->
  exists n T a, (n + 4 <= 10 * length (tk_arg x))%nat /\
    reaches ((s, T0) :: st) (deco i (tk_arg x) ++ la :: rest) ((S_arg, T) :: (s, T0) :: st) (la :: rest) n /\
    eval fs T = SOk (SArg a) /\ arg_matches x a.
Proof. intros s i T0 st la rest Hs H. rewrite tk_arg_split. cbn [LrComplete.deco app].
  set (nm := mk i (KID, fst x)). set (eqk := mk (S i) eqt).
  destruct (argval_ok (snd x) (S (S i)) (Leaf eqk) ((S_an, Leaf nm) :: (s, T0) :: st) la rest H) as (n & T & e & Hn & Hr & He & Hp).
  exists (2 + n + 1)%nat, (Br F_p_argument [Leaf nm; Leaf eqk; T]), {| pa_name := fst x; pa_value := e; pa_line := L i |}.
  split; [|split; [|split]].
  - cbn [length]. lia.
  - eapply reaches_trans; [eapply reaches_trans; [|exact Hr]|].
    + intros f. unfold nm, eqk, eqt. destruct Hs as [-> | ->]; repeat (progress lr); reflexivity.
    + intros f. destruct Hs as [-> | ->]; destruct H as [H|H]; repeat (progress (lr; rewrite ?H)); reflexivity.
  - unfold nm. ev. rewrite He. reflexivity.
  - split; [reflexivity | exact Hp].
Qed.
(* a non-empty argument list, followed by the closing parenthesis *)
Lemma args_ok : forall l, l <> [] -> forall s i T0 st rp rest, s = S_lp \/ s = S_ac -> t_kind rp = KRPAREN ->
  exists n T al, (n <= 10 * length (tk_join (map tk_arg l)))%nat /\
    reaches ((s, T0) :: st) (deco i (tk_join (map tk_arg l)) ++ rp :: rest) ((ga s, T) :: (s, T0) :: st) (rp :: rest) n /\
    eval fs T = SOk (SArgs al) /\ Forall2 arg_matches l al.
Proof. induction l as [|x l IH]; [congruence|]. intros _ s i T0 st rp rest Hs Hrp. destruct l as [|x2 l'].
  - cbn [map tk_join].
    destruct (arg_ok x s i T0 st rp rest Hs (or_intror Hrp)) as (n & T & a & Hn & Hr & He & Hm).
    exists (n + 1)%nat, (Br F_p_argument_list_argument [T]), [a]. split; [lia|]. split; [|split].
    + eapply reaches_trans; [exact Hr|]. intros f. destruct Hs as [-> | ->]; cbn [ga Nat.eqb]; repeat (progress (lr; rewrite ?Hrp)); reflexivity.
    + ev. rewrite He. reflexivity.
    + constructor; [exact Hm | constructor].
  - change (tk_join (map tk_arg (x :: x2 :: l'))) with (tk_arg x ++ comma :: tk_join (map tk_arg (x2 :: l'))).
    set (tj := tk_join (map tk_arg (x2 :: l'))) in *.
    rewrite deco_app. cbn [LrComplete.deco]. rewrite <- app_assoc. cbn [app].
    set (c := mk (length (tk_arg x) + i) comma).
    destruct (arg_ok x s i T0 st c (deco (S (length (tk_arg x) + i)) tj ++ rp :: rest) Hs (or_introl eq_refl)) as (n & T & a & Hn & Hr & He & Hm).
    destruct (IH ltac:(discriminate) S_ac (S (length (tk_arg x) + i)) (Leaf c) ((S_arg, T) :: (s, T0) :: st) rp rest (or_intror eq_refl) Hrp)
      as (n2 & T2 & al & Hn2 & Hr2 & He2 & Hm2).
    exists (n + 1 + n2 + 1)%nat, (Br F_p_argument_list [T; Leaf c; T2]), (a :: al). split; [|split; [|split]].
    + rewrite app_length. cbn [length]. lia.
    + eapply reaches_trans; [eapply reaches_trans; [eapply reaches_trans; [exact Hr|] | exact Hr2]|].
      * intros f. unfold c, comma. repeat (progress lr). reflexivity.
      * intros f. destruct Hs as [-> | ->]; cbn [ga Nat.eqb]; repeat (progress lr); reflexivity.
    + ev. rewrite He, He2. reflexivity.
    + constructor; assumption.
Qed.

(* ---- commands ---- *)
Definition cmd_matches (c : scmd) (x : pcmd) : Prop :=
  pc_result x = Some (sc_result c) /\ pc_cmd x = sc_name c /\ Forall2 arg_matches (sc_args c) (pc_args x).
(* what follows a command: the next command (an identifier) or the end of the input *)
Definition cfollow (rest : list token) : Prop := rest = [] \/ exists la r, rest = la :: r /\ t_kind la = KID.
Lemma command_ok c : forall s i T0 st rest, s = 0%nat \/ s = S_cmd -> cfollow rest ->
  exists n T x, (n + 4 <= 10 * length (tk_cmd c))%nat /\
    reaches ((s, T0) :: st) (deco i (tk_cmd c) ++ rest) ((S_cmd, T) :: (s, T0) :: st) rest n /\
    eval fs T = SOk (SCmd x false) /\ cmd_matches c x.
Proof. intros s i T0 st rest Hs Hf. unfold tk_cmd. cbn [LrComplete.deco app].
  set (r := mk i (KID, sc_result c)). set (e := mk (S i) (KEQUAL, [61%N])). set (nm := mk (S (S i)) (KID, sc_name c)).
  set (lp := mk (S (S (S i))) (KLPAREN, [40%N])).
  destruct (sc_args c) as [|x l'] eqn:EA.
  - cbn [map tk_join app LrComplete.deco]. set (rp := mk (S (S (S (S i)))) (KRPAREN, [41%N])).
    exists 7%nat, (Br F_p_command [Leaf r; Leaf e; Leaf nm; Br F_p_argument_empty [Leaf lp; Leaf rp]]),
      {| pc_result := Some (sc_result c); pc_cmd := sc_name c; pc_args := []; pc_line := L i |}.
    split; [cbn; lia|]. split; [|split].
    + intros f. unfold r, e, nm, lp, rp.
      destruct Hs as [-> | ->]; (destruct Hf as [-> | (la & r' & -> & Hla)]; repeat (progress (lr; rewrite ?Hla)); reflexivity).
    + reflexivity.
    + unfold cmd_matches. cbn [pc_result pc_cmd pc_args]. rewrite EA. repeat split. constructor.
  - set (l := x :: l') in *. set (tj := tk_join (map tk_arg l)).
    rewrite deco_app. cbn [LrComplete.deco]. rewrite <- app_assoc. cbn [app].
    set (rp := mk (length tj + S (S (S (S i)))) (KRPAREN, [41%N])).
    destruct (args_ok l ltac:(discriminate) S_lp (S (S (S (S i)))) (Leaf lp) ((S_name, Leaf nm) :: (S_eq, Leaf e) :: (S_res, Leaf r) :: (s, T0) :: st)
                rp rest (or_introl eq_refl) eq_refl) as (n & T & al & Hn & Hr & He & Hm).
    exists (4 + n + 3)%nat, (Br F_p_command [Leaf r; Leaf e; Leaf nm; Br F_p_arguments [Leaf lp; T; Leaf rp]]),
      {| pc_result := Some (sc_result c); pc_cmd := sc_name c; pc_args := al; pc_line := L i |}.
    split; [|split; [|split]].
    + cbn [length]. rewrite app_length. cbn [length]. fold tj in Hn. lia.
    + eapply reaches_trans; [eapply reaches_trans; [|exact Hr]|].
      * intros f. unfold r, e, nm, lp. destruct Hs as [-> | ->]; repeat (progress lr); reflexivity.
      * intros f. unfold rp. cbn [ga Nat.eqb].
        destruct Hs as [-> | ->]; (destruct Hf as [-> | (la & r' & -> & Hla)]; repeat (progress (lr; rewrite ?Hla)); reflexivity).
    + unfold r, nm. ev. rewrite He. reflexivity.
    + unfold cmd_matches. cbn [pc_result pc_cmd pc_args]. rewrite EA. repeat split. exact Hm.
Qed.

Lemma commands_ok : forall p, p <> [] -> forall s i T0 st, s = 0%nat \/ s = S_cmd ->
  exists n T cs, (n <= 10 * length (tk_program p))%nat /\
    reaches ((s, T0) :: st) (deco i (tk_program p)) ((gc s, T) :: (s, T0) :: st) [] n /\
    eval fs T = SOk (SCmds cs false) /\ Forall2 cmd_matches p cs.
Proof. induction p as [|c p IH]; [congruence|]. intros _ s i T0 st Hs. destruct p as [|c2 p'].
  - cbn [tk_program flat_map]. rewrite app_nil_r.
    destruct (command_ok c s i T0 st [] Hs (or_introl eq_refl)) as (n & T & x & Hn & Hr & He & Hm). rewrite app_nil_r in Hr.
    exists (n + 1)%nat, (Br F_p_commands_command [T]), [x]. split; [lia|]. split; [|split].
    + eapply reaches_trans; [exact Hr|]. intros f. destruct Hs as [-> | ->]; cbn [gc Nat.eqb]; repeat (progress lr); reflexivity.
    + ev. rewrite He. reflexivity.
    + constructor; [exact Hm | constructor].
  - change (tk_program (c :: c2 :: p')) with (tk_cmd c ++ tk_program (c2 :: p')). rewrite deco_app.
    destruct (command_ok c s i T0 st (deco (length (tk_cmd c) + i) (tk_program (c2 :: p'))) Hs) as (n & T & x & Hn & Hr & He & Hm).
    { right. cbn [tk_program flat_map tk_cmd app LrComplete.deco]. eexists. eexists. split; reflexivity. }
    destruct (IH ltac:(discriminate) S_cmd (length (tk_cmd c) + i)%nat T ((s, T0) :: st) (or_intror eq_refl)) as (n2 & T2 & cs & Hn2 & Hr2 & He2 & Hm2).
    exists (n + n2 + 1)%nat, (Br F_p_commands [T; T2]), (x :: cs). split; [|split; [|split]].
    + rewrite app_length. lia.
    + eapply reaches_trans; [eapply reaches_trans; [exact Hr | exact Hr2]|].
      intros f. destruct Hs as [-> | ->]; cbn [gc Nat.eqb]; repeat (progress lr); reflexivity.
    + ev. rewrite He, He2. reflexivity.
    + constructor; assumption.
Qed.

Lemma deco_length i l : length (deco i l) = length l.
Proof. revert i. induction l as [|x l IH]; intros i; [reflexivity | cbn [LrComplete.deco length]; rewrite IH; reflexivity]. Qed.

(* the LR driver accepts the token stream of every serialised program and the semantic actions rebuild the program *)
Theorem lr_complete p : p <> [] ->
  exists T pp, lr (deco 0 (tk_program p)) = Some T /\ eval fs T = SOk (SProg pp) /\ pp_version pp = 3%N /\ Forall2 cmd_matches p (pp_cmds pp).
Proof. intros Hp. destruct (commands_ok p Hp 0%nat 0%nat dummy_tree [] (or_introl eq_refl)) as (n & T & cs & Hn & Hr & He & Hm).
  exists (Br F_p_program [T]), {| pp_cmds := cs; pp_version := 3%N |}. split; [|split; [|split]].
  - unfold lr. rewrite deco_length.
    replace (S (64 * (4 + length (tk_program p)))) with (n + (2 + (S (64 * (4 + length (tk_program p))) - n - 2)))%nat by lia.
    rewrite Hr. cbn [gc Nat.eqb]. repeat (progress lr). reflexivity.
  - ev. rewrite He. reflexivity.
  - reflexivity.
  - exact Hm.
Qed.
End LR.
(* with distinct keys the dictionary holds the pairs in reverse order of writing (as the grammar action builds it) *)
Definition pexp (p : text * text) : text * pexpr := (fst p, PE (PStr (snd p)) 0%N).
Lemma dict_set_fresh d k e : ~ In k (map fst d) -> dict_set d k e = d ++ [(k, e)].
Proof. induction d as [|[k' e'] d IH]; intros H; [reflexivity|]. cbn [dict_set]. cbn [map fst In] in H.
  destruct (list_eq_dec N.eq_dec k k') as [->|N]; [exfalso; apply H; left; reflexivity|]. rewrite IH; [reflexivity | tauto]. Qed.
Lemma dexp_keys kv : forall k, In k (map fst (dexp kv)) -> In k (map fst kv).
Proof. induction kv as [|p kv IH]; intros k H; [exact H|]. destruct kv as [|p2 kv'].
  - cbn in *. exact H.
  - change (dexp (p :: p2 :: kv')) with (dict_set (dexp (p2 :: kv')) (fst p) (PE (PStr (snd p)) 0%N)) in H.
    assert (G : forall d k0 e k, In k (map fst (dict_set d k0 e)) -> k = k0 \/ In k (map fst d)).
    { clear. induction d as [|[k' e'] d IHd]; intros k0 e k H; cbn [dict_set] in H.
      - cbn in H. destruct H as [<-|[]]. left; reflexivity.
      - destruct (list_eq_dec N.eq_dec k0 k'); cbn [map fst In] in *; [right; exact H|]. destruct H as [H|H]; [right; left; exact H|].
        destruct (IHd _ _ _ H) as [->|H']; [left; reflexivity | right; right; exact H']. }
    destruct (G _ _ _ _ H) as [->|H']; [left; reflexivity | right; apply IH; exact H'].
Qed.
Lemma dexp_nodup kv : NoDup (map fst kv) -> dexp kv = rev (map pexp kv).
Proof. induction kv as [|p kv IH]; intros H; [reflexivity|]. inversion H as [|? ? Hn Hd]; subst. destruct kv as [|p2 kv'].
  - reflexivity.
  - change (dexp (p :: p2 :: kv')) with (dict_set (dexp (p2 :: kv')) (fst p) (PE (PStr (snd p)) 0%N)).
    rewrite dict_set_fresh; [|intros C; apply Hn, dexp_keys; exact C]. rewrite (IH Hd). reflexivity.
Qed.
