(* Soundness of the rejection: whenever the pre-pass reports a recursive model the reference graph really
   has a cycle.  With cycle_rejected this makes "rejected" and "has a cycle" equivalent for every program. *)
From Coq Require Import List Arith Bool Lia ListDec.
From MP Require Import Model.Sched Proofs.SchedProofs.
Import ListNotations.

Fixpoint linked (P : prog) (ns : list name) : Prop :=
  match ns with
  | a :: (b :: _) as t => edge P a b /\ linked P t
  | _ => True
  end.

Lemma linked_suffix P : forall l1 m, linked P (l1 ++ m) -> linked P m.
Proof. induction l1 as [|a l1 IH]; intros m H; [exact H|]. apply IH. simpl in H.
  destruct (l1 ++ m) as [|b t] eqn:E; [simpl; exact I | tauto]. Qed.

Lemma linked_prefix P : forall m l3, linked P (m ++ l3) -> linked P m.
Proof. induction m as [|a m IH]; intros l3 H; [exact I|]. destruct m as [|b m']; [exact I|].
  simpl in H. destruct H as [E H]. split; [exact E|]. apply (IH l3). exact H. Qed.

Lemma linked_chain P : forall l2 x y, linked P (x :: l2 ++ [y]) -> chain P x l2 y.
Proof. induction l2 as [|z l2 IH]; intros x y H; simpl in H.
  - simpl. tauto.
  - destruct H as [E H]. split; [exact E|]. apply IH. exact H. Qed.

Lemma repeat_split : forall l : list name, ~ NoDup l -> exists x l1 l2 l3, l = l1 ++ x :: l2 ++ x :: l3.
Proof. induction l as [|y t IH]; intros H; [exfalso; apply H; constructor|].
  destruct (in_dec Nat.eq_dec y t) as [Hin|Hn].
  - apply in_split in Hin. destruct Hin as [l2 [l3 ->]]. exists y, [], l2, l3. reflexivity.
  - destruct IH as [x [l1 [l2 [l3 ->]]]]; [intros ND; apply H; constructor; assumption|].
    exists x, (y :: l1), l2, l3. reflexivity. Qed.

Lemma peel_stuck_shape : forall fuel rem r, length rem <= fuel -> peel fuel rem = Some r ->
  r <> [] /\ filter (resolved r) r = [] /\ incl r rem.
Proof.
  induction fuel as [|f IH]; intros rem r Hl H.
  - destruct rem; [discriminate | simpl in Hl; lia].
  - destruct rem as [|c0 r0] eqn:E; [discriminate|]. rewrite <- E in *.
    assert (Hp : peel (S f) rem = match filter (resolved rem) rem with [] => Some rem | _ => peel f (filter (fun c => negb (resolved rem c)) rem) end).
    { rewrite E. reflexivity. }
    rewrite Hp in H. destruct (filter (resolved rem) rem) as [|a l] eqn:Ef.
    + injection H as <-. repeat split; [rewrite E; discriminate | exact Ef | apply incl_refl].
    + assert (Ha : In a (filter (resolved rem) rem)) by (rewrite Ef; left; reflexivity).
      apply filter_In in Ha. destruct Ha as [Ha Ra].
      assert (Hlt : length (filter (fun c => negb (resolved rem c)) rem) < length rem).
      { apply filter_length_lt with (x := a); [exact Ha | rewrite Ra; reflexivity]. }
      assert (Hle : length (filter (fun c => negb (resolved rem c)) rem) <= f) by lia.
      destruct (IH _ r Hle H) as [N [S' I']]. repeat split; auto.
      intros x Hx. apply I' in Hx. apply filter_In in Hx. tauto.
Qed.

Section Stuck.
Variables (P r : prog).
Hypothesis Hsub : incl r P.
Hypothesis Hst : filter (resolved r) r = [].

Lemma stuck_succ a : In a (names r) -> exists b, In b (names r) /\ edge P a b.
Proof. intros Ha. apply in_map_iff in Ha. destruct Ha as [c [<- Hc]].
  destruct (resolved r c) eqn:R.
  - assert (In c (filter (resolved r) r)) by (apply filter_In; auto). rewrite Hst in H. destruct H.
  - destruct (resolved_false _ _ R) as [d [Hd Hdn]]. exists d. split; [exact Hdn|]. exists c. auto. Qed.

Lemma long_path : forall k a, In a (names r) -> exists t, length t = k /\ linked P (a :: t) /\ incl t (names r).
Proof. induction k as [|k IH]; intros a Ha.
  - exists []. split; [reflexivity|]. split; [exact I | intros x []].
  - destruct (stuck_succ a Ha) as [b [Hb E]]. destruct (IH b Hb) as [t [L [K I']]].
    exists (b :: t). split; [simpl; lia|]. split; [split; [exact E | exact K]|].
    intros x [<-|Hx]; [exact Hb | apply I'; exact Hx]. Qed.
End Stuck.

Theorem rejection_sound P n : find_cycle P = Some n -> has_cycle P.
Proof.
  unfold find_cycle. destruct (peel (length P) P) as [r|] eqn:E; [|discriminate]. intros _.
  destruct (peel_stuck_shape _ _ _ (le_n _) E) as [N [St Sub]].
  destruct r as [|c t]; [congruence|].
  assert (Ha : In (nm c) (names (c :: t))) by (left; reflexivity).
  destruct (long_path P (c :: t) Sub St (length (names (c :: t))) (nm c) Ha) as [p [L [K I']]].
  assert (ND : ~ NoDup (nm c :: p)).
  { intros ND. assert (incl (nm c :: p) (names (c :: t))) by (intros x [<-|Hx]; [exact Ha | apply I'; exact Hx]).
    pose proof (NoDup_incl_length ND H). simpl in H0. simpl in L. lia. }
  destruct (repeat_split _ ND) as [x [l1 [l2 [l3 Eq]]]].
  exists x, l2. apply linked_chain. rewrite Eq in K.
  apply linked_suffix in K. replace (x :: l2 ++ x :: l3) with ((x :: l2 ++ [x]) ++ l3) in K
    by (simpl; rewrite <- app_assoc; reflexivity).
  apply linked_prefix in K. exact K.
Qed.

Theorem rejected_iff_cyclic P : (exists n, find_cycle P = Some n) <-> has_cycle P.
Proof. split; [intros [n H]; exact (rejection_sound P n H) | apply cycle_rejected]. Qed.

(* ... and the command the error names lies on a cycle itself: the walk through still-unresolved references
   can only stop at a command it has already visited. *)
Lemma lookup_None P n : lookup P n = None -> ~ In n (names P).
Proof. induction P as [|c P IH]; simpl; [tauto|]. destruct (Nat.eqb (nm c) n) eqn:E; [discriminate|].
  intros H [Hn|Hn]; [apply Nat.eqb_neq in E; contradiction | exact (IH H Hn)]. Qed.

Lemma NoDup_snoc (l : list name) a : NoDup l -> ~ In a l -> NoDup (l ++ [a]).
Proof. induction l as [|x l IH]; intros ND Ha; simpl; [constructor; [intros []|constructor]|].
  inversion ND as [|y l' Hx ND']; subst. constructor.
  - rewrite in_app_iff. intros [H|[H|[]]]; [contradiction | apply Ha; left; symmetry; exact H].
  - apply IH; [exact ND' | intros H; apply Ha; right; exact H]. Qed.

Lemma linked_snoc P b : forall l a, linked P (l ++ [a]) -> edge P a b -> linked P ((l ++ [a]) ++ [b]).
Proof. induction l as [|x l IH]; intros a H E; [simpl; tauto|].
  change (linked P (x :: ((l ++ [a]) ++ [b]))). change (linked P (x :: (l ++ [a]))) in H.
  destruct (l ++ [a]) as [|y t] eqn:El; [destruct l; discriminate|].
  destruct H as [Exy H]. split; [exact Exy|]. rewrite <- El in *. apply IH; assumption. Qed.

Section Walk.
Variables (P r : prog).
Hypothesis Hsub : incl r P.
Hypothesis Hst : filter (resolved r) r = [].

Lemma walk_on_cycle : forall fuel seen n,
  linked P (seen ++ [n]) -> NoDup seen -> incl seen (names r) -> In n (names r) ->
  length (names r) < fuel + length seen ->
  exists l, chain P (walk fuel r seen n) l (walk fuel r seen n).
Proof.
  induction fuel as [|f IH]; intros seen n L ND I' Hn Hf.
  - pose proof (NoDup_incl_length ND I'). simpl in Hf. lia.
  - cbn [walk]. destruct (mem n seen) eqn:M.
    + apply mem_In in M. apply in_split in M. destruct M as [s1 [s2 ->]].
      rewrite <- app_assoc in L. apply linked_suffix in L. exists s2. apply linked_chain. exact L.
    + assert (Hns : ~ In n seen) by (intros H; apply mem_In in H; congruence).
      destruct (lookup r n) as [c|] eqn:Lk; [|exfalso; exact (lookup_None _ _ Lk Hn)].
      apply lookup_In in Lk. destruct Lk as [Hc Ec].
      assert (R : resolved r c = false).
      { destruct (resolved r c) eqn:R; [|reflexivity].
        assert (H : In c (filter (resolved r) r)) by (apply filter_In; auto). rewrite Hst in H. destruct H. }
      destruct (resolved_false _ _ R) as [d [Hd Hdn]].
      destruct (filter (fun x => mem x (names r)) (refs c)) as [|x t] eqn:Ef.
      { assert (H : In d (filter (fun x => mem x (names r)) (refs c))) by (apply filter_In; split; [exact Hd | apply mem_In; exact Hdn]).
        rewrite Ef in H. destruct H. }
      assert (Hx : In x (filter (fun x => mem x (names r)) (refs c))) by (rewrite Ef; left; reflexivity).
      apply filter_In in Hx. destruct Hx as [Hxr Hxn]. apply mem_In in Hxn.
      apply IH.
      * apply linked_snoc; [exact L|]. exists c. repeat split; [apply Hsub; exact Hc | exact Ec | exact Hxr].
      * apply NoDup_snoc; assumption.
      * intros y Hy. apply in_app_iff in Hy. destruct Hy as [Hy|[<-|[]]]; [apply I'; exact Hy | exact Hn].
      * exact Hxn.
      * rewrite app_length. simpl. lia.
Qed.
End Walk.

Theorem reported_on_cycle P n : find_cycle P = Some n -> exists l, chain P n l n.
Proof.
  unfold find_cycle. destruct (peel (length P) P) as [r|] eqn:E; [|discriminate].
  destruct (peel_stuck_shape _ _ _ (le_n _) E) as [N [St Sub]].
  destruct r as [|c t]; [congruence|]. intros H.
  assert (Hn : walk (S (length (c :: t))) (c :: t) [] (nm c) = n) by congruence.
  rewrite <- Hn. apply (walk_on_cycle P (c :: t) Sub St).
  - exact I.
  - constructor.
  - intros x [].
  - left; reflexivity.
  - unfold names. rewrite map_length. simpl. lia.
Qed.

(* at run level: the recursive-model outcome can only come from the pre-pass, so a run that ends in it names a
   command on a cycle; pulling results never produces it *)
Section Run.
Variable V : Type.
Variable F : cmd -> list V -> V.

Lemma pull_list_not_recursive (pl : st V -> name -> outcome (st V * V)) :
  (forall s n m, pl s n <> ErrRecursive m) -> forall ns s m, pull_list pl s ns <> ErrRecursive m.
Proof. intros Hpl. induction ns as [|n t IH]; intros s m; simpl; [discriminate|].
  destruct (pl s n) as [[s1 v]| | |] eqn:E; try discriminate.
  - destruct (pull_list pl s1 t) as [[s2 vs]| | |] eqn:E2; try discriminate. intros H. injection H as ->. exact (IH _ _ E2).
  - intros H. injection H as ->. exact (Hpl _ _ _ E). Qed.

Lemma pull_not_recursive : forall fuel P s n m, pull F fuel P s n <> ErrRecursive m.
Proof. induction fuel as [|f IH]; intros P s n m; simpl; destruct (get s n); try discriminate.
  destruct (lookup P n) as [c|]; [|discriminate].
  destruct (pull_list (pull F f P) _ (refs c)) as [[s1 vs]| | |] eqn:E; try discriminate.
  intros H. injection H as ->. revert E. apply pull_list_not_recursive. intros s' n' m'. apply IH. Qed.

Lemma run_leaves_not_recursive fuel P : forall ls s m, run_leaves F fuel P s ls <> ErrRecursive m.
Proof. induction ls as [|c t IH]; intros s m; simpl; [discriminate|].
  destruct (pull F fuel P s (nm c)) as [[s1 v]| | |] eqn:E; try discriminate; [apply IH|].
  intros H. injection H as ->. exact (pull_not_recursive _ _ _ _ _ E). Qed.

Theorem recursive_outcome_sound P fuel s n :
  run_program F fuel P s = ErrRecursive n -> find_cycle P = Some n /\ exists l, chain P n l n.
Proof. unfold run_program. destruct (first_missing P P); [discriminate|].
  destruct (find_cycle P) as [k|] eqn:E.
  - intros H. injection H as ->. split; [reflexivity | apply reported_on_cycle; exact E].
  - intros H. exfalso. exact (run_leaves_not_recursive _ _ _ _ _ H). Qed.
End Run.
