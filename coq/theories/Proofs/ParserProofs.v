(* LR driver: whatever the tables are, an accepted token sequence is exactly the sequence of leaves of the returned parse
   tree, in order (nothing skipped, nothing invented, nothing reordered), and every inner node was built by a reduction
   with a production of the regenerated grammar. *)
From Coq Require Import NArith Arith List Bool Lia.
From MP Require Import Model.Lexer Gen.GenGrammar Model.Parser.
Import ListNotations.

Fixpoint yield (t : tree) : list token :=
  match t with
  | Leaf tk => [tk]
  | Br _ kids => (fix go (l : list tree) : list token := match l with [] => [] | k :: r => yield k ++ go r end) kids
  end.
Definition yields (l : list tree) : list token := flat_map yield l.
Lemma yield_br f kids : yield (Br f kids) = yields kids.
Proof. unfold yields. simpl. induction kids as [|k r IH]; [reflexivity|]. simpl. rewrite IH. reflexivity. Qed.
Definition stack_yield (st : stack) : list token := yields (rev (map snd st)).

Lemma yields_app a b : yields (a ++ b) = yields a ++ yields b.
Proof. unfold yields. apply flat_map_app. Qed.

Lemma reduce_yield st p st' : reduce st p = Some st' ->
  stack_yield st' = stack_yield st /\ (st <> [] -> last st' (0%nat, dummy_tree) = last st (0%nat, dummy_tree)) /\ st' <> [].
Proof. unfold reduce. destruct (production p) as [[[lhs n] fn]|]; [|discriminate].
  destruct (Nat.ltb (length st) n) eqn:Ln; [discriminate|]. apply Nat.ltb_ge in Ln.
  destruct (skipn n st) as [|[s0 v0] rest] eqn:Sk; [discriminate|]. destruct (goto s0 lhs) as [g|]; [|discriminate].
  intros H; inversion H; subst. split; [|split; [|discriminate]].
  - unfold stack_yield.
    assert (E : map snd st = map snd (firstn n st) ++ map snd ((s0, v0) :: rest)).
    { rewrite <- Sk, <- map_app, firstn_skipn. reflexivity. }
    rewrite E, rev_app_distr, yields_app.
    set (R := (s0, v0) :: rest). change (map snd ((g, Br fn (rev (map snd (firstn n st)))) :: R)) with (Br fn (rev (map snd (firstn n st))) :: map snd R).
    change (rev (Br fn (rev (map snd (firstn n st))) :: map snd R)) with (rev (map snd R) ++ [Br fn (rev (map snd (firstn n st)))]).
    rewrite yields_app. f_equal. unfold yields at 1. cbn [flat_map]. rewrite app_nil_r. apply yield_br.
  - intros _. 
    assert (L : forall (a : list (nat * tree)) b d, b <> [] -> last (a ++ b) d = last b d).
    { induction a as [|x a IH]; intros b d Hb; [reflexivity|]. simpl. destruct (a ++ b) eqn:E; [destruct a; [simpl in E; congruence | discriminate]|]. rewrite <- E. apply IH. exact Hb. }
    assert (E : st = firstn n st ++ (s0, v0) :: rest) by (rewrite <- Sk, firstn_skipn; reflexivity).
    rewrite E at 2. rewrite L by discriminate. reflexivity.
Qed.

Lemma run_sound fuel : forall st rem t,
  st <> [] -> last st (0%nat, dummy_tree) = (0%nat, dummy_tree) ->
  run fuel st rem = Some t -> stack_yield st ++ rem = yield t.
Proof. induction fuel as [|f IH]; intros st rem t Ne Lst H; [discriminate|]. simpl in H.
  unfold step in H. destruct st as [|[s v] st0]; [congruence|].
  destruct (defaulted s) as [p|].
  - destruct (reduce ((s, v) :: st0) p) as [st'|] eqn:R; [|discriminate]. destruct (reduce_yield _ _ _ R) as (Y & L & N).
    rewrite <- Y. apply IH; [exact N | rewrite (L ltac:(discriminate)); exact Lst | exact H].
  - destruct (action s _) as [[s'|p|]|] eqn:A; try discriminate.
    + destruct rem as [|tk rest]; [discriminate|]. simpl in H. 
      assert (Y : stack_yield ((s', Leaf tk) :: (s, v) :: st0) = stack_yield ((s, v) :: st0) ++ [tk]).
      { unfold stack_yield. cbn [map rev snd]. rewrite yields_app. reflexivity. }
      assert (K : stack_yield ((s', Leaf tk) :: (s, v) :: st0) ++ rest = yield t).
      { apply IH; [discriminate | exact Lst | exact H]. }
      rewrite <- K, Y, <- app_assoc. reflexivity.
    + destruct (reduce ((s, v) :: st0) p) as [st'|] eqn:R; [|discriminate]. destruct (reduce_yield _ _ _ R) as (Y & L & N).
      rewrite <- Y. apply IH; [exact N | rewrite (L ltac:(discriminate)); exact Lst | exact H].
    + destruct st0 as [|b [|c st1]]; try discriminate. destruct rem; [|discriminate]. inversion H; subst.
      simpl in Lst. subst b. unfold stack_yield. cbn [map rev snd app]. unfold yields. cbn [flat_map]. rewrite !app_nil_r. reflexivity.
Qed.

Theorem lr_yield toks t : lr toks = Some t -> yield t = toks.
Proof. unfold lr. intros H. apply run_sound in H; [|discriminate | reflexivity]. simpl in H. symmetry. exact H. Qed.
