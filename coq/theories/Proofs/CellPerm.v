(* C05 (second half): rearranging the cells of all inputs in the same way (a common permutation of the cell
   positions, together with any change of shape) rearranges the result identically. *)
From Coq Require Import QArith Qminmax Qabs List Bool ZArith Lia Lqa Permutation.
From MP Require Import Model.Cells Proofs.CellProofs.
Import ListNotations.
Open Scope Q_scope.

Definition permute {A} (d : A) (p : list nat) (l : list A) : list A := map (fun i => nth i l d) p.
(* the same cells at permuted positions, viewed with another shape *)
Definition rearr (p : list nat) (sh : list nat) (a : arr) : arr :=
  {| a_dt := a_dt a; a_shape := sh; a_cells := permute None p (a_cells a) |}.

(* ---------- permutations of positions ---------- *)
Lemma map_nth_seq {A} (d : A) (l : list A) : map (fun i => nth i l d) (seq 0 (length l)) = l.
Proof. apply nth_ext with (d := d) (d' := d).
  - rewrite map_length, seq_length. reflexivity.
  - intros n Hn. rewrite map_length, seq_length in Hn.
    rewrite (nth_indep _ d (nth (length l) l d)) by (rewrite map_length, seq_length; exact Hn).
    rewrite (map_nth (fun i => nth i l d) (seq 0 (length l)) (length l) n). rewrite seq_nth by exact Hn. reflexivity. Qed.
Lemma permute_perm {A} (d : A) p (l : list A) : Permutation p (seq 0 (length l)) -> Permutation (permute d p l) l.
Proof. intros H. unfold permute. eapply Permutation_trans; [apply Permutation_map; exact H|]. rewrite map_nth_seq. apply Permutation_refl. Qed.
Lemma perm_lt p n j : Permutation p (seq 0 n) -> In j p -> (j < n)%nat.
Proof. intros H Hj. apply (Permutation_in _ H) in Hj. apply in_seq in Hj. lia. Qed.
Lemma permute_length {A} (d : A) p l : length (permute d p l) = length p.
Proof. apply map_length. Qed.

(* ---------- statistics are symmetric functions of the valid cells ---------- *)
Lemma somes_perm l l' : Permutation l l' -> Permutation (somes l) (somes l').
Proof. unfold somes. induction 1; simpl; auto.
  - apply Permutation_app_head. assumption.
  - rewrite !app_assoc. apply Permutation_app_tail. apply Permutation_app_comm.
  - eapply Permutation_trans; eauto. Qed.
Lemma qsum_perm l l' : Permutation l l' -> qsum l == qsum l'.
Proof. induction 1; simpl; try lra. Qed.
Lemma qmean_perm l l' : Permutation l l' -> qmean l == qmean l'.
Proof. intros H. unfold qmean, qlen. rewrite (qsum_perm _ _ H), (Permutation_length H). reflexivity. Qed.
Lemma mean_of_perm l l' : Permutation l l' -> mean_of l = mean_of l'.
Proof. intros H. apply Qred_complete. apply qmean_perm. exact H. Qed.

Definition oeq (a b : option Q) : Prop := match a, b with Some x, Some y => x == y | None, None => True | _, _ => False end.
Lemma oeq_refl a : oeq a a. Proof. destruct a; simpl; auto. reflexivity. Qed.
Lemma oeq_trans a b c : oeq a b -> oeq b c -> oeq a c.
Proof. destruct a, b, c; simpl; try tauto. intros; etransitivity; eauto. Qed.
Lemma oeq_red a b : oeq a b -> option_map Qred a = option_map Qred b.
Proof. destruct a, b; simpl; try tauto. intros H. f_equal. apply Qred_complete. exact H. Qed.
Lemma qminl_cons x l l' : oeq (qminl l) (qminl l') -> oeq (qminl (x :: l)) (qminl (x :: l')).
Proof. simpl. destruct (qminl l), (qminl l'); simpl; try tauto; intros H; [rewrite H|]; reflexivity. Qed.
Lemma qmaxl_cons x l l' : oeq (qmaxl l) (qmaxl l') -> oeq (qmaxl (x :: l)) (qmaxl (x :: l')).
Proof. simpl. destruct (qmaxl l), (qmaxl l'); simpl; try tauto; intros H; [rewrite H|]; reflexivity. Qed.
Lemma qminl_perm l l' : Permutation l l' -> oeq (qminl l) (qminl l').
Proof. induction 1.
  - exact I.
  - apply qminl_cons. assumption.
  - simpl. destruct (qminl l); simpl.
    + rewrite !Q.min_assoc, (Q.min_comm y x). reflexivity.
    + apply Q.min_comm.
  - eapply oeq_trans; eauto. Qed.
Lemma qmaxl_perm l l' : Permutation l l' -> oeq (qmaxl l) (qmaxl l').
Proof. induction 1.
  - exact I.
  - apply qmaxl_cons. assumption.
  - simpl. destruct (qmaxl l); simpl.
    + rewrite !Q.max_assoc, (Q.max_comm y x). reflexivity.
    + apply Q.max_comm.
  - eapply oeq_trans; eauto. Qed.
Lemma lo_of_perm l l' : Permutation l l' -> lo_of l = lo_of l'.
Proof. intros H. apply oeq_red, qminl_perm, H. Qed.
Lemma hi_of_perm l l' : Permutation l l' -> hi_of l = hi_of l'.
Proof. intros H. apply oeq_red, qmaxl_perm, H. Qed.
Lemma filter_perm {A} (f : A -> bool) l l' : Permutation l l' -> Permutation (filter f l) (filter f l').
Proof. induction 1; simpl; auto.
  - destruct (f x); auto.
  - destruct (f x), (f y); auto. apply perm_swap.
  - eapply Permutation_trans; eauto. Qed.
Lemma perm_nil_iff {A} (l l' : list A) : Permutation l l' -> (l = [] <-> l' = []).
Proof. intros H. split; intros E; subst.
  - apply Permutation_nil. exact H.
  - apply Permutation_nil. apply Permutation_sym. exact H. Qed.

Lemma mtm_raws_perm iz n v v' : Permutation v v' -> mtm_raws iz n v = mtm_raws iz n v'.
Proof. intros H. unfold mtm_raws. rewrite (lo_of_perm _ _ H), (hi_of_perm _ _ H).
  destruct (lo_of v') as [lo|]; [|reflexivity]. destruct (hi_of v') as [hi|]; [|reflexivity].
  set (u := if iz then filter (fun x => negb (Qeq_bool x 0)) v else v).
  set (u' := if iz then filter (fun x => negb (Qeq_bool x 0)) v' else v').
  assert (Hu : Permutation u u'). { unfold u, u'. destruct iz; [apply filter_perm|]; exact H. }
  clearbody u u'. rewrite (mean_of_perm _ _ Hu).
  pose proof (filter_perm (fun x => Qle_bool x (mean_of u')) _ _ Hu) as Hb.
  pose proof (filter_perm (fun x => negb (Qle_bool x (mean_of u'))) _ _ Hu) as Ha.
  rewrite (mean_of_perm _ _ Hb), (mean_of_perm _ _ Ha).
  pose proof (perm_nil_iff _ _ Hu) as Nu. pose proof (perm_nil_iff _ _ Hb) as Nb. pose proof (perm_nil_iff _ _ Ha) as Na.
  destruct u as [|u0 us], u' as [|u0' us']; try reflexivity;
    try (exfalso; destruct Nu as [N1 N2]; (discriminate (N1 eq_refl) || discriminate (N2 eq_refl))).
  set (F1 := filter (fun x => negb (Qle_bool x (mean_of (u0' :: us')))) (u0 :: us)) in *.
  set (F1' := filter (fun x => negb (Qle_bool x (mean_of (u0' :: us')))) (u0' :: us')) in *.
  set (F2 := filter (fun x => Qle_bool x (mean_of (u0' :: us'))) (u0 :: us)) in *.
  set (F2' := filter (fun x => Qle_bool x (mean_of (u0' :: us'))) (u0' :: us')) in *.
  clearbody F1 F1' F2 F2'.
  destruct F1 as [|a1 r1], F1' as [|a1' r1']; try reflexivity;
    try (exfalso; destruct Na as [N1 N2]; (discriminate (N1 eq_refl) || discriminate (N2 eq_refl)));
  destruct F2 as [|b1 s1], F2' as [|b1' s1']; try reflexivity;
    try (exfalso; destruct Nb as [N1 N2]; (discriminate (N1 eq_refl) || discriminate (N2 eq_refl))).
Qed.

(* all that a command takes from the whole array *)
Definition stat_eq (v v' : list Q) : Prop :=
  lo_of v = lo_of v' /\ hi_of v = hi_of v' /\ mean_of v = mean_of v' /\ forall iz n, mtm_raws iz n v = mtm_raws iz n v'.
Lemma stat_eq_perm v v' : Permutation v v' -> stat_eq v v'.
Proof. intros H. repeat split; auto using lo_of_perm, hi_of_perm, mean_of_perm, mtm_raws_perm. Qed.

(* ---------- pre, odt, colf only look at the inputs through: their number, element types, shapes and stat_eq ---------- *)
Section Rearr.
Variables (p sh : list nat).
Let g := rearr p sh.

Lemma single_map ins : single (map g ins) = single ins.
Proof. destruct ins as [|a [|b t]]; reflexivity. Qed.
Lemma pair_map ins : pair_in (map g ins) = pair_in ins.
Proof. destruct ins as [|a [|b [|c t]]]; reflexivity. Qed.
Lemma weights_map ws ins : weights_ok ws (map g ins) = weights_ok ws ins.
Proof. unfold weights_ok. rewrite map_length. reflexivity. Qed.
Lemma shape_eqb_refl s : shape_eqb s s = true.
Proof. induction s; simpl; auto. rewrite Nat.eqb_refl. auto. Qed.
Lemma validate_map ins : validate_shapes ins = None -> validate_shapes (map g ins) = None.
Proof. destruct ins as [|a [|b t]]; simpl; try congruence. intros _. rewrite !shape_eqb_refl. simpl.
  replace (forallb _ (map g t)) with true; [reflexivity|]. symmetry. apply forallb_forall. intros x Hx.
  apply in_map_iff in Hx. destruct Hx as [y [<- _]]. apply shape_eqb_refl. Qed.
Lemma all_int_map ins : all_int (map g ins) = all_int ins.
Proof. unfold all_int. induction ins as [|a t IH]; simpl; [reflexivity|]. rewrite IH. reflexivity. Qed.
Lemma first_dt_map ins : first_dt (map g ins) = first_dt ins.
Proof. destruct ins; reflexivity. Qed.
Lemma odt_map c ins : odt c (map g ins) = odt c ins.
Proof. destruct c; simpl; unfold join_dt; rewrite ?all_int_map, ?first_dt_map; reflexivity. Qed.

(* the statistics of a one-input command *)
Hypothesis Hp : forall a, Permutation (permute None p (a_cells a)) (a_cells a).
Lemma vals_map ins : stat_eq (vals_of (map g ins)) (vals_of ins).
Proof. apply stat_eq_perm. destruct ins as [|a [|b t]]; simpl; try apply Permutation_refl. apply somes_perm, Hp. Qed.

Lemma pre_map c ins : pre c ins = None -> pre c (map g ins) = None.
Proof.
  pose proof (vals_map ins) as (S1 & S2 & S3 & S4).
  destruct c; unfold pre; intros H; split_pre;
  unfold need_minmax, mtm_checks, ctf_thresholds in *;
  rewrite ?single_map, ?pair_map, ?weights_map, ?map_length, ?S1, ?S2, ?S3, ?S4;
  repeat match goal with H : ?x = None |- context [?x] => rewrite H; simpl end;
  try reflexivity; try (apply validate_map; assumption); try assumption;
  rewrite validate_map by assumption; simpl; try reflexivity.
  destruct ins as [|a [|b t]]; simpl in *; try discriminate; reflexivity.
Qed.

Lemma colf_map c ins vs : colf c (map g ins) vs = colf c ins vs.
Proof.
  pose proof (vals_map ins) as (S1 & S2 & S3 & S4).
  destruct c; unfold colf, mtm_pts, ctf_thresholds; rewrite ?S1, ?S2, ?S3, ?S4; reflexivity.
Qed.
End Rearr.

(* ---------- columns of rearranged inputs ---------- *)
Lemma nth_permute {A} (d : A) p l i : (i < length p)%nat -> nth i (permute d p l) d = nth (nth i p 0%nat) l d.
Proof. intros H. unfold permute. rewrite (nth_indep _ d ((fun j => nth j l d) 0%nat)) by (rewrite map_length; exact H).
  apply (map_nth (fun j => nth j l d)). Qed.
Lemma cw_nth f ins j : (j < ncells ins)%nat -> nth j (cw f (cols_of ins)) None = cw_cell f (col_at ins j).
Proof. intros H. unfold cw, cols_of. rewrite map_map.
  rewrite (nth_indep _ None ((fun i => cw_cell f (col_at ins i)) 0%nat)) by (rewrite map_length, seq_length; exact H).
  rewrite (map_nth (fun i => cw_cell f (col_at ins i))). rewrite seq_nth by exact H. reflexivity. Qed.

Lemma map_via_seq {B} (h : nat -> B) (p : list nat) : map h p = map (fun i => h (nth i p 0%nat)) (seq 0 (length p)).
Proof. rewrite <- (map_map (fun i => nth i p 0%nat) h). rewrite map_nth_seq. reflexivity. Qed.

(* The rearrangement theorem.  [p] is any permutation of the cell positions 0..n-1 (the identity gives a pure
   reshape) and [sh] any new shape; all inputs have n cells. *)
Theorem run_rearr c ins p sh n r :
  Permutation p (seq 0 n) -> Forall (fun a => length (a_cells a) = n) ins ->
  run c ins = ROk r ->
  run c (map (rearr p sh) ins) = ROk {| a_dt := a_dt r; a_shape := sh; a_cells := permute None p (a_cells r) |}.
Proof.
  intros Hp Hn H. apply run_ok in H. destruct H as (Hpre & Hdt & _ & Hc).
  assert (HP : forall a, In a ins -> Permutation (permute None p (a_cells a)) (a_cells a)).
  { intros a Ha. apply permute_perm. rewrite Forall_forall in Hn. pose proof (Hn a Ha) as E. simpl in E. unfold cell in *. rewrite E. exact Hp. }
  (* the statistics hypothesis of the section is needed only for members of ins *)
  assert (Hne : ins <> []). { intros ->. destruct c; simpl in Hpre; try discriminate; unfold weights_ok in Hpre; simpl in Hpre; destruct (length ws); discriminate. }
  unfold run.
  assert (SV : stat_eq (vals_of (map (rearr p sh) ins)) (vals_of ins)).
  { apply stat_eq_perm. destruct ins as [|a [|b t]]; simpl; try apply Permutation_refl. apply somes_perm, HP. left. reflexivity. }
  assert (PRE : pre c (map (rearr p sh) ins) = None).
  { clear Hc Hdt. destruct SV as (S1 & S2 & S3 & S4).
    destruct c; unfold pre in *; split_pre;
    unfold need_minmax, mtm_checks, ctf_thresholds in *;
    rewrite ?single_map, ?pair_map, ?weights_map, ?map_length, ?S1, ?S2, ?S3, ?S4;
    repeat match goal with H : ?x = None |- context [?x] => rewrite H; simpl end;
    try reflexivity; try (apply validate_map; assumption); try assumption;
    rewrite validate_map by assumption; simpl; try reflexivity.
    destruct ins as [|a [|b t]]; simpl in *; try discriminate; reflexivity. }
  rewrite PRE. f_equal. rewrite odt_map, <- Hdt.
  assert (FS : first_shape (map (rearr p sh) ins) = sh). { destruct ins; [congruence | reflexivity]. }
  rewrite FS. f_equal.
  (* cells *)
  rewrite Hc. unfold permute at 1.
  assert (NC : ncells (map a_cells ins) = n).
  { destruct ins as [|a t]; [congruence|]. simpl. inversion Hn; subst. reflexivity. }
  assert (NC' : ncells (map a_cells (map (rearr p sh) ins)) = length p).
  { destruct ins as [|a t]; [congruence|]. simpl. apply permute_length. }
  assert (LP : length p = n). { rewrite (Permutation_length Hp). apply seq_length. }
  unfold cw at 1. unfold cols_of at 1. rewrite NC', map_map.
  etransitivity; [| symmetry; apply map_via_seq].
  apply map_ext_in. intros i Hi. apply in_seq in Hi. simpl in Hi.
  assert (Hj : (nth i p 0 < n)%nat). { eapply perm_lt; [exact Hp|]. apply nth_In. lia. }
  rewrite cw_nth by (rewrite NC; exact Hj).
  assert (CE : col_at (map a_cells (map (rearr p sh) ins)) i = col_at (map a_cells ins) (nth i p 0%nat)).
  { unfold col_at. rewrite !map_map. apply map_ext. intros a. simpl. apply nth_permute. lia. }
  rewrite CE. unfold cw_cell. destruct (all_some _) as [vs|]; [|reflexivity].
  destruct SV as (S1 & S2 & S3 & S4). f_equal.
  destruct c; unfold colf, mtm_pts, ctf_thresholds; rewrite ?S1, ?S2, ?S3, ?S4; reflexivity.
Qed.
