(* Top-level scheduler theorems: exactly-once, history, value equations and their unique solution,
   cycle rejection.  Assembled from Proofs/SchedProofs.v. *)
From Coq Require Import List Arith Lia Bool PeanoNat Permutation.
From MP Require Import Model.Sched Proofs.SchedProofs.
Import ListNotations.

Section Top.
Variable V : Type.
Variable F : cmd -> list V -> V.
Notation st := (st V).
Notation get := (@get V).
Notation fin := (@fin V).

Lemma find_cycle_None P : find_cycle P = None -> peel (length P) P = None.
Proof. unfold find_cycle. destruct (peel (length P) P) as [r|] eqn:E; [|reflexivity].
  pose proof (peel_Some_nonempty _ _ _ E). destruct r; [congruence | discriminate]. Qed.

(* the values a state assigns solve the graph's equations *)
Definition solves (P : prog) (g : name -> option V) : Prop :=
  forall c, In c P -> exists vs, Forall2 (fun d w => g d = Some w) (refs c) vs /\ g (nm c) = Some (F c vs).

Definition accepted (P : prog) : Prop := NoDup (names P) /\ first_missing P P = None /\ find_cycle P = None.

Theorem run_ok P fuel : accepted P -> length P < fuel ->
  exists s, run_program F fuel P (init V) = Ok s /\
    (forall n, In n (names P) -> fin s n = true /\ count_ev (Enter n) (trace s) = 1 /\ count_ev (Exit n) (trace s) = 1) /\
    (forall n, ~ In n (names P) -> count_ev (Enter n) (trace s) = 0 /\ count_ev (Exit n) (trace s) = 0) /\
    solves P (get s).
Proof.
  intros [ND [FM FC]] Hf. unfold run_program. rewrite FM, FC.
  destruct (prepass_rank P ND FM (find_cycle_None _ FC)) as [W RB].
  destruct (@run_all V F _ P fuel (init V) W) as [s [E [HI [_ Fin]]]].
  { intros n _. specialize (RB n). lia. }
  { apply InvG_init. }
  exists s. split; [exact E|]. split; [|split].
  - intros n Hn. specialize (Fin n Hn). split; [exact Fin|].
    pose proof (g_enter HI n) as A. pose proof (g_exit HI n) as B. rewrite Fin in A, B. simpl in A. auto.
  - intros n Hn. assert (Fn : fin s n = false).
    { unfold Sched.fin. destruct (get s n) as [v|] eqn:G; [|reflexivity]. exfalso. apply Hn. exact (g_known HI _ G). }
    pose proof (g_enter HI n) as A. pose proof (g_exit HI n) as B. rewrite Fn in A, B. simpl in A. auto.
  - intros c Hc. assert (Fc : fin s (nm c) = true) by (apply Fin, in_map, Hc).
    unfold Sched.fin in Fc. destruct (get s (nm c)) as [v|] eqn:G; [|discriminate].
    destruct (g_cons HI _ G (lookup_NoDup F P c (@wf_nodup _ _ W) Hc)) as [vs [F2 Ev]]. exists vs. split; [exact F2|]. congruence.
Qed.

(* running again, or reading any result again, executes nothing and changes nothing *)
Lemma apply_op_fixed P fuel (s : st) o : first_missing P P = None -> find_cycle P = None ->
  (forall n, In n (names P) -> fin s n = true) -> apply_op F fuel P s o = s.
Proof.
  intros FM FC Fin. destruct o as [|n]; simpl.
  - unfold run_program. rewrite FM, FC. rewrite run_leaves_finished; [reflexivity|].
    intros c Hc. apply Fin, in_map. apply filter_In in Hc. tauto.
  - destruct fuel as [|f]; simpl; destruct (get s n) as [v|] eqn:G; try reflexivity.
    destruct (lookup P n) as [c|] eqn:L; [|reflexivity]. exfalso.
    destruct (lookup_In _ _ L) as [Hc <-]. specialize (Fin (nm c) (in_map nm _ _ Hc)).
    unfold Sched.fin in Fin. rewrite G in Fin. discriminate.
Qed.

Theorem history_inert P fuel s : accepted P -> length P < fuel -> run_program F fuel P (init V) = Ok s ->
  forall ops, fold_left (apply_op F fuel P) ops s = s.
Proof.
  intros A Hf E ops. destruct (run_ok P fuel A Hf) as [s' [E' [Fin _]]]. rewrite E in E'. inversion E'; subst s'.
  destruct A as [_ [FM FC]]. induction ops as [|o ops IH]; simpl; [reflexivity|].
  rewrite apply_op_fixed; auto. intros n Hn. apply Fin. exact Hn.
Qed.

(* the equations of an acyclic graph have exactly one solution: results do not depend on anything else *)
Theorem solution_unique P rank g g' : wf_dag P rank -> solves P g -> solves P g' ->
  forall n, In n (names P) -> g n = g' n.
Proof.
  intros W S1 S2. assert (G : forall k n, rank n < k -> In n (names P) -> g n = g' n).
  { induction k as [|k IH]; intros n Hk Hn; [lia|].
    apply in_map_iff in Hn. destruct Hn as [c [<- Hc]].
    destruct (S1 c Hc) as [vs [F1 E1]]. destruct (S2 c Hc) as [vs' [F2 E2]]. rewrite E1, E2.
    assert (vs = vs'); [|congruence].
    assert (Hr : forall d, In d (refs c) -> g d = g' d).
    { intros d Hd. apply IH; [pose proof (wf_rank W _ _ Hc Hd); lia | eapply wf_refs; eauto]. }
    clear - F1 F2 Hr. revert vs' F2. induction F1 as [|d w ds ws Hdw _ IH1]; intros vs' F2; inversion F2; subst; [reflexivity|].
    f_equal.
    - rewrite (Hr d (or_introl eq_refl)) in Hdw. congruence.
    - apply IH1; [intros d' Hd'; apply Hr; right; exact Hd' | assumption]. }
  intros n Hn. apply (G (S (rank n))); [lia | exact Hn].
Qed.

Lemma solves_perm P P' g : Permutation P P' -> solves P g -> solves P' g.
Proof. intros Pm S c Hc. apply S. eapply Permutation_in; [apply Permutation_sym; exact Pm | exact Hc]. Qed.

(* file order is irrelevant: any permutation of the commands computes the same value for every command *)
Theorem order_irrelevant P P' fuel s s' : accepted P -> accepted P' -> Permutation P P' ->
  length P < fuel ->
  run_program F fuel P (init V) = Ok s -> run_program F fuel P' (init V) = Ok s' ->
  forall n, In n (names P) -> get s n = get s' n.
Proof.
  intros A A' Pm Hf E E'.
  destruct (run_ok P fuel A Hf) as [s1 [E1 [_ [_ S1]]]]. rewrite E in E1. inversion E1; subst s1.
  assert (Hf' : length P' < fuel) by (rewrite <- (Permutation_length Pm); exact Hf).
  destruct (run_ok P' fuel A' Hf') as [s2 [E2 [_ [_ S2]]]]. rewrite E' in E2. inversion E2; subst s2.
  destruct A as [ND [FM FC]]. destruct (prepass_rank P ND FM (find_cycle_None _ FC)) as [W _].
  apply (solution_unique P _ _ _ W S1). apply (solves_perm P' P); [apply Permutation_sym; exact Pm | exact S2].
Qed.

(* cycles *)
Theorem cyclic_rejected P fuel s : first_missing P P = None -> has_cycle P ->
  exists n, run_program F fuel P s = ErrRecursive n.
Proof. intros FM HC. destruct (cycle_rejected P HC) as [n E]. exists n. unfold run_program. rewrite FM, E. reflexivity. Qed.

Theorem acyclic_accepted P rank : wf_dag P rank -> find_cycle P = None.
Proof. intros W. unfold find_cycle. rewrite (peel_complete P rank W (length P) P); auto. Qed.

Theorem no_partial_success P fuel s : NoDup (names P) -> length P < fuel ->
  run_program F fuel P (init V) = Ok s -> forall n, In n (names P) -> fin s n = true.
Proof.
  intros ND Hf E. assert (A : accepted P).
  { unfold run_program in E. destruct (first_missing P P) eqn:FM; [discriminate|].
    destruct (find_cycle P) eqn:FC; [discriminate|]. repeat split; auto. }
  destruct (run_ok P fuel A Hf) as [s' [E' [Fin _]]]. rewrite E in E'. inversion E'; subst s'.
  intros n Hn. apply Fin. exact Hn.
Qed.
End Top.
