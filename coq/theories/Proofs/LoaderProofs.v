(* C12: a model is accepted exactly when it is well-formed; every rejection names a real fault. *)
From Coq Require Import String List Bool ZArith QArith Lia.
From MP Require Import Base.Sig Model.Params Proofs.ParamsProofs Model.Loader.
Import ListNotations.
Open Scope string_scope.

Definition is_ok (r : cres) : bool := match r with COk _ => true | CErr _ => false end.
Definition pytypes : list string := ["int"; "float"; "bool"; "str"; "list"; "dict"; "Command"; "type"; "ndarray"; "NoneType"; "tuple"].
(* the kind guard of StringParameter rejects exactly the containers *)
Definition string_guard_exact (F : pfacts) : bool :=
  forallb (fun t => Bool.eqb (mem_str t (string_rejects F)) (String.eqb t "list" || String.eqb t "dict" || String.eqb t "tuple")) pytypes.

Section K.
Variable F : pfacts.
Variable acc : list (string * string * bool).
Variable E : env.
Hypothesis GF : good_facts F = true.
Hypothesis SGE : string_guard_exact F = true.
Notation clean := (clean F acc E).
Notation kind_ok := (kind_ok acc E).

Lemma string_guard v : mem_str (pytype v) (string_rejects F) = negb (scalar_like v).
Proof. pose proof SGE as H. unfold string_guard_exact in H. rewrite forallb_forall in H.
  assert (K : In (pytype v) pytypes) by (destruct v; simpl; tauto).
  specialize (H _ K). apply eqb_prop in H. rewrite H. destruct v; reflexivity. Qed.

Lemma clean_list_ok f g l : (forall x, is_ok (f x) = g x) ->
  (match clean_list f l with inl _ => true | inr _ => false end) = forallb g l.
Proof. intros H. induction l as [|x t IH]; simpl; [reflexivity|]. rewrite <- (H x). destruct (f x); simpl; [|reflexivity].
  rewrite <- IH. destruct (clean_list f t); reflexivity. Qed.

(* the cleaner accepts a value exactly when the value has the declared kind *)
Theorem clean_ok_iff_kind_ok : forall p v, supported p = true -> is_ok (clean p v) = kind_ok p v.
Proof.
  destruct (gf_parts F GF) as (A & B & C & D & T & G & PT & NS).
  fix IH 1. intros p v S. destruct p as [| | | |me|out fz|item| | |keys|cls]; simpl in *.
  - reflexivity.
  - unfold clean_string. rewrite string_guard. destruct (scalar_like v); simpl; [destruct (text_of v)|]; reflexivity.
  - unfold clean_number. destruct v as [z|f t|b|s i fl|l|kv|n|t| | |]; simpl; rewrite ?A, ?B, ?C, ?D; try reflexivity.
    destruct i; [reflexivity|]. rewrite A. destruct fl; [reflexivity|]. rewrite C. reflexivity.
  - destruct v as [z|f t|b|s i fl|l|kv|n|t| | |]; simpl; try reflexivity.
    destruct (String.eqb (lower s) "true"); [reflexivity|]. destruct (String.eqb (lower s) "false"); [reflexivity|]. destruct i; reflexivity.
  - unfold clean_path. rewrite PT. destruct v as [z|f t|b|s i fl|l|kv|n|t| | |]; try reflexivity.
    destruct (starts_with_slash s).
    + destruct me; simpl; [|reflexivity]. destruct (path_exists E s); reflexivity.
    + destruct (wd E) as [d|]; [|reflexivity]. destruct me; simpl; [|reflexivity]. destruct (path_exists E (path_join d s)); reflexivity.
  - (* result *)
    unfold resolves. destruct v as [z|f t|b|s i fl|l|kv|n|t| | |]; try reflexivity.
    + destruct (find_cmd (cmds E) s) as [c|] eqn:Fc; [|reflexivity]. rewrite Fc.
      destruct fz as [[|]|]; destruct (ci_fuzzy c); simpl; try reflexivity;
      (destruct out as [o|]; [|reflexivity]; destruct (ci_finished c) as [r|];
       [rewrite <- (IH o r S); destruct (clean o r); reflexivity | destruct (ci_output c); [destruct (accepts _ _ _)|]; reflexivity]).
    + destruct (find_cmd (cmds E) n) as [c|] eqn:Fc; [|reflexivity]. rewrite Fc.
      destruct fz as [[|]|]; destruct (ci_fuzzy c); simpl; try reflexivity;
      (destruct out as [o|]; [|reflexivity]; destruct (ci_finished c) as [r|];
       [rewrite <- (IH o r S); destruct (clean o r); reflexivity | destruct (ci_output c); [destruct (accepts _ _ _)|]; reflexivity]).
  - destruct v; try reflexivity. rewrite <- (clean_list_ok (clean item) (kind_ok item) l (fun x => IH item x S)).
    destruct (clean_list (clean item) l); reflexivity.
  - destruct v as [z|f t|b|s i fl|l|kv|n|t| | |]; simpl; try reflexivity. destruct l; reflexivity.
  - destruct v; reflexivity.
  - unfold clean_datatype. rewrite T, G. destruct v as [z|f t|b|s i fl|l|kv|n|t| | |]; simpl; try reflexivity.
    + destruct (assoc_str keys s); reflexivity.
    + destruct (mem_str t (map snd keys)); reflexivity.
  - discriminate.
Qed.
End K.

(* ---------- loading ---------- *)
Section L.
Variable F : pfacts.
Variable acc : list (string * string * bool).
Variable sigs : list sig.
Hypothesis GF : good_facts F = true.
Hypothesis SGE : string_guard_exact F = true.
Hypothesis SUP : forallb (fun s => forallb (fun p => supported (p_kind p)) (s_inputs s)) sigs = true.

Definition static_ok (n : node) : bool :=
  match find_sig sigs (n_cmd n) with
  | None => false
  | Some s => forallb (fun r => mem_str r (given n)) (required s)
              && (s_extra s || forallb (fun a => mem_str (g_name a) (declared s)) (n_args n))
  end.

Lemma filter_nil_forallb {A} (f : A -> bool) l : filter (fun x => negb (f x)) l = [] <-> forallb f l = true.
Proof. induction l as [|x t IH]; simpl; [tauto|]. destruct (f x); simpl; [exact IH | split; discriminate]. Qed.
Lemma find_none_forallb {A} (f : A -> bool) l : find (fun x => negb (f x)) l = None <-> forallb f l = true.
Proof. induction l as [|x t IH]; simpl; [tauto|]. destruct (f x); simpl; [exact IH | split; discriminate]. Qed.

Lemma static_error_none seen n : static_error sigs seen n = None <-> static_ok n = true /\ mem_str (n_result n) seen = false.
Proof. unfold static_error, static_ok. destruct (find_sig sigs (n_cmd n)) as [s|]; [|split; [discriminate | intros [H _]; discriminate]].
  destruct (mem_str (n_result n) seen); [split; [discriminate | intros [_ H]; discriminate]|].
  destruct (filter _ (required s)) as [|m ms] eqn:Fm.
  - apply filter_nil_forallb in Fm. rewrite Fm. simpl. unfold first_undeclared. destruct (s_extra s); simpl; [tauto|].
    destruct (find _ (n_args n)) as [a|] eqn:Fa.
    + split; [discriminate|]. intros [H _]. apply find_none_forallb in H. congruence.
    + apply find_none_forallb in Fa. rewrite Fa. tauto.
  - split; [discriminate|]. intros [H _]. apply andb_true_iff in H. destruct H as [H _]. apply filter_nil_forallb in H. congruence. Qed.

Lemma load_none seen nodes : load sigs seen nodes = None <->
  forallb static_ok nodes = true /\ nodupb (map n_result nodes) = true /\ forallb (fun n => negb (mem_str (n_result n) seen)) nodes = true.
Proof. revert seen. induction nodes as [|n t IH]; intros seen; simpl; [tauto|].
  destruct (static_error sigs seen n) as [e|] eqn:Se.
  - split; [discriminate|]. intros (H1 & H2 & H3). apply andb_true_iff in H1, H3. destruct H1 as [H1 _], H3 as [H3 _].
    apply negb_true_iff in H3. assert (X : static_error sigs seen n = None) by (apply static_error_none; auto). congruence.
  - apply static_error_none in Se. destruct Se as [S1 S2]. rewrite S1, S2. simpl. rewrite (IH (n_result n :: seen)). simpl.
    split.
    + intros (H1 & H2 & H3). repeat split; auto.
      * apply andb_true_iff. split; [|exact H2]. apply negb_true_iff. clear - H3. induction t as [|m t IHt]; simpl in *; [reflexivity|].
        apply andb_true_iff in H3. destruct H3 as [A B]. rewrite (IHt B). destruct (String.eqb (n_result n) (n_result m)) eqn:E.
        -- apply String.eqb_eq in E. rewrite E, String.eqb_refl in A. discriminate.
        -- reflexivity.
      * clear - H3. induction t as [|m t IHt]; simpl in *; [reflexivity|]. apply andb_true_iff in H3. destruct H3 as [A B].
        rewrite (IHt B). destruct (String.eqb (n_result m) (n_result n)); simpl in *; [discriminate | rewrite A; reflexivity].
    + intros (H1 & H2 & H3). apply andb_true_iff in H2. destruct H2 as [H2 H2']. apply negb_true_iff in H2. repeat split; auto.
      clear - H2 H3. induction t as [|m t IHt]; simpl in *; [reflexivity|]. apply andb_true_iff in H3. destruct H3 as [A B].
      destruct (String.eqb (n_result n) (n_result m)) eqn:E; [discriminate|]. rewrite (IHt H2 B).
      rewrite String.eqb_sym, E. simpl. rewrite A. reflexivity.
Qed.

Lemma first_some_none {A B} (f : A -> option B) l : first_some f l = None <-> forall x, In x l -> f x = None.
Proof. induction l as [|x t IH]; simpl; [split; [intros _ y [] | reflexivity]|]. destruct (f x) eqn:E.
  - split; [discriminate|]. intros H. rewrite <- E. apply H. left; reflexivity.
  - rewrite IH. split; [intros H y [<-|Hy]; auto | intros H y Hy; apply H; right; exact Hy]. Qed.

Lemma find_param_supported s a p : In s sigs -> find_param (s_inputs s) (g_name a) = Some p -> supported (p_kind p) = true.
Proof. intros Hs Hp. rewrite forallb_forall in SUP. specialize (SUP s Hs). rewrite forallb_forall in SUP. apply SUP.
  clear - Hp. induction (s_inputs s) as [|q t IH]; simpl in *; [discriminate|]. destruct (String.eqb (p_name q) (g_name a)); [inversion Hp; auto | right; auto]. Qed.
Lemma find_sig_In_gen (l : list sig) n s : find_sig l n = Some s -> In s l.
Proof. induction l as [|q t IH]; simpl; [discriminate|]. destruct (String.eqb (s_name q) n); [intros H; inversion H; auto | auto]. Qed.
Lemma find_sig_In n s : find_sig sigs n = Some s -> In s sigs.
Proof. apply find_sig_In_gen. Qed.

(* THE THEOREM: accepted (no load-time error and no error from the validation pre-pass) iff well-formed *)
Theorem accepted_iff_wf wdir ex nodes :
  load_and_prepass F acc sigs wdir ex nodes = None <-> wf acc sigs wdir ex nodes = true.
Proof.
  unfold load_and_prepass, wf. set (E := env_of_nodes sigs wdir ex nodes).
  destruct (load sigs [] nodes) as [e|] eqn:L.
  - split; [discriminate|]. intros H. apply andb_true_iff in H. destruct H as [H1 H2].
    assert (X : load sigs [] nodes = None).
    { apply load_none. repeat split; auto.
      - rewrite forallb_forall in *. intros n Hn. specialize (H2 n Hn). unfold node_wf in H2. unfold static_ok.
        destruct (find_sig sigs (n_cmd n)); [|discriminate]. apply andb_true_iff in H2. tauto.
      - apply forallb_forall. reflexivity. }
    congruence.
  - apply load_none in L. destruct L as (L1 & L2 & _). rewrite L2. simpl. unfold prepass. rewrite first_some_none.
    rewrite forallb_forall. split.
    + intros H n Hn. specialize (H n Hn). rewrite forallb_forall in L1. specialize (L1 n Hn). unfold static_ok in L1. unfold node_wf, node_error in *.
      destruct (find_sig sigs (n_cmd n)) as [s|] eqn:Fs; [|discriminate]. rewrite L1. simpl.
      rewrite first_some_none in H. apply forallb_forall. intros a Ha. specialize (H a Ha). unfold arg_error in H.
      destruct (find_param (s_inputs s) (g_name a)) as [p|] eqn:Fp; [|reflexivity].
      rewrite <- (clean_ok_iff_kind_ok F acc E GF SGE (p_kind p) (g_value a) (find_param_supported s a p (find_sig_In _ _ Fs) Fp)).
      destruct (clean F acc E (p_kind p) (g_value a)); [reflexivity | discriminate].
    + intros H n Hn. specialize (H n Hn). unfold node_wf, node_error in *.
      destruct (find_sig sigs (n_cmd n)) as [s|] eqn:Fs; [|reflexivity]. apply andb_true_iff in H. destruct H as [_ H].
      rewrite first_some_none. intros a Ha. rewrite forallb_forall in H. specialize (H a Ha). unfold arg_error.
      destruct (find_param (s_inputs s) (g_name a)) as [p|] eqn:Fp; [|reflexivity].
      rewrite <- (clean_ok_iff_kind_ok F acc E GF SGE (p_kind p) (g_value a) (find_param_supported s a p (find_sig_In _ _ Fs) Fp)) in H.
      destruct (clean F acc E (p_kind p) (g_value a)); [reflexivity | discriminate].
Qed.

(* ---------- blame: the error names a real fault ---------- *)
Lemma first_some_some {A B} (f : A -> option B) l e : first_some f l = Some e -> exists x, In x l /\ f x = Some e.
Proof. induction l as [|x t IH]; simpl; [discriminate|]. destruct (f x) eqn:E.
  - intros H; inversion H; subst. exists x. auto.
  - intros H. destruct (IH H) as [y [Hy Ey]]. exists y. auto. Qed.
Lemma load_some seen nodes e : load sigs seen nodes = Some e ->
  exists pre n post, nodes = (pre ++ n :: post)%list /\ static_error sigs ((rev (map n_result pre) ++ seen)%list) n = Some e.
Proof. revert seen. induction nodes as [|n t IH]; intros seen; simpl; [discriminate|].
  destruct (static_error sigs seen n) as [e'|] eqn:Se.
  - intros H; inversion H; subst. exists [], n, t. split; [reflexivity | exact Se].
  - intros H. destruct (IH _ H) as (pre & m & post & -> & Sm). exists (n :: pre), m, post. split; [reflexivity|].
    simpl. rewrite <- app_assoc. exact Sm. Qed.

Theorem blame wdir ex nodes e : load_and_prepass F acc sigs wdir ex nodes = Some e ->
  match e with
  | LCommandDoesNotExist c l => exists n, In n nodes /\ n_cmd n = c /\ n_line n = l /\ find_sig sigs c = None
  | LDuplicateResult r l => exists pre n post, nodes = (pre ++ n :: post)%list /\ n_result n = r /\ n_line n = l /\ In r (map n_result pre)
  | LMissingParameters c miss l => exists n s, In n nodes /\ n_cmd n = c /\ n_line n = l /\ find_sig sigs c = Some s /\ miss <> [] /\
                                   forall m, In m miss <-> (In m (required s) /\ ~ In m (given n))
  | LNoSuchParameter c p l => exists n s a, In n nodes /\ n_cmd n = c /\ find_sig sigs c = Some s /\ In a (n_args n) /\ g_name a = p /\ g_line a = l /\
                              s_extra s = false /\ ~ In p (declared s)
  | LParam pe l => exists n s a p, In n nodes /\ find_sig sigs (n_cmd n) = Some s /\ In a (n_args n) /\ g_line a = l /\
                   find_param (s_inputs s) (g_name a) = Some p /\
                   clean F acc (env_of_nodes sigs wdir ex nodes) (p_kind p) (g_value a) = CErr pe
  end.
Proof.
  unfold load_and_prepass. destruct (load sigs [] nodes) as [e0|] eqn:L.
  - intros H; inversion H; subst e0. destruct (load_some _ _ _ L) as (pre & n & post & -> & Se). rewrite app_nil_r in Se.
    unfold static_error in Se. destruct (find_sig sigs (n_cmd n)) as [s|] eqn:Fs.
    + destruct (mem_str (n_result n) (rev (map n_result pre))) eqn:M.
      * inversion Se; subst. exists pre, n, post. repeat split; auto. apply mem_str_In in M. apply in_rev. exact M.
      * destruct (filter _ (required s)) as [|m ms] eqn:Fm.
        -- unfold first_undeclared in Se. destruct (s_extra s) eqn:X; [discriminate|]. destruct (find _ (n_args n)) as [a|] eqn:Fa; [|discriminate].
           inversion Se; subst. apply find_some in Fa. destruct Fa as [Ia Na]. exists n, s, a. repeat split; auto.
           ++ apply in_or_app. right. left. reflexivity.
           ++ apply negb_true_iff in Na. intros I. apply mem_str_In in I. congruence.
        -- inversion Se; subst. exists n, s. split; [apply in_or_app; right; left; reflexivity|].
           split; [reflexivity|]. split; [reflexivity|]. split; [exact Fs|]. split; [discriminate|].
           intros m0. rewrite <- Fm. rewrite filter_In. rewrite negb_true_iff. split; intros [I1 I2]; split; auto.
           ++ intros I. apply mem_str_In in I. congruence.
           ++ destruct (mem_str m0 (given n)) eqn:Q; [apply mem_str_In in Q; tauto | reflexivity].
    + inversion Se; subst. exists n. repeat split; auto. apply in_or_app. right. left. reflexivity.
  - intros H. unfold prepass in H. destruct (first_some_some _ _ _ H) as [n [Hn En]]. unfold node_error in En.
    destruct (find_sig sigs (n_cmd n)) as [s|] eqn:Fs; [|discriminate]. destruct (first_some_some _ _ _ En) as [a [Ha Ea]].
    unfold arg_error in Ea. destruct (find_param (s_inputs s) (g_name a)) as [p|] eqn:Fp; [|discriminate].
    destruct (clean _ _ _ (p_kind p) (g_value a)) as [c|pe] eqn:Cl; [discriminate|]. inversion Ea; subst.
    exists n, s, a, p. repeat split; auto.
Qed.
End L.
