From Coq Require Import String List Bool Arith Lia Permutation.
From MP Require Import Model.Registry.
Import ListNotations.
Open Scope string_scope.

Lemma entry_eqb_eq a b : entry_eqb a b = true <-> a = b.
Proof. destruct a as [a1 a2], b as [b1 b2]. unfold entry_eqb; simpl. rewrite andb_true_iff, !String.eqb_eq.
  split; [intros [-> ->]; reflexivity | intros H; inversion H; auto]. Qed.
Lemma mem_entry_In e l : mem_entry e l = true <-> In e l.
Proof. unfold mem_entry. rewrite existsb_exists. split.
  - intros [x [Hx E]]. apply entry_eqb_eq in E. subst; exact Hx.
  - intros H. exists e. split; [exact H | apply entry_eqb_eq; reflexivity]. Qed.

Lemma insert_In reg e x : In x (insert reg e) <-> In x reg \/ x = e.
Proof. unfold insert. destruct (mem_entry e reg) eqn:M.
  - apply mem_entry_In in M. split; [tauto | intros [H| ->]; assumption].
  - rewrite in_app_iff. simpl. split; [intros [H|[H|[]]]; auto | intros [H|H]; auto]. Qed.
Lemma insert_NoDup reg e : NoDup reg -> NoDup (insert reg e).
Proof. unfold insert. intros H. destruct (mem_entry e reg) eqn:M; [exact H|].
  apply NoDup_app_remove_l with (l := []) || idtac.
  assert (~ In e reg) by (intros Hin; apply mem_entry_In in Hin; congruence).
  clear M. induction reg as [|a reg IH]; simpl.
  - constructor; [tauto | constructor].
  - inversion H; subst. constructor.
    + rewrite in_app_iff. simpl. intros [Hx|[Hx|[]]]; [contradiction | subst; apply H0; left; reflexivity].
    + apply IH; [assumption | intros Hx; apply H0; right; exact Hx]. Qed.

Lemma fold_insert_In l reg x : In x (fold_left insert l reg) <-> In x reg \/ In x l.
Proof. revert reg. induction l as [|a l IH]; intros reg; simpl; [tauto|].
  rewrite IH, insert_In. split; [intros [[H|H]|H]; auto | intros [H|[H|H]]; auto]. Qed.
Lemma fold_insert_NoDup l reg : NoDup reg -> NoDup (fold_left insert l reg).
Proof. revert reg. induction l as [|a l IH]; intros reg H; simpl; [exact H|]. apply IH, insert_NoDup, H. Qed.

Section P.
Variable U : list entry.

(* every registered class is a class of the source files, or an ad-hoc one *)
Definition ev_entries (ev : event) : list entry :=
  match ev with EDefine e => [e] | EConstruct _ extra => extra end.
(* a history is consistent with the source files for the libraries finally requested: whatever it
   defines in a module belonging to a requested library is a class of the source files *)
Definition consistent (libs : list string) (h : list event) : Prop :=
  forall ev e, In ev h -> In e (ev_entries ev) -> selected MatchModuleOrSub libs e = true -> In e U.

Lemma run_In_aux libs h : consistent libs h -> forall reg,
  (forall e, In e reg -> selected MatchModuleOrSub libs e = true -> In e U) ->
  forall e, In e (fold_left (step U) h reg) -> selected MatchModuleOrSub libs e = true -> In e U.
Proof.
  induction h as [|ev h IH]; intros C reg Hreg e; simpl; [apply Hreg|].
  apply IH.
  - intros ev' e' Hev. apply C. right; exact Hev.
  - intros x Hx Sx. destruct ev as [d|ls extra]; simpl in Hx.
    + apply insert_In in Hx. destruct Hx as [Hx| ->]; [apply Hreg; assumption|].
      apply (C (EDefine d) d); [left; reflexivity | left; reflexivity | exact Sx].
    + unfold import_libs in Hx. apply fold_insert_In in Hx. destruct Hx as [Hx|Hx]; [apply Hreg; assumption|].
      apply in_app_iff in Hx. destruct Hx as [Hx|Hx]; [apply filter_In in Hx; tauto|].
      apply (C (EConstruct ls extra) x); [left; reflexivity | exact Hx | exact Sx].
Qed.

Lemma run_NoDup h : forall reg, NoDup reg -> NoDup (fold_left (step U) h reg).
Proof. induction h as [|ev h IH]; intros reg H; simpl; [exact H|]. apply IH.
  destruct ev; simpl; [apply insert_NoDup, H | apply fold_insert_NoDup, H]. Qed.

(* --- duplicates and lookup depend only on the set of entries --- *)
Definition dupP (l : list entry) : Prop := exists a b, In a l /\ In b l /\ a <> b /\ snd a = snd b.

Lemma two_le_length {A} (l : list A) a b : NoDup l -> In a l -> In b l -> a <> b -> 2 <= length l.
Proof. intros ND Ha Hb Hab. assert (H : incl [a; b] l) by (intros x [<-|[<-|[]]]; assumption).
  apply (NoDup_incl_length) in H; [exact H|]. constructor; [simpl; intros [E|[]]; congruence|]. constructor; [tauto|constructor]. Qed.

Lemma filter_two {A} (f : A -> bool) l : NoDup l ->
  (2 <= length (filter f l) <-> exists a b, In a l /\ In b l /\ a <> b /\ f a = true /\ f b = true).
Proof.
  intros ND. assert (NDf : NoDup (filter f l)) by (apply NoDup_filter, ND).
  split.
  - intros H. remember (filter f l) as fl eqn:E. destruct fl as [|a [|b r]]; simpl in H; [lia | lia |].
    assert (Ha : In a (filter f l)) by (rewrite <- E; left; reflexivity).
    assert (Hb : In b (filter f l)) by (rewrite <- E; right; left; reflexivity).
    apply filter_In in Ha. apply filter_In in Hb. destruct Ha as [Ha Fa], Hb as [Hb Fb].
    exists a, b. repeat split; auto. intros ->. inversion NDf; subst. apply H2. left; reflexivity.
  - intros [a [b [Ha [Hb [Hab [Ea Eb]]]]]]. apply (two_le_length _ a b NDf); [| |exact Hab];
    apply filter_In; split; auto.
Qed.

Lemma count2_spec n l : NoDup l ->
  (2 <= count_name n l <-> exists a b, In a l /\ In b l /\ a <> b /\ snd a = n /\ snd b = n).
Proof.
  intros ND. unfold count_name. rewrite (filter_two _ l ND). split; intros [a [b H]]; exists a, b;
  rewrite !String.eqb_eq in *; exact H.
Qed.

Lemma has_dup_spec l : NoDup l -> (has_dup l = true <-> dupP l).
Proof.
  intros ND. unfold has_dup, dupP. rewrite existsb_exists. split.
  - intros [e [He H]]. apply Nat.ltb_lt in H. apply (count2_spec (snd e) l ND) in H.
    destruct H as [a [b [Ha [Hb [Hab [Ea Eb]]]]]]. exists a, b. repeat split; auto. congruence.
  - intros [a [b [Ha [Hb [Hab E]]]]]. exists a. split; [exact Ha|]. apply Nat.ltb_lt.
    apply (count2_spec (snd a) l ND). exists a, b. repeat split; auto.
Qed.

Lemma has_dup_same_members l l' : NoDup l -> NoDup l' -> (forall e, In e l <-> In e l') -> has_dup l = has_dup l'.
Proof.
  intros N N' M. destruct (has_dup l) eqn:A, (has_dup l') eqn:B; try reflexivity.
  - apply (has_dup_spec l N) in A. destruct A as [a [b [Ha [Hb H]]]].
    assert (D : dupP l') by (exists a, b; rewrite <- !M; tauto). apply (has_dup_spec l' N') in D. congruence.
  - apply (has_dup_spec l' N') in B. destruct B as [a [b [Ha [Hb H]]]].
    assert (D : dupP l) by (exists a, b; rewrite !M; tauto). apply (has_dup_spec l N) in D. congruence.
Qed.

Lemma lookup_Some_In l n m : lookup l n = Some m -> In (m, n) l.
Proof. unfold lookup. match goal with |- context [find ?f (rev l)] => destruct (find f (rev l)) as [e|] eqn:F end; simpl; [|discriminate]. intros H; inversion H; subst.
  apply find_some in F. destruct F as [Hin E]. apply String.eqb_eq in E. subst. apply in_rev in Hin. destruct e; exact Hin. Qed.

Lemma lookup_In_Some l n m : NoDup l -> has_dup l = false -> In (m, n) l -> lookup l n = Some m.
Proof.
  intros ND HD Hin. unfold lookup. match goal with |- context [find ?f (rev l)] => destruct (find f (rev l)) as [e|] eqn:F end; simpl.
  - apply find_some in F. destruct F as [He E]. apply String.eqb_eq in E. apply in_rev in He.
    destruct (entry_eqb e (m, n)) eqn:Q; [apply entry_eqb_eq in Q; rewrite Q; reflexivity|].
    exfalso. assert (D : dupP l).
    { exists e, (m, n). repeat split; auto. intros ->. rewrite (proj2 (entry_eqb_eq _ _) eq_refl) in Q. discriminate. }
    apply (has_dup_spec l ND) in D. congruence.
  - exfalso. assert (Hr : In (m, n) (rev l)) by (apply in_rev; rewrite rev_involutive; exact Hin).
    pose proof (find_none _ _ F (m, n) Hr) as H. simpl in H. rewrite String.eqb_refl in H. discriminate.
Qed.

Lemma lookup_same_members l l' : NoDup l -> NoDup l' -> has_dup l = false -> has_dup l' = false ->
  (forall e, In e l <-> In e l') -> forall n, lookup l n = lookup l' n.
Proof.
  intros N N' D D' M n. destruct (lookup l n) as [m|] eqn:A.
  - symmetry. apply lookup_In_Some; auto. apply M. apply lookup_Some_In. exact A.
  - destruct (lookup l' n) as [m'|] eqn:B; [|reflexivity].
    apply lookup_Some_In in B. apply M in B. apply (lookup_In_Some l n m' N D) in B. congruence.
Qed.

Definition lib_equiv (a b : option (list entry)) : Prop :=
  match a, b with
  | None, None => True
  | Some x, Some y => forall n, lookup x n = lookup y n
  | _, _ => False
  end.

(* C19: whatever happened earlier in the process, Program(libraries=libs) sees exactly what the source
   files of the requested libraries define *)
Theorem construct_history_free h libs extra :
  NoDup U -> consistent libs (h ++ [EConstruct libs extra]) ->
  lib_equiv (construct U MatchModuleOrSub (run U h) libs extra) (spec U libs).
Proof.
  intros NU C. unfold construct, spec.
  set (reg' := import_libs U libs extra (run U h)).
  set (S := filter (selected MatchModuleOrSub libs) reg'). set (S' := filter (selected MatchModuleOrSub libs) U).
  assert (Nreg : NoDup reg') by (apply fold_insert_NoDup, run_NoDup; constructor).
  assert (NS : NoDup S) by (apply NoDup_filter, Nreg).
  assert (NS' : NoDup S') by (apply NoDup_filter, NU).
  assert (M : forall e, In e S <-> In e S').
  { intros e. unfold S, S'. rewrite !filter_In. split; intros [Hin Sel]; split; auto.
    - (* registered and selected -> a class of the source files *)
      assert (E : reg' = fold_left (step U) (h ++ [EConstruct libs extra]) []).
      { unfold reg', run. rewrite fold_left_app. reflexivity. }
      rewrite E in Hin. revert Hin Sel. apply (run_In_aux libs _ C []). intros x [].
    - (* a selected class of the source files is registered by the import *)
      unfold reg', import_libs. apply fold_insert_In. right. apply in_app_iff. left. apply filter_In. auto. }
  rewrite (has_dup_same_members S S' NS NS' M).
  destruct (has_dup S') eqn:D; simpl; [exact I|].
  apply lookup_same_members; auto. rewrite (has_dup_same_members S S' NS NS' M). exact D.
Qed.

(* two requested libraries defining the same command name: construction fails *)
Theorem construct_duplicate_fails h libs extra a b :
  NoDup U -> consistent libs (h ++ [EConstruct libs extra]) ->
  In a U -> In b U -> a <> b -> snd a = snd b ->
  selected MatchModuleOrSub libs a = true -> selected MatchModuleOrSub libs b = true ->
  construct U MatchModuleOrSub (run U h) libs extra = None.
Proof.
  intros NU C Ha Hb Hab E Sa Sb.
  pose proof (construct_history_free h libs extra NU C) as H. unfold spec in H.
  assert (D : has_dup (filter (selected MatchModuleOrSub libs) U) = true).
  { apply has_dup_spec; [apply NoDup_filter, NU|]. exists a, b. rewrite !filter_In. tauto. }
  rewrite D in H. destruct (construct U MatchModuleOrSub (run U h) libs extra); [contradiction|reflexivity].
Qed.
End P.
