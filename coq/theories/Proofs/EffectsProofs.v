(* Soundness of the static ownership check (Model/Effects.v): a body that passes the check leaves the observable
   part of every object that existed on entry unchanged, whatever the execution. *)
From Coq Require Import List Arith Bool Lia PeanoNat String.
From MP Require Import Model.Effects.
Import ListNotations.

Section Sound.
Variables Ob Hd : Type.
Variable inrange : Ob -> Prop.
Variable inloc : inp -> loc -> Prop.
Variable fz : inp -> bool.
Variable s0 : store Ob Hd.                        (* store on entry to the body *)
Notation obj := (obj Ob Hd).
Notation store := (store Ob Hd).
Notation exec := (exec Ob Hd inrange inloc).
Notation eval_rhs := (eval_rhs Ob Hd inloc).
Notation check := (check fz).
Definition old (l : loc) := exists o, s0 l = Some o.

(* concretisation: a bound variable denotes a new object or one of the inputs the analysis lists *)
Definition R (g : aenv) (c : store * env) : Prop :=
  let (s, e) := c in
  (forall l, old l -> exists o o0, s l = Some o /\ s0 l = Some o0 /\ ob _ _ o = ob _ _ o0) /\
  (forall x S l, aget g x = Some S -> e x = Some l -> ~ old l \/ exists i, In i S /\ inloc i l).

Hypothesis fz_inrange : forall i l o, fz i = true -> inloc i l -> s0 l = Some o -> inrange (ob _ _ o).

Lemma upd_same {A} f k (v : A) : upd f k v k = Some v. Proof. unfold upd. rewrite Nat.eqb_refl. reflexivity. Qed.
Lemma upd_other {A} f k (v : A) j : j <> k -> upd f k v j = f j.
Proof. unfold upd. intros. destruct (Nat.eqb j k) eqn:E; [apply Nat.eqb_eq in E; congruence|reflexivity]. Qed.
Lemma aget_aset g x s y : aget (aset g x s) y = if Nat.eqb x y then Some s else aget g y.
Proof. reflexivity. Qed.

Lemma R_fresh_store g s e l o : R g (s, e) -> s l = None -> R g (upd s l o, e).
Proof. intros [HA HB] Hl. split; [|exact HB]. intros l' Ho. destruct (HA l' Ho) as [o1 [o0 [E1 [E0 Eo]]]].
  exists o1, o0. repeat split; auto. rewrite upd_other; auto. congruence. Qed.

Lemma mayset_sound g ys S : mayset g ys = Some S -> forall y, In y ys -> exists Sy, aget g y = Some Sy /\ incl Sy S.
Proof. revert S. induction ys as [|z ys IH]; intros S H y Hy; [contradiction|]. simpl in H.
  destruct (aget g z) as [sz|] eqn:Ez; [|discriminate]. destruct (mayset g ys) as [a|] eqn:Ea; [|discriminate].
  inversion H; subst S; clear H. destruct Hy as [->|Hy].
  - exists sz. split; auto. apply incl_appl, incl_refl.
  - destruct (IH a eq_refl y Hy) as [Sy [E I]]. exists Sy. split; auto. apply incl_appr; exact I. Qed.

Definition implies (g1 g : aenv) := forall x S, aget g x = Some S -> exists S1, aget g1 x = Some S1 /\ incl S1 S.

Lemma R_weaken g1 g c : R g1 c -> implies g1 g -> R g c.
Proof. destruct c as [s e]. intros [HA HB] Hi. split; [exact HA|]. intros x S l Hx He.
  destruct (Hi x S Hx) as [S1 [E1 I1]]. destruct (HB x S1 l E1 He) as [Hn|[i [Hin El]]]; [left; exact Hn|].
  right. exists i. split; auto. Qed.

Lemma subset_incl a b : subset a b = true -> incl a b.
Proof. unfold subset. intros Hs i Hi. rewrite forallb_forall in Hs. specialize (Hs i Hi).
  apply existsb_exists in Hs. destruct Hs as [j [Hj E]]. apply Nat.eqb_eq in E. subst; auto. Qed.

Lemma aget_In g x S : aget g x = Some S -> In x (map fst g).
Proof. induction g as [|[y s] g IH]; simpl; [discriminate|]. destruct (Nat.eqb y x) eqn:E.
  - apply Nat.eqb_eq in E. auto. - auto. Qed.

Lemma ale_implies g1 g : ale g1 g = true -> implies g1 g.
Proof. unfold ale. intros Ha x S Hx. rewrite forallb_forall in Ha. specialize (Ha x (aget_In _ _ _ Hx)).
  rewrite Hx in Ha. destruct (aget g1 x) as [a|]; [|discriminate]. exists a. split; auto. apply subset_incl; exact Ha. Qed.

Lemma aget_flat_map (f : var -> list (var * list inp)) xs x S :
  (forall y p, In p (f y) -> fst p = y) ->
  aget (flat_map f xs) x = Some S -> exists p, In p (f x) /\ snd p = S.
Proof. intros Hf. induction xs as [|y xs IH]; simpl; [discriminate|].
  assert (Hgen : forall l rest, (forall p, In p l -> fst p = y) -> aget (l ++ rest) x = Some S ->
                 (exists p, In p l /\ fst p = x /\ snd p = S) \/ aget rest x = Some S).
  { induction l as [|[z sz] l IHl]; intros rest Hl Hg; simpl in *; [right; exact Hg|].
    destruct (Nat.eqb z x) eqn:E.
    - apply Nat.eqb_eq in E. inversion Hg; subst. left. exists (x,S). auto.
    - destruct (IHl rest (fun p Hp => Hl p (or_intror Hp)) Hg) as [[p [Hp [E1 E2]]]|Hr]; [left; exists p; auto|right; exact Hr]. }
  intros Hg. destruct (Hgen (f y) (flat_map f xs) (Hf y) Hg) as [[p [Hp [E1 E2]]]|Hr].
  - assert (y = x) by (rewrite <- E1; symmetry; apply Hf; exact Hp). subst y. exists p. auto.
  - apply IH; exact Hr. Qed.

Lemma join_implies_l g1 g2 : implies g1 (join g1 g2) /\ implies g2 (join g1 g2).
Proof. split; intros x S Hx; unfold join in Hx;
  apply aget_flat_map in Hx;
  try (intros y p Hp; destruct (aget g1 y), (aget g2 y); simpl in Hp; try contradiction; destruct Hp as [<-|[]]; reflexivity);
  destruct Hx as [p [Hp Es]]; destruct (aget g1 x) as [a|] eqn:E1; destruct (aget g2 x) as [b|] eqn:E2; simpl in Hp; try contradiction;
  destruct Hp as [<-|[]]; simpl in Es; subst S.
  - exists a. split; auto. apply incl_appl, incl_refl.
  - exists b. split; auto. apply incl_appr, incl_refl. Qed.

Theorem check_sound st : forall c c', exec st c c' -> forall g g', check st g = Some g' -> R g c -> R g' c'.
Proof.
  induction 1; intros g g' Hc HR.
  - (* skip *) inversion Hc; subst; exact HR.
  - (* bind *) destruct HR as [HA HB].
    assert (Hupd : forall S0 l0,
              (~ old l0 \/ exists i, In i S0 /\ inloc i l0) ->
              forall x0 S l1, aget (aset g x S0) x0 = Some S -> upd e x l0 x0 = Some l1 ->
              ~ old l1 \/ exists i, In i S /\ inloc i l1).
    { intros S0 l0 Hl0 x0 S l1 Hx He. rewrite aget_aset in Hx. unfold upd in He. rewrite Nat.eqb_sym in He.
      destruct (Nat.eqb x x0) eqn:E.
      - inversion He; subst l1. inversion Hx; subst S. exact Hl0.
      - eapply HB; eauto. }
    assert (Hnewloc : forall l0, s l0 = None -> ~ old l0).
    { intros l0 Hn Ho. destruct (HA l0 Ho) as [o1 [_ [E _]]]. congruence. }
    destruct r as [|y|ys is]; simpl in Hc.
    + inversion Hc; subst g'; clear Hc. inversion H as [l0 o0 Hnone | | | |]; subst.
      destruct (R_fresh_store g s e l o0 (conj HA HB) Hnone) as [HA' _]. split; [exact HA'|].
      apply Hupd. left. auto.
    + destruct (aget g y) as [sy|] eqn:Ey; [|discriminate]. inversion Hc; subst g'; clear Hc.
      inversion H as [| y0 l0 Hy | | |]; subst. split; [exact HA|]. apply Hupd. eapply HB; eauto.
    + destruct (mayset g ys) as [sm|] eqn:Em; [|discriminate]. inversion Hc; subst g'; clear Hc.
      inversion H as [| | ys0 is0 y0 l0 Hin Hy | ys0 is0 i0 l0 Hin Hl | ys0 is0 l0 o0 Hnone]; subst.
      * split; [exact HA|]. apply Hupd.
        destruct (mayset_sound g ys sm Em y0 Hin) as [Sy [Ey Iy]].
        destruct (HB y0 Sy l Ey Hy) as [Hn|[i [Hi El]]]; [left; exact Hn|right; exists i; split; auto].
        apply in_or_app. left. apply Iy. exact Hi.
      * split; [exact HA|]. apply Hupd. right. exists i0. split; [apply in_or_app; right; exact Hin | exact Hl].
      * destruct (R_fresh_store g s e l o0 (conj HA HB) Hnone) as [HA' _]. split; [exact HA'|].
        apply Hupd. left. auto.
  - (* arbitrary in-place write: target is certainly fresh *)
    simpl in Hc. destruct (aget g x) as [[|i t]|] eqn:Ex; try discriminate. inversion Hc; subst g'; clear Hc.
    destruct HR as [HA HB]. destruct (HB x [] l Ex H) as [Hn|[i [[] _]]].
    split; [|exact HB]. intros l' Ho. destruct (HA l' Ho) as [o1 [o0 [E1 [E0 Eo]]]]. exists o1, o0. repeat split; auto.
    rewrite upd_other; auto. intros ->. contradiction.
  - (* clamp on an in-range object: observable unchanged *)
    simpl in Hc. destruct (aget g x) as [S|] eqn:Ex; [|discriminate]. destruct (forallb fz S); [|discriminate].
    inversion Hc; subst g'; clear Hc. destruct HR as [HA HB]. split; [|exact HB].
    intros l' Ho. destruct (HA l' Ho) as [o1 [o0 [E1 [E0 Eo]]]].
    destruct (Nat.eq_dec l' l) as [->|Hne].
    + rewrite E1 in H0. inversion H0; subst o1. exists {| ob := ob _ _ o; hid := h' |}, o0. rewrite upd_same. repeat split; auto.
    + exists o1, o0. rewrite upd_other; auto.
  - (* clamp on an out-of-range object: must be fresh, because fuzzy inputs are in range *)
    simpl in Hc. destruct (aget g x) as [S|] eqn:Ex; [|discriminate]. destruct (forallb fz S) eqn:Fz; [|discriminate].
    inversion Hc; subst g'; clear Hc. destruct HR as [HA HB]. split; [|exact HB].
    intros l' Ho. destruct (HA l' Ho) as [o1 [o0 [E1 [E0 Eo]]]].
    destruct (Nat.eq_dec l' l) as [->|Hne]; [|exists o1, o0; rewrite upd_other; auto].
    exfalso. destruct (HB x S l Ex H) as [Hn|[i [Hi El]]]; [contradiction|].
    rewrite forallb_forall in Fz. specialize (Fz i Hi).
    rewrite E1 in H0. inversion H0; subst o1. apply H1. rewrite Eo. eapply fz_inrange; eauto.
  - (* seq *) simpl in Hc. destruct (check a g) as [g1|] eqn:E1; [|discriminate]. eauto.
  - (* if left *) simpl in Hc. destruct (check a g) as [g1|] eqn:E1; [|discriminate]. destruct (check b g) as [g2|] eqn:E2; [|discriminate].
    inversion Hc; subst g'. eapply R_weaken; [eapply IHexec; eauto|]. apply join_implies_l.
  - (* if right *) simpl in Hc. destruct (check a g) as [g1|] eqn:E1; [|discriminate]. destruct (check b g) as [g2|] eqn:E2; [|discriminate].
    inversion Hc; subst g'. eapply R_weaken; [eapply IHexec; eauto|]. apply join_implies_l.
  - (* loop, zero iterations *) simpl in Hc. destruct (check a g) as [g1|]; [|discriminate]. destruct (ale g1 g); [|discriminate]. inversion Hc; subst; exact HR.
  - (* loop, one more iteration *) pose proof Hc as Hc'. simpl in Hc. destruct (check a g) as [g1|] eqn:E1; [|discriminate].
    destruct (ale g1 g) eqn:Ea; [|discriminate]. inversion Hc; subst g'.
    apply (IHexec2 g g Hc'). eapply R_weaken; [eapply IHexec1; eauto|]. apply ale_implies; exact Ea.
Qed.

(* every object that existed on entry keeps its observable part; the body starts with no variable bound *)
Corollary body_preserves_observables st g' e s' e' :
  check st [] = Some g' -> exec st (s0, e) (s', e') ->
  forall l o0, s0 l = Some o0 -> exists o, s' l = Some o /\ ob _ _ o = ob _ _ o0.
Proof. intros Hc Hx l o0 Hl.
  assert (HR : R [] (s0, e)). { split; [|intros x S l0 Hx0; discriminate]. intros l0 [o Ho]. exists o, o. auto. }
  destruct (check_sound st _ _ Hx [] g' Hc HR) as [HA _].
  destruct (HA l (ex_intro _ o0 Hl)) as [o [o0' [E1 [E0 Eo]]]]. exists o. split; auto. congruence. Qed.

End Sound.
