(* Lexer: every token is a verbatim piece of the source at its recorded position; nothing but blanks, line breaks and
   comments lies between tokens; and a token's line is the true line of its position (C10, C11). *)
From Coq Require Import NArith List Bool Lia.
From MP Require Import Model.Lexer.
Import ListNotations.
Open Scope N_scope.

Ltac lsolve := repeat (rewrite <- ?app_assoc; simpl); reflexivity.
(* ---------- every scanner splits its input ---------- *)
Lemma span_split p s a b : span p s = (a, b) -> s = a ++ b /\ forallb p a = true.
Proof. revert a b. induction s as [|c t IH]; simpl; intros a b H.
  - inversion H. auto.
  - destruct (p c) eqn:E.
    + destruct (span p t) as [x y] eqn:S. destruct (IH x y eq_refl) as [Ht F]. inversion H; subst. simpl. rewrite E, F. auto.
    + inversion H. auto. Qed.
Lemma scan_id_split s a r : scan_id s = Some (a, r) -> s = a ++ r.
Proof. unfold scan_id. destruct s as [|c t]; [discriminate|]. destruct (is_alpha_ c); [|discriminate].
  destruct (span is_idc t) as [x y] eqn:S. intros H; inversion H; subst. apply span_split in S. destruct S as [-> _]. reflexivity. Qed.
Lemma digits1_split s a r : digits1 s = Some (a, r) -> s = a ++ r.
Proof. unfold digits1. destruct (span is_digit s) as [x y] eqn:S. destruct x; [discriminate|]. intros H; inversion H; subst.
  apply span_split in S. tauto. Qed.
Lemma opt_sign_split s a r : opt_sign s = (a, r) -> s = a ++ r.
Proof. unfold opt_sign. destruct s as [|c t]; [intros H; inversion H; reflexivity|]. destruct (is_sign c); intros H; inversion H; reflexivity. Qed.
Lemma scan_exp_split s a r : scan_exp s = (a, r) -> s = a ++ r.
Proof. unfold scan_exp. destruct s as [|c t]; [intros H; inversion H; reflexivity|].
  destruct ((c =? 101) || (c =? 69)); [|intros H; inversion H; reflexivity].
  destruct (opt_sign t) as [sg t1] eqn:O. destruct (digits1 t1) as [[d r']|] eqn:D; intros H; inversion H; subst; [|reflexivity].
  apply opt_sign_split in O. apply digits1_split in D. subst. lsolve. Qed.
Lemma scan_int_split s a r : scan_int s = Some (a, r) -> s = a ++ r.
Proof. unfold scan_int. destruct (opt_sign s) as [sg s1] eqn:O. destruct (digits1 s1) as [[d r']|] eqn:D; [|discriminate].
  intros H; inversion H; subst. apply opt_sign_split in O. apply digits1_split in D. subst. lsolve. Qed.
Lemma starts_dot_split s r : starts_dot s = Some r -> s = 46 :: r.
Proof. unfold starts_dot. destruct s as [|c t]; [discriminate|]. destruct (c =? 46) eqn:E; [|discriminate]. apply N.eqb_eq in E. intros H; inversion H; subst. reflexivity. Qed.
Lemma scan_float_split s a r : scan_float s = Some (a, r) -> s = a ++ r.
Proof. unfold scan_float. destruct (opt_sign s) as [sg s1] eqn:O. apply opt_sign_split in O. subst s.
  destruct (digits1 s1) as [[d rest]|] eqn:D.
  - apply digits1_split in D. subst s1. destruct (starts_dot rest) as [r0|] eqn:SD; [|discriminate]. apply starts_dot_split in SD. subst rest.
    destruct (span is_digit r0) as [f r'] eqn:S. apply span_split in S. destruct S as [-> _].
    destruct (scan_exp r') as [e r''] eqn:X. apply scan_exp_split in X. subst r'. intros H; inversion H; subst.
    lsolve.
  - destruct (starts_dot s1) as [r0|] eqn:SD; [|discriminate]. apply starts_dot_split in SD. subst s1.
    destruct (digits1 r0) as [[f r']|] eqn:D2; [|discriminate]. apply digits1_split in D2. subst r0.
    destruct (scan_exp r') as [e r''] eqn:X. apply scan_exp_split in X. subst r'. intros H; inversion H; subst.
    lsolve. Qed.
Lemma scan_str_body_split_n q n : forall s a r, (length s <= n)%nat -> scan_str_body q s = Some (a, r) -> s = a ++ r.
Proof. induction n as [|n IH]; intros s a r L.
  - destruct s; [discriminate | simpl in L; lia].
  - destruct s as [|c t]; [discriminate|]. simpl. destruct (c =? q); [intros H; inversion H; reflexivity|].
    destruct (c =? 92).
    + destruct t as [|d t']; [discriminate|]. destruct (d =? 10); [discriminate|].
      destruct (scan_str_body q t') as [[x y]|] eqn:S; [|discriminate]. intros H; inversion H; subst.
      rewrite (IH t' x r ltac:(simpl in L; lia) S). reflexivity.
    + destruct (scan_str_body q t) as [[x y]|] eqn:S; [|discriminate]. intros H; inversion H; subst.
      rewrite (IH t x r ltac:(simpl in L; lia) S). reflexivity. Qed.
Lemma scan_str_body_split q s a r : scan_str_body q s = Some (a, r) -> s = a ++ r.
Proof. apply (scan_str_body_split_n q (length s)). lia. Qed.
Lemma scan_string_split s a r : scan_string s = Some (a, r) -> s = a ++ r.
Proof. unfold scan_string. destruct s as [|c t]; [discriminate|]. destruct ((c =? 34) || (c =? 39)); [|discriminate].
  destruct (scan_str_body c t) as [[x y]|] eqn:S; [|discriminate]. intros H; inversion H; subst. apply scan_str_body_split in S. subst. reflexivity. Qed.
Lemma scan_plain_split s a r : scan_plain s = Some (a, r) -> s = a ++ r.
Proof. unfold scan_plain. destruct (span is_plainc s) as [x y] eqn:S. destruct x; [discriminate|]. intros H; inversion H; subst. apply span_split in S. tauto. Qed.

(* what lex1 returns splits the text: skipped blanks, then the lexeme or the skipped run, then the rest *)
Lemma lex1_split s ign r : lex1 s = (ign, r) ->
  forallb is_ign ign = true /\
  match r with
  | LTok k a rest => s = ign ++ a ++ rest /\ a <> []
  | LSkip a rest => s = ign ++ a ++ rest /\ a <> []
  | LEnd => s = ign
  | LErr => True
  end.
Proof. unfold lex1. destruct (span is_ign s) as [g s'] eqn:S. apply span_split in S. destruct S as [-> F]. intros H. inversion H; subst. split; [exact F|]. clear H.
  destruct s' as [|c t]; [rewrite app_nil_r; reflexivity|].
  destruct (scan_id (c :: t)) as [[a r0]|] eqn:E1.
  { pose proof (scan_id_split _ _ _ E1) as ->. split; [reflexivity|]. unfold scan_id in E1. destruct (is_alpha_ c); [|discriminate]. destruct (span is_idc t); inversion E1; discriminate. }
  destruct (scan_float (c :: t)) as [[a r0]|] eqn:E2.
  { pose proof (scan_float_split _ _ _ E2) as Hs. rewrite Hs. split; [reflexivity|]. intros ->. simpl in Hs. subst r0.
    clear - E2. unfold scan_float in E2. destruct (opt_sign (c :: t)) as [sg s1]. destruct (digits1 s1) as [[d rest]|].
    - destruct (starts_dot rest); [|discriminate]. destruct (span is_digit t0). destruct (scan_exp t2). inversion E2. destruct sg, d; discriminate.
    - destruct (starts_dot s1); [|discriminate]. destruct (digits1 t0) as [[f r']|]; [|discriminate]. destruct (scan_exp r'). inversion E2. destruct sg; discriminate. }
  destruct (scan_int (c :: t)) as [[a r0]|] eqn:E3.
  { pose proof (scan_int_split _ _ _ E3) as Hs. rewrite Hs. split; [reflexivity|]. intros ->.
    clear - E3. unfold scan_int in E3. destruct (opt_sign (c :: t)) as [sg s1]. unfold digits1 in E3. destruct (span is_digit s1) as [x y]. destruct x; [discriminate|]. inversion E3. destruct sg; discriminate. }
  destruct (scan_string (c :: t)) as [[a r0]|] eqn:E4.
  { pose proof (scan_string_split _ _ _ E4) as Hs. rewrite Hs. split; [reflexivity|]. intros ->.
    clear - E4. unfold scan_string in E4. destruct ((c =? 34) || (c =? 39)); [|discriminate]. destruct (scan_str_body c t) as [[x y]|]; inversion E4. }
  destruct (span is_nl (c :: t)) as [a r0] eqn:E5. pose proof (span_split _ _ _ _ E5) as [Hs _].
  destruct a as [|a0 a'].
  2:{ rewrite Hs. split; [reflexivity | discriminate]. }
  destruct (scan_plain (c :: t)) as [[a r1]|] eqn:E6.
  { pose proof (scan_plain_split _ _ _ E6) as Hp. rewrite Hp. split; [reflexivity|]. intros ->.
    clear - E6. unfold scan_plain in E6. destruct (span is_plainc (c :: t)) as [x y]. destruct x; inversion E6. }
  destruct (c =? 35) eqn:E7.
  { destruct (span (fun d => negb (d =? 10)) (c :: t)) as [a r1] eqn:E8. pose proof (span_split _ _ _ _ E8) as [Hc _]. rewrite Hc. split; [reflexivity|].
    intros ->. simpl in E8. apply N.eqb_eq in E7. subst c. simpl in E8. destruct (span _ t); inversion E8. }
  destruct (punct c) as [k|]; [|exact I]. simpl. split; [reflexivity | discriminate].
Qed.

(* ---------- positions: every token is the piece of the source at its position ---------- *)
Fixpoint toks_in (s : text) (toks : list token) : Prop :=
  match toks with
  | [] => True
  | t :: r => firstn (length (t_lexeme t)) (skipn (t_pos t) s) = t_lexeme t /\ t_lexeme t <> [] /\ toks_in s r
  end.
Lemma skipn_app_exact {A} (a b : list A) : skipn (length a) (a ++ b) = b.
Proof. induction a; simpl; auto. Qed.
Lemma firstn_app_exact {A} (a b : list A) : firstn (length a) (a ++ b) = a.
Proof. induction a; simpl; [reflexivity | f_equal; assumption]. Qed.

Lemma lex_positions fuel : forall line pre s toks,
  (lex fuel line (length pre) s = LexOk toks \/ exists e, lex fuel line (length pre) s = LexError toks e) -> toks_in (pre ++ s) toks.
Proof. induction fuel as [|f IH]; intros line pre s toks H; simpl in H.
  - destruct H as [H|[e H]]; inversion H; exact I.
  - destruct (lex1 s) as [ign r] eqn:L. pose proof (lex1_split _ _ _ L) as [_ Sp]. destruct r as [k a rest|a rest| |].
    + destruct Sp as [-> Na].
      assert (P : (length pre + length ign + length a)%nat = length ((pre ++ ign) ++ a)) by (rewrite !app_length; lia).
      rewrite P in H.
      destruct (lex f _ (length ((pre ++ ign) ++ a)) rest) as [l|l e0] eqn:R.
      * destruct H as [H|[e H]]; inversion H; subst. simpl. split; [|split; [exact Na|]].
        -- replace (length pre + length ign)%nat with (length (pre ++ ign)) by (rewrite app_length; reflexivity).
           rewrite (app_assoc pre ign), skipn_app_exact. apply firstn_app_exact.
        -- replace (pre ++ ign ++ a ++ rest) with (((pre ++ ign) ++ a) ++ rest) by (rewrite <- !app_assoc; reflexivity). eapply IH. left. eassumption.
      * destruct H as [H|[e H]]; inversion H; subst. simpl. split; [|split; [exact Na|]].
        -- replace (length pre + length ign)%nat with (length (pre ++ ign)) by (rewrite app_length; reflexivity).
           rewrite (app_assoc pre ign), skipn_app_exact. apply firstn_app_exact.
        -- replace (pre ++ ign ++ a ++ rest) with (((pre ++ ign) ++ a) ++ rest) by (rewrite <- !app_assoc; reflexivity). eapply IH. right. eexists. eassumption.
    + destruct Sp as [-> Na].
      assert (P : (length pre + length ign + length a)%nat = length ((pre ++ ign) ++ a)) by (rewrite !app_length; lia).
      rewrite P in H. replace (pre ++ ign ++ a ++ rest) with (((pre ++ ign) ++ a) ++ rest) by (rewrite <- !app_assoc; reflexivity). eapply IH. exact H.
    + destruct H as [H|[e H]]; inversion H; exact I.
    + destruct H as [H|[e H]]; inversion H; exact I.
Qed.

Theorem tokens_are_source_pieces s toks : lex_all s = LexOk toks -> toks_in s toks.
Proof. intros H. apply (lex_positions (S (length s)) 1 [] s toks). left. exact H. Qed.

(* ---------- line numbers ---------- *)
Fixpoint count_lf (s : text) : N := match s with [] => 0 | c :: t => (if c =? 10 then 1 else 0) + count_lf t end.
(* the text uses LF or CRLF line ends: every CR is immediately followed by LF *)
Fixpoint crlfb (s : text) : bool :=
  match s with [] => true | c :: t => (if c =? 13 then match t with d :: _ => d =? 10 | [] => false end else true) && crlfb t end.

Lemma count_lf_app a b : count_lf (a ++ b) = count_lf a + count_lf b.
Proof. induction a as [|c t IH]; simpl; [reflexivity|]. rewrite IH. lia. Qed.
Lemma count_lf_none p a : (forall c, p c = true -> c <> 10) -> forallb p a = true -> count_lf a = 0.
Proof. intros Hp. induction a as [|c t IH]; simpl; intros H; [reflexivity|]. apply andb_true_iff in H. destruct H as [Hc Ht].
  destruct (c =? 10) eqn:E; [apply N.eqb_eq in E; exfalso; apply (Hp c Hc E)|]. rewrite (IH Ht). reflexivity. Qed.
Lemma crlfb_suffix a b : crlfb (a ++ b) = true -> crlfb b = true.
Proof. induction a as [|c t IH]; simpl; [auto|]. intros H. apply andb_true_iff in H. tauto. Qed.
Lemma crlfb_prefix a b : crlfb (a ++ b) = true -> last a 0 <> 13 -> crlfb a = true.
Proof. induction a as [|c t IH]; simpl; [auto|]. intros H L. apply andb_true_iff in H. destruct H as [H1 H2].
  destruct t as [|d t'].
  - simpl in *. destruct (c =? 13) eqn:E; [apply N.eqb_eq in E; congruence | reflexivity].
  - rewrite (IH H2 L), andb_true_r. simpl in H1. exact H1. Qed.
Lemma breaks_count_n n : forall s, (length s <= n)%nat -> crlfb s = true -> breaks s = count_lf s.
Proof. induction n as [|n IH]; intros s L H.
  - destruct s; [reflexivity | simpl in L; lia].
  - destruct s as [|c t]; [reflexivity|]. simpl in H. apply andb_true_iff in H. destruct H as [H1 H2]. cbn [breaks count_lf].
    destruct (c =? 13) eqn:E13.
    + apply N.eqb_eq in E13. subst c. destruct t as [|d t']; [discriminate|]. rewrite H1. apply N.eqb_eq in H1. subst d.
      simpl in H2. cbn [count_lf]. simpl (13 =? 10). simpl (10 =? 10).
      rewrite (IH t' ltac:(simpl in L; lia) H2). lia.
    + destruct (c =? 10); rewrite (IH t ltac:(simpl in L; lia) H2); lia. Qed.
Lemma breaks_count s : crlfb s = true -> breaks s = count_lf s.
Proof. apply (breaks_count_n (length s)). lia. Qed.
Lemma span_rest p s a b : span p s = (a, b) -> match b with [] => True | d :: _ => p d = false end.
Proof. revert a b. induction s as [|c t IH]; simpl; intros a b H; [inversion H; exact I|].
  destruct (p c) eqn:E; [destruct (span p t) as [x y] eqn:S; inversion H; subst; eapply IH; eauto | inversion H; subst; exact E]. Qed.
Lemma last_app_ne {A} (a : list A) x d : last (a ++ [x]) d = x.
Proof. induction a as [|c t IH]; simpl; [reflexivity|]. destruct (t ++ [x]) eqn:E; [destruct t; discriminate | exact IH]. Qed.

(* characters of the tokens that cannot contain a line feed *)
Definition no_lf (a : text) : Prop := count_lf a = 0.
Lemma idc_ne c : is_idc c = true -> c <> 10.
Proof. intros H ->. discriminate. Qed.
Lemma digit_ne c : is_digit c = true -> c <> 10. Proof. intros H ->. discriminate. Qed.
Lemma plainc_ne c : is_plainc c = true -> c <> 10. Proof. intros H ->. discriminate. Qed.
Lemma ign_ne c : is_ign c = true -> c <> 10. Proof. intros H ->. discriminate. Qed.
Lemma no_lf_app a b : no_lf a -> no_lf b -> no_lf (a ++ b).
Proof. unfold no_lf. intros. rewrite count_lf_app. lia. Qed.
Lemma scan_id_nolf s a r : scan_id s = Some (a, r) -> no_lf a.
Proof. unfold scan_id. destruct s as [|c t]; [discriminate|]. destruct (is_alpha_ c) eqn:A; [|discriminate].
  destruct (span is_idc t) as [x y] eqn:S. intros H; inversion H; subst. apply span_split in S. destruct S as [_ F]. unfold no_lf. simpl.
  destruct (c =? 10) eqn:E; [apply N.eqb_eq in E; subst; discriminate|]. rewrite (count_lf_none is_idc x idc_ne F). reflexivity. Qed.
Lemma digits1_nolf s a r : digits1 s = Some (a, r) -> no_lf a.
Proof. unfold digits1. destruct (span is_digit s) as [x y] eqn:S. destruct x as [|x0 x']; [discriminate|]. intros H; inversion H; subst.
  apply span_split in S. destruct S as [_ F]. exact (count_lf_none is_digit _ digit_ne F). Qed.
Lemma opt_sign_nolf s a r : opt_sign s = (a, r) -> no_lf a.
Proof. unfold opt_sign. destruct s as [|c t]; [intros H; inversion H; reflexivity|]. destruct (is_sign c) eqn:E; intros H; inversion H; subst; [|reflexivity].
  unfold no_lf. simpl. destruct (c =? 10) eqn:E2; [apply N.eqb_eq in E2; subst; discriminate | reflexivity]. Qed.
Lemma scan_exp_nolf s a r : scan_exp s = (a, r) -> no_lf a.
Proof. unfold scan_exp. destruct s as [|c t]; [intros H; inversion H; reflexivity|].
  destruct ((c =? 101) || (c =? 69)) eqn:E; [|intros H; inversion H; reflexivity].
  destruct (opt_sign t) as [sg t1] eqn:O. destruct (digits1 t1) as [[d r']|] eqn:D; intros H; inversion H; subst; [|reflexivity].
  change (c :: sg ++ d) with ([c] ++ sg ++ d). apply no_lf_app; [|apply no_lf_app; [eapply opt_sign_nolf; eauto | eapply digits1_nolf; eauto]].
  unfold no_lf. simpl. destruct (c =? 10) eqn:E2; [apply N.eqb_eq in E2; subst; discriminate | reflexivity]. Qed.
Lemma scan_int_nolf s a r : scan_int s = Some (a, r) -> no_lf a.
Proof. unfold scan_int. destruct (opt_sign s) as [sg s1] eqn:O. destruct (digits1 s1) as [[d r']|] eqn:D; [|discriminate].
  intros H; inversion H; subst. apply no_lf_app; [eapply opt_sign_nolf; eauto | eapply digits1_nolf; eauto]. Qed.
Lemma scan_float_nolf s a r : scan_float s = Some (a, r) -> no_lf a.
Proof. unfold scan_float. destruct (opt_sign s) as [sg s1] eqn:O. pose proof (opt_sign_nolf _ _ _ O) as Hsg.
  destruct (digits1 s1) as [[d rest]|] eqn:D.
  - pose proof (digits1_nolf _ _ _ D) as Hd. destruct (starts_dot rest) as [r0|] eqn:SD; [|discriminate]. destruct (span is_digit r0) as [f r'] eqn:S.
    destruct (scan_exp r') as [e r''] eqn:X. pose proof (scan_exp_nolf _ _ _ X) as He. intros H; inversion H; subst.
    apply span_split in S. destruct S as [_ F]. pose proof (count_lf_none is_digit _ digit_ne F) as Hf.
    unfold no_lf in *. rewrite !count_lf_app. simpl. rewrite Hsg, Hd, Hf, He. reflexivity.
  - destruct (starts_dot s1) as [r0|] eqn:SD; [|discriminate]. destruct (digits1 r0) as [[f r']|] eqn:D2; [|discriminate].
    pose proof (digits1_nolf _ _ _ D2) as Hf. destruct (scan_exp r') as [e r''] eqn:X. pose proof (scan_exp_nolf _ _ _ X) as He.
    intros H; inversion H; subst. unfold no_lf in *. rewrite !count_lf_app. simpl. rewrite ?count_lf_app, Hsg, Hf, He. reflexivity. Qed.
Lemma scan_plain_nolf s a r : scan_plain s = Some (a, r) -> no_lf a.
Proof. unfold scan_plain. destruct (span is_plainc s) as [x y] eqn:S. destruct x; [discriminate|]. intros H; inversion H; subst.
  apply span_split in S. destruct S as [_ F]. exact (count_lf_none is_plainc _ plainc_ne F). Qed.
(* a quoted string ends with its quote character *)
Lemma scan_str_body_nonempty q s a r : scan_str_body q s = Some (a, r) -> a <> [].
Proof. destruct s as [|c t]; [discriminate|]. simpl. destruct (c =? q); [intros H; inversion H; discriminate|].
  destruct (c =? 92).
  - destruct t as [|d t']; [discriminate|]. destruct (d =? 10); [discriminate|]. destruct (scan_str_body q t') as [[x y]|]; [|discriminate]. intros H; inversion H; discriminate.
  - destruct (scan_str_body q t) as [[x y]|]; [|discriminate]. intros H; inversion H; discriminate. Qed.
Lemma last_cons_ne {A} (c : A) x d : x <> [] -> last (c :: x) d = last x d.
Proof. destruct x; [congruence | reflexivity]. Qed.
Lemma scan_str_body_last_n q n : forall s a r, (length s <= n)%nat -> scan_str_body q s = Some (a, r) -> last a 0 = q.
Proof. induction n as [|n IH]; intros s a r L.
  - destruct s; [discriminate | simpl in L; lia].
  - destruct s as [|c t]; [discriminate|]. simpl. destruct (c =? q) eqn:E; [apply N.eqb_eq in E; intros H; inversion H; subst; reflexivity|].
    destruct (c =? 92).
    + destruct t as [|d t']; [discriminate|]. destruct (d =? 10); [discriminate|].
      destruct (scan_str_body q t') as [[x y]|] eqn:S; [|discriminate]. intros H; inversion H; subst.
      rewrite !last_cons_ne; [eapply IH; [|exact S]; simpl in L; lia | eapply scan_str_body_nonempty; eauto | discriminate].
    + destruct (scan_str_body q t) as [[x y]|] eqn:S; [|discriminate]. intros H; inversion H; subst.
      rewrite last_cons_ne; [eapply IH; [|exact S]; simpl in L; lia | eapply scan_str_body_nonempty; eauto]. Qed.

Lemma scan_string_last s a r : scan_string s = Some (a, r) -> last a 0 <> 13.
Proof. unfold scan_string. destruct s as [|c t]; [discriminate|]. destruct ((c =? 34) || (c =? 39)) eqn:Q; [|discriminate].
  destruct (scan_str_body c t) as [[x y]|] eqn:S; [|discriminate]. intros H; inversion H; subst.
  rewrite last_cons_ne by (eapply scan_str_body_nonempty; eauto). rewrite (scan_str_body_last_n c (length t) t x r (le_n _) S).
  intros ->. discriminate. Qed.

(* lex1 classifies the lexeme: which pieces contain no line feed, and where breaks = line feeds *)
Lemma lex1_lines s ign r : lex1 s = (ign, r) -> crlfb s = true ->
  count_lf ign = 0 /\
  match r with
  | LTok k a rest => match k with KSTRING => breaks a = count_lf a | _ => count_lf a = 0 end
  | LSkip a rest => (if match a with c :: _ => is_nl c | [] => false end then breaks a else 0) = count_lf a
  | _ => True
  end.
Proof. intros L C. pose proof (lex1_split _ _ _ L) as [Fi Sp]. split; [exact (count_lf_none is_ign _ ign_ne Fi)|].
  unfold lex1 in L. destruct (span is_ign s) as [g s'] eqn:S. inversion L; subst ign. clear L.
  apply span_split in S. destruct S as [Es _]. subst s. apply crlfb_suffix in C.
  destruct s' as [|c t]; [inversion H1; exact I|].
  destruct (scan_id (c :: t)) as [[a r0]|] eqn:E1; [inversion H1; subst; eapply scan_id_nolf; eauto|].
  destruct (scan_float (c :: t)) as [[a r0]|] eqn:E2; [inversion H1; subst; eapply scan_float_nolf; eauto|].
  destruct (scan_int (c :: t)) as [[a r0]|] eqn:E3; [inversion H1; subst; eapply scan_int_nolf; eauto|].
  destruct (scan_string (c :: t)) as [[a r0]|] eqn:E4.
  { inversion H1; subst. apply breaks_count. pose proof (scan_string_split _ _ _ E4) as Hs. rewrite Hs in C.
    eapply crlfb_prefix; [exact C | eapply scan_string_last; eauto]. }
  destruct (span is_nl (c :: t)) as [a r0] eqn:E5. destruct a as [|a0 a'].
  2:{ inversion H1; subst. pose proof (span_split _ _ _ _ E5) as [Hs Fa]. pose proof (span_rest _ _ _ _ E5) as Hr.
      assert (A0 : is_nl a0 = true) by (simpl in Fa; apply andb_true_iff in Fa; tauto). rewrite A0.
      apply breaks_count. rewrite Hs in C.
      destruct (N.eq_dec (last (a0 :: a') 0) 13) as [L13|L13]; [|eapply crlfb_prefix; eauto].
      (* the run ends with CR: the text continues with something that is not LF, or ends: impossible for a CRLF/LF text *)
      exfalso. destruct (exists_last (l := a0 :: a') ltac:(discriminate)) as [pre [z Ez]]. rewrite Ez in *. rewrite last_app_ne in L13. subst z.
      rewrite <- app_assoc in C. apply crlfb_suffix in C. simpl in C. destruct r0 as [|d r1]; [discriminate|].
      apply andb_true_iff in C. destruct C as [C _]. apply N.eqb_eq in C. subst d. discriminate. }
  destruct (scan_plain (c :: t)) as [[a r1]|] eqn:E6; [inversion H1; subst; eapply scan_plain_nolf; eauto|].
  destruct (c =? 35) eqn:E7.
  { destruct (span (fun d => negb (d =? 10)) (c :: t)) as [a r1] eqn:E8. inversion H1; subst.
    pose proof (span_split _ _ _ _ E8) as [_ Fa]. apply N.eqb_eq in E7. subst c.
    destruct a as [|a0 a'']; [reflexivity|]. assert (Hn : is_nl a0 = false).
    { simpl in E8. destruct (span _ t) in E8. inversion E8. reflexivity. }
    rewrite Hn. symmetry. apply (count_lf_none (fun d => negb (d =? 10))); [|exact Fa]. intros x Hx ->. discriminate. }
  destruct (punct c) as [k|] eqn:P; inversion H1; subst; [|exact I].
  unfold punct in P. repeat match type of P with (if ?b then _ else _) = _ => destruct b eqn:?; [inversion P; subst; simpl;
    match goal with H : (c =? _) = true |- _ => apply N.eqb_eq in H; subst c; reflexivity end|] end. discriminate.
Qed.

Definition line_ok (full : text) (t : token) : Prop := t_line t = 1 + count_lf (firstn (t_pos t) full).

Lemma lex_lines fuel : forall line pre s toks,
  crlfb (pre ++ s) = true -> line = 1 + count_lf pre ->
  (lex fuel line (length pre) s = LexOk toks \/ exists e, lex fuel line (length pre) s = LexError toks e) ->
  Forall (line_ok (pre ++ s)) toks.
Proof. induction fuel as [|f IH]; intros line pre s toks C Hl H; simpl in H.
  - destruct H as [H|[e H]]; inversion H; constructor.
  - destruct (lex1 s) as [ign r] eqn:L. pose proof (lex1_split _ _ _ L) as [_ Sp].
    pose proof (lex1_lines _ _ _ L (crlfb_suffix _ _ C)) as [Ci Cr]. destruct r as [k a rest|a rest| |].
    + destruct Sp as [-> Na].
      assert (P : (length pre + length ign + length a)%nat = length ((pre ++ ign) ++ a)) by (rewrite !app_length; lia).
      rewrite P in H. set (line' := match k with KSTRING => line + breaks a | _ => line end) in *.
      assert (Hl' : line' = 1 + count_lf ((pre ++ ign) ++ a)).
      { unfold line'. rewrite !count_lf_app, Ci, Hl. destruct k; simpl in Cr; rewrite ?Cr; lia. }
      assert (E : pre ++ ign ++ a ++ rest = ((pre ++ ign) ++ a) ++ rest) by (rewrite <- !app_assoc; reflexivity).
      assert (T : line_ok (pre ++ ign ++ a ++ rest) {| t_kind := k; t_lexeme := a; t_line := line; t_pos := (length pre + length ign)%nat |}).
      { unfold line_ok. cbn [t_line t_pos]. replace (length pre + length ign)%nat with (length (pre ++ ign)) by (rewrite app_length; reflexivity).
        rewrite (app_assoc pre ign), firstn_app_exact, count_lf_app, Ci, Hl. lia. }
      destruct (lex f line' (length ((pre ++ ign) ++ a)) rest) as [l|l e0] eqn:R.
      * destruct H as [H|[e H]]; inversion H; subst. constructor; [exact T|]. rewrite E. eapply IH; [rewrite <- E; exact C | exact Hl' | left; eassumption].
      * destruct H as [H|[e H]]; inversion H; subst. constructor; [exact T|]. rewrite E. eapply IH; [rewrite <- E; exact C | exact Hl' | right; eexists; eassumption].
    + destruct Sp as [-> Na].
      assert (P : (length pre + length ign + length a)%nat = length ((pre ++ ign) ++ a)) by (rewrite !app_length; lia).
      rewrite P in H.
      assert (E : pre ++ ign ++ a ++ rest = ((pre ++ ign) ++ a) ++ rest) by (rewrite <- !app_assoc; reflexivity).
      rewrite E. eapply IH; [rewrite <- E; exact C | | exact H]. rewrite !count_lf_app, Ci, Hl, Cr. lia.
    + destruct H as [H|[e H]]; inversion H; constructor.
    + destruct H as [H|[e H]]; inversion H; constructor.
Qed.

(* C11: in a text whose line ends are LF or CRLF, every token carries 1 + the number of line feeds before its position *)
Theorem token_lines_true s toks : crlfb s = true -> lex_all s = LexOk toks -> Forall (line_ok s) toks.
Proof. intros C H. apply (lex_lines (S (length s)) 1 [] s toks C eq_refl). left. exact H. Qed.
