(* The command named by the recursive-model error is a command of the program (and one the peeling left
   unresolved), for every program and every file order. *)
From Coq Require Import List Arith Bool.
From MP Require Import Model.Sched Proofs.SchedProofs.
Import ListNotations.

Lemma peel_incl : forall fuel rem r, peel fuel rem = Some r -> incl r rem.
Proof.
  induction fuel as [|f IH]; intros rem r H.
  - destruct rem; simpl in H; [discriminate|]. injection H as <-. apply incl_refl.
  - destruct rem as [|c0 r0] eqn:E; [discriminate|]. rewrite <- E in *.
    assert (Hp : peel (S f) rem = match filter (resolved rem) rem with [] => Some rem | _ => peel f (filter (fun c => negb (resolved rem c)) rem) end).
    { rewrite E. reflexivity. }
    rewrite Hp in H. destruct (filter (resolved rem) rem) as [|a l].
    + injection H as <-. apply incl_refl.
    + apply IH in H. intros x Hx. apply H in Hx. apply filter_In in Hx. tauto.
Qed.

Lemma walk_in : forall fuel rem seen n, In n (names rem) -> In (walk fuel rem seen n) (names rem).
Proof.
  induction fuel as [|f IH]; intros rem seen n Hn; simpl; [exact Hn|].
  destruct (mem n seen); [exact Hn|].
  destruct (lookup rem n) as [c|]; [|exact Hn].
  destruct (filter (fun r => mem r (names rem)) (refs c)) as [|r t] eqn:E; [exact Hn|].
  apply IH. assert (Hr : In r (filter (fun r => mem r (names rem)) (refs c))) by (rewrite E; left; reflexivity).
  apply filter_In in Hr. apply mem_In. tauto.
Qed.

Theorem reported_is_a_command P n : find_cycle P = Some n -> In n (names P).
Proof.
  unfold find_cycle. destruct (peel (length P) P) as [rem|] eqn:E; [|discriminate].
  pose proof (peel_incl _ _ _ E) as Hi.
  destruct rem as [|c t]; [discriminate|]. intros H.
  assert (Hn : walk (S (length (c :: t))) (c :: t) [] (nm c) = n) by congruence.
  assert (Hc : In (nm c) (names (c :: t))) by (left; reflexivity).
  pose proof (walk_in (S (length (c :: t))) (c :: t) [] (nm c) Hc) as Hw.
  rewrite Hn in Hw. unfold names in *. apply in_map_iff in Hw. destruct Hw as [d [Ed Hd]].
  apply in_map_iff. exists d. split; [exact Ed | apply Hi; exact Hd].
Qed.

(* Rejection is a property of the graph, not of the file order: the pre-pass accepts exactly the programs
   that have a rank function, and having one is invariant under reordering the commands. *)
From Coq Require Import Permutation.
From MP Require Import Proofs.SchedTop.

Lemma wf_dag_perm P P' rank : Permutation P P' -> wf_dag P rank -> wf_dag P' rank.
Proof.
  intros Hp [ND R K]. assert (Hn : Permutation (names P) (names P')) by (apply Permutation_map; exact Hp).
  constructor.
  - eapply Permutation_NoDup; eauto.
  - intros c d Hc Hd. eapply Permutation_in; [exact Hn|]. eapply R; eauto. eapply Permutation_in; [apply Permutation_sym; exact Hp | exact Hc].
  - intros c d Hc Hd. eapply K; eauto. eapply Permutation_in; [apply Permutation_sym; exact Hp | exact Hc].
Qed.

Theorem accepted_iff_ranked P : NoDup (names P) -> first_missing P P = None ->
  (find_cycle P = None <-> exists rank, wf_dag P rank).
Proof.
  intros ND FM. split.
  - intros H. exists (round_of (length P) P). apply prepass_rank; auto. apply find_cycle_None. exact H.
  - intros [rank W]. eapply acyclic_accepted. exact W.
Qed.

Theorem rejection_order_irrelevant P P' : Permutation P P' -> NoDup (names P) -> first_missing P P = None ->
  find_cycle P = None -> find_cycle P' = None.
Proof.
  intros Hp ND FM H. apply (accepted_iff_ranked P ND FM) in H. destruct H as [rank W].
  eapply acyclic_accepted. eapply wf_dag_perm; eauto.
Qed.
