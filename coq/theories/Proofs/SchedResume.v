(* Resuming: Program.run started from ANY consistent partial state -- what result reads before the first run, an earlier run
   that failed inside some execute(), or an interrupted run leave behind: a memo whose entries are results of commands of the
   program, each the command's semantics applied to the memoised results of what it references -- executes exactly the
   commands that are not finished yet, each once, and ends in the solution of the graph's equations.  The trace already
   recorded is arbitrary (it may hold the Enter of an execution that was aborted): only what is appended matters. *)
From Coq Require Import List Arith Lia Bool PeanoNat Permutation.
From MP Require Import Model.Sched Proofs.SchedProofs Proofs.SchedTop.
Import ListNotations.
Set Implicit Arguments.

Section Resume.
Variable V : Type.
Variable F : cmd -> list V -> V.
Notation st := (st V).
Notation get := (@get V).
Notation fin := (@fin V).

Definition retrace (t : list ev) (s : st) : st := {| memo := memo s; trace := t ++ trace s |}.
Definition lift {A} (t : list ev) (o : outcome (st * A)) : outcome (st * A) :=
  match o with Ok (s', a) => Ok (retrace t s', a) | ErrMissing m => ErrMissing m | ErrRecursive m => ErrRecursive m | OutOfStack => OutOfStack end.
Definition lift0 (t : list ev) (o : outcome st) : outcome st :=
  match o with Ok s' => Ok (retrace t s') | ErrMissing m => ErrMissing m | ErrRecursive m => ErrRecursive m | OutOfStack => OutOfStack end.

(* the scheduler reads the memo only and only ever appends to the trace *)
Lemma pull_list_retrace pl t : (forall s n, pl (retrace t s) n = lift t (pl s n)) ->
  forall ns s, pull_list pl (retrace t s) ns = lift t (pull_list pl s ns).
Proof. intros H ns. induction ns as [|n ns IH]; intros s; [reflexivity|]. cbn [pull_list]. rewrite H.
  destruct (pl s n) as [[s1 v]| | |]; try reflexivity. cbn [lift]. rewrite IH. destruct (pull_list pl s1 ns) as [[s2 vs]| | |]; reflexivity. Qed.
Lemma pull_retrace fuel P t : forall s n, pull F fuel P (retrace t s) n = lift t (pull F fuel P s n).
Proof. induction fuel as [|f IH]; intros s n; cbn [pull]; unfold Sched.get at 1; cbn [retrace memo]; fold (get s n);
  destruct (get s n) as [v|]; try reflexivity.
  destruct (lookup P n) as [c|]; [|reflexivity].
  change (trace (retrace t s)) with (t ++ trace s).
  replace {| memo := memo s; trace := (t ++ trace s) ++ [Enter n] |} with (retrace t {| memo := memo s; trace := trace s ++ [Enter n] |})
    by (unfold retrace; cbn [memo trace]; rewrite app_assoc; reflexivity).
  rewrite (pull_list_retrace (pull F f P) t (IH) (refs c)).
  destruct (pull_list (pull F f P) {| memo := memo s; trace := trace s ++ [Enter n] |} (refs c)) as [[s1 vs]| | |]; try reflexivity.
  cbn [lift retrace memo trace]. unfold retrace. cbn [memo trace]. rewrite app_assoc. reflexivity. Qed.
Lemma run_leaves_retrace fuel P t : forall ls s, run_leaves F fuel P (retrace t s) ls = lift0 t (run_leaves F fuel P s ls).
Proof. induction ls as [|c ls IH]; intros s; [reflexivity|]. cbn [run_leaves]. rewrite pull_retrace.
  destruct (pull F fuel P s (nm c)) as [[s1 v]| | |]; try reflexivity. cbn [lift]. apply IH. Qed.
Lemma run_program_retrace fuel P t s : run_program F fuel P (retrace t s) = lift0 t (run_program F fuel P s).
Proof. unfold run_program. destruct (first_missing P P); [reflexivity|]. destruct (find_cycle P); [reflexivity|]. apply run_leaves_retrace. Qed.

(* a consistent partial state *)
Record consistent (P : prog) (s : st) : Prop := {
  c_keys : NoDup (map fst (memo s));
  c_known : forall n v, get s n = Some v -> In n (names P);
  c_cons : forall n v c, get s n = Some v -> lookup P n = Some c ->
           exists vs, Forall2 (fun d w => get s d = Some w) (refs c) vs /\ v = F c vs }.

Definition paired (m : list (name * V)) : list ev := flat_map (fun kv => [Enter (fst kv); Exit (fst kv)]) m.
Lemma assoc_in m n : (exists v, assoc m n = Some v) <-> In n (map (@fst name V) m).
Proof. induction m as [|[k v] m IH]; cbn [assoc map fst In]; [split; [intros [v H]; discriminate | tauto]|].
  destruct (Nat.eqb k n) eqn:E.
  - apply Nat.eqb_eq in E. subst. split; [auto | eauto].
  - apply Nat.eqb_neq in E. rewrite IH. split; [auto | intros [H|H]; [congruence | exact H]]. Qed.
Lemma paired_count m : NoDup (map fst m) -> forall n,
  count_ev (Enter n) (paired m) = (if assoc m n then 1 else 0) /\ count_ev (Exit n) (paired m) = (if assoc m n then 1 else 0).
Proof. induction m as [|[k v] m IH]; intros ND n; [split; reflexivity|]. cbn [map fst] in ND. inversion ND as [|x l Hk ND']; subst.
  destruct (IH ND' n) as [A B]. cbn [paired flat_map app fst assoc count_ev]. fold (paired m). rewrite A, B.
  destruct (Nat.eqb n k) eqn:E.
  - apply Nat.eqb_eq in E. subst. rewrite Nat.eqb_refl.
    destruct (assoc m k) eqn:G; [exfalso; apply Hk; apply assoc_in; eauto | split; reflexivity].
  - rewrite Nat.eqb_sym, E. split; reflexivity. Qed.

Theorem run_resume P fuel (s0 : st) : accepted P -> length P < fuel -> consistent P s0 ->
  exists suffix s, run_program F fuel P s0 = Ok s /\ trace s = trace s0 ++ suffix /\ extends s0 s /\
    (forall n, In n (names P) -> fin s n = true /\
       count_ev (Enter n) suffix = (if fin s0 n then 0 else 1) /\ count_ev (Exit n) suffix = (if fin s0 n then 0 else 1)) /\
    (forall n, ~ In n (names P) -> count_ev (Enter n) suffix = 0 /\ count_ev (Exit n) suffix = 0) /\
    solves V F P (get s).
Proof. intros [ND [FM FC]] Hf C.
  set (sb := {| memo := memo s0; trace := [] |} : st).
  set (sc := retrace (paired (memo s0)) sb).
  assert (E0 : s0 = retrace (trace s0) sb) by (destruct s0; unfold retrace, sb; cbn; rewrite app_nil_r; reflexivity).
  destruct (prepass_rank P ND FM (find_cycle_None _ FC)) as [W RB].
  assert (HI : InvG F P [] sc).
  { pose proof (paired_count (memo s0) (c_keys C)) as PC.
    constructor; unfold sc, retrace, sb, Sched.fin, Sched.get; cbn [memo trace]; rewrite ?app_nil_r.
    - intros n v c G L. exact (c_cons C n G L).
    - intros n v G. exact (c_known C n G).
    - intros n. rewrite orb_false_r. destruct (PC n) as [A _]. rewrite A. destruct (assoc (memo s0) n); reflexivity.
    - intros n. destruct (PC n) as [_ B]. rewrite B. destruct (assoc (memo s0) n); reflexivity.
    - intros n []. }
  destruct (@run_all V F _ P fuel sc W) as [s [E [HIs [X Fin]]]]; [intros n _; specialize (RB n); lia | exact HI |].
  assert (RP : run_program F fuel P sc = Ok s) by (unfold run_program; rewrite FM, FC; exact E).
  unfold sc in RP. rewrite run_program_retrace in RP.
  destruct (run_program F fuel P sb) as [s_b| | |] eqn:RB0; cbn [lift0] in RP; try discriminate. injection RP as Es.
  exists (trace s_b), (retrace (trace s0) s_b).
  assert (Gs : forall n, get (retrace (trace s0) s_b) n = get s n) by (intros n; rewrite <- Es; reflexivity).
  assert (G0 : forall n, get s0 n = get sc n) by (intros n; reflexivity).
  split; [rewrite E0 at 1; rewrite run_program_retrace, RB0; reflexivity|].
  split; [reflexivity|]. split; [intros m w G; rewrite Gs; apply X; rewrite <- G0; exact G|].
  pose proof (paired_count (memo s0) (c_keys C)) as PC.
  assert (CNT : forall n, count_ev (Enter n) (trace s_b) + (if fin s0 n then 1 else 0) = (if fin s n then 1 else 0) /\
                          count_ev (Exit n) (trace s_b) + (if fin s0 n then 1 else 0) = (if fin s n then 1 else 0)).
  { intros n. pose proof (g_enter HIs n) as A. pose proof (g_exit HIs n) as B. rewrite orb_false_r in A.
    assert (Ts : trace s = paired (memo s0) ++ trace s_b) by (rewrite <- Es; reflexivity).
    rewrite Ts, count_ev_app in A, B. destruct (PC n) as [P1 P2]. rewrite P1 in A. rewrite P2 in B.
    assert (F0 : (if fin s0 n then 1 else 0) = (if assoc (memo s0) n then 1 else 0)) by (unfold Sched.fin, Sched.get; destruct (assoc (memo s0) n); reflexivity).
    rewrite F0. split; lia. }
  split; [|split].
  - intros n Hn. specialize (Fin n Hn). destruct (CNT n) as [A B]. rewrite Fin in A, B.
    split; [unfold Sched.fin; rewrite Gs; exact Fin|]. destruct (fin s0 n); split; lia.
  - intros n Hn. assert (Fn : fin s n = false).
    { unfold Sched.fin. destruct (get s n) as [v|] eqn:G; [|reflexivity]. exfalso. apply Hn. exact (g_known HIs _ G). }
    destruct (CNT n) as [A B]. rewrite Fn in A, B. destruct (fin s0 n); split; lia.
  - intros c Hc. assert (Fc : fin s (nm c) = true) by (apply Fin, in_map, Hc).
    unfold Sched.fin in Fc. destruct (get s (nm c)) as [v|] eqn:G; [|discriminate].
    destruct (g_cons HIs _ G (lookup_NoDup F P c (@wf_nodup _ _ W) Hc)) as [vs [F2 Ev]]. exists vs.
    split; [eapply Forall2_impl'; [|exact F2]; intros a b Hab; rewrite Gs; exact Hab | rewrite Gs; congruence].
Qed.
End Resume.
