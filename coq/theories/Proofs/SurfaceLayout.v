(* C10, layout irrelevance: every way of writing a program -- gaps (blanks, tabs, line breaks, blank lines, comments) around
   the tokens, either quote character and any escapes in quoted strings, any spelling of integers and decimals the token
   rules accept, trailing commas in lists, dictionaries and argument lists -- parses to what the tokens denote. *)
From Coq Require Import NArith ZArith List Bool Lia.
From MP Require Import Model.Lexer Gen.GenGrammar Model.Parser Model.Serial Proofs.LexProofs Proofs.SerialProofs.
From MP Require Import Proofs.LexSerial.
From MP Require Import Proofs.Layout.
From MP Require Import Proofs.LrComplete.
From MP Require Import Proofs.Surface.
Import ListNotations.
Close Scope string_scope.
Open Scope N_scope.

(* ---- quoted strings are self-delimiting ---- *)
Lemma scan_str_body_app q : forall s a r b, scan_str_body q s = Some (a, r) -> scan_str_body q (s ++ b) = Some (a, r ++ b).
Proof. assert (G : forall n s a r b, (length s <= n)%nat -> scan_str_body q s = Some (a, r) -> scan_str_body q (s ++ b) = Some (a, r ++ b)).
  { induction n as [|n IH]; intros s a r b Hl H.
    - destruct s; [discriminate | cbn in Hl; lia].
    - destruct s as [|c t]; [discriminate|]. cbn [app scan_str_body] in *. destruct (c =? q); [inversion H; reflexivity|].
      destruct (c =? 92).
      + destruct t as [|d t']; [discriminate|]. cbn [app]. destruct (d =? 10); [discriminate|].
        destruct (scan_str_body q t') as [[a' b']|] eqn:E; [|discriminate]. rewrite (IH t' a' b' b); [inversion H; reflexivity | cbn in Hl; lia | exact E].
      + destruct (scan_str_body q t) as [[a' b']|] eqn:E; [|discriminate]. rewrite (IH t a' b' b); [inversion H; reflexivity | cbn in Hl; lia | exact E]. }
  intros s a r b. apply (G (length s)). lia. Qed.
Definition str_lexeme (lx : text) : bool := match scan_string lx with Some (_, []) => true | _ => false end.
Lemma delim_str lx : str_lexeme lx = true -> delimited (KSTRING, lx).
Proof. unfold str_lexeme. destruct (scan_string lx) as [[a r]|] eqn:E; [|discriminate]. destruct r; [|discriminate]. intros _ rest _.
  pose proof (scan_string_split _ _ _ E) as Hs. rewrite app_nil_r in Hs. subst a. cbn [fst snd].
  destruct lx as [|c t]; [discriminate|]. unfold scan_string in E. destruct ((c =? 34) || (c =? 39)) eqn:Q; [|discriminate].
  destruct (scan_str_body c t) as [[a b]|] eqn:B; [|discriminate]. assert (a = t /\ b = []) as [-> ->] by (inversion E; auto). clear E.
  assert (S2 : scan_string ((c :: t) ++ rest) = Some (c :: t, rest)).
  { unfold scan_string. cbn [app]. rewrite Q. rewrite (scan_str_body_app c t t [] rest); [reflexivity|]. exact B. }
  apply orb_true_iff in Q. unfold lex1.
  destruct Q as [Q|Q]; apply N.eqb_eq in Q; subst c; cbn [app span is_ign N.eqb Pos.eqb orb];
  unfold scan_id, scan_float, scan_int, opt_sign, digits1, starts_dot;
  cbn [is_alpha_ is_sign is_digit span N.eqb N.leb Pos.eqb Pos.compare Pos.compare_cont N.compare andb orb];
  cbn [app] in S2; rewrite S2; reflexivity. Qed.

(* ---- INT lexemes: [+-]?digits, followed by neither a digit nor a dot ---- *)
Definition int_lexeme (lx : text) : bool := match scan_int lx with Some (_, []) => true | _ => false end.
Lemma sstop_digit b : stops_int b = true -> head_fails is_digit b.
Proof. destruct b as [|c b]; [intros _; exact I|]. cbn. intros H. apply andb_true_iff in H as [H _]. apply negb_true_iff in H. exact H. Qed.
Lemma sstop_dot b : stops_int b = true -> starts_dot b = None.
Proof. apply starts_dot_stop. Qed.
Lemma delim_intlx lx : int_lexeme lx = true -> delimited (KINT, lx).
Proof. unfold int_lexeme. destruct (scan_int lx) as [[a r]|] eqn:E; [|discriminate]. destruct r; [|discriminate]. intros _ rest Hs. cbn [good_follow fst snd] in *.
  pose proof (scan_int_split _ _ _ E) as Hl. rewrite app_nil_r in Hl. subst a.
  destruct lx as [|c t]; [discriminate|]. unfold scan_int in E.
  assert (OS : opt_sign ((c :: t) ++ rest) = (fst (opt_sign (c :: t)), snd (opt_sign (c :: t)) ++ rest)) by (apply opt_sign_app; discriminate).
  destruct (opt_sign (c :: t)) as [sg s1] eqn:O. cbn [fst snd] in OS. unfold digits1 in E. destruct (span is_digit s1) as [d r] eqn:D.
  destruct d as [|d0 d']; [discriminate|]. assert (R : r = []) by (inversion E; reflexivity). subst r.
  assert (SD : sg ++ d0 :: d' = c :: t) by (inversion E; reflexivity).
  pose proof (span_app is_digit s1 rest (d0 :: d') [] D (fun _ => sstop_digit rest Hs)) as D2. cbn [app] in D2.
  assert (HC : is_sign c = true \/ is_digit c = true).
  { cbn [opt_sign] in O. destruct (is_sign c) eqn:S; [auto|]. inversion O; subst. cbn [span] in D. destruct (is_digit c); [auto | discriminate]. }
  assert (HC' : is_sign c = true \/ is_digit c = true \/ c = 46) by tauto.
  destruct (float_head_facts c HC') as [F1 F2].
  unfold lex1. cbn [app span]. rewrite F1. unfold scan_id. rewrite F2.
  unfold scan_float, scan_int. change (c :: t ++ rest) with ((c :: t) ++ rest). rewrite OS. unfold digits1. rewrite D2, (sstop_dot rest Hs), SD. reflexivity. Qed.


(* ---- PLAIN_STRING lexemes and the rules tried before that one ---- *)
Lemma scan_float_none_app s b : s <> [] -> scan_float s = None -> fstop b -> scan_float (s ++ b) = None.
Proof. intros Hs H Hb. unfold scan_float in *. rewrite (opt_sign_app s b Hs). destruct (opt_sign s) as [sg s1]. cbn [fst snd].
  destruct (digits1 s1) as [[d rest]|] eqn:D.
  - rewrite (digits1_app s1 d rest b D Hb). destruct (starts_dot rest) as [r1|] eqn:S.
    + destruct (span is_digit r1) as [f r']. destruct (scan_exp r'). discriminate.
    + rewrite (starts_dot_none_app rest b S Hb). reflexivity.
  - rewrite (digits1_none_app s1 b D Hb). destruct (starts_dot s1) as [r1|] eqn:S.
    + rewrite (starts_dot_app s1 r1 b S). destruct (digits1 r1) as [[f r']|] eqn:F; [destruct (scan_exp r'); discriminate|].
      rewrite (digits1_none_app r1 b F Hb). reflexivity.
    + rewrite (starts_dot_none_app s1 b S Hb). reflexivity.
Qed.
Lemma scan_int_none_app s b : s <> [] -> scan_int s = None -> fstop b -> scan_int (s ++ b) = None.
Proof. intros Hs H Hb. unfold scan_int in *. rewrite (opt_sign_app s b Hs). destruct (opt_sign s) as [sg s1]. cbn [fst snd].
  destruct (digits1 s1) as [[d rest]|] eqn:D; [discriminate|]. rewrite (digits1_none_app s1 b D Hb). reflexivity. Qed.
Definition plain_lexeme (lx : text) : bool :=
  match lx with
  | c :: _ => negb (is_ign c) && negb (is_alpha_ c) && negb (is_nl c) && negb ((c =? 34) || (c =? 39)) && forallb is_plainc lx &&
              match scan_float lx with None => true | _ => false end && match scan_int lx with None => true | _ => false end
  | [] => false
  end.
Lemma delim_fstop b : head_fails is_plainc b -> fstop b.
Proof. destruct b as [|c b]; [trivial|]. unfold fstop, head_fails, is_plainc, is_delim. cbn [existsb]. intros H. apply negb_false_iff in H.
  repeat (apply orb_true_iff in H as [H|H]; [apply N.eqb_eq in H; subst; reflexivity|]). discriminate. Qed.
Lemma delim_plain lx : plain_lexeme lx = true -> delimited (KPLAIN, lx).
Proof. unfold plain_lexeme. destruct lx as [|c t]; [discriminate|]. intros W rest Hr. cbn [good_follow fst snd] in *.
  repeat (apply andb_true_iff in W as [W ?]).
  repeat match goal with H : negb _ = true |- _ => apply negb_true_iff in H end.
  destruct (scan_float (c :: t)) eqn:SF; [discriminate|]. destruct (scan_int (c :: t)) eqn:SI; [discriminate|].
  pose proof (scan_float_none_app (c :: t) rest ltac:(discriminate) SF (delim_fstop rest Hr)) as SF2.
  pose proof (scan_int_none_app (c :: t) rest ltac:(discriminate) SI (delim_fstop rest Hr)) as SI2.
  unfold lex1. cbn [app span]. rewrite W. unfold scan_id.
  match goal with H : is_alpha_ c = false |- _ => rewrite H end.
  cbn [app] in SF2, SI2. rewrite SF2, SI2. unfold scan_string.
  match goal with H : (c =? 34) || (c =? 39) = false |- _ => rewrite H end.
  cbn [span]. match goal with H : is_nl c = false |- _ => rewrite H end.
  unfold scan_plain. change (c :: t ++ rest) with ((c :: t) ++ rest).
  match goal with H : forallb is_plainc (c :: t) = true |- _ => rewrite (span_all is_plainc (c :: t) rest H Hr) end. reflexivity. Qed.
Definition word_lex (w : xword) : bool :=
  match w with WI lx => int_lexeme lx | WF lx _ => float_shape lx | WW lx => is_ident lx | WP lx => plain_lexeme lx end.
Lemma word_delim w : word_lex w = true -> delimited (wk w).
Proof. destruct w as [lx|lx pr|lx|lx]; cbn [word_lex wk]; intros W; [apply delim_intlx | apply delim_float | apply delim_ident | apply delim_plain]; exact W. Qed.

(* ---- every token of a lexically well-formed surface program is delimited ---- *)
Definition leaf_lex (a : xleaf) : bool :=
  match a with XS lx => str_lexeme lx | XI lx => int_lexeme lx | XF lx => float_shape lx | XW lx => is_ident lx end.
Definition colon_lex (p : list xword) (ps : list (list xword)) : bool := forallb word_lex p && forallb (forallb word_lex) ps.
Definition xpair_lex (p : xpair) : bool :=
  match fst p with KQ lx => str_lexeme lx | KW ws => forallb word_lex ws end &&
  match snd p with PVLeaf a => leaf_lex a | PVWords ws => forallb word_lex ws | PVColon q qs => colon_lex q qs end.
Fixpoint xval_lex (v : xval) : bool :=
  match v with XLeaf a => leaf_lex a | XList l _ => forallb xval_lex l | XWords ws => forallb word_lex ws | XDict p ps _ => forallb xpair_lex (p :: ps) end.
Definition xarg_lex (x : text * xarg) : bool :=
  is_ident (fst x) && match snd x with XAVal v => xval_lex v | XADict p ps _ => forallb xpair_lex (p :: ps)
                                     | XAColon p ps => colon_lex p ps end.
Definition xcmd_lex (c : xcmd) : bool := match xc_result c with Some r => is_ident r | None => true end && is_ident (xc_name c) && forallb xarg_lex (xc_args c).
Ltac punct := cbn [In]; tauto.
Lemma leaf_delim a : leaf_lex a = true -> delimited (lk a).
Proof. destruct a as [lx|lx|lx|lx]; cbn [leaf_lex lk]; intros W; [apply delim_str | apply delim_intlx | apply delim_float | apply delim_ident]; exact W. Qed.
Lemma tkj_delim tr ls : Forall (Forall delimited) ls -> Forall delimited (tkj tr ls).
Proof. intros H. unfold tkj. apply Forall_app. split; [apply tk_join_delim; exact H|]. destruct ls; [constructor|]. destruct tr; [|constructor].
  constructor; [apply delim_punct; punct | constructor]. Qed.
Lemma words_delim ws : forallb word_lex ws = true -> Forall delimited (map wk ws).
Proof. intros W. rewrite Forall_map. rewrite forallb_forall in W. rewrite Forall_forall. intros w Hw. apply word_delim, W, Hw. Qed.
Lemma colon_delim p ps : colon_lex p ps = true -> Forall delimited (tk_colon p ps).
Proof. unfold colon_lex, tk_colon. intros W. apply andb_true_iff in W as [W2 W3]. apply Forall_app. split; [apply words_delim; exact W2|].
  clear W2. induction ps as [|q ps IH]; [constructor|]. cbn [forallb] in W3. apply andb_true_iff in W3 as [W3 W4].
  cbn [flat_map]. constructor; [apply delim_punct; punct|]. apply Forall_app. split; [apply words_delim; exact W3 | apply IH; exact W4]. Qed.
Lemma xpair_delim p : xpair_lex p = true -> Forall delimited (tkx_pair p).
Proof. unfold xpair_lex, tkx_pair. destruct p as [k v]. cbn [fst snd]. intros W. apply andb_true_iff in W as [W1 W2]. apply Forall_app. split.
  - destruct k as [lx|ws]; cbn [tk_key]; [constructor; [apply delim_str; exact W1 | constructor] | apply words_delim; exact W1].
  - constructor; [apply delim_punct; punct|]. destruct v as [a|ws|q qs]; cbn [tk_pv]; [constructor; [apply leaf_delim; exact W2 | constructor] | apply words_delim; exact W2 | apply colon_delim; exact W2]. Qed.
Lemma xvalue_delim v : xval_lex v = true -> Forall delimited (tkx_value v).
Proof. induction v as [a|l tr IH|ws|p ps tr] using xval_ind'; cbn [xval_lex tkx_value]; intros W;
  [| | rewrite Forall_map; rewrite forallb_forall in W; rewrite Forall_forall; intros w Hw; apply word_delim, W, Hw
   | constructor; [apply delim_punct; punct|]; apply Forall_app; split; [|constructor; [apply delim_punct; punct | constructor]];
     apply tkj_delim; rewrite Forall_map; rewrite forallb_forall in W; rewrite Forall_forall; intros q Hq; apply xpair_delim, W, Hq].
  - constructor; [apply leaf_delim; exact W | constructor].
  - constructor; [apply delim_punct; punct|]. apply Forall_app. split; [|constructor; [apply delim_punct; punct | constructor]].
    apply tkj_delim. rewrite Forall_map. rewrite forallb_forall in W. rewrite Forall_forall in *. intros x Hx. apply IH; [exact Hx | apply W; exact Hx]. Qed.
Lemma xarg_delim x : xarg_lex x = true -> Forall delimited (tkx_arg x).
Proof. unfold xarg_lex, tkx_arg. intros W. apply andb_true_iff in W as [W1 W2]. constructor; [apply delim_ident; exact W1|]. constructor; [apply delim_punct; punct|].
  destruct (snd x) as [v|p ps tr|p ps]; [apply xvalue_delim; exact W2| |].
  - constructor; [apply delim_punct; punct|]. apply Forall_app. split; [|constructor; [apply delim_punct; punct | constructor]].
    apply tkj_delim. rewrite Forall_map. rewrite forallb_forall in W2. rewrite Forall_forall. intros q Hq. apply xpair_delim, W2, Hq.
  - apply colon_delim; exact W2. Qed.
Lemma xcmd_delim c : xcmd_lex c = true -> Forall delimited (tkx_cmd c).
Proof. unfold xcmd_lex, tkx_cmd, tkx_head. intros W. apply andb_true_iff in W as [W W3]. apply andb_true_iff in W as [W1 W2].
  assert (T : Forall delimited (tkj (xc_trail c) (map tkx_arg (xc_args c)) ++ [rpt])).
  { apply Forall_app. split; [|constructor; [apply delim_punct; punct | constructor]].
    apply tkj_delim. rewrite Forall_map. rewrite forallb_forall in W3. rewrite Forall_forall. intros x Hx. apply xarg_delim, W3, Hx. }
  destruct (xc_result c) as [r|]; cbn [app].
  - constructor; [apply delim_ident; exact W1|]. constructor; [apply delim_punct; punct|]. constructor; [apply delim_ident; exact W2|]. constructor; [apply delim_punct; punct | exact T].
  - constructor; [apply delim_ident; exact W2|]. constructor; [apply delim_punct; punct | exact T]. Qed.
Lemma xprogram_delim p : forallb xcmd_lex p = true -> Forall delimited (tkx_program p).
Proof. induction p as [|c p IH]; intros W; [constructor|]. cbn [forallb] in W. apply andb_true_iff in W as [W1 W2].
  cbn [tkx_program flat_map]. apply Forall_app. split; [apply xcmd_delim; exact W1 | apply IH; exact W2]. Qed.

Theorem xparse_of_lexes fs p s : p <> [] -> forallb (xcmd_ok fs) p = true -> lexes s (tkx_program p) ->
  exists pp, parse fs s = POk pp /\ pp_version pp = xversion p /\ Forall2 xcmd_matches p (pp_cmds pp).
Proof. intros Hp W Hl.
  destruct (lexes_lex _ _ Hl (S (length s)) 1 0%nat (Nat.lt_succ_diag_r _)) as (toks & E & M).
  set (d := {| t_kind := KID; t_lexeme := []; t_line := 0; t_pos := 0%nat |}).
  pose proof (deco_self d toks 0%nat) as D. rewrite M in D.
  destruct (xlr_complete (fun j => t_line (nth (j - 0) toks d)) (fun j => t_pos (nth (j - 0) toks d)) fs p Hp W) as (T & pp & A & B & C & F).
  rewrite D in A. exists pp. split; [|split; assumption]. unfold parse, lex_all. rewrite E, A, B. reflexivity.
Qed.

(* THE THEOREM: whatever the gaps, the quoting, the numerals' spelling and the trailing commas, the text parses to the
   denotation of its tokens *)
Theorem surface_layout fs p gaps final : p <> [] -> forallb (xcmd_ok fs) p = true -> forallb xcmd_lex p = true ->
  length gaps = length (tkx_program p) -> Forall isgap gaps -> lexes final [] -> lay_ok (combine gaps (tkx_program p)) final ->
  exists pp, parse fs (lay (combine gaps (tkx_program p)) final) = POk pp /\ pp_version pp = xversion p /\ Forall2 xcmd_matches p (pp_cmds pp).
Proof. intros Hp W WL Hlen Hg Hf Hok. apply xparse_of_lexes; [exact Hp | exact W|].
  assert (M : map snd (combine gaps (tkx_program p)) = tkx_program p).
  { clear - Hlen. revert gaps Hlen. induction (tkx_program p) as [|x t IH]; intros [|g gs] H; try discriminate; [reflexivity|]. cbn. f_equal. apply IH. cbn in H. lia. }
  rewrite <- M at 2. apply lexes_lay; [exact Hf | | exact Hok].
  pose proof (xprogram_delim p WL) as Hd. clear - Hlen Hg Hd. revert gaps Hlen Hg. induction Hd as [|x t Hx Ht IH]; intros [|g gs] Hlen Hg; try discriminate; [constructor|].
  inversion Hg; subst. cbn [combine]. constructor; [split; assumption|]. apply IH; [cbn in Hlen; lia | assumption]. Qed.

(* two renderings with the same denotation parse to the same program (lines apart) *)
Definition erase_cmd (x : pcmd) := (pc_result x, pc_cmd x, map (fun a => (pa_name a, erase_e (pa_value a))) (pc_args x)).
Definition xcmd_den (c : xcmd) := (xc_result c, xc_name c, map (fun x : text * xarg => (fst x, PE (xaexp (snd x)) 0)) (xc_args c)).
Lemma matches_den c x : xcmd_matches c x -> erase_cmd x = xcmd_den c.
Proof. intros (A & B & C). unfold erase_cmd, xcmd_den. rewrite A, B. f_equal.
  induction C as [|a b l l' [H1 H2] _ IH]; [reflexivity|]. cbn [map]. rewrite H1, H2, IH. reflexivity. Qed.
Lemma matches_dens p cs : Forall2 xcmd_matches p cs -> map erase_cmd cs = map xcmd_den p.
Proof. induction 1 as [|c x p cs H _ IH]; [reflexivity|]. cbn [map]. rewrite (matches_den c x H), IH. reflexivity. Qed.
Lemma den_version : forall p1 p2, map xcmd_den p1 = map xcmd_den p2 -> xversion p1 = xversion p2.
Proof. intros p1 p2 H. unfold xversion. replace (existsb is2 p2) with (existsb is2 p1); [reflexivity|].
  revert p2 H. induction p1 as [|c p1 IH]; intros [|c2 p2] H; try discriminate; [reflexivity|]. cbn [map] in H. inversion H as [[H1 H2 H3 H4]].
  cbn [existsb]. rewrite (IH p2 H4). unfold is2. rewrite H1. reflexivity. Qed.
Corollary same_denotation fs p1 p2 g1 g2 f1 f2 :
  p1 <> [] -> forallb (xcmd_ok fs) p1 = true -> forallb xcmd_lex p1 = true -> length g1 = length (tkx_program p1) -> Forall isgap g1 -> lexes f1 [] -> lay_ok (combine g1 (tkx_program p1)) f1 ->
  p2 <> [] -> forallb (xcmd_ok fs) p2 = true -> forallb xcmd_lex p2 = true -> length g2 = length (tkx_program p2) -> Forall isgap g2 -> lexes f2 [] -> lay_ok (combine g2 (tkx_program p2)) f2 ->
  map xcmd_den p1 = map xcmd_den p2 ->
  exists pp1 pp2, parse fs (lay (combine g1 (tkx_program p1)) f1) = POk pp1 /\ parse fs (lay (combine g2 (tkx_program p2)) f2) = POk pp2 /\
                  map erase_cmd (pp_cmds pp1) = map erase_cmd (pp_cmds pp2) /\ pp_version pp1 = pp_version pp2.
Proof. intros A1 A2 A3 A4 A5 A6 A7 B1 B2 B3 B4 B5 B6 B7 Hd.
  destruct (surface_layout fs p1 g1 f1 A1 A2 A3 A4 A5 A6 A7) as (pp1 & E1 & V1 & M1).
  destruct (surface_layout fs p2 g2 f2 B1 B2 B3 B4 B5 B6 B7) as (pp2 & E2 & V2 & M2).
  exists pp1, pp2. repeat split; [exact E1 | exact E2 | | rewrite V1, V2; apply den_version; exact Hd]. rewrite (matches_dens _ _ M1), (matches_dens _ _ M2). exact Hd. Qed.

(* the same with every hypothesis a computable boolean *)
Definition surface_okb (fs : text -> option text) (p : list xcmd) (gaps : list text) (final : text) : bool :=
  forallb (xcmd_ok fs) p && forallb xcmd_lex p && Nat.eqb (length gaps) (length (tkx_program p)) && forallb (gapb false) gaps &&
  finalb false final && lay_okb (combine gaps (tkx_program p)) final.
Theorem surface_layout_b fs p gaps final : p <> [] -> surface_okb fs p gaps final = true ->
  exists pp, parse fs (lay (combine gaps (tkx_program p)) final) = POk pp /\ pp_version pp = xversion p /\ Forall2 xcmd_matches p (pp_cmds pp).
Proof. unfold surface_okb. intros Hp H. repeat (apply andb_true_iff in H as [H ?]).
  apply surface_layout; try assumption.
  - apply Nat.eqb_eq. assumption.
  - rewrite Forall_forall. intros g Hg. apply gapb_sound. rewrite forallb_forall in H2. apply H2. exact Hg.
  - apply finalb_sound. assumption.
  - apply lay_okb_sound. assumption.
Qed.
