From Coq Require Import NArith List Bool Arith Lia.
From MP Require Import Model.Lexer Proofs.LexProofs Model.Cli.
Import ListNotations.
Open Scope N_scope.

Definition plain_line (l : text) : Prop := forall c, In c l -> c <> 10 /\ c <> 13.
Lemma count_lf_plain l : plain_line l -> count_lf l = 0.
Proof. induction l as [|c t IH]; intros H; [reflexivity|]. cbn [count_lf]. destruct (H c (or_introl eq_refl)) as [A _].
  apply N.eqb_neq in A. rewrite A. rewrite IH; [reflexivity|]. intros d Hd. apply H. right. exact Hd. Qed.
Lemma plain_firstn n l : plain_line l -> plain_line (firstn n l).
Proof. intros H c Hc. apply H. revert n Hc. induction l as [|a t IH]; intros [|n] Hc; cbn [firstn] in Hc; try contradiction.
  destruct Hc as [<-|Hc]; [left; reflexivity | right; apply (IH (fun d Hd => H d (or_intror Hd)) n Hc)]. Qed.
Lemma firstn_over {A} (l r : list A) n : (length l < n)%nat -> firstn n (l ++ r) = l ++ firstn (n - length l) r.
Proof. intros H. rewrite firstn_app. rewrite firstn_all2; [reflexivity | lia]. Qed.

(* position p of the joined text lies in line k = number of line feeds before p: the text before p is the k lines before,
   complete, followed by a prefix of line k *)
Lemma position_in_line : forall lines, lines <> [] -> Forall plain_line lines -> forall p,
  let k := N.to_nat (count_lf (firstn p (join_lf lines))) in
  exists pre post, firstn p (join_lf lines) = join_lf (firstn k lines ++ [pre]) /\ nth_error lines k = Some (pre ++ post).
Proof. induction lines as [|l t IH]; [congruence|]. intros _ HF p. inversion HF as [|x y Hl Ht]; subst. destruct t as [|l2 t'].
  - cbn [join_lf]. rewrite (count_lf_plain _ (plain_firstn p l Hl)). cbn [N.to_nat firstn app join_lf nth_error].
    exists (firstn p l), (skipn p l). split; [reflexivity | rewrite firstn_skipn; reflexivity].
  - set (t := l2 :: t') in *. change (join_lf (l :: t)) with (l ++ 10 :: join_lf t).
    destruct (le_lt_dec p (length l)) as [Hp|Hp].
    + rewrite firstn_app. replace (p - length l)%nat with 0%nat by lia. cbn [firstn]. rewrite app_nil_r.
      rewrite (count_lf_plain _ (plain_firstn p l Hl)). cbn [N.to_nat firstn app join_lf nth_error].
      exists (firstn p l), (skipn p l). split; [reflexivity | rewrite firstn_skipn; reflexivity].
    + rewrite (firstn_over l (10 :: join_lf t) p Hp). destruct (p - length l)%nat as [|q] eqn:Q; [lia|]. cbn [firstn].
      rewrite count_lf_app, (count_lf_plain l Hl). cbn [count_lf]. change (10 =? 10) with true. cbv iota.
      destruct (IH ltac:(discriminate) Ht q) as (pre & post & E1 & E2).
      set (k' := N.to_nat (count_lf (firstn q (join_lf t)))) in *.
      replace (N.to_nat (0 + (1 + count_lf (firstn q (join_lf t))))) with (S k') by (unfold k'; lia).
      exists pre, post. split; [|exact E2]. cbn [firstn app]. rewrite E1.
      destruct (firstn k' t ++ [pre]) eqn:EE; [destruct (firstn k' t); discriminate|]. reflexivity.
Qed.

(* what the file becomes: lines without line breaks inside, and a source whose line ends are all LF *)
Lemma translate_no_cr s : forall c, In c (translate s) -> c <> 13.
Proof. assert (G : forall n s, (length s <= n)%nat -> forall c, In c (translate s) -> c <> 13).
  { induction n as [|n IH]; intros [|a t] Hn c Hc; cbn [translate] in Hc; try contradiction; [cbn in Hn; lia|].
    cbn [length] in Hn. destruct (a =? 13) eqn:A.
    - destruct Hc as [<-|Hc]; [discriminate|]. destruct t as [|d t']; [contradiction|]. cbn [length] in Hn. destruct (d =? 10);
      [apply (IH t' ltac:(lia) c Hc) | apply (IH (d :: t') ltac:(cbn [length]; lia) c Hc)].
    - destruct Hc as [<-|Hc]; [apply N.eqb_neq; exact A | apply (IH t ltac:(lia) c Hc)]. }
  apply (G (length s)). lia. Qed.
Lemma split_lf_plain : forall s cur, (forall c, In c s -> c <> 13) -> (forall c, In c cur -> c <> 10 /\ c <> 13) -> Forall plain_line (split_lf cur s).
Proof. induction s as [|a t IH]; intros cur Hs Hc; cbn [split_lf].
  - destruct cur; [constructor|]. constructor; [|constructor]. intros c Hin. apply Hc. apply in_rev. exact Hin.
  - destruct (a =? 10) eqn:A.
    + constructor; [intros c Hin; apply Hc; apply in_rev; exact Hin|]. apply IH; [intros c Hin; apply Hs; right; exact Hin | intros c []].
    + apply IH; [intros c Hin; apply Hs; right; exact Hin|]. intros c [<-|Hin]; [split; [apply N.eqb_neq; exact A | apply Hs; left; reflexivity] | apply Hc; exact Hin]. Qed.
Lemma lines_of_file_plain s : Forall plain_line (lines_of_file s).
Proof. apply split_lf_plain; [apply translate_no_cr | intros c []]. Qed.
Lemma crlfb_no_cr s : (forall c, In c s -> c <> 13) -> crlfb s = true.
Proof. induction s as [|a t IH]; intros H; [reflexivity|]. cbn [crlfb]. destruct (a =? 13) eqn:A; [apply N.eqb_eq in A; exfalso; apply (H a); [left; reflexivity | exact A]|].
  cbn [andb]. apply IH. intros c Hc. apply H. right. exact Hc. Qed.
Lemma join_lf_no_cr ls : Forall plain_line ls -> forall c, In c (join_lf ls) -> c <> 13.
Proof. induction ls as [|l t IH]; intros HF c Hc; [contradiction|]. inversion HF as [|x y Hl Ht]; subst. destruct t as [|l2 t'].
  - apply (Hl c Hc).
  - change (join_lf (l :: l2 :: t')) with (l ++ 10 :: join_lf (l2 :: t')) in Hc. apply in_app_or in Hc as [Hc|[<-|Hc]]; [apply (Hl c Hc) | discriminate | apply (IH Ht c Hc)]. Qed.

(* THE THEOREM: for every command file, every token of the source the tool hands to the parser carries a line number for which
   the tool's context display exists, and the line it marks is the line of the file in which the token starts: the source text
   before the token is exactly the lines before the marked one, complete, plus a prefix of the marked line. *)
Theorem cli_marks_the_token_line file toks : lex_all (source_of_file file) = LexOk toks ->
  Forall (fun t => exists before marked after pre post,
            context (lines_of_file file) (N.to_nat (t_line t)) = Some (before, marked, after) /\ marked = pre ++ post /\
            firstn (t_pos t) (source_of_file file) = join_lf (firstn (N.to_nat (t_line t) - 1) (lines_of_file file) ++ [pre])) toks.
Proof. intros H. unfold source_of_file in *. set (lines := lines_of_file file) in *.
  assert (HP : Forall plain_line lines) by apply lines_of_file_plain.
  assert (C : crlfb (join_lf lines) = true) by (apply crlfb_no_cr, join_lf_no_cr, HP).
  pose proof (token_lines_true _ _ C H) as TL. rewrite Forall_forall in TL |- *. intros t Ht. specialize (TL t Ht). unfold line_ok in TL.
  destruct lines as [|l0 ls] eqn:EL.
  - cbn [join_lf] in H. vm_compute in H. inversion H; subst. contradiction.
  - rewrite <- EL in *. destruct (position_in_line lines ltac:(rewrite EL; discriminate) HP (t_pos t)) as (pre & post & E1 & E2).
    cbv zeta in E1, E2. set (k := N.to_nat (count_lf (firstn (t_pos t) (join_lf lines)))) in *.
    assert (K : (N.to_nat (t_line t) - 1)%nat = k) by (rewrite TL; unfold k; lia).
    unfold context. rewrite K, E2. do 2 eexists. exists (firstn (Nat.min (k + 3) (length lines) - (k + 1)) (skipn (k + 1) lines)), pre, post.
    split; [reflexivity | split; [reflexivity | exact E1]].
Qed.
